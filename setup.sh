#!/bin/sh
# Build the framework from files on disk only (offline).
set -e
cd "$(dirname "$0")"
export CARGO_NET_OFFLINE=true
mkdir -p work cache evidence replays
cp -f /repo/Cargo.lock harness/Cargo.lock
cp -f /repo/rust-toolchain harness/rust-toolchain 2>/dev/null || true
(cd coq && coq_makefile -f _CoqProject -o Makefile >/dev/null && timeout 3000 make -j16 >/dev/null)
(cd ocaml && ocamlfind ocamlopt -w -a model.mli model.ml driver.ml -o driver)
(cd harness && cargo build --offline 2>&1 | tail -2)
echo "setup ok"
