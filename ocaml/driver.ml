(* Line-protocol driver around the extracted model (model.ml).

   driver run  < histories      run histories, print canonical result lines
   driver bfs <depth> <nobj> <nreg> <nslot> <profile>   enumerate small scope

   History line:  <id>|<mode>|op;op;...      mode A = print every op, L = last op only
   An op may carry the choice oracle of its call:  drop 1@3,2,5
   The text formats are shared with /verif/harness/src/main.rs. *)
open Model

let nat_of_int i = let rec go acc i = if i <= 0 then acc else go (S acc) (i - 1) in go O i
let int_of_nat n = let rec go acc = function O -> acc | S n -> go (acc + 1) n in go 0 n
let rec int_of_pos = function
  | XH -> 1 | XO p -> 2 * int_of_pos p | XI p -> 2 * int_of_pos p + 1
let int_of_n = function N0 -> 0 | Npos p -> int_of_pos p

let big_fuel = nat_of_int 2_000_000

(* ---------------------------------------------------------------- parsing *)
exception Parse of string

let parse_oref s =
  if s = "s" then OSelf
  else if String.length s > 1 && s.[0] = 'r' then
    OReg (nat_of_int (int_of_string (String.sub s 1 (String.length s - 1))))
  else raise (Parse ("oref " ^ s))

let parse_href s =
  match String.index_opt s '.' with
  | None -> (match parse_oref s with OReg r -> HReg r | OSelf -> raise (Parse ("href " ^ s)))
  | Some i ->
      let w = parse_oref (String.sub s 0 i) in
      let k = int_of_string (String.sub s (i + 1) (String.length s - i - 1)) in
      HSlot (w, nat_of_int k)

let nat s = nat_of_int (int_of_string s)

let parse_act (s : string) : act =
  match String.split_on_char ' ' (String.trim s) |> List.filter (fun x -> x <> "") with
  | ["new"; d] -> ANew (nat d)
  | ["clone"; h; d] -> AClone (parse_href h, nat d)
  | ["drop"; r] -> ADrop (nat r)
  | ["down"; h; d] -> ADowngrade (parse_href h, nat d)
  | ["up"; w; d] -> AUpgrade (parse_href w, nat d)
  | ["wclone"; w; d] -> ACloneWeak (parse_href w, nat d)
  | ["wnew"; d] -> AWeakNew (nat d)
  | ["store"; src; w; k] -> AStore (nat src, parse_oref w, nat k)
  | ["take"; w; k; d] -> ATake (parse_oref w, nat k, nat d)
  | ["adopt"; a; b] -> AAdopt (parse_href a, parse_href b)
  | ["unadopt"; a; b] -> AUnadopt (parse_href a, parse_href b)
  | ["unwrap"; r; d] -> ATryUnwrap (nat r, nat d)
  | ["getmut"; r] -> AGetMut (nat r)
  | ["makemut"; r] -> AMakeMut (nat r)
  | ["intoraw"; r] -> AIntoRaw (nat r)
  | ["fromraw"; r] -> AFromRaw (nat r)
  | ["incs"; r; d] -> AIncStrong (nat r, nat d)
  | ["decs"; r] -> ADecStrong (nat r)
  | ["ptreq"; a; b] -> APtrEq (parse_href a, parse_href b)
  | ["sc"; h] -> AStrongCount (parse_href h)
  | ["wc"; h] -> AWeakCount (parse_href h)
  | ["wsc"; w] -> AWStrongCount (parse_href w)
  | ["wwc"; w] -> AWWeakCount (parse_href w)
  | ["deref"; h] -> ADeref (parse_href h)
  | ["panic"] -> APanic
  | _ -> raise (Parse ("act " ^ s))

(* op text -> (op, oracle) *)
let parse_op (s : string) : op * oid list =
  let s = String.trim s in
  let s, pri =
    match String.index_opt s '@' with
    | None -> (s, [])
    | Some i ->
        let p = String.sub s (i + 1) (String.length s - i - 1) in
        ( String.sub s 0 i,
          String.split_on_char ',' p |> List.filter (fun x -> x <> "") |> List.map nat )
  in
  let s = String.trim s in
  if String.length s > 5 && String.sub s 0 5 = "news " then begin
    let i = String.index s '[' and j = String.rindex s ']' in
    let d = String.trim (String.sub s 5 (i - 5)) in
    let body = String.sub s (i + 1) (j - i - 1) in
    let acts =
      String.split_on_char ',' body |> List.map String.trim
      |> List.filter (fun x -> x <> "") |> List.map parse_act in
    (ONewS (nat d, acts), pri)
  end else (OAct (parse_act s), pri)

(* --------------------------------------------------------------- printing *)
let str_oref = function OReg r -> "r" ^ string_of_int (int_of_nat r) | OSelf -> "s"
let str_href = function
  | HReg r -> "r" ^ string_of_int (int_of_nat r)
  | HSlot (w, k) -> str_oref w ^ "." ^ string_of_int (int_of_nat k)
let i = fun n -> string_of_int (int_of_nat n)

let str_act = function
  | ANew d -> "new " ^ i d
  | AClone (h, d) -> "clone " ^ str_href h ^ " " ^ i d
  | ADrop r -> "drop " ^ i r
  | ADowngrade (h, d) -> "down " ^ str_href h ^ " " ^ i d
  | AUpgrade (w, d) -> "up " ^ str_href w ^ " " ^ i d
  | ACloneWeak (w, d) -> "wclone " ^ str_href w ^ " " ^ i d
  | AWeakNew d -> "wnew " ^ i d
  | AStore (s, w, k) -> "store " ^ i s ^ " " ^ str_oref w ^ " " ^ i k
  | ATake (w, k, d) -> "take " ^ str_oref w ^ " " ^ i k ^ " " ^ i d
  | AAdopt (a, b) -> "adopt " ^ str_href a ^ " " ^ str_href b
  | AUnadopt (a, b) -> "unadopt " ^ str_href a ^ " " ^ str_href b
  | ATryUnwrap (r, d) -> "unwrap " ^ i r ^ " " ^ i d
  | AGetMut r -> "getmut " ^ i r
  | AMakeMut r -> "makemut " ^ i r
  | AIntoRaw r -> "intoraw " ^ i r
  | AFromRaw r -> "fromraw " ^ i r
  | AIncStrong (r, d) -> "incs " ^ i r ^ " " ^ i d
  | ADecStrong r -> "decs " ^ i r
  | APtrEq (a, b) -> "ptreq " ^ str_href a ^ " " ^ str_href b
  | AStrongCount h -> "sc " ^ str_href h
  | AWeakCount h -> "wc " ^ str_href h
  | AWStrongCount w -> "wsc " ^ str_href w
  | AWWeakCount w -> "wwc " ^ str_href w
  | ADeref h -> "deref " ^ str_href h
  | APanic -> "panic"

let str_op = function
  | OAct a -> str_act a
  | ONewS (d, sc) -> "news " ^ i d ^ " [" ^ String.concat ", " (List.map str_act sc) ^ "]"

let str_scount = function Uninit -> "M" | Cnt n -> string_of_int (int_of_n n)

let str_result = function
  | RUnit -> "unit" | RInvalid -> "inv" | RBool true -> "true" | RBool false -> "false"
  | RNat n -> "n=" ^ string_of_int (int_of_n n)
  | RCnt c -> "n=" ^ str_scount c
  | RNone -> "none" | RSome -> "some" | RErr -> "err"

let str_fk = function
  | FkNoBox -> "nobox" | FkFreed -> "freed" | FkTableMoved -> "tablemoved"
  | FkValueMoved -> "valuemoved" | FkUnderflow -> "underflow" | FkFuel -> "fuel"

let str_halt = function
  | HAbort -> "abort"
  | HFault (k, o) -> "fault #" ^ str_fk k ^ " " ^ i o

let kind_rank = function Fwd -> 0 | Bwd -> 1 | Loop -> 2
let kind_chr = function Fwd -> "F" | Bwd -> "B" | Loop -> "L"

let str_table (t : table) =
  let es = List.map (fun ((o, k), c) -> (int_of_nat o, kind_rank k, kind_chr k, int_of_n c)) t in
  let es = List.sort compare es in
  "{" ^ String.concat "," (List.map (fun (o, _, k, c) -> Printf.sprintf "%d%s%d" o k c) es) ^ "}"

let str_box idx (b : box) =
  if b.freed then Printf.sprintf "%d:f" idx
  else
    Printf.sprintf "%d:s%sw%d%s" idx (str_scount b.strong) (int_of_n b.weak)
      (match b.value with
       | None -> "x"
       | Some _ -> "v" ^ (match b.links with Some t -> str_table t | None -> "{!}"))

let str_snapshot (s : state) =
  String.concat " " (List.mapi str_box s.heap_of)

(* observer sweep over the registers: every count observer and the canary *)
let sweep (s : state) : string =
  let buf = Buffer.create 64 in
  let fault = ref false in
  let obs r a =
    if not !fault then
      match exec_act s None a with
      | AO (_, _, res, _) -> Buffer.add_string buf (str_result res); Buffer.add_char buf '/'
      | AHalt _ -> fault := true
      | APanicOut -> ()
  in
  List.iteri (fun r x ->
      let rn = nat_of_int r in
      match x with
      | RStrong _ ->
          Buffer.add_string buf (Printf.sprintf "r%d:" r);
          obs r (AStrongCount (HReg rn)); obs r (AWeakCount (HReg rn)); obs r (ADeref (HReg rn));
          Buffer.add_char buf ' '
      | RWeak _ ->
          Buffer.add_string buf (Printf.sprintf "r%d:" r);
          obs r (AWStrongCount (HReg rn)); obs r (AWWeakCount (HReg rn));
          Buffer.add_char buf ' '
      | _ -> ()) s.regs;
  if !fault then "fault" else String.trim (Buffer.contents buf)

let events_of (s : state) = List.rev s.log

let str_line idx (s : state) (oc : op_outcome) : string =
  let evs = events_of s in
  let dt = List.filter_map (function EvDtor p -> Some (i p) | _ -> None) evs in
  let rs = List.filter_map (function EvRes r -> Some (str_result r) | _ -> None) evs in
  let tr = List.filter_map (function EvTrace (_, p, v) -> Some (int_of_n p, int_of_n v) | _ -> None) evs in
  let pops = List.fold_left (fun a (p, _) -> a + p) 0 tr
  and visits = List.fold_left (fun a (_, v) -> a + v) 0 tr in
  let out = match oc with
    | ODone r -> "ok:" ^ str_result r
    | OPanicked -> "panic"
    | OHalt h -> str_halt h
    | OFuel -> "fuel" in
  match oc with
  | OHalt _ | OFuel -> Printf.sprintf "%d %s" idx out
  | _ ->
      Printf.sprintf "%d %s D%s R%s T%d/%d/%d S %s O %s" idx out
        (String.concat "," dt) (String.concat "," rs) (List.length tr) pops visits
        (str_snapshot s) (sweep s)

(* allocations the library holds: boxes not released, table storage not dropped *)
let live_blocks (s : state) =
  List.fold_left (fun acc (b : box) ->
      acc + (if b.freed then 0 else 1)
      + (match b.links with Some _ when b.talloc -> 1 | _ -> 0)) 0 s.heap_of

(* ------------------------------------------------------------------- run *)
let clear_log (s : state) = { s with log = [] }
(* the leak events are ghost state of the invariant: keep them across calls *)
let clear_log_keep_leaks (s : state) =
  { s with log = List.filter (function EvLeak _ -> true | _ -> false) s.log }

let run_history_line (line : string) =
  match String.split_on_char '|' line with
  | [id; mode; body] ->
      let ops = String.split_on_char ';' body |> List.map String.trim
                |> List.filter (fun x -> x <> "") in
      let n = List.length ops in
      Printf.printf "H %s\n" id;
      let rec go idx s = function
        | [] -> s
        | o :: rest ->
            let (op, pri) = parse_op o in
            let (s1, oc) = exec_op pri big_fuel (clear_log s) op in
            let last = (idx = n - 1) in
            let stop = (match oc with OHalt _ | OFuel -> true | _ -> false) in
            let printed = mode = "A" || last || stop in
            let text = if printed then str_line idx s1 oc else "" in
            if printed then print_endline text;
            (* a dangling handle in a register: stop, as the harness does *)
            let n = String.length text in
            let stop = stop || (n >= 7 && String.sub text (n - 7) 7 = "O fault") in
            if not stop then go (idx + 1) s1 rest else s1
      in
      let final = go 0 init_state ops in
      Printf.printf "F live=%d\n" (live_blocks final);
      Printf.printf "E %s\n" id
  | _ -> raise (Parse ("history " ^ line))

(* ------------------------------------------------------------ invariant *)
(* step-level run of one history: the executable mirror [invb] of the proved
   invariant is evaluated on every configuration, as long as the per-step
   hypotheses [step_ok] hold *)
let inv_configs = ref 0 and inv_hist = ref 0 and inv_cut = ref 0 and inv_bad = ref 0
let cov : (string, int) Hashtbl.t = Hashtbl.create 64
let hit k = Hashtbl.replace cov k (1 + (try Hashtbl.find cov k with Not_found -> 0))
let act_name a = match String.index_opt (str_act a) ' ' with
  | Some i -> String.sub (str_act a) 0 i | None -> str_act a
let bucket n = if n <= 1 then "1" else if n = 2 then "2" else if n = 3 then "3" else "4+"
(* which branch of the machine a step takes *)
let classify_step (c : config) (out : outcome) =
  let mode = if c.unw then "unw:" else "" in
  match c.stack with
  | [] -> ()
  | f :: _ ->
    (match f, out with
     | FDropStrong _, Running c' ->
         let pushed = List.length c'.stack - (List.length c.stack - 1) in
         (match c'.stack with
          | FInners es :: _ when pushed = 2 -> hit (mode ^ "drop:group-of-" ^ bucket (List.length es))
          | FDtorStart _ :: FAfterValue o :: _ when pushed = 2 ->
              let had = (match List.nth_opt c.st.heap_of (int_of_nat o) with
                         | Some { links = Some (_ :: _); _ } -> true | _ -> false) in
              hit (mode ^ (if had then "drop:last-with-adoptions" else "drop:last-plain"))
          | _ ->
              let traced = List.length c'.st.log > List.length c.st.log in
              if c'.st.heap_of = c.st.heap_of then hit (mode ^ "drop:dead-handle")
              else hit (mode ^ (if traced then "drop:decrement-trace-not-orphaned" else "drop:decrement-no-trace")))
     | FDropStrong _, _ -> hit (mode ^ "drop:halt")
     | FDtorStart _, _ -> hit (mode ^ "frame:dtor-start")
     | FRunDtor (_, []), _ -> hit (mode ^ "frame:script-end")
     | FRunDtor (_, a :: _), Running c' ->
         if c'.unw && not c.unw then hit "script:panic-starts-unwinding"
         else hit (mode ^ "script:" ^ act_name a)
     | FRunDtor (_, a :: _), Halted (_, HAbort) -> hit (mode ^ "script:" ^ act_name a ^ ":abort")
     | FRunDtor (_, a :: _), _ -> hit (mode ^ "script:" ^ act_name a ^ ":halt")
     | FDropSlots [], _ -> hit (mode ^ "frame:slots-done")
     | FDropSlots (SStrong _ :: _), _ -> hit (mode ^ "frame:slot-strong")
     | FDropSlots (SWeak _ :: _), _ -> hit (mode ^ "frame:slot-weak")
     | FDropSlots (SEmpty :: _), _ -> hit (mode ^ "frame:slot-empty")
     | FAfterValue o, Running c' ->
         let fr = (match List.nth_opt c'.st.heap_of (int_of_nat o) with Some b -> b.freed | None -> false) in
         hit (mode ^ (if fr then "frame:after-value-frees" else "frame:after-value-keeps-box"))
     | FAfterValue _, _ -> hit (mode ^ "frame:after-value:halt")
     | FInners [], _ -> hit (mode ^ "frame:inners-done")
     | FInners _, _ -> hit (mode ^ "frame:inners-next")
     | FTableDrop _, _ -> hit (mode ^ "frame:table-drop")
     | FFinishGroup _, _ -> hit (mode ^ "frame:finish-group")
     | FRes _, _ -> hit (mode ^ "frame:result"))

let run_inv_line (line : string) =
  match String.split_on_char '|' line with
  | [id; _mode; body] ->
      let ops = String.split_on_char ';' body |> List.map String.trim
                |> List.filter (fun x -> x <> "") in
      incr inv_hist;
      let check idx n (s : state) k =
        incr inv_configs;
        let v = int_of_nat (invb s k) in
        if v <> 0 then begin
          incr inv_bad;
          Printf.printf "INV %s op=%d step=%d clause=%d\n" id idx n v; false end
        else true in
      let rec steps idx n pri (c : config) : state option =
        if not (check idx n c.st c.stack) then None
        else match c.stack with
          | [] -> if c.unw then Some c.st else Some c.st
          | _ ->
            if not (step_ok c) then (incr inv_cut; Printf.printf "CUT %s %d\n" id idx; None)
            else let out = step pri c in classify_step c out; match out with
              | Running c' -> if n > 200000 then None else steps idx (n + 1) pri c'
              | Finished (s, _) -> Some s
              | Halted (_, h) ->
                  (match h with
                   | HAbort -> ()
                   | HFault _ -> incr inv_bad; Printf.printf "INV %s op=%d step=%d fault=%s\n" id idx n (str_halt h));
                  None in
      let rec go idx s = function
        | [] -> ()
        | o :: rest ->
            let (op, pri) = parse_op o in
            let s = clear_log_keep_leaks s in
            let first = match op with
              | OAct a -> exec_act s None a
              | ONewS (d, sc) -> exec_new s None d sc in
            (match op with OAct a -> hit ("call:" ^ act_name a) | ONewS _ -> hit "call:news");
            (match first with
             | AHalt HAbort -> hit "call:abort" 
             | AHalt h -> incr inv_bad; Printf.printf "INV %s op=%d first fault=%s\n" id idx (str_halt h)
             | APanicOut -> go (idx + 1) s rest
             | AO (s1, _, _, push) ->
                 (match steps idx 0 pri { st = s1; stack = push; unw = false } with
                  | Some s2 -> go (idx + 1) s2 rest
                  | None -> ()))
      in
      if check 0 (-1) init_state [] then go 0 init_state ops
  | _ -> raise (Parse ("history " ^ line))

let run_inv () =
  (try
    while true do
      let line = input_line stdin in
      if String.trim line <> "" && line.[0] <> '#' then run_inv_line line
    done
  with End_of_file -> ());
  Printf.printf "INVSUMMARY histories=%d configs=%d cut_by_hypothesis=%d violations=%d\n"
    !inv_hist !inv_configs !inv_cut !inv_bad;
  Hashtbl.iter (fun k v -> Printf.printf "COV %s %d\n" k v) cov

let run_all () =
  try
    while true do
      let line = input_line stdin in
      if String.trim line <> "" && line.[0] <> '#' then run_history_line line
    done
  with End_of_file -> ()

(* ------------------------------------------------------------------- bfs *)
(* profiles: c = core (new clone drop store take adopt unadopt)
             w = weak ops, a = consuming api *)
let enum_acts (s : state) ~nobj ~nreg ~nslot ~(profile : string) : act list =
  let has c = String.contains profile c in
  let regs = List.init nreg (fun r -> (r, List.nth s.regs r)) in
  let free = List.filter_map (fun (r, x) -> match x with REmpty -> Some r | _ -> None) regs in
  let dst = match free with [] -> None | r :: _ -> Some (nat_of_int r) in
  let strong_regs = List.filter_map (fun (r, x) -> match x with RStrong o -> Some (r, o) | _ -> None) regs in
  let weak_regs = List.filter_map (fun (r, x) -> match x with RWeak _ -> Some r | _ -> None) regs in
  let raw_regs = List.filter_map (fun (r, x) -> match x with RRaw _ -> Some r | _ -> None) regs in
  let loose_regs = List.filter_map (fun (r, x) -> match x with RLoose _ -> Some r | _ -> None) regs in
  (* one register per distinct live owner object, for slot addressing *)
  let owners =
    let seen = Hashtbl.create 8 in
    List.filter_map (fun (r, o) ->
        if Hashtbl.mem seen o then None
        else begin
          Hashtbl.add seen o ();
          match List.nth_opt s.heap_of (int_of_nat o) with
          | Some { value = Some p; freed = false; _ } -> Some (r, p)
          | _ -> None
        end) strong_regs in
  let slot_hrefs kindp =
    List.concat_map (fun (r, p) ->
        List.filteri (fun k _ -> k < nslot) p.slots
        |> List.mapi (fun k sl -> (k, sl))
        |> List.filter_map (fun (k, sl) ->
               if kindp sl then Some (HSlot (OReg (nat_of_int r), nat_of_int k)) else None)) owners in
  let shrefs =
    List.map (fun (r, _) -> HReg (nat_of_int r)) strong_regs
    @ slot_hrefs (function SStrong _ -> true | _ -> false) in
  let whrefs =
    List.map (fun r -> HReg (nat_of_int r)) weak_regs
    @ slot_hrefs (function SWeak _ -> true | _ -> false) in
  let acts = ref [] in
  let add a = acts := a :: !acts in
  let nlive = List.length s.heap_of in
  (match dst with
   | Some d ->
       if nlive < nobj then add (ANew d);
       List.iter (fun h -> add (AClone (h, d))) shrefs;
       if has 'w' then begin
         List.iter (fun h -> add (ADowngrade (h, d))) shrefs;
         List.iter (fun w -> add (AUpgrade (w, d)); add (ACloneWeak (w, d))) whrefs;
         add (AWeakNew d)
       end;
       List.iter (fun (r, p) ->
           List.iteri (fun k sl ->
               if k < nslot && sl <> SEmpty then add (ATake (OReg (nat_of_int r), nat_of_int k, d)))
             p.slots) owners;
       if has 'a' then begin
         List.iter (fun (r, _) -> add (ATryUnwrap (nat_of_int r, d))) strong_regs;
         List.iter (fun r -> add (AIncStrong (nat_of_int r, d))) raw_regs
       end
   | None -> ());
  List.iter (fun (r, _) -> add (ADrop (nat_of_int r))) strong_regs;
  List.iter (fun r -> add (ADrop (nat_of_int r))) weak_regs;
  List.iter (fun r -> add (ADrop (nat_of_int r))) loose_regs;
  (* store: any strong/weak register into the first empty slot of each owner *)
  List.iter (fun (src, x) ->
      match x with
      | RStrong _ | RWeak _ ->
          List.iter (fun (r, p) ->
              let rec first k = function
                | [] -> None
                | SEmpty :: _ when k < nslot -> Some k
                | _ :: t -> first (k + 1) t in
              match first 0 p.slots with
              | Some k -> add (AStore (nat_of_int src, OReg (nat_of_int r), nat_of_int k))
              | None -> ()) owners
      | _ -> ()) regs;
  if not (has 'n') then
    List.iter (fun a -> List.iter (fun b -> add (AAdopt (a, b)); add (AUnadopt (a, b))) shrefs) shrefs;
  if has 'a' then begin
    List.iter (fun (r, _) ->
        let r = nat_of_int r in
        add (AGetMut r); add (AMakeMut r); add (AIntoRaw r)) strong_regs;
    List.iter (fun r -> let r = nat_of_int r in add (AFromRaw r); add (ADecStrong r)) raw_regs
  end;
  List.rev !acts

let bfs depth nobj nreg nslot profile =
  let key (s : state) = Digest.string (Marshal.to_string (s.heap_of, s.regs) [Marshal.No_sharing]) in
  let seen = Hashtbl.create 100_000 in
  let frontier = ref [ (init_state, []) ] in
  Hashtbl.add seen (key init_state) ();
  let nhist = ref 0 and nstates = ref 1 in
  for _d = 1 to depth do
    let next = ref [] in
    List.iter (fun ((s : state), path) ->
        let acts = enum_acts s ~nobj ~nreg ~nslot ~profile in
        List.iter (fun a ->
            let (s1, oc) = exec_op [] big_fuel (clear_log s) (OAct a) in
            match oc with
            | ODone RInvalid -> ()
            | _ ->
                let path1 = str_act a :: path in
                incr nhist;
                Printf.printf "b%d|L|%s\n" !nhist (String.concat ";" (List.rev path1));
                (match oc with
                 | ODone _ ->
                     let k = key s1 in
                     if not (Hashtbl.mem seen k) then begin
                       Hashtbl.add seen k (); incr nstates;
                       next := (clear_log s1, path1) :: !next
                     end
                 | _ -> ())) acts) !frontier;
    frontier := List.rev !next
  done;
  Printf.eprintf "bfs: depth=%d states=%d transitions=%d\n" depth !nstates !nhist


(* ------------------------------------------------------------------- gen *)
(* Structured random histories, generated by walking the model so that almost
   every call is enabled. Every choice comes from one PRNG state.
   profile letters: c core, w weak, a consuming api, s scripts, p panics,
   e elided unadopt, x escaping handles, k c16 (clone of dying peer),
   n no adoption at all (C07), o over-recording allowed, f finish with drops *)
let pick l = List.nth l (Random.int (List.length l))

let script_templates ~(profile : string) ~nreg : act list list =
  let has c = String.contains profile c in
  let d = nat_of_int (nreg + Random.int (8 - nreg)) in   (* scratch register *)
  let k = nat_of_int (Random.int 3) in
  let r = nat_of_int (Random.int nreg) in
  let base = [
    [AUpgrade (HSlot (OSelf, k), d); ADrop d];
    [AWStrongCount (HSlot (OSelf, k)); AWWeakCount (HSlot (OSelf, k))];
    [ADrop r];
    [AClone (HReg r, d); ADrop d];
    [ANew d; ADrop d];
    [ADowngrade (HReg r, d); AUpgrade (HReg d, nat_of_int 7); ADrop d];
    [AStrongCount (HReg r); AWeakCount (HReg r)];
    [AUpgrade (HReg r, d)];
    [AUnadopt (HReg r, HReg (nat_of_int (Random.int nreg)))];
    [APtrEq (HSlot (OSelf, k), HSlot (OSelf, k))];
    [] ] in
  let base = if has 'n' then base else
      [AAdopt (HReg r, HReg (nat_of_int (Random.int nreg)))] :: base in
  let base = if has 'p' then [APanic] :: [ADrop r; APanic] :: [APanic; ADrop r] :: base else base in
  let base = if has 'k' then [AClone (HSlot (OSelf, k), d)] :: [AStrongCount (HSlot (OSelf, k))] :: base else base in
  let base = if has 'x' then [ATake (OSelf, k, d)] :: base else base in
  base

let gen_script ~profile ~nreg : act list =
  let t = script_templates ~profile ~nreg in
  let n = 1 + Random.int 2 in
  List.concat (List.init n (fun _ -> pick t))

type gstate = { mutable s : state; mutable ops : string list; mutable bad : bool }

let gen_history ~(profile : string) ~(len : int) : string =
  let has c = String.contains profile c in
  let g = { s = init_state; ops = []; bad = false } in
  let emit (o : op) =
    if not g.bad then begin
      let (s1, oc) = exec_op [] big_fuel (clear_log g.s) o in
      g.ops <- str_op o :: g.ops;
      (match oc with
       | ODone _ | OPanicked -> g.s <- s1
       | _ -> g.bad <- true)
    end in
  let act a = emit (OAct a) in
  let n = 2 + Random.int 4 in                       (* objects of the shape *)
  let tmp = nat_of_int 7 in
  for i = 0 to n - 1 do
    if has 's' && Random.int 3 = 0 then
      emit (ONewS (nat_of_int i, gen_script ~profile ~nreg:n))
    else act (ANew (nat_of_int i))
  done;
  (* edges of the shape *)
  let edges = ref [] in
  let add_edge i j = edges := (i, j) :: !edges in
  (match Random.int 9 with
   | 0 -> for i = 0 to n - 1 do add_edge i ((i + 1) mod n) done                      (* ring *)
   | 1 -> for i = 0 to n - 1 do add_edge i ((i + 1) mod n) done;                     (* ring + chords *)
          for _ = 1 to 1 + Random.int 2 do add_edge (Random.int n) (Random.int n) done
   | 2 -> let m = min n 4 in                                                          (* clique *)
          for i = 0 to m - 1 do for j = 0 to m - 1 do if i <> j then add_edge i j done done
   | 3 -> for i = 0 to n - 2 do add_edge i (i + 1) done                               (* chain *)
   | 4 -> let m = max 2 (n - 1) in                                                    (* ring with a tail *)
          for i = 0 to m - 1 do add_edge i ((i + 1) mod m) done;
          if n > m then add_edge (Random.int m) (n - 1)
   | 5 -> add_edge 0 1; add_edge 0 1; add_edge 1 0;                                   (* parallel edges *)
          if n > 2 then add_edge 1 2
   | 6 -> add_edge 0 0; if n > 1 then (add_edge 0 1; if Random.bool () then add_edge 1 0)  (* self-adoption via clone *)
   | 7 -> let m = min n 3 in                                                          (* two rings sharing member 0 *)
          for i = 0 to m - 1 do add_edge i ((i + 1) mod m) done;
          if n > 3 then (add_edge 0 3; add_edge 3 0)
   | _ -> for _ = 1 to n + Random.int n do add_edge (Random.int n) (Random.int n) done);   (* random *)
  let slot_used = Array.make n 0 in
  List.iter (fun (i, j) ->
      if slot_used.(i) < 4 then begin
        let k = slot_used.(i) in
        slot_used.(i) <- k + 1;
        let ri = nat_of_int i and rj = nat_of_int j in
        act (AClone (HReg rj, tmp));
        let recorded = (not (has 'n')) && (Random.int 8 <> 0) in
        let before = Random.bool () in
        if recorded && before then act (AAdopt (HReg ri, HReg tmp));
        act (AStore (tmp, OReg ri, nat_of_int k));
        if recorded && not before then
          act (AAdopt (HReg ri, HSlot (OReg ri, nat_of_int k)));
        if has 'o' && Random.int 6 = 0 then act (AAdopt (HReg ri, HReg rj))
      end) (List.rev !edges);
  (* same-handle self adoption now and then *)
  if (not (has 'n')) && Random.int 10 = 0 then begin
    act (AClone (HReg O, tmp)); act (AStore (tmp, OReg O, nat_of_int 3));
    act (AAdopt (HSlot (OReg O, nat_of_int 3), HSlot (OReg O, nat_of_int 3)))
  end;
  (* a node with a detached Clone impl (dangling Weak in the last slot): make_mut on it can
     release the last outside handle of its group *)
  if has 'a' && Random.int 3 = 0 then begin
    let i = Random.int n in
    if slot_used.(i) < 4 then begin
      act (AWeakNew tmp); act (AStore (tmp, OReg (nat_of_int i), nat_of_int 3));
      if Random.bool () then begin
        (* give up the other outside handles so that make_mut's handle is the last one *)
        for j = 0 to n - 1 do if j <> i then act (ADrop (nat_of_int j)) done;
        act (AMakeMut (nat_of_int i))
      end
    end
  end;
  (* weak handles, inside and outside *)
  if has 'w' then
    for _ = 1 to Random.int 4 do
      let i = nat_of_int (Random.int n) in
      act (ADowngrade (HReg i, tmp));
      if Random.bool () then begin
        let o = Random.int n in
        if slot_used.(o) < 4 then begin
          act (AStore (tmp, OReg (nat_of_int o), nat_of_int slot_used.(o)));
          slot_used.(o) <- slot_used.(o) + 1
        end else act (ADrop tmp)
      end else begin
        (* keep it in a high register if one is free *)
        match List.filter (fun r -> r >= n && r < 7) [4;5;6] with
        | [] -> act (ADrop tmp)
        | l -> let d = pick l in
               (match List.nth g.s.regs d with
                | REmpty -> act (ACloneWeak (HReg tmp, nat_of_int d)); act (ADrop tmp)
                | _ -> act (ADrop tmp))
      end
    done;
  (* elided unadopt: take a recorded handle out of its owner *)
  if has 'e' then
    for _ = 1 to 1 + Random.int 2 do
      let i = Random.int n in
      if slot_used.(i) > 0 then begin
        let k = Random.int slot_used.(i) in
        act (ATake (OReg (nat_of_int i), nat_of_int k, tmp));
        (match List.nth g.s.regs 7 with
         | REmpty -> ()
         | _ -> if Random.bool () then act (ADrop tmp)
                else (match List.filter (fun d -> List.nth g.s.regs d = REmpty) [4;5;6] with
                      | [] -> act (ADrop tmp)
                      | d :: _ ->
                          (match List.nth g.s.regs 7 with
                           | RStrong _ -> act (AClone (HReg tmp, nat_of_int d)); act (ADrop tmp)
                           | _ -> act (ADrop tmp))))
      end
    done;
  (* random traffic *)
  let nreg = 8 in
  for _ = 1 to len do
    if not g.bad then begin
      let acts = enum_acts g.s ~nobj:(n + 3) ~nreg ~nslot:4 ~profile in
      let acts = if has 'n' then List.filter (function AAdopt _ | AUnadopt _ -> false | _ -> true) acts else acts in
      (* drops are what exercises the library: weight them up *)
      let drops = List.filter (function ADrop _ | ADecStrong _ -> true | _ -> false) acts in
      let adopts = List.filter (function AAdopt _ | AUnadopt _ -> true | _ -> false) acts in
      let others = List.filter (function ADrop _ | ADecStrong _ | AAdopt _ | AUnadopt _ -> false | _ -> true) acts in
      let choice =
        let r = Random.int 100 in
        if r < 35 && drops <> [] then Some (pick drops)
        else if r < 45 && adopts <> [] then
          (* mostly disciplined: unadopt, or adopt of a slot handle by its owner *)
          let good = List.filter (function
              | AUnadopt _ -> true
              | AAdopt (HReg _, HSlot (OReg _, _)) -> has 'o' || true
              | AAdopt _ -> has 'o'
              | _ -> false) adopts in
          if good <> [] then Some (pick good) else None
        else if others <> [] then Some (pick others)
        else if drops <> [] then Some (pick drops) else None in
      match choice with
      | Some (AAdopt (HReg r, HSlot (OReg r', k))) when not (has 'o') ->
          (* only record a handle in its own owner *)
          (match List.nth g.s.regs (int_of_nat r), List.nth g.s.regs (int_of_nat r') with
           | RStrong a, RStrong b when a = b -> act (AAdopt (HReg r, HSlot (OReg r', k)))
           | _ -> ())
      | Some a -> act a
      | None -> ()
    end
  done;
  if has 'f' then
    for r = 0 to 7 do
      match List.nth g.s.regs r with
      | RStrong _ | RWeak _ | RLoose _ -> act (ADrop (nat_of_int r))
      | RRaw _ -> act (ADecStrong (nat_of_int r))
      | REmpty -> ()
    done;
  String.concat ";" (List.rev g.ops)

let gen seed count profile len =
  Random.init seed;
  for i = 1 to count do
    Printf.printf "g%d_%d|A|%s\n" seed i (gen_history ~profile ~len)
  done


(* ---------------------------------------------------------------- shapes *)
(* Exhaustive small scope over GRAPH SHAPES (the bfs mode is exhaustive over
   short histories, hence tiny graphs): every fully recorded adoption graph on
   [n] objects with at most [maxe] distinct edges (self edges included, one edge
   optionally doubled), Weak handles to the first three objects, and then the
   outside handles dropped in [orders] different orders; in variant B the first
   object dropped has a second outside handle, so the first drop is a non-final
   one on an object that stays held. *)
let shapes n maxe orders =
  let pairs = List.concat (List.init n (fun i -> List.init n (fun j -> (i, j)))) in
  let rec combos k l = if k = 0 then [[]] else match l with
    | [] -> []
    | x :: t -> List.map (fun c -> x :: c) (combos (k - 1) t) @ combos k t in
  let perms =
    let rec ins x = function [] -> [[x]] | y :: t as l -> (x :: l) :: List.map (fun r -> y :: r) (ins x t) in
    let rec all = function [] -> [[]] | x :: t -> List.concat_map (ins x) (all t) in
    all (List.init n (fun i -> i)) in
  let perms = List.filteri (fun i _ -> i < orders) (
      (* rotations first, then the rest *)
      let rot k = List.init n (fun i -> (i + k) mod n) in
      let rots = List.init n rot in
      rots @ List.filter (fun p -> not (List.mem p rots)) perms) in
  let count = ref 0 in
  let emit edges =
    let outdeg = Array.make n 0 in
    List.iter (fun (i, _) -> outdeg.(i) <- outdeg.(i) + 1) edges;
    if Array.for_all (fun d -> d <= 4) outdeg then begin
      let build = Buffer.create 256 in
      for i = 0 to n - 1 do Buffer.add_string build (Printf.sprintf "new %d;" i) done;
      let used = Array.make n 0 in
      List.iter (fun (i, j) ->
          let k = used.(i) in used.(i) <- k + 1;
          Buffer.add_string build (Printf.sprintf "clone r%d 7;adopt r%d r7;store 7 r%d %d;" j i i k)) edges;
      for i = 0 to (min n 3) - 1 do Buffer.add_string build (Printf.sprintf "down r%d %d;" i (4 + i)) done;
      List.iteri (fun oi order ->
          List.iter (fun variant ->
              incr count;
              let b = Buffer.create 256 in
              Buffer.add_buffer b build;
              (if variant = 1 then Buffer.add_string b (Printf.sprintf "clone r%d 7;" (List.hd order)));
              List.iter (fun i -> if i < 4 then Buffer.add_string b (Printf.sprintf "drop %d;" i)) order;
              (if variant = 1 then Buffer.add_string b "drop 7;");
              for i = 0 to (min n 3) - 1 do Buffer.add_string b (Printf.sprintf "drop %d;" (4 + i)) done;
              Printf.printf "s%d_%d_%d|A|%s\n" !count oi variant (Buffer.contents b)) [0; 1]) perms
    end in
  for k = 0 to maxe do
    List.iter (fun c ->
        emit c;
        (* one edge doubled *)
        if k < maxe then List.iter (fun e -> emit (c @ [e])) c) (combos k pairs)
  done

let () =
  match Array.to_list Sys.argv with
  | [_; "run"] -> run_all ()
  | [_; "inv"] -> run_inv ()
  | [_; "bfs"; d; nobj; nreg; nslot; profile] ->
      bfs (int_of_string d) (int_of_string nobj) (int_of_string nreg) (int_of_string nslot) profile
  | [_; "shapes"; n; maxe; orders] -> shapes (int_of_string n) (int_of_string maxe) (int_of_string orders)
  | [_; "gen"; seed; count; profile; len] ->
      gen (int_of_string seed) (int_of_string count) profile (int_of_string len)
  | _ -> prerr_endline "usage: driver run | driver bfs <depth> <nobj> <nreg> <nslot> <profile>"; exit 2
