//! Correspondence and oracle harness: interprets the history language of
//! /verif/coq/Model/Base.v over the real `cactusref::{Rc, Weak}` (built from
//! /repo with `--cfg cactusref_verif`) and prints the canonical lines that
//! /verif/ocaml/driver.ml prints for the model, plus (after ` ## `) figures
//! and oracle verdicts that only the implementation side can produce.
#![allow(static_mut_refs)]
#![allow(dead_code)]
#![allow(clippy::missing_safety_doc)]

use std::alloc::{GlobalAlloc, Layout, System};



// ------------------------------------------------------------------ allocator
struct Alloc;
static mut IN_OP: bool = false;
static mut QUARANTINE: bool = true;
static mut OP_ALLOCS: u64 = 0;
static mut LIVE_BLOCKS: i64 = 0;
fn no_note(_: usize) {}
static mut NOTE_FREE: fn(usize) = no_note;

unsafe impl GlobalAlloc for Alloc {
    unsafe fn alloc(&self, l: Layout) -> *mut u8 {
        if IN_OP {
            OP_ALLOCS += 1;
            LIVE_BLOCKS += 1;
        }
        System.alloc(l)
    }
    unsafe fn dealloc(&self, p: *mut u8, l: Layout) {
        (NOTE_FREE)(p as usize);
        if IN_OP {
            LIVE_BLOCKS -= 1;
            if QUARANTINE {
                // never reuse memory released during a history: a stale read by
                // the library is then observed by the shadow state, not a crash
                return;
            }
        }
        System.dealloc(p, l)
    }
}
#[global_allocator]
static A: Alloc = Alloc;


mod cactus {
    pub use cactusref::{Rc, Weak};
    pub mod shim {
        use cactusref::{Adopt, Rc};
        pub use cactusref::verif::{ACCESS, GROUP, LINKS, LINKS_MOVED, TRACE_POP, TRACE_START, TRACE_VISIT, VALUE_MOVED};
        pub const IS_STD: bool = false;
        pub unsafe fn adopt<T>(a: &Rc<T>, b: &Rc<T>) {
            Rc::adopt_unchecked(a, b)
        }
        pub unsafe fn unadopt<T>(a: &Rc<T>, b: &Rc<T>) {
            Rc::unadopt(a, b)
        }
        pub unsafe fn box_addr<T>(p: *const T) -> usize {
            Rc::__verif_box_addr(p)
        }
        pub unsafe fn counts<T>(p: *const T) -> (usize, usize) {
            Rc::__verif_counts(p)
        }
        pub unsafe fn links<T>(p: *const T, out: &mut Vec<(*const T, u8, usize)>) {
            Rc::__verif_links(p, out)
        }
        pub fn install(h: fn(u8, usize)) {
            cactusref::verif::set_hook(h)
        }
    }
    include!("interp.rs");
}

mod stdrc {
    pub use std::rc::{Rc, Weak};
    pub mod shim {
        use std::rc::Rc;
        pub const ACCESS: u8 = 0;
        pub const LINKS: u8 = 1;
        pub const VALUE_MOVED: u8 = 2;
        pub const LINKS_MOVED: u8 = 3;
        pub const TRACE_START: u8 = 4;
        pub const TRACE_POP: u8 = 5;
        pub const TRACE_VISIT: u8 = 6;
        pub const GROUP: u8 = 7;
        pub const IS_STD: bool = true;
        pub unsafe fn adopt<T>(_a: &Rc<T>, _b: &Rc<T>) {}
        pub unsafe fn unadopt<T>(_a: &Rc<T>, _b: &Rc<T>) {}
        // std's RcBox is repr(C) { strong, weak, value } (value align 8 here)
        pub unsafe fn box_addr<T>(p: *const T) -> usize {
            p as usize - 16
        }
        pub unsafe fn counts<T>(p: *const T) -> (usize, usize) {
            let b = (p as usize - 16) as *const usize;
            (*b, *b.add(1))
        }
        pub unsafe fn links<T>(_p: *const T, _out: &mut Vec<(*const T, u8, usize)>) {}
        pub fn install(_h: fn(u8, usize)) {}
    }
    include!("interp.rs");
}
mod rawadopt;

fn main() {
    let args: Vec<String> = std::env::args().collect();
    std::panic::set_hook(Box::new(|_| {}));
    let mode = args.get(1).map(|s| s.as_str()).unwrap_or("run");
    match mode {
        "run" => cactus::run_main(&args),
        "std" => stdrc::run_main(&args),
        "ring" => cactus::ring_main(&args),
        "tree" => cactus::tree_main(&args),
        "fan" => cactus::fan_main(&args),
        "rawadopt" => {
            // C12: the raw-pointer API on adopted objects, for payloads of several alignments
            let got = rawadopt::run();
            let mut want = Vec::new();
            for n in ["zst", "u8", "u64", "u128", "align16", "align64", "u16x5"] {
                want.extend(rawadopt::expected(n));
            }
            let mut bad = 0;
            for (i, w) in want.iter().enumerate() {
                let g = got.get(i).map(|s| s.as_str()).unwrap_or("<missing>");
                if g != w {
                    bad += 1;
                    println!("RAWDIFF got=[{}] want=[{}]", g, w);
                }
            }
            println!("RAWADOPT lines={} differences={}", got.len(), bad);
        }
        "glue" => {
            // the delegating API surface on cactusref and on std::rc, side by side
            let a = cactus::glue();
            let b = stdrc::glue();
            let mut bad = 0;
            for (i, (x, y)) in a.iter().zip(b.iter()).enumerate() {
                if x != y {
                    bad += 1;
                    println!("GLUEDIFF {} cactusref=[{}] std=[{}]", i, x, y);
                }
            }
            if a.len() != b.len() {
                bad += 1;
                println!("GLUEDIFF len cactusref={} std={}", a.len(), b.len());
            }
            println!("GLUE lines={} differences={}", a.len(), bad);
        }
        _ => {
            eprintln!("usage: crharness run|std [skip] [pad] [noquarantine] | ring <n> [chords] [stack]");
            std::process::exit(2);
        }
    }
}
