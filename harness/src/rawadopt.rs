//! C12 on payload types the history harness does not have: the handle-consuming raw-pointer API on
//! objects that take part in adoptions, for payloads of several alignments and sizes (zero-sized,
//! byte, word, 16, 64). Two nodes adopt each other; one handle goes through into_raw / from_raw /
//! increment_strong_count / decrement_strong_count and a Weak through into_raw / from_raw; identity and
//! counts must be what the calls imply at every step, and dropping the outside handles must collect the
//! pair (both destructors, Weak dead). Prints one line per step: "rawadopt <payload> <step>: <values>".
use cactusref::{Adopt, Rc, Weak};
use std::cell::{Cell, RefCell};

struct Node<P> {
    _pad: P,
    next: RefCell<Option<Rc<Node<P>>>>,
    drops: std::rc::Rc<Cell<usize>>,
}

impl<P> Drop for Node<P> {
    fn drop(&mut self) {
        self.drops.set(self.drops.get() + 1);
    }
}

fn scenario<P: Default>(name: &str, out: &mut Vec<String>) {
    let drops = std::rc::Rc::new(Cell::new(0usize));
    let mk = || Rc::new(Node { _pad: P::default(), next: RefCell::new(None), drops: drops.clone() });
    let (a, b) = (mk(), mk());
    unsafe {
        let hb = Rc::clone(&b);
        Rc::adopt_unchecked(&a, &hb);
        *a.next.borrow_mut() = Some(hb);
        let ha = Rc::clone(&a);
        Rc::adopt_unchecked(&b, &ha);
        *b.next.borrow_mut() = Some(ha);
    }
    let wa = Rc::downgrade(&a);
    out.push(format!("rawadopt {name} built: {} {} {} aligned={}", Rc::strong_count(&a), Rc::strong_count(&b),
        Rc::weak_count(&a), (Rc::as_ptr(&a) as usize) % std::mem::align_of::<Node<P>>() == 0));
    // strong handle through the raw API
    let extra = Rc::clone(&a);
    let p = Rc::into_raw(extra);
    out.push(format!("rawadopt {name} into_raw: {} {}", Rc::strong_count(&a), p == Rc::as_ptr(&a)));
    unsafe {
        Rc::increment_strong_count(p);
        out.push(format!("rawadopt {name} inc: {}", Rc::strong_count(&a)));
        Rc::decrement_strong_count(p);
        out.push(format!("rawadopt {name} dec: {} drops={}", Rc::strong_count(&a), drops.get()));
        let back = Rc::from_raw(p);
        out.push(format!("rawadopt {name} from_raw: {} {} {}", Rc::strong_count(&a), Rc::ptr_eq(&back, &a),
            Rc::as_ptr(&back) == p));
        drop(back);
    }
    out.push(format!("rawadopt {name} dropped: {} {} drops={}", Rc::strong_count(&a), Rc::strong_count(&b), drops.get()));
    // Weak through the raw API
    let wp = wa.clone().into_raw();
    let wback = unsafe { Weak::from_raw(wp) };
    out.push(format!("rawadopt {name} weak: {} {} {} {}", wp == Rc::as_ptr(&a), wback.ptr_eq(&wa), Rc::weak_count(&a),
        wback.upgrade().map(|r| Rc::ptr_eq(&r, &a)).unwrap_or(false)));
    drop(wback);
    // get_mut must refuse (shared), try_unwrap must refuse
    let mut a2 = Rc::clone(&a);
    out.push(format!("rawadopt {name} get_mut: {}", Rc::get_mut(&mut a2).is_none()));
    out.push(format!("rawadopt {name} try_unwrap: {}", Rc::try_unwrap(a2).is_err()));
    // release the outside handles: the pair must be collected by the second drop
    drop(b);
    out.push(format!("rawadopt {name} drop b: {} drops={}", Rc::strong_count(&a), drops.get()));
    drop(a);
    out.push(format!("rawadopt {name} drop a: drops={} upgrade={} wsc={} wwc={}", drops.get(), wa.upgrade().is_some(),
        wa.strong_count(), wa.weak_count()));
}

#[derive(Default)]
#[repr(align(16))]
struct A16(u8);
#[derive(Default)]
#[repr(align(64))]
struct A64([u8; 3]);

pub fn run() -> Vec<String> {
    let mut out = Vec::new();
    scenario::<()>("zst", &mut out);
    scenario::<u8>("u8", &mut out);
    scenario::<u64>("u64", &mut out);
    scenario::<u128>("u128", &mut out);
    scenario::<A16>("align16", &mut out);
    scenario::<A64>("align64", &mut out);
    scenario::<[u16; 5]>("u16x5", &mut out);
    out
}

/// what every payload type must print (the values do not depend on the payload)
pub fn expected(name: &str) -> Vec<String> {
    vec![
        format!("rawadopt {name} built: 2 2 1 aligned=true"),
        format!("rawadopt {name} into_raw: 3 true"),
        format!("rawadopt {name} inc: 4"),
        format!("rawadopt {name} dec: 3 drops=0"),
        format!("rawadopt {name} from_raw: 3 true true"),
        format!("rawadopt {name} dropped: 2 2 drops=0"),
        format!("rawadopt {name} weak: true true 2 true"),
        format!("rawadopt {name} get_mut: true"),
        format!("rawadopt {name} try_unwrap: true"),
        format!("rawadopt {name} drop b: 2 drops=0"),
        format!("rawadopt {name} drop a: drops=2 upgrade=false wsc=0 wwc=0"),
    ]
}
