// Included twice by main.rs: once over cactusref (module `cactus`), once over
// std::rc (module `stdrc`). Everything library-specific goes through `shim`.
use std::cell::UnsafeCell;
use std::fmt::Write as _;
use std::io::{BufRead, Write};
use std::panic::{catch_unwind, resume_unwind, AssertUnwindSafe};

pub const K: usize = 4;
pub const NREGS: usize = 8;
const POISON: u32 = 0xDEAD_BEEF;
const NO_SCRIPT: u32 = u32::MAX;

// --------------------------------------------------------------- shadow state
const VALUE_GONE: u8 = 1;
const LINKS_GONE: u8 = 2;
const FREED: u8 = 4;

struct Shadow {
    addr: usize,          // RcBox address
    vptr: *const Node,    // value pointer (what Rc::as_ptr returns)
    id: u32,
    flags: u8,
}

#[derive(Clone, Copy, PartialEq, Eq, Debug)]
pub enum Res {
    Unit,
    Inv,
    Bool(bool),
    Nat(u64),
    Max,
    None_,
    Some_,
    Err_,
}

fn res_str(r: Res, out: &mut String) {
    match r {
        Res::Unit => out.push_str("unit"),
        Res::Inv => out.push_str("inv"),
        Res::Bool(true) => out.push_str("true"),
        Res::Bool(false) => out.push_str("false"),
        Res::Nat(n) => {
            let _ = write!(out, "n={}", n);
        }
        Res::Max => out.push_str("n=M"),
        Res::None_ => out.push_str("none"),
        Res::Some_ => out.push_str("some"),
        Res::Err_ => out.push_str("err"),
    }
}

// ---------------------------------------------------------------- the program
#[derive(Clone, Copy, Debug, PartialEq, Eq)]
pub enum ORef {
    Reg(usize),
    Slf,
}
#[derive(Clone, Copy, Debug, PartialEq, Eq)]
pub enum HRef {
    Reg(usize),
    Slot(ORef, usize),
}
#[derive(Clone, Debug)]
pub enum Act {
    New(usize),
    NewS(usize, u32),
    Clone(HRef, usize),
    Drop(usize),
    Down(HRef, usize),
    Up(HRef, usize),
    WClone(HRef, usize),
    WNew(usize),
    Store(usize, ORef, usize),
    Take(ORef, usize, usize),
    Adopt(HRef, HRef),
    Unadopt(HRef, HRef),
    Unwrap(usize, usize),
    GetMut(usize),
    MakeMut(usize),
    IntoRaw(usize),
    FromRaw(usize),
    IncS(usize, usize),
    DecS(usize),
    PtrEq(HRef, HRef),
    Sc(HRef),
    Wc(HRef),
    Wsc(HRef),
    Wwc(HRef),
    Deref(HRef),
    Panic,
}

enum Slot {
    Empty,
    Strong(Rc<Node>, u32),
    Weak(Weak<Node>, i64),
}

enum Reg {
    Empty,
    Strong(Rc<Node>, u32),
    Weak(Weak<Node>, i64),
    Raw(*const Node, u32),
    Loose(Node),
}

pub struct Node {
    id: u32,
    script: u32,
    slots: UnsafeCell<[Slot; K]>,
}

fn empty_slots() -> [Slot; K] {
    [Slot::Empty, Slot::Empty, Slot::Empty, Slot::Empty]
}

struct World {
    regs: [Reg; NREGS],
    scripts: Vec<Vec<Act>>,
    shadow: Vec<Shadow>,
    alive: Vec<bool>,
    next_id: u32,
    dtor_log: Vec<u32>,
    script_res: Vec<Res>,
    fault: Option<(&'static str, i64)>,
    oracle: Option<String>,
    oracle_also: Vec<String>,
    traces: u32,
    pops: u32,
    visits: u32,
    dtor_depth: u32,
    sp_base: usize,
    sp_min: usize,
    // adoption ledger: (owner, target) -> recorded count, from the calls alone
    ledger: Vec<(u32, u32, u64)>,
    loops: Vec<(u32, u64)>,
    disciplined: bool,
    overrec_ever: bool,
    trace_overrec: bool,
    d4: bool,
    groups: u32,
    group_in_op: bool,
    dtor_live: u32,
    escaped: bool,
    pad: usize,
    links_buf: Vec<(*const Node, u8, usize)>,
    in_sweep: bool,
    // measurement runs (ring): skip the oracles whose cost is linear per destructor
    fast: bool,
    // alternative API routes for the same model action (histories whose id starts with "rt_"): 0 = off
    route: u64,
    cur_idx: usize,
}

static mut W: Option<World> = None;

fn w() -> &'static mut World {
    unsafe { W.as_mut().unwrap() }
}

struct PanicMarker;

fn set_fault(kind: &'static str, id: i64) {
    let w = w();
    if w.fault.is_none() {
        w.fault = Some((kind, id));
    }
}

fn set_oracle(msg: String) {
    let w = w();
    if w.oracle.is_none() {
        w.oracle = Some(msg);
    } else if w.oracle_also.len() < 4
        && w.oracle.as_deref().map(|o| o.split(':').next() != msg.split(':').next()).unwrap_or(false)
        && !w.oracle_also.iter().any(|o| o.split(':').next() == msg.split(':').next())
    {
        // a verdict about ANOTHER property in the same call must not be masked by the first one
        w.oracle_also.push(msg);
    }
}

fn shadow_of(addr: usize) -> Option<&'static mut Shadow> {
    let w = unsafe { W.as_mut()? };
    w.shadow.iter_mut().rev().find(|s| s.addr == addr)
}

fn note_free(addr: usize) {
    unsafe {
        if W.is_none() {
            return;
        }
    }
    if let Some(s) = shadow_of(addr) {
        if s.flags & FREED != 0 {
            let id = s.id as i64;
            set_fault("doublefree", id);
        }
        s.flags |= FREED;
    }
}

fn hook(ev: u8, addr: usize) {
    use shim::*;
    let w = w();
    match ev {
        TRACE_START => {
            w.traces += 1;
            // C14: a trace may only start at an object with recorded adoptions
            if let Some(s) = shadow_of(addr) {
                if s.flags == 0 {
                    let vptr = s.vptr;
                    let id = s.id;
                    w.links_buf.clear();
                    unsafe { shim::links(vptr, &mut w.links_buf) };
                    if w.links_buf.is_empty() {
                        set_oracle(format!("C14:trace-from-unadopted:{}", id));
                    }
                }
            }
        }
        TRACE_POP => w.pops += 1,
        TRACE_VISIT => {
            w.visits += 1;
            // known-finding class D4: a traced object has recorded more
            // adoptions of a target than its value holds handles to it
            if let Some(s) = shadow_of(addr) {
                let a = s.id;
                let over = w.ledger.iter().any(|e| {
                    e.0 == a && w.alive[e.1 as usize] && e.2 > unsafe { held(a, e.1) }
                });
                if over {
                    w.trace_overrec = true;
                }
            }
        }
        GROUP => {
            w.groups += 1;
            w.group_in_op = true;
            if w.trace_overrec {
                w.d4 = true;
            }
            return;
        }
        _ => {}
    }
    if ev == TRACE_START {
        w.trace_overrec = false;
    }
    if let Some(s) = shadow_of(addr) {
        let id = s.id as i64;
        match ev {
            ACCESS | TRACE_VISIT => {
                if s.flags & FREED != 0 {
                    set_fault("freed", id);
                }
            }
            LINKS => {
                if s.flags & FREED != 0 {
                    set_fault("freed", id);
                } else if s.flags & LINKS_GONE != 0 {
                    set_fault("tablemoved", id);
                }
            }
            VALUE_MOVED => {
                if s.flags & (FREED | VALUE_GONE) != 0 {
                    set_fault("valuemoved", id);
                }
                s.flags |= VALUE_GONE;
            }
            LINKS_MOVED => {
                if s.flags & (FREED | LINKS_GONE) != 0 {
                    set_fault("tablemoved", id);
                }
                s.flags |= LINKS_GONE;
            }
            _ => {}
        }
    }
}

impl Drop for Node {
    fn drop(&mut self) {
        let marker = 0u8;
        let sp = &marker as *const u8 as usize;
        let w = w();
        if sp < w.sp_min {
            w.sp_min = sp;
        }
        let id = self.id;
        self.id = POISON;
        if id == POISON {
            set_oracle("C02:double-dtor:?".to_string());
            return;
        }
        if (id as usize) < w.alive.len() {
            // a loose value (try_unwrap) is not alive as an object any more
            w.alive[id as usize] = false;
        }
        if !w.fast && w.dtor_log.contains(&id) {
            set_oracle(format!("C02:double-dtor:{}", id));
        }
        w.dtor_log.push(id);
        // destructors in progress (script phase or field phase), scripted or not
        w.dtor_live += 1;
        struct Live;
        impl Drop for Live {
            fn drop(&mut self) {
                self::w().dtor_live -= 1;
            }
        }
        let _l = Live;
        if self.script != NO_SCRIPT {
            w.dtor_depth += 1;
            struct Depth;
            impl Drop for Depth {
                fn drop(&mut self) {
                    self::w().dtor_depth -= 1;
                }
            }
            let _d = Depth;
            let acts: *const Vec<Act> = &w.scripts[self.script as usize];
            let me = self as *mut Node;
            for a in unsafe { (*acts).iter() } {
                let r = unsafe { exec_act(a, Some(me)) };
                w.script_res.push(r);
            }
            // the field drop glue that follows is library drop logic again
            unsafe { check_discipline() };
        }
        // the fields, in declaration order, exactly as the compiler's glue would drop them after this
        // function returns -- done by hand so that the harness regains control after each nested
        // `Rc::drop` (C03 for a drop made by a destructor). A panic in the script skips this block and
        // the glue drops the slots, as before.
        let me = self as *mut Node;
        for k in 0..K {
            let sl = std::mem::replace(unsafe { &mut (*self.slots.get())[k] }, Slot::Empty);
            let tgt = match &sl {
                Slot::Strong(_, t) => Some(*t),
                _ => None,
            };
            drop(sl);
            if let Some(x) = tgt {
                let w_ = self::w();
                if w_.dtor_live == 1 && !w_.group_in_op && w_.disciplined && w_.fault.is_none() {
                    unsafe {
                        let was = crate::IN_OP;
                        crate::IN_OP = false;
                        c03_after_drop(x, Some(me));
                        crate::IN_OP = was;
                    }
                }
            }
        }
    }
}

impl Clone for Node {
    fn clone(&self) -> Node {
        let w = w();
        let id = w.next_id;
        w.next_id += 1;
        w.alive.push(true);
        let src = unsafe { &*self.slots.get() };
        let mut slots = empty_slots();
        // `Clone for Node`: a node whose last slot holds a dangling Weak
        // (`Weak::new()`) clones to a detached node; every other node clones
        // all its handles (Model/Machine.v: `cloned_slots`)
        let detached = matches!(&src[K - 1], Slot::Weak(_, -1));
        for k in 0..(if detached { 0 } else { K }) {
            slots[k] = match &src[k] {
                Slot::Empty => Slot::Empty,
                Slot::Strong(rc, i) => Slot::Strong(Rc::clone(rc), *i),
                Slot::Weak(wk, i) => Slot::Weak(wk.clone(), *i),
            };
        }
        Node { id, script: NO_SCRIPT, slots: UnsafeCell::new(slots) }
    }
}

unsafe fn reg(r: usize) -> *mut Reg {
    std::ptr::addr_of_mut!(w().regs[r])
}

unsafe fn reg_free(r: usize) -> bool {
    r < NREGS && matches!(*reg(r), Reg::Empty)
}

unsafe fn owner_node(o: ORef, me: Option<*mut Node>) -> Option<*mut Node> {
    match o {
        ORef::Slf => me,
        ORef::Reg(r) => {
            if r >= NREGS {
                return None;
            }
            match &*reg(r) {
                Reg::Strong(rc, id) if w().alive.get(*id as usize).copied().unwrap_or(false) => {
                    Some(Rc::as_ptr(rc) as *mut Node)
                }
                _ => None,
            }
        }
    }
}

unsafe fn slot_ptr(o: ORef, k: usize, me: Option<*mut Node>) -> Option<*mut Slot> {
    if k >= K {
        return None;
    }
    let n = owner_node(o, me)?;
    Some(std::ptr::addr_of_mut!((*(*n).slots.get())[k]))
}

unsafe fn strong_href(h: HRef, me: Option<*mut Node>) -> Option<(*const Rc<Node>, u32)> {
    match h {
        HRef::Reg(r) => {
            if r >= NREGS {
                return None;
            }
            match &*reg(r) {
                Reg::Strong(rc, id) => Some((rc as *const _, *id)),
                _ => None,
            }
        }
        HRef::Slot(o, k) => match &*slot_ptr(o, k, me)? {
            Slot::Strong(rc, id) => Some((rc as *const _, *id)),
            _ => None,
        },
    }
}

unsafe fn weak_href(h: HRef, me: Option<*mut Node>) -> Option<(*const Weak<Node>, i64)> {
    match h {
        HRef::Reg(r) => {
            if r >= NREGS {
                return None;
            }
            match &*reg(r) {
                Reg::Weak(wk, id) => Some((wk as *const _, *id)),
                _ => None,
            }
        }
        HRef::Slot(o, k) => match &*slot_ptr(o, k, me)? {
            Slot::Weak(wk, id) => Some((wk as *const _, *id)),
            _ => None,
        },
    }
}

unsafe fn register_box(rc: &Rc<Node>, id: u32) {
    let vptr = Rc::as_ptr(rc);
    let addr = shim::box_addr(vptr);
    w().shadow.push(Shadow { addr, vptr, id, flags: 0 });
}

fn ledger_add(a: u32, b: u32) {
    let w = w();
    if let Some(e) = w.ledger.iter_mut().find(|e| e.0 == a && e.1 == b) {
        e.2 += 1;
    } else {
        w.ledger.push((a, b, 1));
    }
}
fn ledger_sub(a: u32, b: u32) {
    let w = w();
    if let Some(i) = w.ledger.iter().position(|e| e.0 == a && e.1 == b) {
        if w.ledger[i].2 > 1 {
            w.ledger[i].2 -= 1;
        } else {
            w.ledger.remove(i);
        }
    }
}
fn loops_add(a: u32) {
    let w = w();
    if let Some(e) = w.loops.iter_mut().find(|e| e.0 == a) {
        e.1 += 1;
    } else {
        w.loops.push((a, 1));
    }
}
fn loops_sub(a: u32) {
    let w = w();
    if let Some(i) = w.loops.iter().position(|e| e.0 == a) {
        if w.loops[i].1 > 1 {
            w.loops[i].1 -= 1;
        } else {
            w.loops.remove(i);
        }
    }
}
fn ledger_forget(o: u32) {
    let w = w();
    w.ledger.retain(|e| e.0 != o && e.1 != o);
    w.loops.retain(|e| e.0 != o);
}

/// handles to `b` held in the value of the alive object `a`
unsafe fn held(a: u32, b: u32) -> u64 {
    let w = w();
    let mut n = 0;
    if let Some(s) = w.shadow.iter().rev().find(|s| s.id == a) {
        if s.flags & VALUE_GONE != 0 {
            // the value has been moved out of the box by a teardown that is under way: the storage the
            // pointer names is uninitialised (reading it is undefined behaviour, found by Miri); the
            // object is being destroyed and its records go with it, so it cannot be over-recorded
            return u64::MAX;
        }
        if w.alive[a as usize] {
            for sl in (*(*s.vptr).slots.get()).iter() {
                if let Slot::Strong(_, t) = sl {
                    if *t == b {
                        n += 1;
                    }
                }
            }
        }
    }
    n
}

/// C01's precondition, evaluated when library drop logic is about to start
unsafe fn check_discipline() {
    let w = w();
    for &(a, b, c) in w.ledger.iter() {
        if w.alive[a as usize] && w.alive[b as usize] && c > held(a, b) {
            w.disciplined = false;
            w.overrec_ever = true;
        }
    }
}

/// which of `n` equivalent API routes implements the next model action (0 = the canonical one)
fn route(n: u64) -> u64 {
    let w = w();
    if w.route == 0 {
        return 0;
    }
    w.route = w.route.wrapping_mul(6364136223846793005).wrapping_add(1442695040888963407) | 1;
    (w.route >> 33) % n
}

/// `Rc::new` and the constructors documented as equivalent to it
unsafe fn make_rc(node: Node) -> Rc<Node> {
    match route(5) {
        0 => Rc::new(node),
        1 => Rc::from(Box::new(node)),
        2 => {
            let mut u = Rc::<Node>::new_uninit();
            Rc::get_mut(&mut u).unwrap().as_mut_ptr().write(node);
            u.assume_init()
        }
        3 => Rc::from(node),
        _ => std::pin::Pin::into_inner(Rc::pin(node)),
    }
}

unsafe fn new_node(dst: usize, script: u32) -> Res {
    if !reg_free(dst) {
        return Res::Inv;
    }
    let w = w();
    // perturb the addresses (C09): leak a few blocks outside the accounting
    if w.pad > 0 {
        let save = crate::IN_OP;
        crate::IN_OP = false;
        for i in 0..(w.pad % 5) {
            std::mem::forget(Vec::<u8>::with_capacity(40 + 16 * ((w.pad + i) % 7)));
        }
        w.pad = w.pad.wrapping_mul(6364136223846793005).wrapping_add(1442695040888963407) >> 1;
        if w.pad == 0 {
            w.pad = 1;
        }
        crate::IN_OP = save;
    }
    let id = w.next_id;
    w.next_id += 1;
    w.alive.push(true);
    let rc = make_rc(Node { id, script, slots: UnsafeCell::new(empty_slots()) });
    register_box(&rc, id);
    *reg(dst) = Reg::Strong(rc, id);
    Res::Unit
}

pub unsafe fn exec_act(a: &Act, me: Option<*mut Node>) -> Res {
    match *a {
        Act::New(dst) => new_node(dst, NO_SCRIPT),
        Act::NewS(dst, sc) => new_node(dst, sc),
        Act::Clone(h, dst) => {
            let Some((p, id)) = strong_href(h, me) else { return Res::Inv };
            if !reg_free(dst) {
                return Res::Inv;
            }
            let c = match route(2) {
                0 => Rc::clone(&*p),
                _ => {
                    // documented equivalent: one more strong count on the value pointer, then from_raw
                    let raw = Rc::as_ptr(&*p);
                    Rc::increment_strong_count(raw);
                    Rc::from_raw(raw)
                }
            };
            if Rc::as_ptr(&c) != Rc::as_ptr(&*p) {
                set_oracle(format!("C06:as_ptr-differs-after-clone:{}", id));
            }
            *reg(dst) = Reg::Strong(c, id);
            Res::Unit
        }
        Act::Drop(r) => {
            if r >= NREGS {
                return Res::Inv;
            }
            match &*reg(r) {
                Reg::Strong(..) | Reg::Loose(..) => {
                    check_discipline();
                    let tgt = match &*reg(r) {
                        Reg::Strong(_, id) => Some(*id),
                        _ => None,
                    };
                    let x = std::mem::replace(&mut *reg(r), Reg::Empty);
                    match x {
                        Reg::Strong(rc, _) if route(2) == 1 => {
                            // documented equivalent of dropping one handle
                            Rc::decrement_strong_count(Rc::into_raw(rc));
                        }
                        x => drop(x),
                    }
                    if let (Some(x), Some(m)) = (tgt, me) {
                        // C03 for a drop made by a destructor: judged right after the nested drop returns,
                        // when the only object whose value the harness cannot see in place is the one whose
                        // destructor is running (no group teardown in this call, no deeper nesting)
                        let w_ = w();
                        if w_.dtor_live == 1 && !w_.group_in_op && w_.disciplined && w_.fault.is_none() {
                            // the oracle's own allocations are not the library's
                            let was = crate::IN_OP;
                            crate::IN_OP = false;
                            c03_after_drop(x, Some(m));
                            crate::IN_OP = was;
                        }
                    }
                    Res::Unit
                }
                Reg::Weak(..) => {
                    let x = std::mem::replace(&mut *reg(r), Reg::Empty);
                    match x {
                        Reg::Weak(wk, _) if route(2) == 1 => {
                            let raw = wk.into_raw();
                            drop(Weak::from_raw(raw));
                        }
                        x => drop(x),
                    }
                    Res::Unit
                }
                _ => Res::Inv,
            }
        }
        Act::Down(h, dst) => {
            let Some((p, id)) = strong_href(h, me) else { return Res::Inv };
            if !reg_free(dst) {
                return Res::Inv;
            }
            let wk = Rc::downgrade(&*p);
            if wk.as_ptr() != Rc::as_ptr(&*p) {
                set_oracle(format!("C06:as_ptr-differs-after-downgrade:{}", id));
            }
            *reg(dst) = Reg::Weak(wk, id as i64);
            Res::Unit
        }
        Act::Up(h, dst) => {
            let Some((p, id)) = weak_href(h, me) else { return Res::Inv };
            if !reg_free(dst) {
                return Res::Inv;
            }
            match (*p).upgrade() {
                None => {
                    // C05: None only for destroyed objects (or dying peers
                    // while a destructor runs)
                    if id >= 0 && w().alive[id as usize] && w().dtor_depth == 0 {
                        set_oracle(format!("C05:upgrade-none-on-live:{}", id));
                    }
                    Res::None_
                }
                Some(rc) => {
                    if id < 0 || !w().alive[id as usize] {
                        set_oracle(format!("C05:upgrade-resurrects:{}", id));
                    }
                    if Rc::as_ptr(&rc) != (*p).as_ptr() {
                        set_oracle(format!("C06:as_ptr-differs-after-upgrade:{}", id));
                    }
                    *reg(dst) = Reg::Strong(rc, id as u32);
                    Res::Some_
                }
            }
        }
        Act::WClone(h, dst) => {
            let Some((p, id)) = weak_href(h, me) else { return Res::Inv };
            if !reg_free(dst) {
                return Res::Inv;
            }
            let wk = match route(2) {
                0 => (*p).clone(),
                _ => Weak::from_raw((*p).clone().into_raw()),
            };
            if !wk.ptr_eq(&*p) || wk.as_ptr() != (*p).as_ptr() {
                set_oracle(format!("C06:weak-identity-differs-after-clone:{}", id));
            }
            *reg(dst) = Reg::Weak(wk, id);
            Res::Unit
        }
        Act::WNew(dst) => {
            if !reg_free(dst) {
                return Res::Inv;
            }
            *reg(dst) = Reg::Weak(if route(2) == 0 { Weak::new() } else { Weak::default() }, -1);
            Res::Unit
        }
        Act::Store(src, o, k) => {
            if src >= NREGS {
                return Res::Inv;
            }
            if !matches!(&*reg(src), Reg::Strong(..) | Reg::Weak(..)) {
                return Res::Inv;
            }
            let Some(sp) = slot_ptr(o, k, me) else { return Res::Inv };
            if !matches!(&*sp, Slot::Empty) {
                return Res::Inv;
            }
            let x = std::mem::replace(&mut *reg(src), Reg::Empty);
            let sl = match x {
                Reg::Strong(rc, id) => Slot::Strong(rc, id),
                Reg::Weak(wk, id) => Slot::Weak(wk, id),
                _ => unreachable!(),
            };
            std::ptr::write(sp, sl);
            Res::Unit
        }
        Act::Take(o, k, dst) => {
            let Some(sp) = slot_ptr(o, k, me) else { return Res::Inv };
            if matches!(&*sp, Slot::Empty) {
                return Res::Inv;
            }
            if !reg_free(dst) {
                return Res::Inv;
            }
            let sl = std::ptr::replace(sp, Slot::Empty);
            if o == ORef::Slf && matches!(sl, Slot::Strong(..)) {
                w().escaped = true;
            }
            *reg(dst) = match sl {
                Slot::Strong(rc, id) => Reg::Strong(rc, id),
                Slot::Weak(wk, id) => Reg::Weak(wk, id),
                Slot::Empty => unreachable!(),
            };
            Res::Unit
        }
        Act::Adopt(h1, h2) => {
            let Some((p1, a)) = strong_href(h1, me) else { return Res::Inv };
            let Some((p2, b)) = strong_href(h2, me) else { return Res::Inv };
            shim::adopt(&*p1, &*p2);
            if std::ptr::eq(p1, p2) {
                loops_add(a);
            } else {
                ledger_add(a, b);
            }
            Res::Unit
        }
        Act::Unadopt(h1, h2) => {
            let Some((p1, a)) = strong_href(h1, me) else { return Res::Inv };
            let Some((p2, b)) = strong_href(h2, me) else { return Res::Inv };
            shim::unadopt(&*p1, &*p2);
            if std::ptr::eq(p1, p2) {
                loops_sub(a);
            } else {
                ledger_sub(a, b);
            }
            Res::Unit
        }
        Act::Unwrap(r, dst) => {
            if r >= NREGS || !matches!(&*reg(r), Reg::Strong(..)) {
                return Res::Inv;
            }
            if !reg_free(dst) {
                return Res::Inv;
            }
            let Reg::Strong(rc, id) = std::mem::replace(&mut *reg(r), Reg::Empty) else {
                unreachable!()
            };
            match Rc::try_unwrap(rc) {
                Ok(node) => {
                    w().alive[id as usize] = false;
                    ledger_forget(id);
                    *reg(dst) = Reg::Loose(node);
                    Res::Some_
                }
                Err(rc) => {
                    *reg(r) = Reg::Strong(rc, id);
                    Res::Err_
                }
            }
        }
        Act::GetMut(r) => {
            if r >= NREGS {
                return Res::Inv;
            }
            match &mut *reg(r) {
                Reg::Strong(rc, _) => Res::Bool(Rc::get_mut(rc).is_some()),
                _ => Res::Inv,
            }
        }
        Act::MakeMut(r) => {
            if r >= NREGS || !matches!(&*reg(r), Reg::Strong(..)) {
                return Res::Inv;
            }
            check_discipline();
            let Reg::Strong(rc, id) = std::mem::replace(&mut *reg(r), Reg::Empty) else {
                unreachable!()
            };
            // the handle is out of the register while user code may run; it
            // goes back on both the normal and the unwinding path
            struct Back {
                r: usize,
                rc: Option<Rc<Node>>,
                id: u32,
                old: *const Node,
            }
            impl Drop for Back {
                fn drop(&mut self) {
                    unsafe {
                        let rc = self.rc.take().unwrap();
                        let now = Rc::as_ptr(&rc);
                        let mut id = self.id;
                        if now != self.old {
                            id = (*now).id;
                            register_box(&rc, id);
                        }
                        *reg(self.r) = Reg::Strong(rc, id);
                    }
                }
            }
            let old = Rc::as_ptr(&rc);
            let mut g = Back { r, rc: Some(rc), id, old };
            let before = w().next_id;
            let m: *mut Node = Rc::make_mut(g.rc.as_mut().unwrap());
            let now = Rc::as_ptr(g.rc.as_ref().unwrap());
            if now != old && w().next_id == before {
                // steal branch: the value moved to a fresh allocation
                let w = w();
                let nid = w.next_id;
                w.next_id += 1;
                w.alive.push(true);
                w.alive[id as usize] = false;
                ledger_forget(id);
                (*m).id = nid;
            }
            drop(g);
            Res::Unit
        }
        Act::IntoRaw(r) => {
            if r >= NREGS || !matches!(&*reg(r), Reg::Strong(..)) {
                return Res::Inv;
            }
            let Reg::Strong(rc, id) = std::mem::replace(&mut *reg(r), Reg::Empty) else {
                unreachable!()
            };
            *reg(r) = Reg::Raw(Rc::into_raw(rc), id);
            Res::Unit
        }
        Act::FromRaw(r) => {
            if r >= NREGS {
                return Res::Inv;
            }
            let Reg::Raw(p, id) = *reg(r) else { return Res::Inv };
            *reg(r) = Reg::Strong(Rc::from_raw(p), id);
            Res::Unit
        }
        Act::IncS(r, dst) => {
            if r >= NREGS {
                return Res::Inv;
            }
            let Reg::Raw(p, id) = *reg(r) else { return Res::Inv };
            if !reg_free(dst) {
                return Res::Inv;
            }
            Rc::increment_strong_count(p);
            *reg(dst) = Reg::Raw(p, id);
            Res::Unit
        }
        Act::DecS(r) => {
            if r >= NREGS {
                return Res::Inv;
            }
            let Reg::Raw(p, _) = *reg(r) else { return Res::Inv };
            check_discipline();
            *reg(r) = Reg::Empty;
            Rc::decrement_strong_count(p);
            Res::Unit
        }
        Act::PtrEq(h1, h2) => {
            let Some((p1, a)) = strong_href(h1, me) else { return Res::Inv };
            let Some((p2, b)) = strong_href(h2, me) else { return Res::Inv };
            let e = Rc::ptr_eq(&*p1, &*p2);
            if e != (a == b) {
                set_oracle(format!("C06:ptr_eq:{}:{}", a, b));
            }
            Res::Bool(e)
        }
        Act::Sc(h) => {
            let Some((p, _)) = strong_href(h, me) else { return Res::Inv };
            let n = Rc::strong_count(&*p);
            if n == usize::MAX {
                Res::Max
            } else {
                Res::Nat(n as u64)
            }
        }
        Act::Wc(h) => {
            let Some((p, _)) = strong_href(h, me) else { return Res::Inv };
            Res::Nat(Rc::weak_count(&*p) as u64)
        }
        Act::Wsc(h) => {
            let Some((p, id)) = weak_href(h, me) else { return Res::Inv };
            let n = (*p).strong_count() as u64;
            if id >= 0 && !w().alive[id as usize] && n != 0 && w().dtor_depth == 0 {
                set_oracle(format!("C05:strong_count-after-destruction:{}", id));
            }
            Res::Nat(n)
        }
        Act::Wwc(h) => {
            let Some((p, id)) = weak_href(h, me) else { return Res::Inv };
            let n = (*p).weak_count() as u64;
            if id >= 0 && !w().alive[id as usize] && n != 0 && w().dtor_depth == 0 {
                set_oracle(format!("C05:weak_count-after-destruction:{}", id));
            }
            Res::Nat(n)
        }
        Act::Deref(h) => {
            let Some((p, id)) = strong_href(h, me) else { return Res::Inv };
            let gone = w()
                .shadow
                .iter()
                .rev()
                .find(|s| s.id == id)
                .map(|s| s.flags & (VALUE_GONE | FREED) != 0)
                .unwrap_or(false);
            if gone {
                // the value was moved out of the box: reading it is a stale read
                set_fault("valuemoved", id as i64);
                return Res::Nat(0);
            }
            let got = match route(4) {
                0 => (**p).id,
                1 => AsRef::<Node>::as_ref(&*p).id,
                2 => std::borrow::Borrow::<Node>::borrow(&*p).id,
                _ => (*Rc::as_ptr(&*p)).id,
            };
            if got == POISON || !w().alive[id as usize] {
                set_fault("valuemoved", id as i64);
                return Res::Nat(0);
            }
            if got != id {
                set_oracle(format!("C01:deref-wrong-value:{}:{}", id, got));
            }
            Res::Nat(got as u64)
        }
        Act::Panic => resume_unwind(Box::new(PanicMarker)),
    }
}

// ------------------------------------------------------------------- parsing
fn parse_oref(s: &str) -> ORef {
    if s == "s" {
        ORef::Slf
    } else {
        ORef::Reg(s[1..].parse().unwrap())
    }
}
fn parse_href(s: &str) -> HRef {
    match s.find('.') {
        None => match parse_oref(s) {
            ORef::Reg(r) => HRef::Reg(r),
            ORef::Slf => panic!("href"),
        },
        Some(i) => HRef::Slot(parse_oref(&s[..i]), s[i + 1..].parse().unwrap()),
    }
}
fn parse_act(s: &str) -> Act {
    let t: Vec<&str> = s.split_whitespace().collect();
    let n = |i: usize| -> usize { t[i].parse().unwrap() };
    match t[0] {
        "new" => Act::New(n(1)),
        "clone" => Act::Clone(parse_href(t[1]), n(2)),
        "drop" => Act::Drop(n(1)),
        "down" => Act::Down(parse_href(t[1]), n(2)),
        "up" => Act::Up(parse_href(t[1]), n(2)),
        "wclone" => Act::WClone(parse_href(t[1]), n(2)),
        "wnew" => Act::WNew(n(1)),
        "store" => Act::Store(n(1), parse_oref(t[2]), n(3)),
        "take" => Act::Take(parse_oref(t[1]), n(2), n(3)),
        "adopt" => Act::Adopt(parse_href(t[1]), parse_href(t[2])),
        "unadopt" => Act::Unadopt(parse_href(t[1]), parse_href(t[2])),
        "unwrap" => Act::Unwrap(n(1), n(2)),
        "getmut" => Act::GetMut(n(1)),
        "makemut" => Act::MakeMut(n(1)),
        "intoraw" => Act::IntoRaw(n(1)),
        "fromraw" => Act::FromRaw(n(1)),
        "incs" => Act::IncS(n(1), n(2)),
        "decs" => Act::DecS(n(1)),
        "ptreq" => Act::PtrEq(parse_href(t[1]), parse_href(t[2])),
        "sc" => Act::Sc(parse_href(t[1])),
        "wc" => Act::Wc(parse_href(t[1])),
        "wsc" => Act::Wsc(parse_href(t[1])),
        "wwc" => Act::Wwc(parse_href(t[1])),
        "deref" => Act::Deref(parse_href(t[1])),
        "panic" => Act::Panic,
        _ => panic!("unknown act {}", s),
    }
}
pub fn parse_op(s: &str, scripts: &mut Vec<Vec<Act>>) -> Act {
    let s = s.trim();
    let s = match s.find('@') {
        Some(i) => s[..i].trim(),
        None => s,
    };
    if let Some(rest) = s.strip_prefix("news ") {
        let i = rest.find('[').unwrap();
        let j = rest.rfind(']').unwrap();
        let dst: usize = rest[..i].trim().parse().unwrap();
        let acts: Vec<Act> = rest[i + 1..j]
            .split(',')
            .map(|x| x.trim())
            .filter(|x| !x.is_empty())
            .map(parse_act)
            .collect();
        scripts.push(acts);
        Act::NewS(dst, (scripts.len() - 1) as u32)
    } else {
        parse_act(s)
    }
}

// ------------------------------------------------------------------ printing
unsafe fn id_of_vptr(p: *const Node) -> i64 {
    w().shadow.iter().rev().find(|s| s.vptr == p).map(|s| s.id as i64).unwrap_or(-1)
}

unsafe fn snapshot(out: &mut String) {
    let w = w();
    let n = w.next_id as usize;
    for id in 0..n {
        if id > 0 {
            out.push(' ');
        }
        let Some(s) = w.shadow.iter().rev().find(|s| s.id as usize == id) else {
            let _ = write!(out, "{}:?", id);
            continue;
        };
        if s.flags & FREED != 0 {
            let _ = write!(out, "{}:f", id);
            continue;
        }
        let (st, wk) = shim::counts(s.vptr);
        if st == usize::MAX {
            let _ = write!(out, "{}:sMw{}", id, wk);
        } else {
            let _ = write!(out, "{}:s{}w{}", id, st, wk);
        }
        if w.alive[id] {
            out.push('v');
            if s.flags & LINKS_GONE != 0 {
                out.push_str("{!}");
            } else {
                w.links_buf.clear();
                shim::links(s.vptr, &mut w.links_buf);
                let mut es: Vec<(i64, u8, usize)> =
                    w.links_buf.iter().map(|&(p, k, c)| (id_of_vptr(p), k, c)).collect();
                es.sort();
                out.push('{');
                for (i, (o, k, c)) in es.iter().enumerate() {
                    if i > 0 {
                        out.push(',');
                    }
                    let kc = ['F', 'B', 'L'][*k as usize];
                    let _ = write!(out, "{}{}{}", o, kc, c);
                }
                out.push('}');
            }
        } else {
            out.push('x');
        }
    }
}

unsafe fn sweep(out: &mut String) {
    w().in_sweep = true;
    let mut first = true;
    for r in 0..NREGS {
        let sa = [Act::Sc(HRef::Reg(r)), Act::Wc(HRef::Reg(r)), Act::Deref(HRef::Reg(r))];
        let wa = [Act::Wsc(HRef::Reg(r)), Act::Wwc(HRef::Reg(r))];
        let acts: &[Act] = match &*reg(r) {
            Reg::Strong(..) => &sa,
            Reg::Weak(..) => &wa,
            _ => continue,
        };
        if !first {
            out.push(' ');
        }
        first = false;
        let _ = write!(out, "r{}:", r);
        for a in acts {
            let r2 = catch_unwind(AssertUnwindSafe(|| exec_act(a, None)));
            match r2 {
                Ok(res) => {
                    res_str(res, out);
                    out.push('/');
                }
                Err(_) => set_fault("underflow", -1),
            }
        }
    }
    w().in_sweep = false;
}

/// impl-side oracles at a call boundary, independent of the model
unsafe fn boundary_oracles() {
    let w = w();
    let n = w.next_id as usize;
    // handle census
    let mut strong = vec![0u64; n];
    let mut weak = vec![0u64; n];
    let mut reach: Vec<u32> = Vec::new();
    let count_slots = |node: *const Node, strong: &mut Vec<u64>, weak: &mut Vec<u64>| {
        for sl in (*(*node).slots.get()).iter() {
            match sl {
                Slot::Strong(rc, id) => {
                    strong[*id as usize] += 1;
                    // identity (C06)
                    if let Some(s) = w.shadow.iter().rev().find(|s| s.id == *id) {
                        if Rc::as_ptr(rc) != s.vptr {
                            set_oracle(format!("C06:as_ptr-changed:{}", id));
                        }
                    }
                }
                Slot::Weak(_, id) if *id >= 0 => weak[*id as usize] += 1,
                _ => {}
            }
        }
    };
    for r in 0..NREGS {
        match &*reg(r) {
            Reg::Strong(rc, id) => {
                strong[*id as usize] += 1;
                reach.push(*id);
                if let Some(s) = w.shadow.iter().rev().find(|s| s.id == *id) {
                    if Rc::as_ptr(rc) != s.vptr {
                        set_oracle(format!("C06:as_ptr-changed:{}", id));
                    }
                }
            }
            Reg::Raw(_, id) => {
                strong[*id as usize] += 1;
                reach.push(*id);
            }
            Reg::Weak(_, id) if *id >= 0 => weak[*id as usize] += 1,
            Reg::Loose(node) => count_slots(node as *const Node, &mut strong, &mut weak),
            _ => {}
        }
    }
    for s in w.shadow.iter() {
        if w.alive[s.id as usize] && s.flags == 0 {
            count_slots(s.vptr, &mut strong, &mut weak);
        }
    }
    // C01: everything reachable from held handles is alive and not released
    for r in 0..NREGS {
        if let Reg::Loose(node) = &*reg(r) {
            for sl in (*node.slots.get()).iter() {
                if let Slot::Strong(_, id) = sl {
                    reach.push(*id);
                }
            }
        }
    }
    let mut seen = vec![false; n];
    while let Some(id) = reach.pop() {
        if seen[id as usize] {
            continue;
        }
        seen[id as usize] = true;
        let s = w.shadow.iter().rev().find(|s| s.id == id);
        let ok = w.alive[id as usize] && s.map(|s| s.flags == 0).unwrap_or(false);
        if !ok {
            if w.disciplined {
                set_oracle(format!("C01:reachable-object-destroyed:{}", id));
            } else {
                set_oracle(format!("C13:reachable-object-destroyed:{}", id));
            }
            continue;
        }
        for sl in (*(*s.unwrap().vptr).slots.get()).iter() {
            if let Slot::Strong(_, t) = sl {
                reach.push(*t);
            }
        }
    }
    if w.oracle.is_some() {
        return;
    }
    // C06: counts exact; C03: nothing alive without a handle
    for s in w.shadow.iter() {
        let id = s.id as usize;
        if !w.alive[id] || s.flags != 0 {
            continue;
        }
        let (st, wk) = shim::counts(s.vptr);
        if st as u64 != strong[id] {
            set_oracle(format!("C06:strong_count:{}:has={}:handles={}", id, st, strong[id]));
        } else if wk as u64 != weak[id] + 1 {
            set_oracle(format!("C06:weak_count:{}:has={}:handles={}", id, wk, weak[id]));
        }
        if strong[id] == 0 {
            set_oracle(format!("C03:alive-without-handle:{}", id));
        }
    }
    // C08: tables equal the ledger, symmetric, naming only alive objects
    for s in w.shadow.iter() {
        let id = s.id;
        if !w.alive[id as usize] || s.flags != 0 {
            continue;
        }
        w.links_buf.clear();
        shim::links(s.vptr, &mut w.links_buf);
        let mut nfwd = 0usize;
        for &(p, k, c) in w.links_buf.iter() {
            let t = id_of_vptr(p);
            if t < 0 || !w.alive[t as usize] {
                set_oracle(format!("C08:record-names-dead-object:{}:{}", id, t));
                continue;
            }
            let t = t as u32;
            let want = match k {
                0 => w.ledger.iter().find(|e| e.0 == id && e.1 == t).map(|e| e.2).unwrap_or(0),
                1 => w.ledger.iter().find(|e| e.0 == t && e.1 == id).map(|e| e.2).unwrap_or(0),
                _ => w.loops.iter().find(|e| e.0 == id).map(|e| e.1).unwrap_or(0),
            };
            if k == 0 {
                nfwd += 1;
            }
            if c as u64 != want || c == 0 {
                set_oracle(format!("C08:record-count:{}:{}:kind{}:has={}:calls={}", id, t, k, c, want));
            }
        }
        let lf = w.ledger.iter().filter(|e| e.0 == id).count();
        if nfwd != lf {
            set_oracle(format!("C08:missing-record:{}", id));
        }
    }
}

/// C03 after a top-level drop of a handle to `x`: if x is still alive and the
/// adoption closure of x is owned entirely by recorded adoptions inside the
/// closure, the drop should have collected it
unsafe fn c03_after_drop(x: u32, me: Option<*mut Node>) {
    let w = w();
    if !w.alive[x as usize] {
        return;
    }
    let mut set: Vec<u32> = vec![x];
    let mut i = 0;
    while i < set.len() {
        let a = set[i];
        for e in w.ledger.iter() {
            if e.0 == a && !set.contains(&e.1) {
                set.push(e.1);
            }
        }
        i += 1;
    }
    let has_loop = set.iter().any(|a| w.loops.iter().any(|l| l.0 == *a));
    let n = w.next_id as usize;
    let mut outside = vec![0u64; n];
    for r in 0..NREGS {
        match &*reg(r) {
            Reg::Strong(_, id) | Reg::Raw(_, id) => outside[*id as usize] += 1,
            Reg::Loose(node) => {
                for sl in (*node.slots.get()).iter() {
                    if let Slot::Strong(_, id) = sl {
                        outside[*id as usize] += 1;
                    }
                }
            }
            _ => {}
        }
    }
    if let Some(m) = me {
        // called from inside the destructor of `m` (a single object being destroyed): the handles its value
        // still holds are handles held outside the set
        for sl in (*(*m).slots.get()).iter() {
            if let Slot::Strong(_, id) = sl {
                outside[*id as usize] += 1;
            }
        }
    }
    for s in w.shadow.iter() {
        if w.alive[s.id as usize] && s.flags == 0 && !set.contains(&s.id) {
            for sl in (*(*s.vptr).slots.get()).iter() {
                if let Slot::Strong(_, id) = sl {
                    outside[*id as usize] += 1;
                }
            }
        }
    }
    for &y in set.iter() {
        if outside[y as usize] > 0 {
            return;
        }
        for &a in set.iter() {
            let mut rec = w.ledger.iter().find(|e| e.0 == a && e.1 == y).map(|e| e.2).unwrap_or(0);
            if a == y {
                // a self handle recorded through itself is a recorded adoption too
                rec += w.loops.iter().find(|l| l.0 == a).map(|l| l.1).unwrap_or(0);
            }
            if rec != held(a, y) {
                return;
            }
        }
    }
    set.sort();
    set_oracle(
        format!("C03:orphaned-group-not-collected{}:{:?}", if has_loop { "-loopback" } else { "" }, set)
            .replace(' ', ""),
    );
}

fn reset_world(pad: usize) {
    unsafe {
        crate::IN_OP = false;
        let old = W.take();
        // leak the previous world's handles without running library code
        if let Some(o) = old {
            std::mem::forget(o.regs);
        }
        W = Some(World {
            regs: [
                Reg::Empty, Reg::Empty, Reg::Empty, Reg::Empty,
                Reg::Empty, Reg::Empty, Reg::Empty, Reg::Empty,
            ],
            scripts: Vec::new(),
            shadow: Vec::with_capacity(64),
            alive: Vec::with_capacity(64),
            next_id: 0,
            dtor_log: Vec::with_capacity(256),
            script_res: Vec::with_capacity(256),
            fault: None,
            oracle: None,
            oracle_also: Vec::with_capacity(4),
            traces: 0,
            pops: 0,
            visits: 0,
            dtor_depth: 0,
            sp_base: 0,
            sp_min: usize::MAX,
            ledger: Vec::with_capacity(64),
            loops: Vec::with_capacity(16),
            disciplined: true,
            overrec_ever: false,
            trace_overrec: false,
            d4: false,
            groups: 0,
            group_in_op: false,
            dtor_live: 0,
            escaped: false,
            pad,
            links_buf: Vec::with_capacity(64),
            in_sweep: false,
            fast: false,
            route: 0,
            cur_idx: 0,
        });
        crate::LIVE_BLOCKS = 0;
    }
}

fn run_history(id: &str, mode: &str, body: &str, pad: usize, out: &mut impl Write) {
    reset_world(pad);
    if id.starts_with("rt_") {
        // routed history: the route choices are a function of the id alone, so a replay repeats them
        let mut hsh: u64 = 0xcbf29ce484222325;
        for b in id.bytes() {
            hsh = (hsh ^ b as u64).wrapping_mul(0x100000001b3);
        }
        w().route = hsh | 1;
    }
    let mut scripts = Vec::new();
    let ops: Vec<Act> = body
        .split(';')
        .map(|x| x.trim())
        .filter(|x| !x.is_empty())
        .map(|x| parse_op(x, &mut scripts))
        .collect();
    w().scripts = scripts;
    // make sure growth of the harness's own vectors never happens inside an op
    w().shadow.reserve(ops.len() + 64);
    w().alive.reserve(ops.len() + 64);
    let _ = writeln!(out, "H {}", id);
    let n = ops.len();
    let mut line = String::with_capacity(512);
    let mut any_panic = false;
    for (idx, a) in ops.iter().enumerate() {
        let w_ = w();
        w_.cur_idx = idx;
        w_.dtor_log.clear();
        w_.script_res.clear();
        w_.traces = 0;
        w_.group_in_op = false;
        w_.pops = 0;
        w_.visits = 0;
        w_.oracle = None;
        w_.oracle_also.clear();
        let marker = 0u8;
        w_.sp_base = &marker as *const u8 as usize;
        w_.sp_min = w_.sp_base;
        // every call that gives up a strong handle is a drop in the sense of C03
        let dropped_target: Option<u32> = match a {
            Act::Drop(r) | Act::MakeMut(r) if *r < NREGS => match unsafe { &*reg(*r) } {
                Reg::Strong(_, id) => Some(*id),
                _ => None,
            },
            Act::DecS(r) if *r < NREGS => match unsafe { &*reg(*r) } {
                Reg::Raw(_, id) => Some(*id),
                _ => None,
            },
            _ => None,
        };
        let clone_or_drop_unadopted: bool = unsafe {
            let t = match a {
                Act::Drop(r) if *r < NREGS => match &*reg(*r) {
                    Reg::Strong(_, id) => Some(*id),
                    _ => None,
                },
                Act::Clone(h, _) => strong_href(*h, None).map(|x| x.1),
                _ => None,
            };
            match t {
                Some(id) if w_.alive[id as usize] => {
                    let s = w_.shadow.iter().rev().find(|s| s.id == id).unwrap();
                    // "currently has no recorded adoption" is judged by the calls alone (the ledger of
                    // adopt / unadopt calls, records forgotten when an end dies), not by the library's own
                    // table: a record the library failed to remove must not excuse the trace it causes
                    s.flags == 0
                        && !w_.ledger.iter().any(|e| e.0 == id || e.1 == id)
                        && !w_.loops.iter().any(|e| e.0 == id)
                }
                _ => false,
            }
        };
        unsafe {
            crate::OP_ALLOCS = 0;
            crate::IN_OP = true;
        }
        let r = catch_unwind(AssertUnwindSafe(|| unsafe { exec_act(a, None) }));
        unsafe {
            crate::IN_OP = false;
        }
        let allocs = unsafe { crate::OP_ALLOCS };
        let w_ = w();
        let last = idx == n - 1;
        line.clear();
        let _ = write!(line, "{} ", idx);
        if let Some((k, o)) = w_.fault {
            let _ = write!(line, "fault #{} {} ## disc={}", k, o, w_.disciplined as u8);
            if w_.d4 {
                line.push_str(" d4=1");
            }
            if w_.escaped {
                line.push_str(" esc=1");
            }
            if !w_.dtor_log.is_empty() {
                // destructors started before the fault: the member order the model must follow
                line.push_str(" order=");
                for (i, d) in w_.dtor_log.iter().enumerate() {
                    let _ = write!(line, "{}{}", if i > 0 { "," } else { "" }, d);
                }
            }
            let _ = writeln!(out, "{}", line);
            break;
        }
        let mut upanic = false;
        match r {
            Ok(res) => {
                line.push_str("ok:");
                res_str(res, &mut line);
            }
            Err(e) => {
                any_panic = true;
                if e.is::<PanicMarker>() {
                    line.push_str("panic");
                } else {
                    upanic = true;
                    line.push_str("upanic");
                }
            }
        }
        // oracles
        let ndtors = w_.dtor_log.len();
        unsafe {
            for d in w_.dtor_log.iter() {
                ledger_forget(*d);
            }
            boundary_oracles();
            if let Some(x) = dropped_target {
                if w().oracle.is_none() {
                    c03_after_drop(x, None);
                }
            }
        }
        if upanic {
            set_oracle("C10:unexpected-panic".to_string());
        }
        if clone_or_drop_unadopted {
            if w_.traces > 0 && ndtors == 0 {
                set_oracle("C14:trace-on-unadopted".to_string());
            }
            if allocs > 0 && ndtors == 0 {
                set_oracle(format!("C14:alloc-on-unadopted:{}", allocs));
            }
        }
        if mode == "A" || last {
            line.push_str(" D");
            for (i, d) in w_.dtor_log.iter().enumerate() {
                if i > 0 {
                    line.push(',');
                }
                let _ = write!(line, "{}", d);
            }
            line.push_str(" R");
            for (i, r) in w_.script_res.iter().enumerate() {
                if i > 0 {
                    line.push(',');
                }
                res_str(*r, &mut line);
            }
            let _ = write!(line, " T{}/{}/{} S ", w_.traces, w_.pops, w_.visits);
            unsafe {
                snapshot(&mut line);
            }
            line.push_str(" O ");
            let mut sw = String::new();
            unsafe {
                sweep(&mut sw);
            }
            if w().fault.is_some() {
                line.push_str("fault");
            } else {
                line.push_str(sw.trim());
            }
        } else if !w_.dtor_log.is_empty() {
            // hint line for the model's choice oracle
            line.push_str("D");
            for (i, d) in w_.dtor_log.iter().enumerate() {
                if i > 0 {
                    line.push(',');
                }
                let _ = write!(line, "{}", d);
            }
        } else if w().oracle.is_none() {
            continue;
        }
        let w_ = w();
        let depth = w_.sp_base.saturating_sub(w_.sp_min);
        let _ = write!(
            line,
            " ## allocs={} depth={} disc={} live={}",
            allocs,
            depth,
            w_.disciplined as u8,
            unsafe { crate::LIVE_BLOCKS }
        );
        if !w_.loops.is_empty() {
            line.push_str(" loop=1");
        }
        if w_.d4 {
            line.push_str(" d4=1");
        }
        if w_.escaped {
            line.push_str(" esc=1");
        }
        let _ = write!(line, " groups={}", w_.groups);
        if let Some(o) = &w_.oracle {
            let _ = write!(line, " oracle={}", o);
        }
        for (i, o) in w_.oracle_also.iter().enumerate() {
            let _ = write!(line, " also{}={}", i, o);
        }
        let _ = writeln!(out, "{}", line);
        if w().fault.is_some() {
            break;
        }
    }
    let _ = writeln!(out, "F live={}", unsafe { crate::LIVE_BLOCKS });
    // C04, judged on the implementation alone: the history is over, no call panicked or faulted, every
    // object it created has been destroyed (or unwrapped), the program holds no handle, raw pointer or
    // loose value any more -- then the process must hold exactly the heap memory it held at the start
    {
        let w_ = w();
        let full = w_.fault.is_none()
            && !any_panic
            && !w_.d4
            && !w_.escaped
            && w_.alive.iter().all(|a| !*a)
            && w_.regs.iter().all(|r| matches!(r, Reg::Empty));
        let live = unsafe { crate::LIVE_BLOCKS };
        if full && live != 0 {
            let _ = writeln!(
                out,
                "G oracle=C04:memory-held-after-full-collection:{} disc={}",
                live, w_.disciplined as u8
            );
        }
    }
    let _ = writeln!(out, "E {}", id);
}

struct RawOut;
impl Write for RawOut {
    fn write(&mut self, buf: &[u8]) -> std::io::Result<usize> {
        std::io::stdout().lock().write(buf)
    }
    fn flush(&mut self) -> std::io::Result<()> {
        std::io::stdout().lock().flush()
    }
}


extern "C" {
    fn signal(sig: i32, handler: usize) -> usize;
    fn write(fd: i32, buf: *const u8, n: usize) -> isize;
}

/// The library aborts the process (C16; double panic). The destructors started so far in the current
/// call are the model's choice oracle for that call: print them ("A <idx> <id,id,..>") before dying.
/// Only async-signal-safe operations: no allocation, one write(2), then the default action again.
extern "C" fn on_fatal(sig: i32) {
    unsafe {
        let mut buf = [0u8; 1024];
        let mut n = 0usize;
        let mut put = |b: u8, n: &mut usize| {
            if *n < 1000 {
                buf[*n] = b;
                *n += 1;
            }
        };
        fn digits(mut v: u64, out: &mut [u8; 20]) -> usize {
            let mut i = 20;
            if v == 0 {
                i -= 1;
                out[i] = b'0';
            }
            while v > 0 {
                i -= 1;
                out[i] = b'0' + (v % 10) as u8;
                v /= 10;
            }
            i
        }
        if let Some(w_) = W.as_ref() {
            put(b'\n', &mut n);
            put(b'A', &mut n);
            put(b' ', &mut n);
            let mut d = [0u8; 20];
            let i = digits(w_.cur_idx as u64, &mut d);
            for k in i..20 {
                put(d[k], &mut n);
            }
            put(b' ', &mut n);
            for (j, id) in w_.dtor_log.iter().enumerate() {
                if j > 0 {
                    put(b',', &mut n);
                }
                let i = digits(*id as u64, &mut d);
                for k in i..20 {
                    put(d[k], &mut n);
                }
            }
            if w_.dtor_log.is_empty() {
                put(b'-', &mut n);
            }
            // the classification flags as they stand now: the call that dies prints no result line
            for (name, v) in [(&b" disc="[..], w_.disciplined), (&b" d4="[..], w_.d4), (&b" esc="[..], w_.escaped)] {
                for c in name {
                    put(*c, &mut n);
                }
                put(if v { b'1' } else { b'0' }, &mut n);
            }
            put(b'\n', &mut n);
            let _ = write(1, buf.as_ptr(), n);
        }
        signal(sig, 0); // SIG_DFL: returning re-executes the faulting instruction / re-raises
        if sig == 6 {
            extern "C" {
                fn raise(sig: i32) -> i32;
            }
            raise(6);
        }
    }
}

pub fn run_main(args: &[String]) {
    #[cfg(not(miri))]
    unsafe {
        signal(4, on_fatal as usize); // SIGILL: core::intrinsics::abort
        signal(6, on_fatal as usize); // SIGABRT: std::process::abort, sanitizer reports
        signal(11, on_fatal as usize); // SIGSEGV / SIGBUS: best effort, same report
        signal(7, on_fatal as usize);
    }
    // run <skip> <pad> [noquarantine]
    unsafe { crate::NOTE_FREE = note_free };
    shim::install(hook);
    let skip: usize = args.get(2).and_then(|s| s.parse().ok()).unwrap_or(0);
    let pad: usize = args.get(3).and_then(|s| s.parse().ok()).unwrap_or(0);
    if args.get(4).map(|s| s == "noquarantine").unwrap_or(false) {
        unsafe { crate::QUARANTINE = false };
    }
    let stdin = std::io::stdin();
    let mut out = std::io::LineWriter::new(RawOut);
    for (i, line) in stdin.lock().lines().enumerate() {
        let line = line.unwrap();
        if i < skip || line.trim().is_empty() || line.starts_with('#') {
            continue;
        }
        let mut it = line.splitn(3, '|');
        let (id, m, body) = (it.next().unwrap(), it.next().unwrap(), it.next().unwrap());
        run_history(id, m, body, if pad == 0 { 0 } else { pad + i }, &mut out);
        let _ = out.flush();
    }
}

pub fn ring_main(args: &[String]) {
    // ring <n> <chords> [stack bytes]: C15 measurement on a small stack
    shim::install(hook);
    let n: usize = args[2].parse().unwrap();
    let chords: usize = args.get(3).and_then(|s| s.parse().ok()).unwrap_or(0);
    let stack: usize = args.get(4).and_then(|s| s.parse().ok()).unwrap_or(128 * 1024);
    let h = std::thread::Builder::new().stack_size(stack).spawn(move || ring(n, chords)).unwrap();
    match h.join() {
        Ok(s) => println!("{}", s),
        Err(_) => {
            println!("ring n={} FAILED", n);
            std::process::exit(3);
        }
    }
}

/// C15: build a ring of `n` objects (plus `chords` extra adopted edges per
/// node) that is owned by a single outside handle from the start, so that
/// building it is linear; drop that handle on this (small) stack and report
/// the trace counters and the native stack depth seen by the destructors.
fn ring(n: usize, chords: usize) -> String {
    unsafe { crate::QUARANTINE = false };
    reset_world(0);
    let w_ = w();
    w_.alive = vec![true; n];
    w_.next_id = n as u32;
    w_.shadow = Vec::new(); // no shadow lookups: linear search would dominate
    w_.fast = true;
    let mk = |i: usize| Rc::new(Node { id: i as u32, script: NO_SCRIPT, slots: UnsafeCell::new(empty_slots()) });
    // node i keeps the only handle to node i+1 in slot 0 (moved in, adopted);
    // hp[i] points at the handle object that refers to node i
    let mut hp: Vec<*const Rc<Node>> = vec![std::ptr::null(); n];
    let mut next: Option<Rc<Node>> = None;
    for i in (0..n).rev() {
        let cur = mk(i);
        if let Some(nx) = next.take() {
            unsafe {
                shim::adopt(&cur, &nx);
                let sp = std::ptr::addr_of_mut!((*cur.slots.get())[0]);
                std::ptr::write(sp, Slot::Strong(nx, (i + 1) as u32));
                if let Slot::Strong(rc, _) = &*sp {
                    hp[i + 1] = rc as *const _;
                }
            }
        }
        next = Some(cur);
    }
    let first = next.unwrap();
    hp[0] = &first as *const _;
    unsafe {
        // close the ring: node n-1 adopts a clone of the handle to node 0
        let h = Rc::clone(&first);
        shim::adopt(&*hp[n - 1], &h);
        (*(&(*hp[n - 1])).slots.get())[0] = Slot::Strong(h, 0);
        for i in 0..n {
            for c in 1..=chords.min(K - 1) {
                let j = (i + 1 + c * 7) % n;
                let h = Rc::clone(&*hp[j]);
                shim::adopt(&*hp[i], &h);
                (*(&(*hp[i])).slots.get())[c] = Slot::Strong(h, j as u32);
            }
        }
    }
    let weak0 = Rc::downgrade(&first);
    let w_ = w();
    w_.traces = 0;
    w_.pops = 0;
    w_.visits = 0;
    w_.dtor_log = Vec::with_capacity(n);
    let marker = 0u8;
    w_.sp_base = &marker as *const u8 as usize;
    w_.sp_min = w_.sp_base;
    let t0 = std::time::Instant::now();
    drop(first);
    let dt = t0.elapsed();
    let w_ = w();
    format!(
        "ring n={} chords={} destroyed={} traces={} pops={} visits={} depth={} upgrade={} us={}",
        n,
        chords,
        w_.dtor_log.len(),
        w_.traces,
        w_.pops,
        w_.visits,
        w_.sp_base.saturating_sub(w_.sp_min),
        weak0.upgrade().is_some(),
        dt.as_micros()
    )
}


/// C15: a balanced ternary tree of `n` objects (node i adopts and owns 3i+1, 3i+2, 3i+3; every
/// leaf adopts and owns a handle to the root), owned by a single outside handle to the root. A
/// depth-first trace keeps a short worklist here, a breadth-first one a long worklist: together
/// with the ring+chords shape (long worklist depth-first, short breadth-first) this exposes work
/// that is superlinear in the worklist length whichever discipline the trace uses.
fn tree(n: usize) -> String {
    unsafe { crate::QUARANTINE = false };
    reset_world(0);
    let w_ = w();
    w_.alive = vec![true; n];
    w_.next_id = n as u32;
    w_.shadow = Vec::new();
    w_.fast = true;
    let mk = |i: usize| Rc::new(Node { id: i as u32, script: NO_SCRIPT, slots: UnsafeCell::new(empty_slots()) });
    let mut pending: Vec<Option<Rc<Node>>> = (0..n).map(|_| None).collect();
    let mut hp: Vec<*const Rc<Node>> = vec![std::ptr::null(); n];
    let mut leaves: Vec<usize> = Vec::new();
    let mut edges = 0usize;
    for i in (0..n).rev() {
        let cur = mk(i);
        let mut has_child = false;
        for c in 0..3 {
            let j = 3 * i + 1 + c;
            if j < n {
                has_child = true;
                let ch = pending[j].take().unwrap();
                unsafe {
                    shim::adopt(&cur, &ch);
                    let sp = std::ptr::addr_of_mut!((*cur.slots.get())[c]);
                    std::ptr::write(sp, Slot::Strong(ch, j as u32));
                    if let Slot::Strong(rc, _) = &*sp {
                        hp[j] = rc as *const _;
                    }
                }
                edges += 1;
            }
        }
        if !has_child {
            leaves.push(i);
        }
        pending[i] = Some(cur);
    }
    let first = pending[0].take().unwrap();
    hp[0] = &first as *const _;
    unsafe {
        for &l in leaves.iter() {
            if l == 0 {
                continue;
            }
            let h = Rc::clone(&first);
            shim::adopt(&*hp[l], &h);
            (*(&(*hp[l])).slots.get())[3] = Slot::Strong(h, 0);
            edges += 1;
        }
    }
    let weak0 = Rc::downgrade(&first);
    let w_ = w();
    w_.traces = 0;
    w_.pops = 0;
    w_.visits = 0;
    w_.dtor_log = Vec::with_capacity(n);
    let marker = 0u8;
    w_.sp_base = &marker as *const u8 as usize;
    w_.sp_min = w_.sp_base;
    let t0 = std::time::Instant::now();
    drop(first);
    let dt = t0.elapsed();
    let w_ = w();
    format!(
        "tree n={} edges={} destroyed={} traces={} pops={} visits={} depth={} upgrade={} us={}",
        n,
        edges,
        w_.dtor_log.len(),
        w_.traces,
        w_.pops,
        w_.visits,
        w_.sp_base.saturating_sub(w_.sp_min),
        weak0.upgrade().is_some(),
        dt.as_micros()
    )
}

pub fn tree_main(args: &[String]) {
    shim::install(hook);
    let n: usize = args[2].parse().unwrap();
    let stack: usize = args.get(3).and_then(|s| s.parse().ok()).unwrap_or(128 * 1024);
    let h = std::thread::Builder::new().stack_size(stack).spawn(move || tree(n)).unwrap();
    match h.join() {
        Ok(s) => println!("{}", s),
        Err(_) => {
            println!("tree n={} FAILED", n);
            std::process::exit(3);
        }
    }
}


/// C15: "time grows linearly with objects plus adoptions" also in the number of HANDLES: a two-object
/// cycle a <-> b, `h` extra outside handles to a, dropped one by one (each drop is non-final and traces
/// the two objects), then the last one (collects). Work per drop must not depend on `h`.
fn fan(h: usize) -> String {
    unsafe { crate::QUARANTINE = false };
    reset_world(0);
    let w_ = w();
    w_.alive = vec![true; 2];
    w_.next_id = 2;
    w_.shadow = Vec::new();
    w_.fast = true;
    let mk = |i: usize| Rc::new(Node { id: i as u32, script: NO_SCRIPT, slots: UnsafeCell::new(empty_slots()) });
    let a = mk(0);
    let b = mk(1);
    unsafe {
        let hb = Rc::clone(&b);
        shim::adopt(&a, &hb);
        (*a.slots.get())[0] = Slot::Strong(hb, 1);
        let ha = Rc::clone(&a);
        shim::adopt(&b, &ha);
        (*b.slots.get())[0] = Slot::Strong(ha, 0);
    }
    drop(b);
    let weak0 = Rc::downgrade(&a);
    let extra: Vec<Rc<Node>> = (0..h).map(|_| Rc::clone(&a)).collect();
    let w_ = w();
    w_.traces = 0;
    w_.pops = 0;
    w_.visits = 0;
    w_.dtor_log = Vec::with_capacity(4);
    let marker = 0u8;
    w_.sp_base = &marker as *const u8 as usize;
    w_.sp_min = w_.sp_base;
    let t0 = std::time::Instant::now();
    for x in extra {
        drop(x);
    }
    let mid = w().dtor_log.len();
    drop(a);
    let dt = t0.elapsed();
    let w_ = w();
    format!(
        "fan n={} destroyed_early={} destroyed={} traces={} pops={} visits={} depth={} upgrade={} us={}",
        h,
        mid,
        w_.dtor_log.len(),
        w_.traces,
        w_.pops,
        w_.visits,
        w_.sp_base.saturating_sub(w_.sp_min),
        weak0.upgrade().is_some(),
        dt.as_micros()
    )
}

pub fn fan_main(args: &[String]) {
    shim::install(hook);
    let n: usize = args[2].parse().unwrap();
    let stack: usize = args.get(3).and_then(|s| s.parse().ok()).unwrap_or(128 * 1024);
    let h = std::thread::Builder::new().stack_size(stack).spawn(move || fan(n)).unwrap();
    match h.join() {
        Ok(s) => println!("{}", s),
        Err(_) => {
            println!("fan n={} FAILED", n);
            std::process::exit(3);
        }
    }
}

// ----------------------------------------------------------------------- glue
/// The API surface that merely delegates to `T` or to pointer identity
/// (comparison, hashing, formatting, conversions, Weak raw round trips): not
/// part of the Coq model. The same table of observations is computed for
/// `cactusref` and for `std::rc` and compared line by line (C07, C06 identity).
pub fn glue() -> Vec<String> {
    use std::borrow::Borrow;
    use std::collections::hash_map::DefaultHasher;
    use std::hash::{Hash, Hasher};
    let mut out: Vec<String> = Vec::new();
    let vals: [i64; 6] = [i64::MIN, -1, 0, 1, 7, i64::MAX];
    for &a in vals.iter() {
        for &b in vals.iter() {
            let (x, y) = (Rc::new(a), Rc::new(b));
            out.push(format!(
                "cmp {a} {b}: {} {} {} {} {} {} {:?} {:?} {} {}",
                x == y, x != y, x < y, x <= y, x > y, x >= y,
                x.partial_cmp(&y), x.cmp(&y),
                *std::cmp::max(x.clone(), y.clone()), *std::cmp::min(x.clone(), y.clone())
            ));
        }
        let x = Rc::new(a);
        let (mut h1, mut h2) = (DefaultHasher::new(), DefaultHasher::new());
        x.hash(&mut h1);
        a.hash(&mut h2);
        out.push(format!("hash {a}: {}", h1.finish() == h2.finish()));
        out.push(format!("fmt {a}: [{}] [{:?}] [{:>8}] [{:#?}] [{:08}]", x, x, x, x, x));
        out.push(format!("ptrfmt {a}: {}", format!("{:p}", x) == format!("{:p}", Rc::as_ptr(&x))));
        // the formatter's flags must reach the payload (Debug as well as Display)
        out.push(format!("fmtflags {a}: [{:>12?}] [{:<12?}] [{:^12?}] [{:+?}] [{:#x?}] [{:#X?}] [{:012?}] [{:+}] [{:<6}|]",
            x, x, x, x, x, x, x, x, x));
        let f: Rc<i64> = Rc::from(a);
        let fb: Rc<i64> = Rc::from(Box::new(a));
        out.push(format!("from {a}: {} {} {} {}", *f, *fb, Rc::strong_count(&f), Rc::weak_count(&fb)));
        let br: &i64 = x.borrow();
        let ar: &i64 = x.as_ref();
        out.push(format!("borrow {a}: {} {} {}", *br, *ar, std::ptr::eq(br, ar)));
    }
    // floats: partial order with NaN
    let fl: [f64; 4] = [f64::NAN, -0.0, 0.0, 1.5];
    for &a in fl.iter() {
        for &b in fl.iter() {
            let (x, y) = (Rc::new(a), Rc::new(b));
            out.push(format!("fcmp {a} {b}: {} {} {} {} {} {} {:?}", x == y, x != y, x < y, x <= y, x > y, x >= y,
                x.partial_cmp(&y)));
        }
    }
    // PartialEq on a non-Eq type must compare values even for the same allocation
    let n = Rc::new(f64::NAN);
    let n2 = n.clone();
    out.push(format!("nan-same-alloc: {} {}", n == n2, n != n2));
    let d: Rc<i64> = Default::default();
    let s: Rc<String> = Default::default();
    out.push(format!("default: {} [{}] {}", *d, *s, Rc::strong_count(&d)));
    // Debug with the alternate flag, width and precision on structured and floating payloads
    #[derive(Debug, Clone, PartialEq)]
    struct Pt { x: i32, name: &'static str, v: Vec<u8> }
    let pt = Rc::new(Pt { x: -3, name: "p", v: vec![1, 2] });
    out.push(format!("fmtstruct: [{:?}] [{:#?}] [{:>40?}]", pt, pt, Rc::new((1u8, "t"))));
    let fl = Rc::new(1.5f64);
    out.push(format!("fmtfloat: [{:8.3?}] [{:8.3}] [{:+.1}] [{:08.2}]", fl, fl, fl, fl));
    let st = Rc::new(String::from("s\"q"));
    out.push(format!("fmtstr: [{:?}] [{:>8}] [{:.2}] [{:#?}]", st, st, st, st));
    // identity
    let x = Rc::new(41i64);
    let y = x.clone();
    let z = Rc::new(41i64);
    out.push(format!("ptr_eq: {} {} {}", Rc::ptr_eq(&x, &y), Rc::ptr_eq(&x, &z),
        Rc::as_ptr(&x) == Rc::as_ptr(&y)));
    let w = Rc::downgrade(&x);
    let w2 = w.clone();
    let wz = Rc::downgrade(&z);
    let wn: Weak<i64> = Weak::new();
    let wn2: Weak<i64> = Weak::default();
    out.push(format!("weak ptr_eq: {} {} {} {} {}", w.ptr_eq(&w2), w.ptr_eq(&wz), wn.ptr_eq(&wn2), wn.ptr_eq(&w),
        w.as_ptr() == Rc::as_ptr(&x)));
    out.push(format!("weak fmt: [{:?}] {} {} {}", w, wn.upgrade().is_none(), wn.strong_count(), wn.weak_count()));
    // Weak raw round trip keeps the weak count and the target
    let before = Rc::weak_count(&x);
    let raw = w2.into_raw();
    let mid = Rc::weak_count(&x);
    let back = unsafe { Weak::from_raw(raw) };
    out.push(format!("weak raw: {} {} {} {} {}", before, mid, Rc::weak_count(&x), raw == Rc::as_ptr(&x),
        back.upgrade().map(|r| *r).unwrap_or(-1)));
    drop(back);
    out.push(format!("weak raw after drop: {} {}", Rc::weak_count(&x), Rc::strong_count(&x)));
    // the dangling Weak survives a raw round trip
    let raw = wn.into_raw();
    let back = unsafe { Weak::from_raw(raw) };
    out.push(format!("dangling raw: {}", back.upgrade().is_none()));
    // Rc raw round trip and the count functions on raw pointers
    let p = Rc::into_raw(x);
    unsafe {
        Rc::increment_strong_count(p);
        let a = Rc::from_raw(p);
        let b = Rc::from_raw(p);
        out.push(format!("raw: {} {} {}", Rc::strong_count(&a), Rc::ptr_eq(&a, &b), *a));
        drop(a);
        out.push(format!("raw2: {} {}", Rc::strong_count(&b), w.upgrade().is_some()));
        drop(b);
    }
    out.push(format!("raw3: {} {} {}", Rc::strong_count(&y), w.strong_count(), w.weak_count()));
    // get_mut / make_mut / try_unwrap on plain values
    let mut m = Rc::new(String::from("a"));
    out.push(format!("get_mut unique: {}", Rc::get_mut(&mut m).is_some()));
    let m2 = m.clone();
    out.push(format!("get_mut shared: {}", Rc::get_mut(&mut m).is_some()));
    Rc::make_mut(&mut m).push('b');
    out.push(format!("make_mut: [{}] [{}] {} {}", m, m2, Rc::strong_count(&m), Rc::strong_count(&m2)));
    let mw = Rc::downgrade(&m);
    Rc::make_mut(&mut m).push('c');
    out.push(format!("make_mut weak: [{}] {} {}", m, mw.upgrade().is_none(), Rc::weak_count(&m)));
    out.push(format!("try_unwrap shared: {}", Rc::try_unwrap(m2.clone()).is_err()));
    drop(m2.clone());
    out.push(format!("try_unwrap: {:?}", Rc::try_unwrap(Rc::new(5u8)).ok()));
    let pinned = Rc::pin(9u32);
    out.push(format!("pin: {}", *pinned));
    // layouts: the value sits behind two counters (and, in cactusref, a link table); sizes and
    // alignments other than 8 exercise the offset computations of from_box / into_raw / from_raw
    macro_rules! layout {
        ($t:ty, $v:expr, $name:expr) => {{
            let v: $t = $v;
            let a: Rc<$t> = Rc::new(v.clone());
            let b: Rc<$t> = Rc::from(Box::new(v.clone()));
            let c: Rc<$t> = Rc::from(v.clone());
            let p = Rc::into_raw(a);
            let aligned = (p as usize) % std::mem::align_of::<$t>() == 0;
            let a = unsafe { Rc::from_raw(p) };
            let w = Rc::downgrade(&b);
            let wp = w.as_ptr();
            let wr = w.into_raw();
            let w = unsafe { Weak::from_raw(wr) };
            out.push(format!("layout {}: {} {} {} {} {} {} {} {}", $name, *a == v, *b == v, *c == v, aligned,
                wp == Rc::as_ptr(&b), wr == Rc::as_ptr(&b), w.upgrade().map(|x| *x == v).unwrap_or(false),
                Rc::strong_count(&b)));
            let mut m = b.clone();
            *Rc::make_mut(&mut m) = v.clone();
            out.push(format!("layout {} make_mut: {} {} {}", $name, *m == v, Rc::ptr_eq(&m, &b), Rc::strong_count(&b)));
            out.push(format!("layout {} unwrap: {}", $name, Rc::try_unwrap(c).ok().map(|x| x == v).unwrap_or(false)));
        }};
    }
    layout!(u8, 0xA5u8, "u8");
    layout!(u16, 0xBEEFu16, "u16");
    layout!(u128, 0x0123_4567_89AB_CDEF_0011_2233_4455_6677u128, "u128");
    layout!((), (), "unit");
    layout!([u8; 37], [7u8; 37], "bytes37");
    layout!(String, String::from("payload"), "string");
    layout!((u8, u64, u8), (1u8, 2u64, 3u8), "tuple");
    #[derive(Clone, PartialEq, Debug)]
    #[repr(align(64))]
    struct Big(u8);
    layout!(Big, Big(9), "align64");
    out
}
