"""Per-property configuration: streams, projection, oracle tags, extra checks."""
import os, json, re, subprocess, time, hashlib, collections, shutil
import pipeline as P
import streams as S

TRUSTED_BASE = [
    "Coq 8.16.1 kernel and coqc; vm_compute only (no native_compute); coqchk as second checker in the thorough tier",
    "no axiom: every property theorem is 'Closed under the global context' (Print Assumptions)",
    "hand-written model coq/Model/{Base,Atomic,Machine}.v of adopt.rs, cycle.rs, drop.rs, link.rs and the counter/Weak/consuming-API part of rc.rs",
    "tie to the source: differential run (this check) of the model extracted to OCaml (ExtrOcamlBasic only: bool, option, unit, list, prod, sumbool mapped to OCaml types; nat, N, positive stay Coq datatypes) against the harness built from /repo's working tree with --cfg cactusref_verif",
    "second tie, by translation: tools/rs2v.py regenerates on every run (a) the counter protocol (trait RcInnerPtr of src/rc.rs) as Gallina, gen/CountersProofs.v proves the model's counter functions equal to it for counters below usize::MAX - 1 (C04, C05, C06, C16); (b) adopt_unchecked/unadopt of src/adopt.rs as a command list whose meaning is gen/AdoptLang.v, gen/AdoptProofs.v proves heap effect = model's adopt/unadopt and borrow events = Proofs/Borrow.v's (C08, C10); (c) the per-entry body of cycle_refs and the external-owner predicate of orphaned_cycle (src/cycle.rs), gen/CycleProofs.v proves them equal to the model's visit_entries and sgt, the loop skeleton being matched textually (C01, C03, C13, C15); (d) the dispatch of Rc::drop (src/drop.rs) as a decision list, gen/DropProofs.v proves it equal to the model's drop_strong (C01, C02, C03, C14); (e) the tree of effect markers of drop_unreachable, drop_unreachable_with_adoptions, drop_cycle, release_links, gen/EffectsProofs.v equates them with the trees the model's frames implement (a structured census: C02, C04, C05, C10, C11, C12); (g) the count observers, clone, downgrade and Weak::upgrade of src/rc.rs, gen/HandlesProofs.v proves them equal to what the model's actions return and do (C05, C06, C16); (h) the purge loops and phase one of drop_cycle of src/drop.rs, gen/PurgeProofs.v and gen/BustProofs.v prove them equal to the model's purge_loop and bust_one (C01, C02, C06, C08, C12, C13); (f) Links::insert / Links::remove of src/link.rs, gen/LinksProofs.v proves them equal to the model's tbl_insert / tbl_remove (C08, C13, C14); trusted: the translator, its subsets, its reading of checked usize arithmetic and of guard scopes, and that the trait's impls supply the two cells and override nothing; the borrow-site census of C10 (lib/props.py:borrow_census) and the digest census of the untranslated functions of src/rc.rs (lib/props.py:source_census; C05, C06, C07, C12) are purely syntactic source readers",
    "OCaml 4.13.1 compiler, ocaml/driver.ml (line protocol, enumerator, generator), lib/*.py orchestration",
    "Rust harness harness/src/{main,interp}.rs, its global allocator, the verif hooks in /repo (event callback, counters, table snapshot), rustc nightly, hashbrown, std",
    "modelled rather than verified: payload type and its drop order; Rust unwinding rules for Vec/slice/tuple/struct drop glue; no user code inside atomic regions; hashbrown as a finite map with arbitrary stable iteration order, allocating at first insert and never shrinking; RefCell borrow scopes; abort as process termination; counter overflow near 2^64 excluded; address identity; everything in rc.rs that merely delegates to T or to layout computations",
]

COMMON_ASSUMPTIONS = [
    "the theorem is about the model; the correspondence check bounds how well the model is the code (history generators and small-scope enumeration are sampling, not proof)",
    "usize counters are modelled as unbounded N; the 2^64 overflow branches of inc_strong/inc_weak are not in the machine model (gen/CountersProofs.v states what the source does at the limit: inc_strong_at_the_limit)",
]

CORE = ["corpus", "bfs_c3", "bfs_c2", "shp4", "shp3", "shp5", "rand_cw", "rand_cwf", "mult"]
API = ["bfs_a", "rand_cwa", "rt_cwa"]     # the handle-consuming API inside adoption graphs (make_mut drops a handle too)
DISC_ONLY = {"C01", "C02", "C03", "C05", "C06"}

PROPS = {
    "C01": dict(statement_status="PROVED in full for the modelled language (new/clone/drop/adopt/unadopt/downgrade/upgrade/store/take, the consuming API, destructor scripts, panics), every history length, graph shape and choice oracle: run_history_from_init (no fault; Inv at every boundary), reachable_alive (everything reachable from held handles is alive, in every configuration), group_inv (orphan test sound under discipline of the traced set only). Precondition as a checked hypothesis: hist_ok = discipline when drop logic starts + act_safe for scripts. 'Original value' (pid = box index) is PidInv (pi_home).", streams=CORE + ["rand_cws"] + API, fields={"kind", "Dset", "strong", "tables"},
                oracles={"C01"}),
    "C02": dict(statement_status="PROVED for the access protocol: step_inv/steps_no_fault (the only halt of a disciplined run is the abort of C16: no access to a released box, moved-out table or value), freed_iff (released exactly when unneeded, hence once), drop_dead_inv (inert handles). Destructor at most once: PidInv (dtor log NoDup) for every run. Released allocations are frozen: steps_heap_ext / run_history_heap_ext (a released box is never written again, identities never reused), run_history_freed_mono (released at most once, unconditionally). Partial by nature: compiler-level UB (aliasing, hashbrown internals) is outside the model; covered by the harness's shadow-state hook and quarantine allocator only.", streams=CORE + ["bfs_w", "rand_cws", "rand_cwk"] + API, fields={"kind", "Dset", "freed", "live"},
                oracles={"C02", "fault"}),
    "C03": dict(statement_status="PROVED: live_has_handle (nothing alive without a handle, every configuration), drop_last_inv (last drop destroys now), group_inv (collected set = whole traced set), run_terminates/exec_op_returns (every call returns, explicit fuel bound), orphan_complete (Inv/OrphanComplete.v: an orphaned set passes the test) when present. REFUTED for Loopback-recorded self handles: C03_loopback_refuted (known finding D3).", streams=CORE + ["rand_cws"] + API, fields={"kind", "Dset", "strong", "tables", "T"},
                oracles={"C03"}),
    "C04": dict(statement_status="PROVED at the level of allocation events (box released, table storage dropped = links None, value dropped): destroyed_released, freed_iff, and every teardown path inside step_inv. Partial by nature: bytes and the allocator are not modelled; the harness's counting allocator covers them.", streams=["corpus", "bfs_c2", "bfs_w", "rand_cwf", "rand_cwsf", "rand_cwa"],
                fields={"kind", "freed", "live"}, oracles={"C04"}),
    "C05": dict(statement_status="PROVED in every configuration incl. inside destructors of a group teardown: upgrade_iff_alive, weak_counts_dead, weak_target_allocated; all members dead before any destructor runs (group_inv: group_heap).", streams=["corpus", "bfs_w", "bfs_n", "rand_cw", "rand_cwf", "rand_cws", "rand_cwk", "rand_cwa", "rand_n", "rt_cwa", "rt_cws", "rt_n"],
                fields={"kind", "res", "obs", "freed", "weak"}, oracles={"C05"}),
    "C06": dict(statement_status="PROVED: counts_exact / strong_count_exact at call boundaries, ci_strong/ci_weak in every configuration (census over registers, values, frames), adopt/unadopt change no counter (adopt_spec, unadopt_spec). Identity: Inv/AddrInv.v adds addresses that the allocator may reuse (alloc_ok contract as a hypothesis): allocations that have not been released keep pairwise distinct addresses along every run (asteps_addr_inj, run_history_addr_inj), everything a program, script, frame or table can name is such an allocation, so ptr_eq by address = identity by id (ptr_eq_exact, act_ptr_eq_by_address, weak_ptr_eq_exact, weak_strong_ptr_eq_exact; reuse_is_possible shows the hypothesis is needed). The address arithmetic of as_ptr/into_raw/from_raw/is_dangling/Weak::new is translated from rc.rs and proved (gen/RawPtrProofs.v: round trips for every layout, as_ptr injective, sentinel never a payload address).", streams=CORE + ["bfs_w", "rand_cws"] + API, fields={"kind", "obs", "strong", "weak", "res"},
                oracles={"C06"}),
    "C07": dict(statement_status="PROVED: noadopt_is_std_exact (Proofs/StdRefine.v): for every adoption-free history over the modelled API, scripts and panics included, the machine and the specification StdRc (Proofs/StdRc.v) yield the same outcomes, destructor sequence and states. StdRc itself is tied to the real std::rc by the three-way differential run. Raw-pointer round trips, Weak::new's sentinel and ptr_eq: translated and proved (gen/RawPtrProofs.v). Not modelled: comparison/formatting/hashing, From<T>/From<Box<T>>, Default, Pin (delegations to T; source census + glue run).", streams=["corpus", "bfs_n", "rand_n", "rand_np", "rt_n"],
                fields={"kind", "res", "Dseq", "Dset", "obs", "strong", "weak", "freed", "live"},
                oracles={"C05", "C06", "C01", "C02", "fault", "C10"}, noadopt_only=True),
    "C08": dict(statement_status="PROVED: tables_consistent (wf, symmetric, both ends alive, Loopback = self) in every configuration; adopt_spec / unadopt_counts (exact deltas, saturating); release_links_TblInv / purge_dying_TblInv (records of a dying object disappear). The ledger form (records change ONLY by adopt/unadopt or death) is the frame theorem of Inv/TablesFrame.v when present.", streams=CORE + ["rand_cwa", "rand_cwo"], fields={"kind", "tables"}, oracles={"C08"}),
    "C09": dict(statement_status="PROVED at the atomic-function level and for Rc::drop as a whole: cycle_refs_perm, orphaned_cycle_perm, drop_strong_perm (two table orders and two oracles), drop_cycle_oracle_indep; plus every Inv theorem quantifies over the oracle. WHOLE RUNS (Proofs/Determ.v): for fully recorded, scriptless programs (rec_hist) two executions of the same calls under arbitrary oracles, fuels and table orders return the same results and end in the same heap up to table order, same registers, same destructor runs and released tables up to order (run_history_oracle_independent, run_history_table_order_independent, per call: exec_op_oracle_independent). With destructor scripts the order inside a group is observable by the scripts themselves and no such statement is claimed. Addresses: table_keys_distinct_addresses / table_key_vs_owner (Inv/AddrInv.v): under any address assignment within the allocator's contract, keys of the tables have equal addresses iff equal ids, so the id-keyed tables of the model are the address-keyed tables of the implementation for every layout.", streams=["corpus", "shp4", "shp3", "rand_cwf"], fields={"kind", "Dset", "strong", "weak", "obs"}, oracles=set()),
    "C10": dict(statement_status="PROVED: act_inv (every action incl. nested collections from destructors preserves Inv under act_safe), steps_inv / steps_no_fault (Inv at every re-entry point). The RefCell protocol is an annotation layer (Proofs/Borrow.v, hand transcription of which table is borrowed where): no_borrow_across_user_code / no_borrow_conflict_in_history (conflict free, balanced; negative controls show the skip test and the explicit drop(links) are what avoid the panic); the harness's unexpected-panic oracle ties it to the code.", streams=["corpus", "rand_cws", "rand_cwsf", "rt_cws"],
                fields={"kind", "Dset", "strong", "weak", "tables", "freed", "res", "obs", "live"},
                oracles={"C10", "C01", "C02", "C03", "C05", "C06", "fault"}),
    "C11": dict(statement_status="PROVED: unwind_inv, run_inv with panics at any position, run_unw (the panic propagates), step_double_panic (second panic aborts), exec_op_inv (Inv after a panicked call), freed_iff with n_leak (leaked, never released twice). Rust's unwinding rules for Vec/slice/struct drop glue are modelled, not verified.", streams=["corpus", "rand_cwsp", "rand_np"],
                fields={"kind", "Dset", "strong", "weak", "freed", "obs"},
                oracles={"C01", "C02", "C05", "C06", "fault"}),
    "C12": dict(statement_status="PROVED: try_unwrap_strict, make_mut_strict (all branches; cannot fault or abort), act_get_mut/into_raw/from_raw/inc_strong/dec_strong, release_links_TblInv (peers unlinked), run_history_inv from any Inv state (later histories). The pointer arithmetic of into_raw/from_raw (Rc and Weak) is translated and proved a round trip for every layout and address (gen/RawPtrProofs.v).", streams=["corpus", "bfs_a", "bfs_n", "rand_cwa", "rand_n", "rt_cwa", "rt_n"],
                fields={"kind", "tables", "res", "Dset", "freed", "live", "strong", "weak", "obs"},
                oracles={"C08", "C02", "C01", "fault"}),
    "C13": dict(statement_status="Full statement REFUTED: C13_refuted (known finding D4: taken-out handle kept alive). PROVED part: drop_strong_inv/step_inv under traced_disc: stale records are harmless unless a trace visits an object carrying one; a dying adoptee purges stale records.", streams=["corpus", "rand_cwe", "rand_cwea", "rand_cwo", "bfs_c2", "bfs_a", "mult", "mult_e"], fields={"kind", "Dset", "strong", "tables"},
                oracles={"C13", "C01", "C02", "fault"}),
    "C14": dict(statement_status="PROVED: drop_unadopted_no_trace, clone_no_trace, tbl_empty_iff (fully unadopted = empty table), noadopt_program_never_traces, drop_strong_fast. Partial by nature: allocation sites of the trace containers are not modelled beyond 'no trace runs'; the harness's allocation counter covers them.", streams=CORE + ["rand_cws"], fields={"kind", "T"}, oracles={"C14"}),
    "C15": dict(statement_status="PROVED: cycle_refs_spec (each object visited once), cycle_refs_total_cost (pops <= 1 + records, visits <= objects, always terminates), closed_group_teardown_bounded (stack <= entry + 5 frames for any group size; linear step count), run_fuel_bound. Partial by nature: native stack bytes and wall time are runtime facts (ring measurements are supporting evidence only).", streams=["corpus", "bfs_c2", "rand_cw"], fields={"kind", "T"}, oracles=set()),
    "C16": dict(statement_status="PROVED: clone_dead_aborts, incs_dead_aborts, drop_dead_inv (no effect, allocation not yet released), group_inv (all members carry the uninit marker before any destructor runs), inv_top_token (a frame-owned handle never targets a released allocation).", streams=["corpus", "rand_cwk"], fields={"kind"}, oracles=set()),
}


def classify(pid, cfg, p, sname):
    """'ignore' | 'known' | 'oracle' (concrete failing input) | 'tie' (model and code disagree)"""
    if p.get("esc") == "1":
        return "ignore"     # a destructor moved a handle to a dying peer out: outside every property (DESIGN 11)
    if cfg.get("noadopt_only") and re.search(r"\b(adopt|unadopt)\b", p.get("line", "")):
        return "ignore"
    t = p["type"]
    if t == "oracle":
        tag = p["oracle"].split(":")[0]
        if tag not in cfg["oracles"]:
            return "ignore"
        if tag == "C03" and "loopback" in p["oracle"]:
            return "known" if pid == "C03" else "ignore"
        if pid == "C13":
            return "known" if p["d4"] == "1" else "oracle"
        # inside the precondition: by the harness's own ledger (disc), or because the model says the
        # hypotheses of the safety theorems hold at every step of the history (hyp)
        if tag in DISC_ONLY and p["disc"] != "1" and p.get("hyp") != "1":
            return "ignore"
        if tag == "C13":
            return "ignore"
        if tag == "C08" and p["d4"] == "1":
            return "ignore"
        return "oracle"
    if t == "fault":
        if "fault" not in cfg["oracles"]:
            return "ignore"
        if pid == "C13":
            return "known" if p["d4"] == "1" else "oracle"
        return "oracle" if (p["disc"] == "1" or p.get("hyp") == "1") else "ignore"
    if t == "diff":
        if pid == "C16" and p.get("model") == "abort" and p.get("impl") not in (None, "<missing>") \
                and p.get("d4", "0") != "1" and (p["disc"] == "1" or p.get("hyp") == "1"):
            # the model (clone_dead_aborts is a theorem about it) says this call clones a handle to a
            # destroyed object and the process ends here; the implementation printed a result for the call:
            # it did not abort. A concrete failing input for C16 itself, not only a disagreement.
            return "oracle"
        fields = set(p["fields"])
        d4i = p.get("d4_idx")
        if d4i is not None and p.get("first_by_field"):
            # the call d4i destroyed an object the program can still reach (known finding D4, outside
            # every precondition): from the next call on the program works with a dangling handle and
            # what happens depends on hash iteration order and memory reuse -- only differences up to
            # and including that call are a statement about the model (DESIGN 12.9)
            fb = p["first_by_field"]
            fields = {f for f in fields if isinstance(fb.get(f), int) and fb[f] <= d4i}
        return "tie" if fields & cfg["fields"] else "ignore"
    return "ignore"


# ------------------------------------------------------------- extra checks
def _cached(key, fn):
    path = os.path.join(S.CACHE, "%s-%s.json" % (S.tree_hash(), key))
    if os.path.exists(path):
        try:
            return json.load(open(path))
        except Exception:
            pass
    r = fn()
    json.dump(r, open(path + ".tmp", "w"))
    os.replace(path + ".tmp", path)
    return r


def _lines_of(name, tier, seed):
    got = S.stream_lines(name, tier, seed)
    return [l for l in (got[0] if isinstance(got, tuple) else got) if l.strip()]


def c07_std(tier, seed):
    """the same adoption-free programs on std::rc::{Rc,Weak} and on cactusref"""
    lines = []
    for name in ("corpus", "bfs_n", "rand_n", "rand_np", "rt_n"):
        lines += [l for l in _lines_of(name, tier, seed) if not re.search(r"\b(adopt|unadopt)\b", l)]
    a = P.run_impl(lines, mode="run")
    b = P.run_impl(lines, mode="std")
    hits = []
    proj = ("kind", "res", "Dseq", "Dset", "obs")
    n_lines = 0
    for l in lines:
        hid = l.split("|", 1)[0]
        ra, rb = a.get(hid), b.get(hid)
        if ra is None or rb is None:
            continue
        la = [P.parse_line(x) for x in ra["lines"]]
        lb = {r["idx"]: r for r in (P.parse_line(x) for x in rb["lines"])}
        bad = None
        for x in la:
            y = lb.get(x["idx"])
            n_lines += 1
            if y is None:
                bad = (x["idx"], {"kind"}, x["out"], "<missing on std>")
                break
            f = P.diff_fields(x, y) & set(proj)
            if f:
                bad = (x["idx"], f, ra["lines"][la.index(x)], [z for z in rb["lines"] if z.startswith(str(x["idx"]) + " ")][0])
                break
        if bad is None and bool(ra.get("crash")) != bool(rb.get("crash")):
            bad = ("crash", {"kind"}, str(ra.get("crash")), str(rb.get("crash")))
        if bad:
            hits.append({"type": "diff", "hid": hid, "line": l, "idx": bad[0], "fields": sorted(bad[1]),
                         "oracle": "C07:differs-from-std:" + ",".join(sorted(bad[1])),
                         "cactusref": bad[2], "std": bad[3], "disc": "1", "d4": "0", "shrinkable": False})
    return {"programs": len(lines), "lines_compared": n_lines, "hits": hits[:30], "n_hits": len(hits)}


def c09_layouts(tier, seed):
    """same fully-recorded histories under several heap layouts"""
    n_hist, n_lay = (400, 4) if tier == "quick" else (4000, 24)
    shp = _lines_of("shp4", tier, seed)
    lines = [l for l in _lines_of("rand_cwf", tier, seed)][:n_hist] + \
            [l for l in S.corpus_lines() if "|A|" in l][:300] + \
            shp[::(8 if tier == "quick" else 4)]          # every fully recorded 4-object shape, one order
    base = P.run_impl(lines, pad=0)
    hits = []
    digests = 0
    for k in range(1, n_lay + 1):
        other = P.run_impl(lines, pad=7919 * k + seed)
        for l in lines:
            hid = l.split("|", 1)[0]
            ra, rb = base.get(hid), other.get(hid)
            if ra is None or rb is None:
                continue
            la = [P.parse_line(x) for x in ra["lines"]]
            lb = {r["idx"]: r for r in (P.parse_line(x) for x in rb["lines"])}
            for x in la:
                y = lb.get(x["idx"])
                digests += 1
                f = (P.diff_fields(x, y) if y is not None else {"kind"}) - {"Dseq"}
                if f:
                    hits.append({"type": "oracle", "hid": hid, "line": l, "idx": x["idx"],
                                 "oracle": "C09:layout-dependent:" + ",".join(sorted(f)) + ":pad=%d" % (7919 * k + seed),
                                 "disc": "1", "d4": "0", "shrinkable": False})
                    break
    return {"histories": len(lines), "layouts": n_lay + 1, "op_digests_compared": digests,
            "hits": hits[:20], "n_hits": len(hits)}


def _c15_cmd(shape, n):
    if shape[0] == "ring":
        return [P.HARNESS, "ring", str(n), str(shape[1]), str(128 * 1024)]
    return [P.HARNESS, shape[0], str(n), str(128 * 1024)]


def _c15_edges(shape, n):
    if shape[0] == "ring":
        return n * (1 + shape[1])
    leaves = sum(1 for i in range(1, n) if 3 * i + 1 >= n)
    return (n - 1) + leaves


def _c15_run(shape, n):
    import resource
    c0 = resource.getrusage(resource.RUSAGE_CHILDREN)
    try:
        p = subprocess.run(_c15_cmd(shape, n), stdout=subprocess.PIPE, stderr=subprocess.PIPE, timeout=600)
        out = p.stdout.decode().strip()
        rc = p.returncode
    except subprocess.TimeoutExpired:
        out, rc = "timeout", "timeout"
    c1 = resource.getrusage(resource.RUSAGE_CHILDREN)
    # CPU time of the child (build + teardown), in microseconds: immune to scheduling noise
    cpu = int(((c1.ru_utime - c0.ru_utime) + (c1.ru_stime - c0.ru_stime)) * 1e6)
    return out, rc, cpu


def _c15_irefs(shape, n):
    """instructions executed by the harness on this shape (build + the one drop that collects it), counted
    by valgrind's cachegrind with the cache simulation off: deterministic up to the hash seeds, so work
    that is superlinear in the number of objects shows as a ratio above the size ratio"""
    import shutil
    if not shutil.which("valgrind"):
        return None
    try:
        p = subprocess.run(["valgrind", "--tool=cachegrind", "--cache-sim=no", "--cachegrind-out-file=/dev/null"]
                           + _c15_cmd(shape, n), stdout=subprocess.PIPE, stderr=subprocess.PIPE, timeout=900)
    except subprocess.TimeoutExpired:
        return -1
    m = re.search(r"I\s+refs:\s+([\d,]+)", p.stderr.decode(errors="replace"))
    return int(m.group(1).replace(",", "")) if m else None


def c15_rings(tier, seed):
    """C15 on the implementation: three shapes collected by ONE drop on a 128 KiB stack -- a ring, a ring with
    two chords per node (long worklist under a stack discipline) and a ternary tree whose leaves own the root
    (long worklist under a queue discipline) -- and a two-object cycle with n extra outside handles dropped
    one by one (work per trace must not depend on the number of handles). Counters (one trace, every object visited once, pops <= 1 +
    adoptions), constant stack depth, and linear growth of executed instructions and of CPU time."""
    sizes = [10, 100, 1000, 5000, 20000] if tier == "quick" else [10, 100, 1000, 10000, 50000, 200000]
    rows, hits = [], []
    for shape in (("ring", 0), ("ring", 2), ("tree",), ("fan",)):
        name = shape[0]
        chords = shape[1] if shape[0] == "ring" else -1
        label = "%s%s" % (name, (" chords=%d" % chords) if name == "ring" else "")
        depths = []
        for n in sizes:
            out, rc, cpu = _c15_run(shape, n)
            m = dict(re.findall(r"(\w+)=(\S+)", out))
            m["cpu_us"] = str(cpu)
            rows.append({**m, "shape": name, "n": n, "chords": chords, "rc": rc})
            if name == "fan":
                # a two-object cycle with n extra outside handles dropped one by one: n + 1 traces of two
                # objects and two adoptions each; nothing dies before the last handle goes
                ok = (rc == 0 and m.get("destroyed") == "2" and m.get("destroyed_early") == "0"
                      and m.get("traces") == str(n + 1) and m.get("visits") == str(2 * (n + 1))
                      and int(m.get("pops", 10 ** 12)) <= 3 * (n + 1) and m.get("upgrade") == "false")
            else:
                edges = _c15_edges(shape, n)
                ok = (rc == 0 and m.get("destroyed") == str(n) and m.get("visits") == str(n)
                      and m.get("traces") == "1" and int(m.get("pops", 10 ** 12)) <= 1 + edges
                      and m.get("upgrade") == "false")
            if ok:
                depths.append(int(m["depth"]))
            else:
                hits.append({"type": "oracle", "hid": name, "line": "%s n=%d on a 128 KiB stack" % (label, n),
                             "idx": 0, "oracle": "C15:%s-not-reclaimed-linearly:%s" % (name, out.replace(" ", ",")),
                             "disc": "1", "d4": "0", "shrinkable": False})
        ok_rows = {r["n"]: r for r in rows if r.get("shape") == name and r.get("chords") == chords
                   and r.get("rc") == 0 and r.get("cpu_us") and "n" in r}
        big = [n for n in sizes if n in ok_rows]
        if len(big) >= 2 and big[-2] >= 1000:
            n1, n2 = big[-2], big[-1]
            # (a) executed instructions must grow linearly with objects + adoptions (quadratic work shows
            # as the square of the size ratio; the margin of 1.25 absorbs hash-seed and allocator noise)
            i1, i2 = _c15_irefs(shape, n1), _c15_irefs(shape, n2)
            if i1 and i2 and i1 > 0:
                ilimit = 1.25 * (n2 / n1)
                iratio = (i2 / i1) if i2 > 0 else float("inf")
                rows.append({"shape": "instruction-linearity", "of": label, "n1": n1, "n2": n2, "irefs1": i1,
                             "irefs2": i2, "ratio": round(iratio, 3) if i2 > 0 else "timeout", "limit": ilimit})
                if iratio > ilimit:
                    hits.append({"type": "oracle", "hid": name, "line": "%s sizes %d -> %d" % (label, n1, n2), "idx": 0,
                                 "oracle": "C15:superlinear-instruction-count:%d->%d" % (i1, i2), "disc": "1",
                                 "d4": "0", "shrinkable": False})
            else:
                rows.append({"shape": "instruction-linearity", "of": label, "skipped": "valgrind unavailable"})

            # (b) CPU time: a ratio of the same machine's timings, best of three
            def best(n, first):
                ts = [int(first)]
                for _ in range(2):
                    _o, _rc, cpu = _c15_run(shape, n)
                    if _rc == 0:
                        ts.append(cpu)
                return max(1, min(ts))
            t1, t2 = int(ok_rows[n1]["cpu_us"]), int(ok_rows[n2]["cpu_us"])
            limit = 3.0 * (n2 / n1)
            if t2 / max(t1, 1) > limit:
                t1, t2 = best(n1, t1), best(n2, t2)
            rows.append({"shape": "time-linearity", "of": label, "n1": n1, "n2": n2, "us1": t1, "us2": t2,
                         "ratio": round(t2 / max(t1, 1), 2), "limit": limit})
            # the timing verdict is used only when instructions could not be counted (no valgrind): with
            # the deterministic count available it is recorded as supporting data, since cache and load
            # effects make it the noisier of the two measurements of the same quantity
            counted = bool(i1 and i2 and i1 > 0)
            if not counted and t2 / max(t1, 1) > limit and t2 > 300000:
                hits.append({"type": "oracle", "hid": name, "line": "%s sizes %d -> %d" % (label, n1, n2), "idx": 0,
                             "oracle": "C15:superlinear-cpu-time:%dus->%dus" % (t1, t2), "disc": "1", "d4": "0", "shrinkable": False})
        if depths and max(depths) > min(depths) + 1024:
            hits.append({"type": "oracle", "hid": name, "line": "%s sizes %s" % (label, sizes), "idx": 0,
                         "oracle": "C15:stack-depth-grows-with-N:%s" % depths, "disc": "1", "d4": "0", "shrinkable": False})
    return {"rows": rows, "hits": hits}


def glue_run():
    """the delegating API surface (comparison, hashing, formatting, conversions, identity, Weak raw round
    trips, Default, Pin, Borrow/AsRef) computed on cactusref and on std::rc by the harness, side by side"""
    try:
        p = subprocess.run([P.HARNESS, "glue"], stdout=subprocess.PIPE, stderr=subprocess.PIPE, timeout=120)
        out = p.stdout.decode(errors="replace")
        rc = p.returncode
    except subprocess.TimeoutExpired:
        out, rc = "", "timeout"
    diffs = [l for l in out.split("\n") if l.startswith("GLUEDIFF")]
    m = re.search(r"GLUE lines=(\d+) differences=(\d+)", out)
    hits = []
    if rc != 0 or not m:
        hits.append({"type": "oracle", "hid": "glue", "line": "crharness glue", "idx": 0,
                     "oracle": "C07:glue-run-failed:rc=%s" % rc, "disc": "1", "d4": "0", "shrinkable": False})
    for d in diffs[:10]:
        hits.append({"type": "oracle", "hid": "glue", "line": d, "idx": 0,
                     "oracle": "C07:glue-differs-from-std:" + d.split(" ", 2)[1], "disc": "1", "d4": "0",
                     "shrinkable": False})
    return {"lines": int(m.group(1)) if m else 0, "differences": len(diffs), "hits": hits, "sample": out.split("\n")[:0]}


def _fault_free_histories(lines):
    """histories inside the preconditions, decided by the ordinary build (quarantine on, so that a history
    with a dangling handle runs to its end and prints its flags): disciplined, nothing reachable destroyed,
    no escaped handle, no fault in the model -- not even in the observers after the last call"""
    base = P.differential(lines)
    elig = []
    for l in lines:
        r = base.get(l.split("|", 1)[0])
        if not r or r["diff"] or r["halt"] is not None or r["impl"].get("crash"):
            continue
        ex = {}
        for ln in r["impl"]["lines"]:
            ex = P.parse_line(ln)["extra"] or ex
        if ex.get("disc") != "1" or ex.get("d4", "0") != "0" or ex.get("esc", "0") != "0":
            continue
        if any(ln.rstrip().endswith("O fault") or " O fault" in ln for ln in r["model"]["lines"]):
            continue
        if any(" abort" in ln or "upanic" in ln for ln in r["impl"]["lines"]):
            continue
        elig.append(l)
    return elig


def miri_second_opinion(tier, seed):
    """thorough tier only: the harness and the implementation interpreted by Miri (cargo +nightly miri,
    Stacked Borrows off: the aliasing model is outside C02's statement; leaks ignored; quarantine off so
    that releases are real): use after free, double free, reads of moved-out / uninitialised storage and
    invalid pointers, with the interpreter's precision, on the fault-free part of the corpus. When Miri
    cannot be run here (no sysroot, unsupported operation) the opinion is recorded as unavailable -- that
    is not a violation."""
    import concurrent.futures
    hd = os.path.join(P.OUT, "work", "miri_harness")
    shutil.rmtree(hd, ignore_errors=True)
    os.makedirs(hd)
    for f in ("Cargo.toml", "rust-toolchain"):
        shutil.copy(os.path.join(P.HARNESS_DIR, f), os.path.join(hd, f))
    shutil.copytree(os.path.join(P.HARNESS_DIR, "src"), os.path.join(hd, "src"))
    for f in ("Cargo.lock",):
        if os.path.exists(os.path.join(P.HARNESS_DIR, f)):
            shutil.copy(os.path.join(P.HARNESS_DIR, f), os.path.join(hd, f))
    env = P.env_offline()
    env["RUSTFLAGS"] = "--cfg cactusref_verif"
    env["MIRIFLAGS"] = "-Zmiri-disable-stacked-borrows -Zmiri-disable-isolation -Zmiri-permissive-provenance -Zmiri-ignore-leaks"
    env["CARGO_TARGET_DIR"] = os.path.join(hd, "target")
    cmd = ["cargo", "+nightly", "miri", "run", "--offline", "--", "run"]

    def run(skip, data, timeout):
        try:
            q = subprocess.run(cmd + [str(skip), "0", "noquarantine"], cwd=hd, env=env, input=data.encode(),
                               stdout=subprocess.PIPE, stderr=subprocess.PIPE, timeout=timeout)
            return q.returncode, q.stdout.decode(errors="replace"), q.stderr.decode(errors="replace")
        except subprocess.TimeoutExpired as e:
            return "timeout", (e.stdout or b"").decode(errors="replace"), ""
    probe = "miri_probe|A|new 0;clone r0 1;drop 0;drop 1\n"
    rc, out, err = run(0, probe, 1500)
    if rc != 0 or "E miri_probe" not in out:
        return {"available": False, "why": (err or out)[-600:], "histories": 0, "hits": [], "n_hits": 0}
    lines = [l for l in S.corpus_lines() if "|A|" in l]
    lines += _lines_of("rand_cws", "quick", seed)[:150] + _lines_of("rand_cwa", "quick", seed)[:150] + \
        _lines_of("rand_cwsp", "quick", seed)[:100]
    elig = _fault_free_histories(lines)
    skipped = len(lines) - len(elig)
    nsh = 16
    shards = [elig[i::nsh] for i in range(nsh)]

    def work(shard):
        found, done, skip = [], 0, 0
        while skip < len(shard):
            rc, out, err = run(0, "\n".join(shard[skip:]) + "\n", 2400)
            ended = [ln[2:] for ln in out.split("\n") if ln.startswith("E ")]
            started = [ln[2:] for ln in out.split("\n") if ln.startswith("H ")]
            done += len(ended)
            if rc == 0:
                break
            bad = started[-1] if started and (not ended or started[-1] != ended[-1]) else None
            if bad is None:
                break
            line = next((l for l in shard if l.split("|", 1)[0] == bad), bad)
            m = re.search(r"error: (Undefined Behavior: [^\n]*|unsupported operation: [^\n]*|[^\n]*)", err)
            inlib = "cactusref::" in err
            found.append((line, (m.group(1) if m else "exit %s" % rc)[:160], inlib, rc))
            skip = [l.split("|", 1)[0] for l in shard].index(bad) + 1
        return found, done
    hits, ran, unsupported = [], 0, 0
    with concurrent.futures.ThreadPoolExecutor(max_workers=nsh) as ex:
        for found, done in ex.map(work, shards):
            ran += done
            for line, what, inlib, rc in found:
                if what.startswith("unsupported operation") or rc == "timeout":
                    unsupported += 1
                    continue
                hits.append({"type": "oracle", "hid": line.split("|", 1)[0], "line": line, "idx": 0,
                             "oracle": "C02:miri:" + what.replace(" ", "_")[:120] + ("" if inlib else ":outside-the-library"),
                             "disc": "1", "d4": "0", "shrinkable": False})
    shutil.rmtree(os.path.join(hd, "target"), ignore_errors=True)
    return {"available": True, "histories": ran, "outside_the_preconditions_skipped": skipped,
            "unsupported_or_timed_out": unsupported, "hits": hits[:20], "n_hits": len(hits)}


def asan_second_opinion(tier, seed):
    """thorough tier only: the implementation rebuilt with AddressSanitizer, quarantine off (real frees),
    on the corpus and a sample of the random streams; every history the model says is fault-free must
    run without a sanitizer report (C02: the hooks' verdict is not the only witness)"""
    hd = P.HARNESS_DIR
    env = P.env_offline()
    env["RUSTFLAGS"] = "-Zsanitizer=address --cfg cactusref_verif"
    env["CARGO_TARGET_DIR"] = os.path.join(hd, "target", "asan")
    p = subprocess.run("cargo +nightly build --offline --target x86_64-unknown-linux-gnu", shell=True, cwd=hd,
                       env=env, stdout=subprocess.PIPE, stderr=subprocess.STDOUT, timeout=1800)
    binp = os.path.join(hd, "target", "asan", "x86_64-unknown-linux-gnu", "debug", "crharness")
    if p.returncode != 0 or not os.path.exists(binp):
        return {"built": False, "log": p.stdout.decode(errors="replace")[-1500:], "histories": 0, "hits": [], "n_hits": 0}
    lines = [l for l in S.corpus_lines() if "|A|" in l]
    for name in ("rand_cws", "rand_cwk", "rand_cwa", "rand_cwsp"):
        lines += _lines_of(name, "quick", seed)[:1500]
    # which of them are inside the preconditions is decided by the ordinary build (quarantine on, so that
    # a history with a dangling handle runs to its end and prints its flags): disciplined, nothing
    # reachable destroyed, no escaped handle, no fault in the model -- not even in the observers that
    # follow the last call ("O fault"). A sanitizer abort hides the flags of the history it kills.
    base = P.differential(lines)
    elig = []
    for l in lines:
        r = base.get(l.split("|", 1)[0])
        if not r or r["diff"] or r["halt"] is not None or r["impl"].get("crash"):
            continue
        ex = {}
        for ln in r["impl"]["lines"]:
            ex = P.parse_line(ln)["extra"] or ex
        if ex.get("disc") != "1" or ex.get("d4", "0") != "0" or ex.get("esc", "0") != "0":
            continue
        if any(ln.rstrip().endswith("O fault") or " O fault" in ln for ln in r["model"]["lines"]):
            continue
        elig.append(l)
    skipped = len(lines) - len(elig)
    lines = elig
    os.environ["ASAN_OPTIONS"] = "detect_leaks=0:abort_on_error=1:handle_abort=0"
    try:
        res = P.differential(lines, harness=binp, noquarantine=True)
    finally:
        os.environ.pop("ASAN_OPTIONS", None)
    hits = []
    crashed = 0
    for hid, r in res.items():
        if r["impl"].get("crash"):
            crashed += 1
        d = r["diff"]
        if d and "kind" in d["fields"] and r["halt"] is None:
            ex = {}
            for ln in r["impl"]["lines"]:
                ex = P.parse_line(ln)["extra"] or ex
            if True:
                hits.append({"type": "oracle", "hid": hid, "line": r["line"], "idx": d["idx"],
                             "oracle": "C02:sanitizer-or-crash-on-fault-free-history:" + str(d["impl"])[:60].replace(" ", "_"),
                             "disc": "1", "d4": "0", "shrinkable": False})
    return {"built": True, "histories": len(lines), "outside_the_preconditions_skipped": skipped,
            "implementation_crashes_or_reports": crashed,
            "hits": hits[:20], "n_hits": len(hits)}



def borrow_census(repo=None):
    """the RefCell borrow sites of the crate, per function, in program order (borrow / borrow_mut / the
    explicit drop(links) / the ptr::eq self tests that guard them): what Proofs/Borrow.v transcribes by hand"""
    repo = repo or P.REPO
    out = {}
    for f in ("adopt.rs", "drop.rs", "cycle.rs", "rc.rs", "link.rs", "hash.rs"):
        try:
            src = open("%s/src/%s" % (repo, f)).read()
        except OSError:
            continue
        cur = None
        for l in src.split("\n"):
            l = re.sub(r"//.*$", "", l)
            m = re.match(r"^\s*(?:pub(?:\([a-z]+\))?\s+)?(?:unsafe\s+)?(?:extern \"C\"\s+)?fn\s+(\w+)", l)
            if m:
                cur = "%s::%s" % (f, m.group(1))
            if cur is None:
                continue
            for t in re.finditer(r"\.borrow_mut\(\)|\.borrow\(\)|drop\(links\)|ptr::eq\(", l):
                out.setdefault(cur, []).append({".borrow_mut()": "mut", ".borrow()": "shr", "drop(links)": "rel",
                                                "ptr::eq(": "eq"}[t.group(0)])
    return out


def c10_census():
    """C10's annotation layer (Proofs/Borrow.v) is a hand transcription of the borrow sites; this re-derives
    the sites from /repo's source on every run and compares them with the census the transcription was
    made from (lib/borrow_census.json). A difference means Borrow.v no longer describes the code."""
    want = json.load(open(os.path.join(P.ROOT, "lib", "borrow_census.json")))
    got = borrow_census()
    ties = []
    for k in sorted(set(want) | set(got)):
        if want.get(k) != got.get(k):
            ties.append({"type": "census", "hid": "borrow-census", "line": k, "idx": 0, "fields": ["borrow-sites"],
                         "model": "Proofs/Borrow.v transcribes %s as %s" % (k, want.get(k)),
                         "impl": "the source now has %s" % (got.get(k),), "stream": "source"})
    return {"functions": len(got), "sites": sum(len(v) for v in got.values()), "ties": ties}



def rawadopt_run():
    """C12 on payloads the history harness does not have (zero-sized, byte, word, 16- and 64-aligned): two nodes
    adopting each other, a strong handle through into_raw / increment / decrement / from_raw, a Weak through
    into_raw / from_raw, get_mut / try_unwrap refused, then both outside handles dropped: the pair is collected.
    The harness compares every step with the values the calls imply (harness/src/rawadopt.rs)."""
    try:
        p = subprocess.run([P.HARNESS, "rawadopt"], stdout=subprocess.PIPE, stderr=subprocess.PIPE, timeout=120)
        out, rc = p.stdout.decode(errors="replace"), p.returncode
    except subprocess.TimeoutExpired:
        out, rc = "", "timeout"
    m = re.search(r"RAWADOPT lines=(\d+) differences=(\d+)", out)
    hits = []
    if rc != 0 or not m:
        hits.append({"type": "oracle", "hid": "rawadopt", "line": "crharness rawadopt", "idx": 0,
                     "oracle": "C12:rawadopt-run-failed:rc=%s" % rc, "disc": "1", "d4": "0", "shrinkable": False})
    for d in [l for l in out.split("\n") if l.startswith("RAWDIFF")][:10]:
        hits.append({"type": "oracle", "hid": "rawadopt", "line": d, "idx": 0,
                     "oracle": "C12:raw-api-on-adopted-object:" + re.sub(r"[^\w=\[\]-]+", "_", d)[:120],
                     "disc": "1", "d4": "0", "shrinkable": False})
    return {"lines": int(m.group(1)) if m else 0, "hits": hits}



# ------------------------------------------------------------------ census of the untranslated functions
CENSUS_FNS = {   # name -> properties whose tie it belongs to (functions of src/rc.rs that tools/rs2v.py does not translate)
    "from_inner": ("C07",), "new_uninit": ("C07",), "pin": ("C07",), "assume_init": ("C07",),
    "into_raw": ("C06", "C07", "C12"), "as_ptr": ("C06", "C07"), "from_raw": ("C06", "C07", "C12"),
    "get_mut": ("C07", "C12"), "get_mut_unchecked": ("C07", "C12"), "ptr_eq": ("C06", "C07"),
    "allocate_for_layout": ("C07",), "from_box": ("C07",), "deref": ("C07",), "default": ("C07",),
    "eq": ("C07",), "ne": ("C07",), "partial_cmp": ("C07",), "lt": ("C07",), "le": ("C07",), "gt": ("C07",),
    "ge": ("C07",), "cmp": ("C07",), "hash": ("C07",), "fmt": ("C07",), "from": ("C07",), "new": ("C07",),
    "inner": ("C05", "C06", "C07"), "is_dangling": ("C05", "C06", "C07"), "borrow": ("C07",), "as_ref": ("C07",),
    "weak_ref": ("C06",), "strong_ref": ("C06",), "data_offset": ("C06", "C07", "C12"), "box_free": ("C07",),
    "from_ptr": ("C07",), "mem_to_rcbox": ("C07",), "try_allocate_for_layout": ("C07",),
}


# functions of src/link.rs that the translator does not cover (the map wrapper and the Link constructors)
LINK_CENSUS_FNS = {"new": ("C08",), "clear": ("C08",), "is_empty": ("C08", "C14"), "iter": ("C08",),
                   "extract_if": ("C08",), "forward": ("C08",), "backward": ("C08",), "loopback": ("C08",),
                   "kind": ("C08",), "as_forward": ("C08",), "as_ptr": ("C08",), "as_ref": ("C08",),
                   "into_raw_non_null": ("C08",), "weak_ref": ("C06",), "strong_ref": ("C06",), "clone": ("C08",)}


def source_census(repo=None):
    """normalised text of every function of src/rc.rs and src/link.rs that the translator does not cover
    (comments, the verif instrumentation and white space removed), keyed by name and occurrence: what the
    glue and raw-API expectations and the model's reading of the map wrapper were written from"""
    repo = repo or P.REPO
    out = {}
    for fname, table, prefix in (("rc.rs", CENSUS_FNS, ""), ("link.rs", LINK_CENSUS_FNS, "link.rs:")):
        out.update(_census_file(repo + "/src/" + fname, table, prefix))
    return out


def _census_file(path, table, prefix):
    src = re.sub(r"//[^\n]*", "", open(path).read())
    src = re.sub(r"#\[cfg\(cactusref_verif\)\]\s*[^;{]*;", "", src)
    out, seen = {}, collections.Counter()
    for m in re.finditer(r"\bfn\s+(\w+)\s*(?:<[^>{]*>)?\s*\(", src):
        name = m.group(1)
        if name not in table:
            continue
        i = src.find("{", m.end())
        semi = src.find(";", m.end())
        if i < 0 or (0 <= semi < i):
            continue                      # a declaration without body
        depth, j = 1, i + 1
        while depth and j < len(src):
            depth += src[j] == "{"
            depth -= src[j] == "}"
            j += 1
        body = "".join(src[m.start():j].split())
        seen[name] += 1
        out["%s%s#%d" % (prefix, name, seen[name])] = hashlib.sha256(body.encode()).hexdigest()[:16]
    return out


def census_ties(pid):
    want = json.load(open(os.path.join(P.ROOT, "lib", "source_census.json")))
    got = source_census()
    ties = []
    def props_of(k):
        nm = k.split("#")[0]
        return LINK_CENSUS_FNS.get(nm[8:], ()) if nm.startswith("link.rs:") else CENSUS_FNS.get(nm, ())
    for k in sorted(set(want) | set(got)):
        if want.get(k) != got.get(k) and pid in props_of(k):
            ties.append({"type": "census", "hid": "source-census", "line": "src fn " + k, "idx": 0,
                         "fields": ["untranslated-source"],
                         "model": "the expectations for this function were written from the text with digest %s" % want.get(k),
                         "impl": "its text now has digest %s" % got.get(k), "stream": "source"})
    return {"functions": len([k for k in got if pid in props_of(k)]), "ties": ties}


def _extra_checks(pid, cfg, tier, seed):
    if pid == "C02" and tier == "thorough":
        r = _cached("asan-%s" % seed, lambda: asan_second_opinion(tier, seed))
        hits = r["hits"]
        if not r.get("built"):
            hits = [{"type": "oracle", "hid": "asan", "line": "cargo +nightly build (ASan)", "idx": 0,
                     "oracle": "C02:asan-build-failed", "disc": "1", "d4": "0", "shrinkable": False}]
        mi = _cached("miri-%s" % seed, lambda: miri_second_opinion(tier, seed))
        return {"oracle_hits": hits + mi["hits"], "evaluations": r["histories"] + mi["histories"], "distinct_nontrivial": 0,
                "evidence": {"asan_second_opinion": {k: r.get(k) for k in ("built", "histories", "outside_the_preconditions_skipped", "implementation_crashes_or_reports", "n_hits")},
                             "miri_second_opinion": {k: mi.get(k) for k in ("available", "why", "histories", "outside_the_preconditions_skipped", "unsupported_or_timed_out", "n_hits")}}}
    if pid == "C12":
        r = _cached("rawadopt", rawadopt_run)
        return {"oracle_hits": r["hits"], "evaluations": r["lines"], "distinct_nontrivial": 0,
                "evidence": {"raw_api_on_adopted_objects_by_payload_layout": {"steps_compared": r["lines"], "failures": len(r["hits"])}}}
    if pid == "C10":
        r = c10_census()
        return {"oracle_hits": [], "tie_breaks": r["ties"], "evaluations": r["sites"], "distinct_nontrivial": 0,
                "evidence": {"borrow_site_census": {"functions": r["functions"], "sites": r["sites"],
                                                    "differences": [t["line"] for t in r["ties"]]}}}
    if pid == "C07":
        r = _cached("c07-%s-%s" % (tier, seed), lambda: c07_std(tier, seed))
        g = _cached("glue", glue_run)
        return {"oracle_hits": r["hits"] + g["hits"], "evaluations": r["programs"] + g["lines"], "distinct_nontrivial": 0,
                "evidence": {"std_comparison": {k: r[k] for k in ("programs", "lines_compared", "n_hits")},
                             "glue_vs_std": {"observations": g["lines"], "differences": g["differences"],
                                             "what": "comparison/ordering incl. NaN, hashing, Display/Debug/Pointer formatting, From<T>, From<Box<T>>, Default, Borrow/AsRef, ptr_eq/as_ptr identity, Weak::ptr_eq/as_ptr/into_raw/from_raw, raw count functions, get_mut/make_mut/try_unwrap on plain values, Pin: not part of the Coq model, compared with std::rc directly"}}}
    if pid == "C06":
        g = _cached("glue", glue_run)
        return {"oracle_hits": [dict(h, oracle=h["oracle"].replace("C07:", "C06:")) for h in g["hits"]
                                if "ptr" in h["line"] or "raw" in h["line"] or "failed" in h["oracle"]],
                "evaluations": g["lines"], "distinct_nontrivial": 0,
                "evidence": {"identity_vs_std": {"observations": g["lines"], "differences": g["differences"]}}}
    if pid == "C09":
        r = _cached("c09-%s-%s" % (tier, seed), lambda: c09_layouts(tier, seed))
        return {"oracle_hits": r["hits"], "evaluations": r["histories"] * r["layouts"], "distinct_nontrivial": 0,
                "evidence": {"layouts": {k: r[k] for k in ("histories", "layouts", "op_digests_compared", "n_hits")}}}
    if pid == "C15":
        r = _cached("c15-%s" % tier, lambda: c15_rings(tier, seed))
        return {"oracle_hits": r["hits"], "evaluations": len(r["rows"]), "distinct_nontrivial": len(r["rows"]),
                "samples": ["%s n=%s chords=%s -> %s" % (x.get("shape"), x["n"], x["chords"], {k: x.get(k) for k in ("destroyed", "traces", "pops", "visits", "depth", "us")}) for x in [y for y in r["rows"] if "n" in y][:3]],
                "evidence": {"rings_and_trees_on_128KiB_stack (supporting measurement, not proof)": r["rows"]}}
    return {}


def extra_checks(pid, cfg, tier, seed):
    """the per-property extra checks, plus the census of the untranslated functions of src/rc.rs for the
    properties whose expectations were written from their text"""
    r = dict(_extra_checks(pid, cfg, tier, seed) or {})
    if os.environ.get("VERIF_NO_STATIC"):       # experiments only (tools/auto_mutants.py): the dynamic tie alone
        r["tie_breaks"] = [t for t in r.get("tie_breaks", []) if t.get("type") != "census"]
        return r
    if pid in ("C05", "C06", "C07", "C08", "C12", "C14"):
        c = census_ties(pid)
        r["tie_breaks"] = list(r.get("tie_breaks", [])) + c["ties"]
        ev = dict(r.get("evidence", {}))
        ev["untranslated_source_census"] = {"functions": c["functions"], "changed": [t["line"] for t in c["ties"]]}
        r["evidence"] = ev
    return r
