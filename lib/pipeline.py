"""Differential pipeline: histories -> implementation harness -> hints ->
extracted model -> field-wise comparison.  (DESIGN 4)"""
import os, re, subprocess, sys, time, hashlib, json, tempfile, shutil
from concurrent.futures import ThreadPoolExecutor

ROOT = os.path.dirname(os.path.dirname(os.path.abspath(__file__)))
# The registered commands always check /repo and write under /verif.  For experiments (tools/seed_par.sh:
# several seeded changes evaluated side by side, each in its own scratch worktree) VERIF_REPO names another
# checkout of the crate and VERIF_OUT the directory that receives that instance's harness build, evidence
# and replays; caches are shared, being keyed by a hash of the sources.
REPO = os.environ.get("VERIF_REPO", "/repo")
OUT = os.environ.get("VERIF_OUT") or ROOT
HARNESS_DIR = os.path.join(OUT, "harness")
HARNESS = os.path.join(HARNESS_DIR, "target", "debug", "crharness")
DRIVER = os.path.join(ROOT, "ocaml", "driver")
WORK = os.path.join(ROOT, "work")


def prepare_instance():
    """OUT != ROOT: a copy of harness/ whose dependency points at REPO"""
    if OUT == ROOT:
        return
    src = os.path.join(ROOT, "harness")
    os.makedirs(os.path.join(HARNESS_DIR, "src"), exist_ok=True)
    os.makedirs(os.path.join(HARNESS_DIR, ".cargo"), exist_ok=True)
    for f in os.listdir(os.path.join(src, "src")):
        a, b = os.path.join(src, "src", f), os.path.join(HARNESS_DIR, "src", f)
        if not os.path.exists(b) or open(a, "rb").read() != open(b, "rb").read():
            shutil.copy(a, b)
    shutil.copy(os.path.join(src, ".cargo", "config.toml"), os.path.join(HARNESS_DIR, ".cargo", "config.toml"))
    toml = open(os.path.join(src, "Cargo.toml")).read().replace('path = "/repo"', 'path = "%s"' % REPO)
    tp = os.path.join(HARNESS_DIR, "Cargo.toml")
    if not os.path.exists(tp) or open(tp).read() != toml:
        open(tp, "w").write(toml)
    for f in ("rust-toolchain",):
        if os.path.exists(os.path.join(REPO, f)):
            shutil.copy(os.path.join(REPO, f), os.path.join(HARNESS_DIR, f))
NPROC = min(16, os.cpu_count() or 4)

os.makedirs(WORK, exist_ok=True)


def env_offline():
    e = dict(os.environ)
    e["CARGO_NET_OFFLINE"] = "true"
    return e


# ----------------------------------------------------------------- impl side
def _run_impl_chunk(lines, mode="run", pad=0, timeout=120, noquarantine=False, harness=None):
    """Run one chunk of history lines; survive crashes of the harness process.
    Returns dict id -> {'lines': [...], 'crash': None|str}"""
    harness = harness or HARNESS
    res = {}
    ids = [l.split("|", 1)[0] for l in lines]
    skip = 0
    data = ("\n".join(lines) + "\n").encode()
    guard = 0
    while skip < len(lines):
        guard += 1
        args = [harness, mode, str(skip), str(pad)] + (["noquarantine"] if noquarantine else [])
        t0 = time.time()
        try:
            p = subprocess.run(args, input=data, stdout=subprocess.PIPE, stderr=subprocess.PIPE,
                               timeout=timeout)
            rc, out = p.returncode, p.stdout.decode(errors="replace")
            err = p.stderr.decode(errors="replace")
        except subprocess.TimeoutExpired as e:
            rc, out = "timeout", (e.stdout or b"").decode(errors="replace")
            err = ""
        cur = None
        done = set()
        for ln in out.split("\n"):
            if ln.startswith("H "):
                cur = ln[2:]
                res[cur] = {"lines": [], "crash": None, "live": None}
            elif ln.startswith("E "):
                done.add(ln[2:])
                cur = None
            elif ln.startswith("F ") and cur is not None:
                res[cur]["live"] = ln[2:]
            elif ln.startswith("G ") and cur is not None:
                # verdict of the harness on the final state (C04: memory still held after everything died)
                res[cur]["final"] = dict(x.split("=", 1) for x in ln[2:].split() if "=" in x)
            elif ln.startswith("A ") and cur is not None:
                # written by the harness's signal handler when the library aborts the process: the call
                # and the destructors started in it so far (the model's choice oracle for that call)
                t = ln.split()
                if len(t) >= 2 and t[1].isdigit():
                    order = t[2] if len(t) > 2 and re.match(r"^[\d,]+$", t[2]) else ""
                    res[cur]["abort_order"] = (int(t[1]), order)
                    res[cur]["abort_flags"] = dict(x.split("=", 1) for x in t[2:] if "=" in x)
            elif cur is not None and ln:
                res[cur]["lines"].append(ln)
        if rc == 0:
            break
        # the harness died (abort, signal, timeout) inside history `cur`
        if cur is None:
            # died outside a history: find the first id without a result
            nxt = next((i for i in range(skip, len(ids)) if ids[i] not in res), None)
            if nxt is None:
                break
            res[ids[nxt]] = {"lines": [], "crash": "rc=%s %s" % (rc, err[-200:]), "live": None}
            skip = nxt + 1
        else:
            res[cur]["crash"] = "rc=%s" % (rc,)
            skip = ids.index(cur, skip) + 1
        if guard > len(lines) + 5:
            break
    return res


def run_impl(lines, mode="run", pad=0, chunk=None, timeout=300, noquarantine=False, harness=None):
    if not lines:
        return {}
    chunk = chunk or max(50, min(4000, (len(lines) + NPROC - 1) // NPROC))
    chunks = [lines[i:i + chunk] for i in range(0, len(lines), chunk)]
    out = {}
    with ThreadPoolExecutor(max_workers=NPROC) as ex:
        for r in ex.map(lambda c: _run_impl_chunk(c, mode, pad, timeout, noquarantine, harness), chunks):
            out.update(r)
    return out


# ---------------------------------------------------------------- model side
def add_hints(line, impl_rec):
    """attach the implementation's per-call destructor order as the model's
    choice oracle (DESIGN 3.4)"""
    if impl_rec is None:
        return line
    hid, mode, body = line.split("|", 2)
    ops = [o.strip() for o in body.split(";") if o.strip()]
    hints = {}
    for ln in impl_rec["lines"]:
        m = re.match(r"^(\d+) (?:\S+ )?D([\d,]+)", ln) or re.match(r"^(\d+) fault .* order=([\d,]+)", ln)
        if m:
            hints[int(m.group(1))] = m.group(2)
    ao = impl_rec.get("abort_order")
    if ao and ao[1]:
        hints[ao[0]] = ao[1]
    if not hints:
        return line
    ops = [(o + "@" + hints[i]) if i in hints and "@" not in o else o for i, o in enumerate(ops)]
    return "%s|%s|%s" % (hid, mode, ";".join(ops))


def _run_model_chunk(lines):
    p = subprocess.run([DRIVER, "run"], input=("\n".join(lines) + "\n").encode(),
                       stdout=subprocess.PIPE, stderr=subprocess.PIPE, timeout=1200)
    if p.returncode != 0:
        raise RuntimeError("model driver failed: " + p.stderr.decode()[-500:])
    res = {}
    cur = None
    for ln in p.stdout.decode().split("\n"):
        if ln.startswith("H "):
            cur = ln[2:]
            res[cur] = {"lines": [], "live": None}
        elif ln.startswith("E "):
            cur = None
        elif ln.startswith("F ") and cur is not None:
            res[cur]["live"] = ln[2:]
        elif cur is not None and ln:
            res[cur]["lines"].append(ln)
    return res


def run_model(lines, chunk=None):
    if not lines:
        return {}
    chunk = chunk or max(50, (len(lines) + NPROC - 1) // NPROC)
    chunks = [lines[i:i + chunk] for i in range(0, len(lines), chunk)]
    out = {}
    with ThreadPoolExecutor(max_workers=NPROC) as ex:
        for r in ex.map(_run_model_chunk, chunks):
            out.update(r)
    return out


def _run_inv_chunk(lines):
    p = subprocess.run([DRIVER, "inv"], input=("\n".join(lines) + "\n").encode(),
                       stdout=subprocess.PIPE, stderr=subprocess.PIPE, timeout=1800)
    out = {"histories": 0, "configs": 0, "cut": 0, "violations": 0, "bad": [], "cov": {}, "cut_ids": {}}
    for ln in p.stdout.decode().split("\n"):
        if ln.startswith("INVSUMMARY"):
            m = dict(re.findall(r"(\w+)=(\d+)", ln))
            out["histories"] = int(m["histories"]); out["configs"] = int(m["configs"])
            out["cut"] = int(m["cut_by_hypothesis"]); out["violations"] = int(m["violations"])
        elif ln.startswith("COV "):
            _, k, v = ln.split(" ", 2)
            out["cov"][k] = out["cov"].get(k, 0) + int(v)
        elif ln.startswith("CUT "):
            _, hid, idx = ln.split(" ", 2)
            out["cut_ids"][hid] = int(idx)
        elif ln.startswith("INV "):
            out["bad"].append(ln)
    if p.returncode != 0:
        out["bad"].append("driver inv failed: " + p.stderr.decode()[-300:])
        out["violations"] += 1
    return out


def run_inv(lines):
    """step-level run of the model on (hinted) history lines: the executable mirror of the proved
    invariant on every configuration under the theorems' hypotheses, and which machine branches ran"""
    if not lines:
        return {"histories": 0, "configs": 0, "cut": 0, "violations": 0, "bad": [], "cov": {}, "cut_ids": {}}
    chunk = max(50, (len(lines) + NPROC - 1) // NPROC)
    chunks = [lines[i:i + chunk] for i in range(0, len(lines), chunk)]
    tot = {"histories": 0, "configs": 0, "cut": 0, "violations": 0, "bad": [], "cov": {}, "cut_ids": {}}
    with ThreadPoolExecutor(max_workers=NPROC) as ex:
        for r in ex.map(_run_inv_chunk, chunks):
            tot["cut_ids"].update(r["cut_ids"])
            for k in ("histories", "configs", "cut", "violations"):
                tot[k] += r[k]
            tot["bad"] += r["bad"][:20]
            for k, v in r["cov"].items():
                tot["cov"][k] = tot["cov"].get(k, 0) + v
    tot["bad"] = tot["bad"][:40]
    return tot


# ---------------------------------------------------------------- comparison
LINE_RE = re.compile(r"^(\d+) (\S+)(?: D(\S*) R(\S*) T(\S+) S (.*?) O ?(.*))?$")


def parse_line(ln):
    """-> dict(idx, out, kind, D, R, T, boxes{id:(strong,weak,flag,table)}, O, extra{})"""
    extra = {}
    if " ## " in ln:
        ln, ex = ln.split(" ## ", 1)
        for tok in ex.split():
            if "=" in tok:
                k, v = tok.split("=", 1)
                extra[k] = v
    detail = None
    if " #" in ln:
        ln, detail = ln.split(" #", 1)
    ln = ln.rstrip()
    m = LINE_RE.match(ln)
    if not m:
        # hint-only line "idx Dlist" or "idx ok:.."
        m2 = re.match(r"^(\d+) (\S+)", ln)
        return {"idx": int(m2.group(1)) if m2 else -1, "out": m2.group(2) if m2 else ln,
                "partial": True, "extra": extra, "detail": detail}
    idx, out, D, R, T, S, O = m.groups()
    kind = out.split(":")[0]
    rec = {"idx": int(idx), "out": out, "kind": kind, "extra": extra, "detail": detail,
           "partial": D is None}
    if D is not None:
        rec["D"] = D
        rec["R"] = R
        rec["T"] = T
        boxes = {}
        for tok in S.split():
            bid, rest = tok.split(":", 1)
            if rest == "f":
                boxes[bid] = ("f", None, None, None)
            else:
                mm = re.match(r"^s(\w+)w(\d+)([vx])(\{.*\})?$", rest)
                if mm:
                    boxes[bid] = (mm.group(1), mm.group(2), mm.group(3), mm.group(4))
                else:
                    boxes[bid] = (rest, None, None, None)
        rec["boxes"] = boxes
        rec["O"] = (O or "").strip()
    return rec


ABNORMAL = ("fault", "crash", "abort", "upanic", "timeout")


def diff_fields(mrec, irec):
    """set of projection fields on which a model line and an impl line differ"""
    d = set()
    mk, ik = mrec.get("kind", mrec["out"]), irec.get("kind", irec["out"])
    if mk != ik:
        d.add("kind")
        return d
    if mrec["out"] != irec["out"]:
        d.add("res")
    if mrec.get("partial") or irec.get("partial"):
        return d
    if mrec["D"] != irec["D"]:
        if sorted(mrec["D"].split(",")) != sorted(irec["D"].split(",")):
            d.add("Dset")
        d.add("Dseq")
    if mrec["R"] != irec["R"]:
        d.add("res")
    if mrec["T"] != irec["T"]:
        d.add("T")
    if mrec["O"] != irec["O"]:
        d.add("obs")
    mb, ib = mrec["boxes"], irec["boxes"]
    for bid in set(mb) | set(ib):
        a, b = mb.get(bid), ib.get(bid)
        if a is None or b is None:
            d.add("freed")
            continue
        if (a[0] == "f") != (b[0] == "f"):
            d.add("freed")
            continue
        if a[0] == "f":
            continue
        if a[0] != b[0]:
            d.add("strong")
        if a[1] != b[1]:
            d.add("weak")
        if a[2] != b[2]:
            d.add("Dset")
        if a[3] != b[3]:
            d.add("tables")
    return d


def compare_history(mres, ires):
    """-> (first_diff or None, model_halt or None).
    first_diff = dict(idx, fields, model, impl)"""
    ml = [parse_line(l) for l in mres["lines"]]
    il = [parse_line(l) for l in ires["lines"]]
    # only lines present on the model side are compared (mode L prints one)
    imap = {r["idx"]: r for r in il}
    for mr in ml:
        idx = mr["idx"]
        ir = imap.get(idx)
        mk = mr.get("kind", mr["out"])
        if mk == "fault":
            # undefined behaviour on the model side: anything abnormal on the
            # implementation side agrees; what happens afterwards is not compared
            if ir is None:
                if ires.get("crash"):
                    return None, "fault"
                return {"idx": idx, "fields": {"kind"}, "model": mr["out"], "impl": "<missing>"}, "fault"
            ik = ir.get("kind", ir["out"])
            if ik in ABNORMAL or ir["extra"].get("oracle"):
                return None, "fault"
            return {"idx": idx, "fields": {"kind"}, "model": mr["out"] + " #" + str(mr.get("detail")),
                    "impl": ir["out"]}, "fault"
        if mk == "abort":
            if ir is None and ires.get("crash"):
                return None, "abort"
            return {"idx": idx, "fields": {"kind"}, "model": "abort",
                    "impl": (ir or {}).get("out", "<missing>")}, "abort"
        if ir is None:
            crash = ires.get("crash")
            return {"idx": idx, "fields": {"kind"}, "model": mr["out"],
                    "impl": "crash(%s)" % crash if crash else "<missing>"}, None
        f = diff_fields(mr, ir)
        if f:
            # the first differing call is the replay; the projection of a property may only show a
            # difference at a later call (e.g. a stale record first, an extra trace later): collect the
            # differing fields of the whole history
            allf = set(f)
            first_by = {x: idx for x in f}
            for mr2 in ml[ml.index(mr) + 1:]:
                ir2 = imap.get(mr2["idx"])
                if ir2 is None or mr2.get("kind", mr2["out"]) in ("fault", "abort"):
                    if ir2 is None or mr2.get("kind", mr2["out"]) != ir2.get("kind", ir2["out"]):
                        allf.add("kind")
                        first_by.setdefault("kind", mr2["idx"])
                    break
                for x in diff_fields(mr2, ir2):
                    allf.add(x)
                    first_by.setdefault(x, mr2["idx"])
            if mres.get("live") is not None and ires.get("live") is not None and mres["live"] != ires["live"] \
                    and not ires.get("crash"):
                allf.add("live")
                first_by.setdefault("live", "F")
            return {"idx": idx, "fields": allf, "first_by_field": first_by,
                    "model": mres["lines"][ml.index(mr)],
                    "impl": ires["lines"][il.index(ir)]}, None
    # the implementation must not have produced abnormal lines the model lacks
    midx = {r["idx"] for r in ml}
    for ir in il:
        ik = ir.get("kind", ir["out"])
        if ik in ABNORMAL and ir["idx"] not in midx:
            return {"idx": ir["idx"], "fields": {"kind"}, "model": "<none>", "impl": ir["out"]}, None
    if ires.get("crash") and not any(r.get("kind") in ("abort", "fault") for r in ml):
        return {"idx": len(il), "fields": {"kind"}, "model": "<no halt>", "impl": "crash(%s)" % ires["crash"]}, None
    if mres.get("live") is not None and ires.get("live") is not None and mres["live"] != ires["live"] \
            and not ires.get("crash"):
        return {"idx": "F", "fields": {"live"}, "model": mres["live"], "impl": ires["live"]}, None
    return None, None


def oracle_hits(ires):
    """impl-side oracle verdicts of one history: list of (idx, text, extra)"""
    hits = []
    for ln in ires["lines"]:
        if "oracle=" in ln:
            r = parse_line(ln)
            hits.append((r["idx"], r["extra"]["oracle"], r["extra"]))
            for k in sorted(r["extra"]):
                if re.fullmatch(r"also\d", k):      # verdicts about other properties in the same call
                    hits.append((r["idx"], r["extra"][k], r["extra"]))
        elif " fault #" in ln:
            # the harness's shadow state saw the LIBRARY read or write an allocation it had released, or a
            # value / table it had moved out (the fault line ends the history): C02, observed on the
            # implementation alone.  Inside the precondition (disc / hyp, decided by the caller) this is a
            # concrete failing input whatever the model says.
            r = parse_line(ln)
            if r.get("out") == "fault" or r.get("kind") == "fault":
                hits.append((r["idx"], "C02:library-touched-%s" % ((r.get("detail") or "memory").split()[0]), r["extra"]))
    fin = ires.get("final")
    if fin and fin.get("oracle"):
        hits.append(("F", fin["oracle"], fin))
    return hits


def differential(lines, pad=0, harness=None, noquarantine=False):
    """full pipeline on a list of history lines.
    -> dict id -> dict(line, diff, halt, oracles, impl, model)"""
    ires = run_impl(lines, pad=pad, harness=harness, noquarantine=noquarantine)
    hinted = [add_hints(l, ires.get(l.split("|", 1)[0])) for l in lines]
    mres = run_model(hinted)
    out = {}
    for l, hl in zip(lines, hinted):
        hid = l.split("|", 1)[0]
        ir = ires.get(hid, {"lines": [], "crash": "not-run", "live": None})
        mr = mres.get(hid, {"lines": [], "live": None})
        diff, halt = compare_history(mr, ir)
        out[hid] = {"line": hl, "diff": diff, "halt": halt, "oracles": oracle_hits(ir),
                    "impl": ir, "model": mr}
    return out
