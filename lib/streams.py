"""History streams (corpus, exhaustive small scope, structured random) and
their cached differential summaries."""
import os, json, hashlib, subprocess, time, glob, collections, fcntl, re
import pipeline as P

ROOT = P.ROOT
CACHE = os.path.join(ROOT, "cache")
os.makedirs(CACHE, exist_ok=True)


def tree_hash():
    """content hash of everything the implementation run depends on"""
    h = hashlib.sha256()
    files = sorted(glob.glob(P.REPO + "/src/**/*.rs", recursive=True)) + [P.REPO + "/Cargo.toml", P.REPO + "/Cargo.lock"]
    files += sorted(glob.glob(os.path.join(ROOT, "harness/src/*.rs")))
    files += sorted(glob.glob(os.path.join(ROOT, "coq/Model/*.v")))
    files += [os.path.join(ROOT, "ocaml/driver.ml"), os.path.join(ROOT, "lib/pipeline.py"),
              os.path.join(ROOT, "lib/streams.py")]
    files += sorted(glob.glob(os.path.join(ROOT, "corpus/*.hist")))
    for f in files:
        try:
            with open(f, "rb") as fh:
                h.update(f.encode() + b"\0" + fh.read() + b"\0")
        except OSError:
            h.update(f.encode() + b"\0<missing>\0")
    return h.hexdigest()[:20]


# name -> (kind, args) per tier.  gen: (profile, count, len); bfs: "depth nobj nreg nslot profile"
STREAMS = {
    "quick": {
        "corpus": ("corpus", None),
        "bfs_c3": ("bfs", "6 3 4 2 c"),
        "bfs_c2": ("bfs", "8 2 3 2 c"),
        "bfs_w": ("bfs", "6 2 4 2 cw"),
        "bfs_a": ("bfs", "6 2 3 2 ca"),
        "bfs_n": ("bfs", "6 2 4 2 nwa"),
        "shp4": ("shapes", "4 5 2"),
        "shp3": ("shapes", "3 6 6"),
        "shp5": ("shapes", "5 2 2"),
        "mult": ("mult", 2),
        "mult_e": ("mult", -2),
        "rand_cw": ("gen", ("cw", 3000, 14)),
        "rand_cwf": ("gen", ("cwf", 3000, 10)),
        "rand_cws": ("gen", ("cws", 3000, 12)),
        "rand_cwsf": ("gen", ("cwsf", 2000, 10)),
        "rand_cwsp": ("gen", ("cwspf", 3000, 10)),
        "rand_cwa": ("gen", ("cwaf", 3000, 14)),
        "rand_cwk": ("gen", ("cwskf", 3000, 8)),
        "rand_cwe": ("gen", ("cwe", 3000, 12)),
        "rand_cwea": ("gen", ("cweaf", 3000, 12)),
        "rand_cwo": ("gen", ("cwo", 2000, 12)),
        "rand_n": ("gen", ("nwasf", 4000, 16)),
        "rand_np": ("gen", ("nwaspf", 2000, 12)),
        # routed streams (ids start with "rt_"): the harness implements each model action by one of the
        # API routes documented as equivalent (Rc::new | From<Box> | new_uninit+assume_init | From<T> | pin;
        # clone | increment_strong_count+from_raw; drop | into_raw+decrement_strong_count; Weak into_raw/
        # from_raw; Weak::new | default; Deref | AsRef | Borrow | as_ptr), chosen by a hash of the id
        "rt_cwa": ("gen", ("cwaf", 3000, 14)),
        "rt_cws": ("gen", ("cws", 2000, 12)),
        "rt_n": ("gen", ("nwasf", 3000, 16)),
    },
    "thorough": {
        "corpus": ("corpus", None),
        "bfs_c3": ("bfs", "7 3 4 2 c"),
        "bfs_c2": ("bfs", "10 2 3 2 c"),
        "bfs_w": ("bfs", "7 2 4 2 cw"),
        "bfs_a": ("bfs", "7 2 3 2 ca"),
        "bfs_n": ("bfs", "7 2 4 2 nwa"),
        "shp4": ("shapes", "4 5 8"),
        "shp5": ("shapes", "5 4 2"),
        "shp3": ("shapes", "3 9 6"),
        "mult": ("mult", 3),
        "mult_e": ("mult", -3),
        "rand_cw": ("gen", ("cw", 40000, 20)),
        "rand_cwf": ("gen", ("cwf", 40000, 14)),
        "rand_cws": ("gen", ("cws", 40000, 16)),
        "rand_cwsf": ("gen", ("cwsf", 20000, 12)),
        "rand_cwsp": ("gen", ("cwspf", 40000, 12)),
        "rand_cwa": ("gen", ("cwaf", 40000, 18)),
        "rand_cwk": ("gen", ("cwskf", 30000, 10)),
        "rand_cwe": ("gen", ("cwe", 40000, 16)),
        "rand_cwea": ("gen", ("cweaf", 30000, 14)),
        "rand_cwo": ("gen", ("cwo", 20000, 16)),
        "rand_n": ("gen", ("nwasf", 60000, 20)),
        "rand_np": ("gen", ("nwaspf", 30000, 14)),
        "rt_cwa": ("gen", ("cwaf", 30000, 16)),
        "rt_cws": ("gen", ("cws", 20000, 14)),
        "rt_n": ("gen", ("nwasf", 30000, 18)),
    },
}


def corpus_lines():
    out = []
    for f in sorted(glob.glob(os.path.join(ROOT, "corpus/*.hist"))):
        for ln in open(f):
            ln = ln.strip()
            if ln and not ln.startswith("#"):
                out.append(ln)
    return out


def stream_lines(name, tier, seed):
    kind, arg = STREAMS[tier][name]
    if kind == "corpus":
        return corpus_lines()
    if kind == "bfs":
        p = subprocess.run([P.DRIVER, "bfs"] + arg.split(), stdout=subprocess.PIPE, stderr=subprocess.PIPE)
        lines = p.stdout.decode().strip().split("\n")
        m = re.search(r"states=(\d+) transitions=(\d+)", p.stderr.decode())
        meta = {"states": int(m.group(1)), "transitions": int(m.group(2)), "scope": arg, "exhaustive": True}
        return [name + "_" + l for l in lines], meta
    if kind == "shapes":
        p = subprocess.run([P.DRIVER, "shapes"] + arg.split(), stdout=subprocess.PIPE, stderr=subprocess.PIPE)
        lines = [l for l in p.stdout.decode().strip().split("\n") if l]
        return [name + "_" + l for l in lines], {"scope": "all fully recorded adoption graphs: objects, max distinct edges (one may be doubled), drop orders = " + arg,
                                                  "exhaustive": True, "states": 0, "transitions": len(lines)}
    if kind == "mult":
        lines = mult_lines(abs(arg), elide=arg < 0)
        return [name + "_" + l for l in lines], {"scope": "owner/target pair: m<=%d adoptions each way with the handles stored, every number of %s, five ways of dropping the rest" % (abs(arg), "ELIDED unadopts (handle taken out and dropped, no unadopt: C13)" if arg < 0 else "matched unadopts (handle taken out, unadopt, handle dropped)"),
                                                  "exhaustive": True, "states": 0, "transitions": len(lines)}
    if kind == "gen":
        prof, count, ln = arg
        # one PRNG state per stream, derived from the seed and the stream name
        s = (seed * 1000003 + int(hashlib.sha256(name.encode()).hexdigest()[:6], 16)) % (2 ** 30)
        p = subprocess.run([P.DRIVER, "gen", str(s), str(count), prof, str(ln)], stdout=subprocess.PIPE)
        return [name + "_" + l for l in p.stdout.decode().strip().split("\n")], {"profile": prof, "prng_seed": s}
    raise ValueError(kind)


def mult_lines(mmax, elide=False):
    """pair multiplicities (C01, C08, C13, C14): object 0 adopts object 1 m times and 1 adopts 0 n times, every
    handle stored in its owner and recorded; then u (resp. v) of them are unadopted properly (handle taken
    out of the owner, unadopt, handle dropped); then the remaining program handles are dropped in five
    different ways, with a clone-and-drop of one end in between (a drop that must trace but not collect)
    and a look at what the other end can still reach. Fully recorded and disciplined throughout."""
    out = []
    tails = [
        ["drop 1", "clone r0 2", "drop 2", "sc r0", "deref r0.0", "drop 0"],
        ["clone r0 2", "drop 2", "drop 1", "sc r0", "drop 0"],
        ["drop 0", "clone r1 2", "drop 2", "sc r1", "deref r1.0", "drop 1"],
        ["clone r1 2", "drop 2", "drop 0", "sc r1", "drop 1"],
        ["down r0 4", "down r1 5", "drop 0", "drop 1", "up r4 2", "up r5 3"],
    ]
    k = 0
    for m in range(0, mmax + 1):
        for n in range(0, mmax + 1):
            if m + n == 0:
                continue
            pre = ["new 0", "new 1"]
            for i in range(m):
                pre += ["clone r1 7", "adopt r0 r7", "store 7 r0 %d" % i]
            for j in range(n):
                pre += ["clone r0 7", "adopt r1 r7", "store 7 r1 %d" % j]
            for u in range(0, m + 1):
                for v in range(0, n + 1):
                    if elide and u + v == 0:
                        continue
                    mid = []
                    for i in range(u):                      # the highest slots first
                        mid += ["take r0 %d 6" % (m - 1 - i)] + ([] if elide else ["unadopt r0 r6"]) + ["drop 6"]
                    for j in range(v):
                        mid += ["take r1 %d 6" % (n - 1 - j)] + ([] if elide else ["unadopt r1 r6"]) + ["drop 6"]
                    for ti, t in enumerate(tails):
                        t2 = [x for x in t if not (x == "deref r0.0" and m - u == 0) and not (x == "deref r1.0" and n - v == 0)]
                        out.append("%sm%dn%du%dv%dt%d_%d|A|%s" % ("e" if elide else "", m, n, u, v, ti, k, ";".join(pre + mid + t2)))
                        k += 1
    return out


OP_RE = re.compile(r"(?:^|;)\s*([a-z]+)")


def summarize(name, lines, meta, res, t_run, cut_ids=None):
    cut_ids = cut_ids or {}
    ops = collections.Counter()
    for l in lines:
        body = l.split("|", 2)[2]
        for m in OP_RE.finditer(body):
            ops[m.group(1)] += 1
    kinds = collections.Counter()
    problems = []
    nontrivial = set()
    ndtor = ngroup = ntrace = 0
    flags = collections.Counter()
    for hid, r in res.items():
        body = r["line"].split("|", 2)[2]
        nt = False
        last_extra = {}
        d4_idx = None
        for ln in r["impl"]["lines"]:
            pr = P.parse_line(ln)
            if d4_idx is None and (pr["extra"] or {}).get("d4") == "1":
                d4_idx = pr["idx"]      # the call in which the known-finding condition D4 first occurred
            kinds[pr.get("kind", pr["out"].split(":")[0])] += 1
            if pr.get("D"):
                nt = True
                ndtor += len(pr["D"].split(","))
            if pr.get("T") and not pr["T"].startswith("0/"):
                ntrace += 1
                nt = True
            last_extra = pr["extra"] or last_extra
        if r["impl"].get("crash"):
            kinds["crash"] += 1
            # the call that killed the process printed no result line: its flags come from the harness's
            # signal handler (a history can leave the preconditions in its very last call)
            af = r["impl"].get("abort_flags")
            if af:
                last_extra = dict(last_extra, **af)
                if d4_idx is None and af.get("d4") == "1":
                    d4_idx = r["impl"]["abort_order"][0]
        if nt:
            nontrivial.add(re.sub(r"@[\d,]*", "", body))
        for k in ("disc", "d4", "loop", "esc"):
            if last_extra.get(k) is not None:
                flags["%s=%s" % (k, last_extra[k])] += 1
        ngroup += int(last_extra.get("groups", 0) or 0)
        if r["halt"]:
            kinds["model_" + r["halt"]] += 1
        # hyp = 1: the model says the hypotheses of the safety theorems (step_ok) hold at every step of this
        # history; then the theorems predict: no fault, invariant, so no C01/C02/C05/C06/C08 oracle may fire
        cls = {"disc": last_extra.get("disc", "1"), "d4": last_extra.get("d4", "0"),
               "loop": last_extra.get("loop", "0"), "esc": last_extra.get("esc", "0"),
               "hyp": "0" if hid in cut_ids else "1", "d4_idx": d4_idx}
        if r["diff"]:
            d = r["diff"]
            problems.append({"type": "diff", "hid": hid, "line": r["line"], "idx": d["idx"],
                             "fields": sorted(d["fields"]), "first_by_field": d.get("first_by_field", {}),
                             "model": d["model"], "impl": d["impl"], **cls})
        for (i, o, ex) in r["oracles"]:
            problems.append({"type": "oracle", "hid": hid, "line": r["line"], "idx": i, "oracle": o,
                             "disc": ex.get("disc", "1"), "d4": ex.get("d4", "0"),
                             "loop": ex.get("loop", "0"), "esc": ex.get("esc", "0"),
                             "hyp": "0" if hid in cut_ids else "1"})
        if r["halt"] == "fault":
            problems.append({"type": "fault", "hid": hid, "line": r["line"], "idx": -1, **cls})
    # keep the summary small: at most 60 problems per (type, key)
    seen = collections.Counter()
    kept = []
    for p in problems:
        key = (p["type"], p.get("oracle", "").split(":")[1] if p["type"] == "oracle" else ",".join(p.get("fields", [])),
               p["disc"], p["d4"])
        seen[key] += 1
        if seen[key] <= 40:
            kept.append(p)
    return {
        "name": name, "histories": len(lines), "ops": sum(ops.values()), "op_histogram": dict(ops),
        "line_kinds": dict(kinds), "flags": dict(flags), "destructors_run": ndtor, "traces": ntrace,
        "group_teardowns": ngroup,
        "distinct_nontrivial": len(nontrivial), "problem_counts": {str(k): v for k, v in seen.items()},
        "problems": kept, "samples": [l for l in lines[:2]] + [l for l in lines[-1:]],
        "meta": meta, "wall_s": round(t_run, 2),
    }


def get_stream(name, tier, seed, use_cache=True):
    key = "%s-%s-%s-%s.json" % (tree_hash(), tier, seed, name)
    path = os.path.join(CACHE, key)
    if use_cache and os.path.exists(path):
        try:
            s = json.load(open(path))
            s["cached"] = True
            return s
        except Exception:
            pass
    lock = open(os.path.join(CACHE, ".lock-" + name + "-" + tier), "w")
    fcntl.flock(lock, fcntl.LOCK_EX)
    try:
        if use_cache and os.path.exists(path):
            s = json.load(open(path))
            s["cached"] = True
            return s
        t0 = time.time()
        got = stream_lines(name, tier, seed)
        if isinstance(got, tuple):
            lines, meta = got
        else:
            lines, meta = got, {}
        lines = [l for l in lines if l.strip()]
        res = P.differential(lines) if lines else {}
        inv = P.run_inv([r["line"] for r in res.values()])
        s = summarize(name, lines, meta, res, time.time() - t0, inv.get("cut_ids"))
        inv.pop("cut_ids", None)
        s["inv"] = inv
        tmp = path + ".tmp%d" % os.getpid()
        json.dump(s, open(tmp, "w"))
        os.replace(tmp, path)
        s["cached"] = False
        return s
    finally:
        fcntl.flock(lock, fcntl.LOCK_UN)
        lock.close()
