#!/bin/bash
# tools/own_eval.sh <worktree> <PID> <name>: re-run only the check of the seeded change's own property
# (final machinery) against the scratch worktree with the change applied; replace that property's lines
# in seeded/<name>/checks.txt and keep the replay file.
cd "$(dirname "$(readlink -f "$0")")/.."
WT=$1; P=$2; N=$3; OUT=seeded/$N
export VERIF_REPO=$WT VERIF_OUT=/root/scratch/inst_own_$N CARGO_NET_OFFLINE=true
mkdir -p $VERIF_OUT
[ -f $WT/Cargo.lock ] || cp /repo/Cargo.lock $WT/Cargo.lock
new=$(./check $P --tier quick 2>&1 | grep -v "^KNOWN" | tail -2 | grep "property=$P" | sed "s/^/$P: /")
grep -v "^$P: " $OUT/checks.txt | grep -v "^caught_by=" > $OUT/checks.tmp
echo "$new" >> $OUT/checks.tmp
sort -o $OUT/checks.tmp $OUT/checks.tmp
echo "caught_by=$(grep VIOLATION $OUT/checks.tmp | sed 's/.*property=\(C[0-9]*\).*/\1/' | sort -u | tr '\n' ' ')" >> $OUT/checks.tmp
mv $OUT/checks.tmp $OUT/checks.txt
mkdir -p $OUT/replays
for f in $(echo "$new" | grep -o "replay=[^ ]*" | cut -d= -f2); do [ -f "$f" ] && { rm -f $OUT/replays/${P}_*.json; cp "$f" $OUT/replays/; }; done
rm -rf $VERIF_OUT
echo "$N: $new"
