#!/bin/bash
# tools/seed_eval.sh <PID> [name]  -- confirm a seeded change left by a sub-agent in /tmp/wt_<PID>
# (patch.diff, tests/demo_*.rs, NOTES.md), store it under seeded/<name>, run every quick check
# against /repo with the change applied, and undo it.
set -u
ROOT=$(cd "$(dirname "$(readlink -f "$0")")/.." && pwd)
PID=$1; NAME=${2:-$PID}; WT=${WTDIR:-/tmp/wt_$PID}; OUT=/verif/seeded/$NAME
export CARGO_NET_OFFLINE=true
mkdir -p $OUT
if [ -z "${SKIP_CONFIRM:-}" ]; then
cd $WT || exit 2
demo=$(ls tests/demo_*.rs | head -1)
cp patch.diff $OUT/patch.diff; cp $demo $OUT/; cp NOTES.md $OUT/NOTES.md 2>/dev/null
log=$OUT/confirm.log; : > $log
git checkout -q -- src
dn=$(basename $demo .rs)
echo "== (c) demo on unmodified source" >> $log
cargo test --offline --test $dn >> $log 2>&1; c=$?
git apply patch.diff || { echo "patch does not apply" >> $log; exit 3; }
echo "== (b) demo with the change" >> $log
cargo test --offline --test $dn >> $log 2>&1; b=$?
mv $demo /tmp/_demo_$PID.rs
echo "== (a) existing suite with the change" >> $log
cargo test --workspace --no-fail-fast --offline >> $log 2>&1; a=$?
mv /tmp/_demo_$PID.rs $demo
echo "confirm: suite_with_change_rc=$a demo_with_change_rc=$b demo_without_change_rc=$c" | tee -a $log
if [ $a -ne 0 ] || [ $b -eq 0 ] || [ $c -ne 0 ]; then echo "NOT CONFIRMED" | tee -a $log; exit 4; fi
fi   # SKIP_CONFIRM: seeded/<name>/patch.diff already in place (e.g. the revert of a fix: commit)
if [ -n "${PAR:-}" ]; then
# PAR=1: the scratch worktree itself (change applied) is the checkout under test; /repo is not touched,
# so several seeded changes can be evaluated side by side
cd $ROOT
export VERIF_REPO=$WT VERIF_OUT=/root/scratch/inst_$NAME
mkdir -p $VERIF_OUT
[ -f $WT/Cargo.lock ] || cp /repo/Cargo.lock $WT/Cargo.lock
res=$OUT/checks.txt; : > $res
for p in ${CHECKS:-C01 C02 C03 C04 C05 C06 C07 C08 C09 C10 C11 C12 C13 C14 C15 C16}; do
  ./check $p --tier quick 2>&1 | grep -v "^KNOWN" | tail -2 | sed "s/^/$p: /" >> $res
done
# keep the replay files the checks wrote (one per property at most): the concrete failing histories
mkdir -p $OUT/replays && rm -f $OUT/replays/*.json
for f in $(grep -o "replay=[^ ]*" $res | cut -d= -f2); do [ -f "$f" ] && cp "$f" $OUT/replays/; done
rm -rf $VERIF_OUT
echo "caught_by=$(grep VIOLATION $res | sed 's/.*property=\(C[0-9]*\).*/\1/' | sort -u | tr '\n' ' ')" | tee -a $res
exit 0
fi
# run the checks against /repo with the change applied (exclusive use of /repo)
cd $ROOT
exec 9>/var/lock/verif_repo.lock && flock -x 9
export VERIF_NO_REPO_LOCK=1
git -C /repo apply $OUT/patch.diff || { echo "patch does not apply to /repo"; exit 5; }
res=$OUT/checks.txt; : > $res
for p in ${CHECKS:-C01 C02 C03 C04 C05 C06 C07 C08 C09 C10 C11 C12 C13 C14 C15 C16}; do
  ./check $p --tier quick 2>&1 | grep -v "^KNOWN" | tail -2 | sed "s/^/$p: /" >> $res
done
git -C /repo checkout -- .
flock -u 9
git -C /repo status --short | grep -v '^??' && echo "WARNING: /repo not clean"
caught=$(grep -c VIOLATION $res)
echo "caught_by=$(grep VIOLATION $res | sed 's/.*property=\(C[0-9]*\).*/\1/' | sort -u | tr '\n' ' ')" | tee -a $res
