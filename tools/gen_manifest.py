#!/usr/bin/env python3
"""regenerate the per-property texts of MANIFEST.json from lib/props.py (the commands stay as they are)"""
import json, sys, os
ROOT = os.path.dirname(os.path.dirname(os.path.abspath(__file__)))
sys.path.insert(0, os.path.join(ROOT, "lib"))
import props as PR
m = json.load(open(os.path.join(ROOT, "MANIFEST.json")))
for c in m["checks"]:
    pid = c["property_id"]
    st = PR.PROPS[pid].get("statement_status", "")
    c["level_claimed"] = {
        "category": "proof",
        "text": ("Machine-checked theorems (Coq 8.16.1, no axiom, 'Closed under the global context') about the hand-written "
                 "executable model of cactusref, pinned in coq/Props/%s.v; status of the statement: %s  The model is tied to "
                 "/repo's current tree on every run by a differential run of the model extracted to OCaml against the "
                 "implementation built from /repo with the verif hooks (corpus + exhaustive small scope + structured random "
                 "histories) on this property's projection, plus an implementation-side oracle that yields the concrete "
                 "failing history; a broken proof or tie is reported as a VIOLATION (no-failing-input-found when no concrete "
                 "input is found)." % (pid, st)),
        "design_ref": "DESIGN.md 5, 6 (%s), 12" % pid,
    }
    c["level_note"] = ("Trusted: Coq kernel/coqc (vm_compute only), the model's faithfulness as bounded by the correspondence run "
                       "(sampling, not proof), extraction (ExtrOcamlBasic only), OCaml driver, Rust harness + hooks, rustc; "
                       "modelled rather than verified: payload type and drop order, unwinding rules of Vec/struct drop glue, "
                       "hashbrown as a finite map, RefCell scopes, abort, no counter overflow. See DESIGN.md 8 and 12.")
    c["technique"] = ("Coq proof (invariant over a small-step machine model) + differential correspondence of the extracted model with the instrumented Rust implementation"
                      + ("; counter protocol translated from src/rc.rs to Gallina on every run (tools/rs2v.py) and proved equal to the model's (gen/CountersProofs.v)" if pid in ("C04", "C05", "C06", "C16") else "")
                      + ("; adopt_unchecked/unadopt translated from src/adopt.rs on every run and proved equal to the model's adopt/unadopt and to the borrow events of Proofs/Borrow.v (gen/AdoptProofs.v)" if pid in ("C08", "C10") else "")
                      + ("; per-entry logic of cycle_refs and the external-owner test of orphaned_cycle translated from src/cycle.rs on every run and proved equal to the model's visit_entries / sgt (gen/CycleProofs.v)" if pid in ("C01", "C03", "C13", "C15") else "")
                      + ("; dispatch of Rc::drop translated from src/drop.rs on every run and proved equal to the model's drop_strong (gen/DropProofs.v)" if pid in ("C01", "C02", "C03", "C14") else "")
                      + ("; order of effects of the teardown functions of src/drop.rs re-derived on every run and equated with the model's (gen/EffectsProofs.v)" if pid in ("C02", "C04", "C05", "C10", "C11", "C12") else "")
                      + ("; Links::insert/remove translated from src/link.rs on every run and proved equal to the model's tbl_insert/tbl_remove (gen/LinksProofs.v)" if pid in ("C08", "C13", "C14") else "")
                      + ("; count observers, clone, downgrade, Weak::upgrade translated from src/rc.rs on every run and proved equal to the model's actions (gen/HandlesProofs.v)" if pid in ("C05", "C06", "C16") else "")
                      + ("; purge loops / phase one of drop_cycle translated from src/drop.rs on every run and proved equal to the model's purge_loop / bust_one (gen/PurgeProofs.v, gen/BustProofs.v)" if pid in ("C01", "C02", "C06", "C08", "C12", "C13") else "")
                      + ("; address arithmetic of as_ptr/into_raw/from_raw/data_offset/is_dangling/Weak::new/ptr_eq and the declaration of RcBox translated from src/rc.rs on every run and proved (round trips for every layout, injectivity, sentinel never a payload address: gen/RawPtrProofs.v), joined with the address layer of the model (coq/Inv/AddrInv.v) in gen/Capstone3.v" if pid in ("C06", "C07", "C12") else "")
                      + ("; the whole machine with every library step executed by the regenerated code is proved equal to the model's machine and the safety theorem for every history is stated about it (gen/TranslatedMachine.v, gen/CounterBound.v)" if pid in ("C01", "C02", "C10") else "")
                      + ("; the untranslated functions of src/rc.rs are compared textually with the text the expectations were written from (source census)" if pid in ("C05", "C06", "C07", "C12") else "")
                      + ("; borrow sites re-derived from the source and compared with the transcription of Proofs/Borrow.v" if pid == "C10" else ""))
m["not_applicable"] = []
json.dump(m, open(os.path.join(ROOT, "MANIFEST.json"), "w"), indent=1)
print("ok", len(m["checks"]))
