#!/usr/bin/env python3
"""tools/proof_sensitivity.py [names...]: mutate the MODEL the way a defective implementation would behave
and record which proof obligations stop checking. Each mutant is built in a scratch copy of coq/ under
/root/scratch/ps/<name> (removed afterwards) with `make -k`; the result (first failing files and the
first error of each) is written to proof_sensitivity.json. Not part of any registered check: it is the
experiment behind DESIGN 12.9 (the theorems are sensitive to the model details that carry the
properties; they are not vacuous restatements)."""
import os, re, shutil, subprocess, sys, json, time
ROOT = os.path.dirname(os.path.dirname(os.path.abspath(__file__)))
SCR = "/root/scratch/ps"
MUT = {
 # name: (file, old, new, what it mirrors)
 "orphan_test_off_by_one": ("Model/Atomic.v", "| Cnt n => (c <? n)%N end.", "| Cnt n => (c + 1 <? n)%N end.",
     "orphan test tolerates one outside handle (premature destruction, C01)"),
 "D1_own_outdegree": ("Model/Atomic.v", "Cnt n => Ok (setb h k (with_strong b1 (Cnt (n - N.min refcount n))))",
     "Cnt n => Ok (setb h k (with_strong b1 (Cnt (n - N.min (fold_right (fun e a => match e with ((_, Fwd), c) => (c + a)%N | _ => a end) 0%N t) n))))",
     "fixed defect D1: each member decremented by its own out-degree"),
 "D2_loopback_traced": ("Model/Atomic.v", "| ((x, Loop), _) :: t' => visit_entries t' own pushed",
     "| ((x, Loop), c) :: t' => visit_entries t' (own_add own x c) (pushed ++ [x])",
     "fixed defect D2: Loopback entries traced and counted"),
 "members_not_marked": ("Model/Atomic.v", "let b' := with_links (with_value (with_strong b Uninit) None) None in",
     "let b' := with_links (with_value b None) None in",
     "group members not marked uninit before destructors run (C05, C16)"),
 "no_purge_on_last_drop": ("Model/Machine.v", "let* h2 := purge_loop h1 o t in\n              let* h3 := set_links h2 o [] in",
     "let h2 := h1 in\n              let* h3 := set_links h2 o [] in",
     "a dying object is not purged from its peers' tables (C08, C02)"),
 "upgrade_dead": ("Model/Machine.v", "if is_dead (strong b) then AO s self RNone []\n                    else lift s self (inc_strong h o)",
     "if is_uninit (strong b) then AO s self RNone []\n                    else lift s self (inc_strong h o)",
     "Weak::upgrade succeeds on strong = 0 (C05)"),
 "free_with_weaks": ("Model/Atomic.v", "Ok (setb h o (if (w =? 0)%N then with_freed b' true else b')).",
     "Ok (setb h o (if (w <=? 1)%N then with_freed b' true else b')).",
     "allocation released while one Weak remains (C04, C05)"),
}


def run(name):
    f, old, new, what = MUT[name]
    d = os.path.join(SCR, name)
    shutil.rmtree(d, ignore_errors=True)
    os.makedirs(SCR, exist_ok=True)
    shutil.copytree(os.path.join(ROOT, "coq"), d, ignore=shutil.ignore_patterns("*.vo", "*.vok", "*.vos", "*.glob", "*.aux", ".*.aux", "Makefile*", ".Makefile*", "*.d"))
    p = os.path.join(d, f)
    s = open(p).read()
    if s.count(old) != 1:
        return {"name": name, "error": "mutation site not found exactly once (%d)" % s.count(old)}
    open(p, "w").write(s.replace(old, new))
    t0 = time.time()
    subprocess.run("coq_makefile -f _CoqProject -o Makefile >/dev/null", shell=True, cwd=d)
    pr = subprocess.run("timeout 3000 make -k -j%s 2>&1" % os.environ.get("PS_JOBS", "6"), shell=True, cwd=d,
                        stdout=subprocess.PIPE)
    out = pr.stdout.decode(errors="replace")
    fails = []
    for m in re.finditer(r'File "\./([^"]+)", line (\d+), characters [^\n]*\n(Error:[^\n]*(?:\n[^\n]+){0,3})', out):
        fails.append({"file": m.group(1), "line": int(m.group(2)), "error": " ".join(m.group(3).split())[:300]})
    # which lemma: the last Lemma/Theorem header before the failing line
    for x in fails:
        try:
            lines = open(os.path.join(d, x["file"])).read().split("\n")[: x["line"]]
            hdr = [l for l in lines if re.match(r"\s*(Lemma|Theorem|Corollary|Example|Definition|Fixpoint|Instance)\b", l)]
            x["in"] = hdr[-1].strip()[:160] if hdr else None
        except OSError:
            x["in"] = None
    built = len(re.findall(r"^COQC ", out, re.M))
    shutil.rmtree(d, ignore_errors=True)
    return {"name": name, "mirrors": what, "file": f, "make_rc": pr.returncode, "coqc_started": built,
            "failures": fails, "wall_s": round(time.time() - t0)}


def main():
    names = sys.argv[1:] or list(MUT)
    path = os.path.join(ROOT, "proof_sensitivity.json")
    res = json.load(open(path)) if os.path.exists(path) else {}
    for n in names:
        r = run(n)
        res[n] = r
        print(n, "->", [(x["file"], x.get("in")) for x in r.get("failures", [])][:4] or r)
        json.dump(res, open(path, "w"), indent=1)


if __name__ == "__main__":
    main()
