#!/usr/bin/env python3
"""tools/auto_mutants.py [N] [JOBS]: mechanical mutation of /repo/src (operator flips, dropped statements) as a
second, author-independent source of changes. For every mutant that still compiles AND passes the crate's own test
suite, run the 16 quick checks twice over: with the static ties switched off (VERIF_NO_STATIC=1: the differential
run and the oracles alone) and note whether the translator / censuses see it. Writes auto_mutants.json.
Experiment behind DESIGN 12.15; not a registered check. Works in scratch worktrees; /repo is not touched."""
import os, re, sys, json, random, subprocess, hashlib, shutil
from concurrent.futures import ThreadPoolExecutor
ROOT = os.path.dirname(os.path.dirname(os.path.abspath(__file__)))
N = int(sys.argv[1]) if len(sys.argv) > 1 else 60
JOBS = int(sys.argv[2]) if len(sys.argv) > 2 else 4
FILES = ["drop.rs", "cycle.rs", "adopt.rs", "link.rs", "rc.rs"]
OPS = [(r" == ", " != "), (r" != ", " == "), (r" > ", " >= "), (r" < ", " <= "), (r"\+ 1\b", "+ 2"), (r"- 1\b", "- 0"),
       (r" && ", " || "), (r" \|\| ", " && "), (r"\btrue\b", "false"), (r"\bfalse\b", "true"),
       (r"^(\s*)continue;\s*$", r"\1"), (r"^(\s*)return;\s*$", r"\1"),
       (r"^(\s*)[A-Za-z_\(\)\*\.]+\.(?:dec_weak|dec_strong|inc_strong|inc_weak|make_uninit|remove|insert|clear|push)\([^;]*\);\s*$", r"\1")]


def candidates():
    out = []
    for f in FILES:
        lines = open("/repo/src/" + f).read().split("\n")
        in_verif = False
        for i, l in enumerate(lines):
            st = l.strip()
            if st.startswith("//") or st.startswith("#[") or "cactusref_verif" in l or "verif::" in l or st.startswith("///"):
                continue
            if i > 0 and "cfg(cactusref_verif)" in lines[i - 1]:
                continue
            if f == "rc.rs" and not (270 <= i <= 1040 or 1400 <= i <= 1960):
                continue
            for k, (pat, rep) in enumerate(OPS):
                if re.search(pat, l):
                    new = re.sub(pat, rep, l, count=1)
                    if new != l:
                        out.append((f, i, k, l, new))
    return out


def sh(cmd, cwd, timeout=1800, env=None):
    e = dict(os.environ, CARGO_NET_OFFLINE="true")
    e.update(env or {})
    try:
        p = subprocess.run("exec timeout -k 5 %d bash -c %s" % (timeout, json.dumps(cmd)), cwd=cwd, shell=True,
                           stdout=subprocess.PIPE, stderr=subprocess.STDOUT, timeout=timeout + 30, env=e)
    except subprocess.TimeoutExpired:
        return 124, "timeout"
    return p.returncode, p.stdout.decode(errors="replace")


def worker(args):
    wid, muts = args
    wt = "/tmp/wtm_%d" % wid
    subprocess.run(["git", "-C", "/repo", "worktree", "remove", "--force", wt], capture_output=True)
    subprocess.run(["git", "-C", "/repo", "worktree", "add", "--detach", wt, "HEAD"], capture_output=True, check=True)
    shutil.copy("/repo/Cargo.lock", wt + "/Cargo.lock")
    res = []
    for (f, i, k, old, new) in muts:
        if "%s:%d:%d" % (f, i + 1, k) in KNOWN:
            res.append(dict(KNOWN["%s:%d:%d" % (f, i + 1, k)], old=old.strip(), new=new.strip()))
            continue
        subprocess.run(["git", "-C", wt, "checkout", "-q", "--", "src"], check=True)
        path = "%s/src/%s" % (wt, f)
        lines = open(path).read().split("\n")
        assert lines[i] == old
        lines[i] = new
        open(path, "w").write("\n".join(lines))
        mid = "%s:%d:%d" % (f, i + 1, k)
        rec = {"id": mid, "old": old.strip(), "new": new.strip()}
        rc, out = sh("cargo build --offline", wt, 900)
        if rc != 0:
            rec["status"] = "does not compile"
            res.append(rec)
            print(mid, rec["status"], flush=True)
            continue
        rc, out = sh("cargo test --workspace --no-fail-fast --offline", wt, 600)
        if rc != 0:
            rec["status"] = "killed by the crate's own suite" + (" (hangs)" if rc == 124 else "")
            res.append(rec)
            print(mid, rec["status"], flush=True)
            continue
        rec["status"] = "survives the suite"
        # dynamic tie alone
        outd = "/root/scratch/inst_m%d" % wid
        shutil.rmtree(outd, ignore_errors=True)
        os.makedirs(outd)
        caught = []
        for pid in ["C%02d" % j for j in range(1, 17)]:
            rc2, o2 = sh("./check %s --tier quick 2>&1 | grep -v '^KNOWN' | tail -1" % pid, ROOT, 3600,
                         {"VERIF_REPO": wt, "VERIF_OUT": outd, "VERIF_NO_STATIC": "1"})
            if "VIOLATION" in o2:
                caught.append(pid + ("" if "no-failing-input-found" in o2 else "*"))
        rec["dynamic_caught_by"] = caught
        shutil.rmtree(outd, ignore_errors=True)
        # static view
        sys.path.insert(0, os.path.join(ROOT, "lib"))
        st = []
        for part in ("counters", "handles", "adopt", "links", "cycle", "drop", "purge", "bust", "rawptr", "effects"):
            os.makedirs("/root/scratch/mtr%d" % wid, exist_ok=True)
            p = subprocess.run([sys.executable, os.path.join(ROOT, "tools", "rs2v.py"), wt, "/root/scratch/mtr%d" % wid, part],
                               capture_output=True)
            if p.returncode:
                st.append(part + ":rejected")
            else:
                gf = {"counters": "Counters.v", "handles": "HandlesGen.v", "adopt": "AdoptGen.v", "links": "LinksGen.v",
                      "cycle": "CycleGen.v", "drop": "DropGen.v", "purge": "PurgeGen.v", "bust": "BustGen.v", "rawptr": "RawPtrGen.v", "effects": "EffectsGen.v"}[part]
                a = open("/root/scratch/mtr%d/%s" % (wid, gf)).read().split("\n")[1:]
                b = open(os.path.join(ROOT, "gen", gf)).read().split("\n")[1:]
                if a != b:
                    st.append(part + ":changed")
        rec["static"] = st
        res.append(rec)
        print(mid, rec["status"], rec.get("dynamic_caught_by"), st, flush=True)
    subprocess.run(["git", "-C", "/repo", "worktree", "remove", "--force", wt], capture_output=True)
    return res


KNOWN = {}


def main():
    global KNOWN
    if os.path.exists("/root/scratch/auto_partial.json"):
        KNOWN = json.load(open("/root/scratch/auto_partial.json"))
    random.seed(20261002)
    c = candidates()
    random.shuffle(c)
    # spread over files and operators
    pick, seen = [], {}
    for m in c:
        key = (m[0], m[2])
        if seen.get(key, 0) < max(2, N // 20):
            pick.append(m)
            seen[key] = seen.get(key, 0) + 1
        if len(pick) >= N:
            break
    print("candidates", len(c), "picked", len(pick), flush=True)
    chunks = [(w, pick[w::JOBS]) for w in range(JOBS)]
    allres = []
    with ThreadPoolExecutor(max_workers=JOBS) as ex:
        for r in ex.map(worker, chunks):
            allres += r
    json.dump(allres, open(os.path.join(ROOT, "auto_mutants.json"), "w"), indent=1)
    surv = [r for r in allres if r["status"] == "survives the suite"]
    print("mutants", len(allres), "survive the suite", len(surv),
          "caught dynamically", sum(1 for r in surv if r["dynamic_caught_by"]),
          "seen statically", sum(1 for r in surv if r["static"]))
    for r in surv:
        if not r["dynamic_caught_by"]:
            print("  not caught dynamically:", r["id"], r["old"], "=>", r["new"], r["static"])


if __name__ == "__main__":
    main()
