#!/usr/bin/env python3
"""tools/translator_vs_seeded.py: for every seeded change, what the translator (tools/rs2v.py) makes of the
changed source, part by part: 'same' (generated text unchanged), 'changed' (translates to different Gallina: the
static proofs are then re-checked against it and may break), 'rejected' (outside the translated subset: the tie
is reported broken). Writes translator_vs_seeded.json. Experiment behind DESIGN 12.14; not a registered check."""
import os, subprocess, json, glob, shutil, sys
sys.path.insert(0, os.path.join(os.path.dirname(os.path.dirname(os.path.abspath(__file__))), "lib"))
import props as PR
ROOT = os.path.dirname(os.path.dirname(os.path.abspath(__file__)))
PARTS = {"counters": "Counters.v", "handles": "HandlesGen.v", "adopt": "AdoptGen.v", "links": "LinksGen.v",
         "cycle": "CycleGen.v", "drop": "DropGen.v", "purge": "PurgeGen.v", "bust": "BustGen.v", "rawptr": "RawPtrGen.v", "effects": "EffectsGen.v"}
wt = "/tmp/wt_tvs"
subprocess.run(["git", "-C", "/repo", "worktree", "remove", "--force", wt], capture_output=True)
subprocess.run(["git", "-C", "/repo", "worktree", "add", "--detach", wt, "HEAD"], capture_output=True, check=True)
out = "/root/scratch/tvs"
os.makedirs(out, exist_ok=True)


def gen(repo):
    r = {}
    for part, f in PARTS.items():
        p = subprocess.run([sys.executable, os.path.join(ROOT, "tools", "rs2v.py"), repo, out, part], capture_output=True)
        r[part] = None if p.returncode else "\n".join(open(os.path.join(out, f)).read().split("\n")[1:])
    return r


base = gen(wt)
base_census = PR.source_census(wt)
base_borrow = PR.borrow_census(wt)
assert all(v is not None for v in base.values()), base
res = {}
for d in sorted(glob.glob(os.path.join(ROOT, "seeded", "*"))):
    n = os.path.basename(d)
    subprocess.run(["git", "-C", wt, "checkout", "-q", "--", "."], check=True)
    subprocess.run(["git", "-C", wt, "clean", "-fdq"], check=True)
    if subprocess.run(["git", "-C", wt, "apply", os.path.join(d, "patch.diff")], capture_output=True).returncode:
        res[n] = "patch does not apply"
        continue
    g = gen(wt)
    res[n] = {p: ("rejected" if g[p] is None else "same" if g[p] == base[p] else "changed") for p in PARTS}
    cen = PR.source_census(wt)
    res[n]["census(untranslated rc.rs)"] = "same" if cen == base_census else "changed: " + ",".join(
        sorted(k for k in set(cen) | set(base_census) if cen.get(k) != base_census.get(k)))
    bc = PR.borrow_census(wt)
    res[n]["census(borrow sites)"] = "same" if bc == base_borrow else "changed"
subprocess.run(["git", "-C", "/repo", "worktree", "remove", "--force", wt], capture_output=True)
json.dump(res, open(os.path.join(ROOT, "translator_vs_seeded.json"), "w"), indent=1)
seen = sum(1 for v in res.values() if isinstance(v, dict) and any(x != "same" for x in v.values()))
print("seeded changes:", len(res), "seen by the translator:", seen)
for n, v in res.items():
    if isinstance(v, dict) and all(x == "same" for x in v.values()):
        print("  not seen statically:", n)
