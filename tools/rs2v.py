#!/usr/bin/env python3
"""tools/rs2v.py [repo] [out.v]: translate the default methods of `trait RcInnerPtr` (src/rc.rs: the
counter protocol -- strong/weak cells, abort guards, the usize::MAX marker) from Rust to Gallina.

The subset is exactly what that trait uses: `let x = E;`, `if E { abort(); }`, `self.<cell>_ref().set(E);`,
a tail expression; E over `self.m()`, `self.<cell>_ref().get()`, identifiers, integer literals, `usize::MAX`,
`+ - == != || && !` and parentheses. Arithmetic is usize arithmetic with overflow checks on (the harness
and the crate's tests are built that way): `+` and `-` that leave 0..=usize::MAX are the outcome `Overflow`.
`||` and `&&` are short-circuit, in program order, because an operand may overflow.
Anything outside the subset is an error (exit 2): the tie to the source is then broken, not guessed."""
import re, sys

TOK = re.compile(r"\s*(?:(\d+)|(usize::MAX)|([A-Za-z_][A-Za-z_0-9]*)|(\|\||&&|==|!=|[-+!(){};.,=]))")


class Unsupported(Exception):
    pass


def tokenize(src):
    out, i = [], 0
    while i < len(src):
        m = TOK.match(src, i)
        if not m:
            if src[i:].strip() == "":
                break
            raise Unsupported("cannot tokenize at: %r" % src[i:i + 30])
        i = m.end()
        if m.group(1):
            out.append(("int", m.group(1)))
        elif m.group(2):
            out.append(("max", "usize::MAX"))
        elif m.group(3):
            out.append(("id", m.group(3)))
        else:
            out.append(("op", m.group(4)))
    return out


class P:
    def __init__(self, toks, methods):
        self.t, self.i, self.methods = toks, 0, methods

    def peek(self, k=0):
        return self.t[self.i + k] if self.i + k < len(self.t) else ("eof", "")

    def eat(self, kind=None, val=None):
        tk = self.peek()
        if (kind and tk[0] != kind) or (val and tk[1] != val):
            raise Unsupported("expected %s %s, found %s" % (kind, val, tk))
        self.i += 1
        return tk

    # E ::= or ; or ::= and ('||' and)* ; and ::= cmp ('&&' cmp)* ; cmp ::= sum (('=='|'!=') sum)? ;
    # sum ::= un (('+'|'-') un)* ; un ::= '!' un | atom
    def expr(self):
        e = self.and_()
        while self.peek() == ("op", "||"):
            self.eat()
            e = ("or", e, self.and_())
        return e

    def and_(self):
        e = self.cmp()
        while self.peek() == ("op", "&&"):
            self.eat()
            e = ("and", e, self.cmp())
        return e

    def cmp(self):
        e = self.sum()
        if self.peek() in (("op", "=="), ("op", "!=")):
            op = self.eat()[1]
            r = self.sum()
            e = ("eq", e, r) if op == "==" else ("not", ("eq", e, r))
        return e

    def sum(self):
        e = self.un()
        while self.peek() in (("op", "+"), ("op", "-")):
            op = self.eat()[1]
            e = ("add" if op == "+" else "sub", e, self.un())
        return e

    def un(self):
        if self.peek() == ("op", "!"):
            self.eat()
            return ("not", self.un())
        return self.atom()

    def atom(self):
        tk = self.peek()
        if tk[0] == "int":
            self.eat()
            return ("int", tk[1])
        if tk[0] == "max":
            self.eat()
            return ("max",)
        if tk == ("op", "("):
            self.eat()
            e = self.expr()
            self.eat("op", ")")
            return e
        if tk == ("id", "self"):
            self.eat()
            self.eat("op", ".")
            name = self.eat("id")[1]
            self.eat("op", "(")
            self.eat("op", ")")
            if name in ("strong_ref", "weak_ref"):
                self.eat("op", ".")
                m = self.eat("id")[1]
                if m != "get":
                    raise Unsupported("cell method in expression: " + m)
                self.eat("op", "(")
                self.eat("op", ")")
                return ("get", name[:-4])
            if name not in self.methods:
                raise Unsupported("unknown method self.%s()" % name)
            return ("call", name)
        if tk[0] == "id":
            self.eat()
            return ("var", tk[1])
        raise Unsupported("unexpected token %s" % (tk,))

    def stmts(self):
        out = []
        while self.peek()[0] != "eof":
            tk = self.peek()
            if tk == ("id", "let"):
                self.eat()
                v = self.eat("id")[1]
                self.eat("op", "=")
                e = self.expr()
                self.eat("op", ";")
                out.append(("let", v, e))
            elif tk == ("id", "if"):
                self.eat()
                c = self.expr()
                self.eat("op", "{")
                self.eat("id", "abort")
                self.eat("op", "(")
                self.eat("op", ")")
                self.eat("op", ";")
                self.eat("op", "}")
                out.append(("abort_if", c))
            elif tk == ("id", "self") and self.peek(2)[1] in ("strong_ref", "weak_ref") and self.peek(6)[1] == "set":
                self.eat()
                self.eat("op", ".")
                cell = self.eat("id")[1][:-4]
                self.eat("op", "(")
                self.eat("op", ")")
                self.eat("op", ".")
                self.eat("id", "set")
                self.eat("op", "(")
                e = self.expr()
                self.eat("op", ")")
                self.eat("op", ";")
                out.append(("set", cell, e))
            else:
                e = self.expr()
                if self.peek()[0] != "eof":
                    raise Unsupported("statement form not in the subset near %s" % (self.peek(),))
                out.append(("ret", e))
        return out


def gexpr(e):
    k = e[0]
    if k == "int":
        return "(ret %s%%N)" % e[1]
    if k == "max":
        return "(ret MAXU)"
    if k == "var":
        return "(ret v_%s)" % e[1]
    if k == "get":
        return "get_%s" % e[1]
    if k == "call":
        return "g_%s" % e[1]
    if k == "or":
        return "(bind %s (fun t => if t then ret true else %s))" % (gexpr(e[1]), gexpr(e[2]))
    if k == "and":
        return "(bind %s (fun t => if t then %s else ret false))" % (gexpr(e[1]), gexpr(e[2]))
    if k == "not":
        return "(bind %s (fun t => ret (negb t)))" % gexpr(e[1])
    if k == "eq":
        return "(bind %s (fun a => bind %s (fun b => ret (N.eqb a b))))" % (gexpr(e[1]), gexpr(e[2]))
    if k == "add":
        return "(bind %s (fun a => bind %s (fun b => add_chk a b)))" % (gexpr(e[1]), gexpr(e[2]))
    if k == "sub":
        return "(bind %s (fun a => bind %s (fun b => sub_chk a b)))" % (gexpr(e[1]), gexpr(e[2]))
    raise Unsupported(str(e))


def gbody(sts, rett):
    if not sts:
        if rett != "unit":
            raise Unsupported("missing tail expression")
        return "ret tt"
    s, rest = sts[0], sts[1:]
    if s[0] == "let":
        return "bind %s (fun v_%s =>\n  %s)" % (gexpr(s[2]), s[1], gbody(rest, rett))
    if s[0] == "abort_if":
        return "bind %s (fun c => if c then abort else\n  %s)" % (gexpr(s[1]), gbody(rest, rett))
    if s[0] == "set":
        return "bind %s (fun x => bind (set_%s x) (fun _ =>\n  %s))" % (gexpr(s[2]), s[1], gbody(rest, rett))
    if s[0] == "ret":
        if rest:
            raise Unsupported("code after the tail expression")
        return gexpr(s[1])
    raise Unsupported(str(s))


PRELUDE = '''(* GENERATED by tools/rs2v.py from %s (trait RcInnerPtr) -- do not edit.
   Regenerated on every run of ./check; gen/CountersProofs.v is re-checked against it. *)
From Coq Require Import NArith Bool.
Local Open Scope N_scope.

Definition MAXU : N := 18446744073709551615.            (* usize::MAX, 64-bit target *)
Record cells := { c_strong : N; c_weak : N }.
Inductive outc (A : Type) := Ret (a : A) (c : cells) | Abort | Overflow.
Arguments Ret {A}. Arguments Abort {A}. Arguments Overflow {A}.
Definition M (A : Type) := cells -> outc A.
Definition ret {A} (a : A) : M A := fun c => Ret a c.
Definition bind {A B} (m : M A) (f : A -> M B) : M B :=
  fun c => match m c with Ret a c1 => f a c1 | Abort => Abort | Overflow => Overflow end.
Definition abort {A} : M A := fun _ => Abort.
Definition get_strong : M N := fun c => Ret (c_strong c) c.
Definition get_weak : M N := fun c => Ret (c_weak c) c.
Definition set_strong (x : N) : M unit := fun c => Ret tt {| c_strong := x; c_weak := c_weak c |}.
Definition set_weak (x : N) : M unit := fun c => Ret tt {| c_strong := c_strong c; c_weak := x |}.
(* usize arithmetic with overflow checks *)
Definition add_chk (a b : N) : M N := fun c => if a + b <=? MAXU then Ret (a + b) c else Overflow.
Definition sub_chk (a b : N) : M N := fun c => if b <=? a then Ret (a - b) c else Overflow.

'''


def translate(repo):
    path = repo + "/src/rc.rs"
    src = open(path).read()
    m = re.search(r"pub\(crate\) trait RcInnerPtr \{(.*?)\n\}\n", src, re.S)
    if not m:
        raise Unsupported("trait RcInnerPtr not found")
    body = re.sub(r"//[^\n]*", "", m.group(1))
    body = re.sub(r"#\[[^\]]*\]", "", body)
    fns = re.findall(r"fn\s+(\w+)\s*\(&self\)\s*(?:->\s*([&\w<>]+))?\s*(\{|;)", body)
    # bodies by brace matching
    defs = []
    for mm in re.finditer(r"fn\s+(\w+)\s*\(&self\)\s*(?:->\s*([&\w<>]+)\s*)?\{", body):
        name, rty = mm.group(1), mm.group(2) or "()"
        i, depth = mm.end(), 1
        while depth:
            ch = body[i]
            depth += ch == "{"
            depth -= ch == "}"
            i += 1
        defs.append((name, rty, body[mm.end():i - 1]))
    abstract = [f[0] for f in fns if f[2] == ";"]
    if sorted(abstract) != ["strong_ref", "weak_ref"]:
        raise Unsupported("unexpected required methods: %s" % abstract)
    methods = [d[0] for d in defs]
    out = [PRELUDE % path]
    tymap = {"usize": "N", "bool": "bool", "()": "unit"}
    parsed = {}
    for name, rty, b in defs:
        if rty not in tymap:
            raise Unsupported("return type %s of %s" % (rty, name))
        parsed[name] = (tymap[rty], P(tokenize(b), set(methods)).stmts())

    def calls(x):
        if isinstance(x, tuple):
            if x and x[0] == "call":
                yield x[1]
            for y in x:
                yield from calls(y)
        elif isinstance(x, list):
            for y in x:
                yield from calls(y)
    # definitions in dependency order (Gallina has no forward references); recursion is outside the subset
    done, order = set(), []

    def visit(n, stack=()):
        if n in done:
            return
        if n in stack:
            raise Unsupported("recursive method " + n)
        for c in calls(parsed[n][1]):
            visit(c, stack + (n,))
        done.add(n)
        order.append(n)
    for name in methods:
        visit(name)
    for name in order:
        ty, sts = parsed[name]
        out.append("Definition g_%s : M %s :=\n  %s.\n" % (name, ty, gbody(sts, ty)))
    out.append("(* methods: %s *)\n" % " ".join(methods))
    return "\n".join(out), methods


# ---------------------------------------------------------------------------------------------------
# adopt.rs: `adopt_unchecked` and `unadopt` of `impl Adopt for Rc<T>` -- a command language over link
# tables. Statements of the subset (after comments and `unsafe { .. }` wrappers are removed):
#   if ptr::eq(this, other) { S* return; }
#   let mut links = X.inner().links().borrow_mut();      X in {this, other}
#   links.insert(Link::K(Y.ptr));   links.remove(Link::K(Y.ptr), N);   K in {forward, backward, loopback}
#   drop(links);   return;
# The output is an abstract syntax tree (type [lstmt] of gen/AdoptProofs.v); its meaning -- which table a
# guard named `links` borrows, when a guard is released (explicit drop, or scope end in reverse order) --
# is given in Coq by [run_prog].
KIND = {"forward": "Fwd", "backward": "Bwd", "loopback": "Loop"}
TGT = {"this": "This", "other": "Other"}


def adopt_stmts(body):
    body = re.sub(r"//[^\n]*", "", body)
    body = re.sub(r"unsafe\s*\{([^{}]*)\}", r"\1", body)          # `unsafe { expr }` around a borrow
    body = " ".join(body.split())
    out, i = [], 0

    def cmds(txt):
        res, j = [], 0
        pats = [
            (r"let mut links = (this|other)\.inner\(\)\.links\(\)\.borrow_mut\(\) ?;", lambda m: "LBorrowMut %s" % TGT[m.group(1)]),
            (r"links\.insert\(Link::(forward|backward|loopback)\((this|other)\.ptr\)\);",
             lambda m: "LInsert %s %s" % (KIND[m.group(1)], TGT[m.group(2)])),
            (r"links\.remove\(Link::(forward|backward|loopback)\((this|other)\.ptr\), (\d+)\);",
             lambda m: "LRemove %s %s %s%%N" % (KIND[m.group(1)], TGT[m.group(2)], m.group(3))),
            (r"drop\(links\);", lambda m: "LRelease"),
            (r"return;", lambda m: "LReturn"),
        ]
        txt = txt.strip()
        while j < len(txt):
            if txt[j] == " ":
                j += 1
                continue
            for pat, f in pats:
                m = re.match(pat, txt[j:])
                if m:
                    res.append(f(m))
                    j += m.end()
                    break
            else:
                raise Unsupported("adopt.rs statement outside the subset: %r" % txt[j:j + 60])
        return res
    while i < len(body):
        if body[i] == " ":
            i += 1
            continue
        m = re.match(r"if ptr::eq\(this, other\) \{", body[i:])
        if m:
            j = i + m.end()
            k = body.index("}", j)
            inner = cmds(body[j:k])
            out.append("LIfSame [%s]" % "; ".join(inner))
            i = k + 1
            continue
        # a run of plain commands up to the next `if` or the end
        nxt = body.find("if ptr::eq", i)
        chunk = body[i:nxt] if nxt >= 0 else body[i:]
        for c in cmds(chunk):
            out.append("LCmd (%s)" % c)
        i = nxt if nxt >= 0 else len(body)
    return out


def translate_adopt(repo):
    path = repo + "/src/adopt.rs"
    src = open(path).read()
    m = re.search(r"unsafe impl<T> Adopt for Rc<T> \{(.*)\n\}\n", src, re.S)
    if not m:
        raise Unsupported("impl Adopt for Rc<T> not found")
    impl = m.group(1)
    res = {}
    for name in ("adopt_unchecked", "unadopt"):
        mm = re.search(r"fn\s+%s\s*\(this: &Self, other: &Self\)\s*\{" % name, impl)
        if not mm:
            raise Unsupported("fn %s(this: &Self, other: &Self) not found" % name)
        i, depth = mm.end(), 1
        while depth:
            ch = impl[i]
            depth += ch == "{"
            depth -= ch == "}"
            i += 1
        res[name] = adopt_stmts(impl[mm.end():i - 1])
    text = ("(* GENERATED by tools/rs2v.py from %s (impl Adopt for Rc<T>) -- do not edit. *)\n"
            "From Coq Require Import NArith List. Import ListNotations.\n"
            "From CR Require Import Base.\nFrom Gen Require Import AdoptLang.\n\n" % path)
    for name, sts in res.items():
        text += "Definition g_%s : list lstmt :=\n  [ %s ].\n\n" % (name, ";\n    ".join(sts))
    return text


# ---------------------------------------------------------------------------------------------------
# cycle.rs: the reachability trace. Both functions are TRANSLATED statement by statement:
#   * the control skeleton of `cycle_refs`                        -> [g_cycle_refs_skel : list wstmt]
#   * the control skeleton of `Rc::orphaned_cycle`                -> [g_orphaned_skel : list ostmt]
#   * the body of `for (&link, &strong) in links.iter() { .. }`  -> [g_entry_body : list estmt]
#   * the predicate of `.any(|(item, &cycle_owned_refs)| ..)`       -> [g_external : N -> N -> bool]
# The order (and multiplicity) of the statements is the one found in the source; what a skeleton MEANS
# is gen/CycleSkelLang.v, and that the translated ones are the model's `cycle_refs`/`orphaned_cycle` is
# proved in gen/CycleSkelProofs.v. A statement that is none of the forms below -> Unsupported.
REFS_TOP = [(r"let mut cycle_owned_refs = HashMap::default\(\);", "WInitMap"),
            (r"let mut discovered = vec!\[this\];", "WInitWork"),
            (r"let mut visited = HashSet::default\(\);", "WInitVisited")]
REFS_WHILE = r"while let Some\(node\) = discovered\.(pop\(\)|remove\(0\)) \{"
POPS = {"pop()": "PopBack", "remove(0)": "PopFront"}
REFS_LOOP = [(r"if visited\.contains\(&node\) \{ continue; \}", "WIfVisitedContinue"),
             (r"visited\.insert\(node\);", "WMarkVisited"),
             (r"let links = unsafe \{ node\.as_ref\(\)\.links\(\)\.borrow\(\) \};", "WBorrowNode")]
REFS_FOR = r"for \(&link, &strong\) in links\.iter\(\) \{"
REFS_RET = r"cycle_owned_refs$"
ORPH_STMTS = [(r"let cycle = cycle_refs\(Link::forward\(this\.ptr\)\);", "OTrace"),
              (r"if cycle\.is_empty\(\) \{ return None; \}", "OIfEmptyReturnNone"),
              (r"let has_external_owners = cycle\.iter\(\)\.any\(\|\(item, &cycle_owned_refs\)\| (?P<pred>[^;]*)\);",
               "OAnyExternal"),
              (r"if has_external_owners \{ None \} else \{ Some\(cycle\) \}$", "OIfExternalNoneElseSome")]
KINDS = {"Forward": "Fwd", "Backward": "Bwd", "Loopback": "Loop"}


def _fn_body(src, header_re):
    mm = re.search(header_re, src)
    if not mm:
        raise Unsupported("function not found: " + header_re)
    i, depth = mm.end(), 1
    while depth:
        ch = src[i]
        depth += ch == "{"
        depth -= ch == "}"
        i += 1
    return src[mm.end():i - 1]


def _norm(body):
    body = re.sub(r"//[^\n]*", "", body)
    # instrumentation and debug-only statements are not part of the behaviour under translation
    body = re.sub(r"#\[cfg\(cactusref_verif\)\]\s*[^;]*;", "", body)
    body = re.sub(r"#\[cfg\(debug_assertions\)\]\s*", "", body)
    body = " ".join(body.split())
    # method chains broken over lines by rustfmt: `x\n    .f()` and `x.f()` are the same text here
    return re.sub(r"\s+\.(?=[A-Za-z_])", ".", body)


def entry_stmts(txt):
    """-> (list of Gallina estmt terms, rest)"""
    out = []
    txt = txt.strip()
    while txt:
        m = re.match(r"if let (Kind::\w+(?: \| Kind::\w+)*) = link\.kind\(\) \{", txt)
        if m:
            ks = [KINDS[k.strip()[6:]] for k in m.group(1).split("|")]
            depth, i = 1, m.end()
            while depth:
                depth += txt[i] == "{"
                depth -= txt[i] == "}"
                i += 1
            th = entry_stmts(txt[m.end():i - 1])
            rest = txt[i:].strip()
            el = []
            m2 = re.match(r"else \{", rest)
            if m2:
                depth, j = 1, m2.end()
                while depth:
                    depth += rest[j] == "{"
                    depth -= rest[j] == "}"
                    j += 1
                el = entry_stmts(rest[m2.end():j - 1])
                rest = rest[j:].strip()
            out.append("EIfKind [%s] [%s] [%s]" % ("; ".join(ks), "; ".join(th), "; ".join(el)))
            txt = rest
            continue
        for pat, term in ((r"continue;", "EContinue"),
                          (r"cycle_owned_refs\.entry\(link\)\.and_modify\(\|count\| \*count \+= strong\)\.or_insert\(strong\);", "EAct EAdd"),
                          (r"discovered\.push\(link\);", "EAct EPush"),
                          (r"cycle_owned_refs\.entry\(link\.as_forward\(\)\)\.or_default\(\);", "EAct EDefault")):
            m = re.match(pat, txt)
            if m:
                out.append(term)
                txt = txt[m.end():].strip()
                break
        else:
            raise Unsupported("cycle.rs entry statement outside the subset: %r" % txt[:70])
    return out


def pred_expr(txt):
    toks = re.findall(r"item\.strong\(\)|cycle_owned_refs|\d+|>=|<=|==|!=|[<>+\-()]", txt)
    if "".join(toks) != txt.replace(" ", ""):
        raise Unsupported("predicate outside the subset: %r" % txt)
    pos = [0]

    def atom():
        t = toks[pos[0]]
        pos[0] += 1
        if t == "item.strong()":
            return "strong"
        if t == "cycle_owned_refs":
            return "owned"
        if t.isdigit():
            return "%s%%N" % t
        if t == "(":
            e = summ()
            pos[0] += 1
            return "(%s)" % e
        raise Unsupported("predicate token " + t)

    def summ():
        e = atom()
        while pos[0] < len(toks) and toks[pos[0]] in "+-":
            op = toks[pos[0]]
            pos[0] += 1
            e = "(%s %s %s)" % (e, op, atom())
        return e
    l = summ()
    if pos[0] >= len(toks):
        raise Unsupported("predicate is not a comparison")
    op = toks[pos[0]]
    pos[0] += 1
    r = summ()
    if pos[0] != len(toks):
        raise Unsupported("trailing tokens in predicate")
    return {">": "(%s <? %s)" % (r, l), "<": "(%s <? %s)" % (l, r), ">=": "(%s <=? %s)" % (r, l),
            "<=": "(%s <=? %s)" % (l, r), "==": "(%s =? %s)" % (l, r), "!=": "(negb (%s =? %s))" % (l, r)}[op]


def _norm_cycle(body):
    """_norm + removal of the debug-only call and of the logging macros"""
    body = re.sub(r"#\[cfg\(debug_assertions\)\]\s*debug_cycle\([^;]*\);", "", body)
    body = _norm(body)
    body = re.sub(r"\b(?:trace|debug)!\((?:[^()]|\((?:[^()]|\([^()]*\))*\))*\);", "", body)
    return " ".join(body.split())


def _close(txt, i):
    """txt[i-1] is an opening brace: index just after the matching closing one"""
    depth = 1
    while depth:
        if i >= len(txt):
            raise Unsupported("unbalanced braces in cycle.rs")
        depth += txt[i] == "{"
        depth -= txt[i] == "}"
        i += 1
    return i


def refs_stmts(txt, in_loop, bodies):
    """one statement at a time -> list of Gallina wstmt terms; the texts of the bodies of the
    `for (&link, &strong) in links.iter()` loops met on the way are appended to [bodies]"""
    out = []
    txt = txt.strip()
    while txt:
        if in_loop:
            m = re.match(REFS_FOR, txt)
            if m:
                j = _close(txt, m.end())
                bodies.append(txt[m.end():j - 1])
                out.append("WForEntries")
                txt = txt[j:].strip()
                continue
            forms = REFS_LOOP
        else:
            m = re.match(REFS_WHILE, txt)
            if m:
                j = _close(txt, m.end())
                inner = refs_stmts(txt[m.end():j - 1], True, bodies)
                out.append("WWhilePop %s [ %s ]" % (POPS[m.group(1)], "; ".join(inner)))
                txt = txt[j:].strip()
                continue
            forms = REFS_TOP + [(REFS_RET, "WReturnMap")]
        for pat, term in forms:
            m = re.match(pat, txt)
            if m:
                out.append(term)
                txt = txt[m.end():].strip()
                break
        else:
            raise Unsupported("cycle_refs statement outside the subset (%s): %r"
                              % ("loop body" if in_loop else "function body", txt[:70]))
    return out


def orph_stmts(txt):
    """-> (list of Gallina ostmt terms, texts of the `.any(..)` predicates met)"""
    out, preds = [], []
    txt = txt.strip()
    while txt:
        for pat, term in ORPH_STMTS:
            m = re.match(pat, txt)
            if m:
                out.append(term)
                if "pred" in m.groupdict():
                    preds.append(m.group("pred").strip())
                txt = txt[m.end():].strip()
                break
        else:
            raise Unsupported("orphaned_cycle statement outside the subset: %r" % txt[:70])
    return out, preds


def translate_cycle(repo):
    path = repo + "/src/cycle.rs"
    src = open(path).read()
    refs = _norm_cycle(_fn_body(src, r"fn cycle_refs<T>\(this: Link<T>\) -> HashMap<Link<T>, usize> \{"))
    bodies = []
    skel = refs_stmts(refs, False, bodies)
    # one generated body constant: every entry loop of the skeleton runs [g_entry_body]
    if not bodies:
        raise Unsupported("cycle_refs: no `for (&link, &strong) in links.iter()` loop")
    if any(b.strip() != bodies[0].strip() for b in bodies):
        raise Unsupported("cycle_refs: several entry loops with different bodies")
    body = entry_stmts(bodies[0])
    orph = _norm_cycle(_fn_body(src, r"fn orphaned_cycle\(this: &Self\) -> Option<HashMap<Link<T>, usize>> \{"))
    oskel, preds = orph_stmts(orph)
    if not preds:
        raise Unsupported("orphaned_cycle: no `cycle.iter().any(..)`")
    if any(q != preds[0] for q in preds):
        raise Unsupported("orphaned_cycle: several `.any(..)` with different predicates")
    pred = pred_expr(preds[0])
    return ("(* GENERATED by tools/rs2v.py from %s -- do not edit. *)\n"
            "From Coq Require Import NArith List. Import ListNotations.\n"
            "From CR Require Import Base.\nFrom Gen Require Import CycleLang.\nLocal Open Scope N_scope.\n\n"
            "(* body of `for (&link, &strong) in links.iter()` in cycle_refs *)\n"
            "Definition g_entry_body : list estmt :=\n  [ %s ].\n\n"
            "(* `item.strong() .. cycle_owned_refs` in orphaned_cycle's `.any(..)` *)\n"
            "Definition g_external (strong owned : N) : bool := %s.\n\n"
            "(* the statements of cycle_refs, in source order (meaning: gen/CycleSkelLang.v) *)\n"
            "Definition g_cycle_refs_skel : list wstmt :=\n  [ %s ].\n\n"
            "(* the statements of Rc::orphaned_cycle, in source order *)\n"
            "Definition g_orphaned_skel : list ostmt :=\n  [ %s ].\n"
            % (path, ";\n    ".join(body), pred, ";\n    ".join(skel), ";\n    ".join(oskel)))


# ---------------------------------------------------------------------------------------------------
# drop.rs: the dispatch of `impl Drop for Rc<T>` -- which of the three teardown paths a drop takes, and
# that no trace runs for an object without adoptions (C14) -- as a small decision language.
DROP_CONDS = [(r"if self\.inner\(\)\.is_dead\(\) \{", "DIsDead"),
              (r"if self\.inner\(\)\.links\(\)\.borrow\(\)\.is_empty\(\) \{", "DLinksEmpty"),
              (r"if let Some\(cycle\) = Self::orphaned_cycle\(self\) \{", "DOrphaned")]
DROP_CMDS = [(r"self\.inner\(\)\.dec_strong\(\);", "DDecStrong"),
             (r"drop_unreachable\(self\);", "DCall DUnreachable"),
             (r"drop_unreachable_with_adoptions\(self\);", "DCall DUnreachableAdopt"),
             (r"drop_cycle\(cycle\);", "DCall DCycle"),
             (r"return;", "DReturn")]


def drop_stmts(txt):
    out = []
    txt = txt.strip()
    while txt:
        m = re.match(r"(?:debug|trace)!\((?:[^()]|\([^()]*\))*\);", txt)     # logging: no behaviour
        if m:
            txt = txt[m.end():].strip()
            continue
        m = re.match(r"unsafe \{", txt)
        if m:
            depth, i = 1, m.end()
            while depth:
                depth += txt[i] == "{"
                depth -= txt[i] == "}"
                i += 1
            out += drop_stmts(txt[m.end():i - 1])
            txt = txt[i:].strip()
            continue
        for pat, name in DROP_CONDS:
            m = re.match(pat, txt)
            if m:
                depth, i = 1, m.end()
                while depth:
                    depth += txt[i] == "{"
                    depth -= txt[i] == "}"
                    i += 1
                out.append("DIf %s [%s]" % (name, "; ".join(drop_stmts(txt[m.end():i - 1]))))
                txt = txt[i:].strip()
                if txt.startswith("else"):
                    raise Unsupported("else branch in Rc::drop")
                break
        else:
            for pat, name in DROP_CMDS:
                m = re.match(pat, txt)
                if m:
                    out.append(name)
                    txt = txt[m.end():].strip()
                    break
            else:
                raise Unsupported("Rc::drop statement outside the subset: %r" % txt[:70])
    return out


def translate_drop(repo):
    path = repo + "/src/drop.rs"
    src = re.sub(r"//[^\n]*", "", open(path).read())        # doc comments contain example `fn drop`s
    m = re.search(r"unsafe impl<#\[may_dangle\] T> Drop for Rc<T> \{", src)
    if not m:
        raise Unsupported("impl Drop for Rc<T> not found")
    body = _norm(_fn_body(src[m.end():], r"fn drop\(&mut self\) \{"))
    sts = drop_stmts(body)
    return ("(* GENERATED by tools/rs2v.py from %s (impl Drop for Rc<T>) -- do not edit. *)\n"
            "From Coq Require Import List. Import ListNotations.\nFrom Gen Require Import DropLang.\n\n"
            "Definition g_rc_drop : list dstmt :=\n  [ %s ].\n" % (path, ";\n    ".join(sts)))


# ---------------------------------------------------------------------------------------------------
# drop.rs: the ORDER OF EFFECTS of the teardown functions, as a tree of markers (loops and tests keep
# their nesting). Nothing here is interpreted by the translator: the expected trees, and what each marker
# means in terms of the model's frames, are in gen/EffectsProofs.v.
EFFECTS = [(r"\.make_uninit\(\)", "MakeUninit"), (r"mem::replace\(&mut \(\*rcbox\)\.value", "MoveValue"),
           (r"drop\(inner\.assume_init\(\)\)", "DropValue"), (r"mem::replace\(&mut \(\*rcbox\)\.links", "MoveLinks"),
           (r"drop\(links\.assume_init\(\)\)", "DropLinks"), (r"\.dec_weak\(\)", "DecWeak"),
           (r"\.dec_strong\(\)", "DecStrong"), (r"\.deallocate\(", "Dealloc"), (r"inners\.push\(", "PushInner"),
           (r"drop\(inners\)", "DropInners"), (r"\.borrow_mut\(\)", "BorrowMut"), (r"\.borrow\(\)", "Borrow"),
           (r"\.remove\(", "Remove"), (r"\.extract_if\(", "ExtractIf"), (r"\.is_uninit\(\)", "TestUninit"),
           (r"\.is_dead\(\)", "TestDead"), (r"\.weak\(\) == 0", "TestWeakZero"), (r"\bcontinue;", "Continue"),
           (r"ptr::eq\(", "TestSelf"), (r"\.insert\(", "Insert"), (r"\.clear\(\)", "Clear"),
           (r"release_links\(", "ReleaseLinks"), (r"ptr::read\(", "ReadValue"), (r"Weak \{", "MakeWeakGuard"),
           (r"mem::forget\(", "Forget"), (r"Rc::strong_count\(&?this\) == 1", "TestStrongIsOne"),
           (r"Rc::strong_count\(&?this\) != 1", "TestStrongNotOne"), (r"Rc::weak_count\(&?this\) != 0", "TestWeakCountNotZero"),
           (r"Rc::weak_count\(&?this\) == 0", "TestWeakCountZero"), (r"Self::new_uninit\(\)", "NewUninit"),
           (r"\.clone\(\)", "CloneValue"), (r"copy_from_nonoverlapping\(", "CopyValue"),
           (r"\*this = rc\.assume_init\(\)", "AssignDropOld"), (r"ptr::write\(this, rc\.assume_init\(\)\)", "OverwriteNoDrop"),
           (r"\bOk\(val\)", "ReturnOk"), (r"\bErr\(this\)", "ReturnErr"), (r"\breturn;", "Return"),
           (r"ManuallyDrop::new\(", "ManuallyDropNew"), (r"Rc::(?:<T>::)?from_raw\(", "FromRaw"), (r"\bdrop\(Rc::from_raw\(", "DropFromRaw"),
           (r"Self::as_ptr\(", "AsPtr"), (r"data_offset\(", "DataOffset"), (r"Self::from_ptr\(", "FromPtr"),
           # a reference to the value of the allocation just made: no effect of its own
           (r"Rc::get_mut_unchecked\(", None),
           # any other call into the Rc API: so that a new condition or helper call cannot hide between markers
           (r"\b(?:Rc|Self)::[a-z_]+\(", "OtherCall")]
EFF_RE = re.compile("|".join("(?P<e%d>%s)" % (i, p) for i, (p, _) in enumerate(EFFECTS)))


def _markers(txt):
    return ["E %s" % EFFECTS[int(m.lastgroup[1:])][1] for m in EFF_RE.finditer(txt)
            if EFFECTS[int(m.lastgroup[1:])][1] is not None]


def effect_tree(txt):
    """txt: normalized function body -> list of Gallina enode terms"""
    out, i, chunk_start = [], 0, 0
    while i < len(txt):
        if txt[i] == "{":
            # header = text since the last ';' '{' '}' boundary inside the current chunk
            head_start = max(txt.rfind(";", chunk_start, i), txt.rfind("}", chunk_start, i), chunk_start - 1) + 1
            out += _markers(txt[chunk_start:head_start])
            header = txt[head_start:i].strip()
            depth, j = 1, i + 1
            while depth:
                depth += txt[j] == "{"
                depth -= txt[j] == "}"
                j += 1
            inner = effect_tree(txt[i + 1:j - 1])
            hm = _markers(header)
            if re.match(r"for\b", header):
                out.append("Loop [%s] [%s]" % ("; ".join(hm), "; ".join(inner)))
            elif re.match(r"(else )?if\b|match\b|else\b", header) or header.endswith("=>"):
                if hm or inner:
                    out.append("Branch [%s] [%s]" % ("; ".join(hm), "; ".join(inner)))
            elif re.search(r"= Weak$", header):
                out += hm + ["E MakeWeakGuard"]       # a Weak built by hand: its Drop (dec_weak, maybe dealloc) runs at scope end
            else:
                out += hm + inner          # closures, plain blocks, struct literals: no control flow of their own
            i = chunk_start = j
        else:
            i += 1
    out += _markers(txt[chunk_start:])
    return out


def translate_effects(repo):
    path = repo + "/src/drop.rs"
    src = re.sub(r"//[^\n]*", "", open(path).read())
    text = ("(* GENERATED by tools/rs2v.py from %s -- do not edit. *)\n"
            "From Coq Require Import List. Import ListNotations.\nFrom Gen Require Import EffectsLang.\n\n" % path)
    rc_src = re.sub(r"//[^\n]*", "", open(repo + "/src/rc.rs").read())
    for name, hdr in (("increment_strong_count", r"pub unsafe fn increment_strong_count\(ptr: \*const T\) \{"),
                      ("decrement_strong_count", r"pub unsafe fn decrement_strong_count\(ptr: \*const T\) \{"),
                      ("into_raw", r"pub fn into_raw\(this: Self\) -> \*const T \{"),
                      ("from_raw", r"pub unsafe fn from_raw\(ptr: \*const T\) -> Self \{"),
                      ("try_unwrap", r"pub fn try_unwrap\(this: Self\) -> Result<T, Self> \{"),
                      ("make_mut", r"pub fn make_mut\(this: &mut Self\) -> &mut T \{"),
                      ("weak_drop", r"unsafe impl<#\[may_dangle\] T> Drop for Weak<T> \{\s*fn drop\(&mut self\) \{")):
        body = _norm(_fn_body(rc_src, hdr))
        text += "Definition g_%s : list enode :=\n  [ %s ].\n\n" % (name, ";\n    ".join(effect_tree(body)))
    for name, hdr in (("drop_unreachable", r"unsafe fn drop_unreachable<T>\(this: &mut Rc<T>\) \{"),
                      ("drop_unreachable_with_adoptions", r"unsafe fn drop_unreachable_with_adoptions<T>\(this: &mut Rc<T>\) \{"),
                      ("drop_cycle", r"unsafe fn drop_cycle<T>\(cycle: HashMap<Link<T>, usize>\) \{"),
                      ("release_links", r"pub\(crate\) unsafe fn release_links<T>\(this: &Rc<T>\) \{")):
        body = _norm(_fn_body(src, hdr))
        body = re.sub(r"(?:debug|trace)!\((?:[^()]|\((?:[^()]|\([^()]*\))*\))*\);", "", body)
        text += "Definition g_%s : list enode :=\n  [ %s ].\n\n" % (name, ";\n    ".join(effect_tree(body)))
    return text


# ---------------------------------------------------------------------------------------------------
# link.rs: `Links::insert` and `Links::remove` -- straight-line code over the hash map and Option<usize>
# combinators, translated statement by statement to Gallina over the model's map primitives
# (tbl_get = get(..).copied().unwrap_or_default(), tbl_set = insert, tbl_del = remove).
LINK_STMTS = [
    (r"let (\w+) = self\.registry\.get\(&(\w+)\)\.copied\(\)\.unwrap_or_default\(\);",
     lambda m: ("let", m.group(1), "tbl_get t %s" % m.group(2))),
    (r"let (\w+) = (\w+)\.checked_sub\((\w+)\)\.and_then\(NonZeroUsize::new\);",
     lambda m: ("let", m.group(1), "and_then_nonzero (checked_sub %s %s)" % (m.group(2), m.group(3)))),
    (r"let (\w+) = (\w+)\.checked_sub\((\w+)\);",
     lambda m: ("let", m.group(1), "checked_sub %s %s" % (m.group(2), m.group(3)))),
    (r"if let Some\((\w+)\) = (\w+) \{ self\.registry\.insert\((\w+), (\w+)\.get\(\)\); \} else \{ self\.registry\.remove\(&(\w+)\); \}",
     lambda m: ("ret", None, "match %s with Some %s => tbl_set t %s %s | None => tbl_del t %s end"
                % (m.group(2), "v_" + m.group(1), m.group(3), "v_" + m.group(4), m.group(5)))),
    (r"\*self\.registry\.entry\((\w+)\)\.or_insert\(0\) \+= (\d+);",
     lambda m: ("ret", None, "tbl_set t %s (tbl_get t %s + %s)" % (m.group(1), m.group(1), m.group(2)))),
]


def link_fn(body):
    txt = _norm(body)
    lets, ret = [], None
    while txt:
        for pat, f in LINK_STMTS:
            m = re.match(pat, txt)
            if m:
                kind, v, e = f(m)
                if ret is not None:
                    raise Unsupported("code after the final map update in Links")
                if kind == "let":
                    lets.append((v, e))
                else:
                    ret = e
                txt = txt[m.end():].strip()
                break
        else:
            raise Unsupported("link.rs statement outside the subset: %r" % txt[:80])
    if ret is None:
        raise Unsupported("Links function without a map update")
    out = ""
    for v, e in lets:
        out += "  let %s := %s in\n" % (v, e)
    return out + "  " + ret


def translate_links(repo):
    path = repo + "/src/link.rs"
    src = re.sub(r"//[^\n]*", "", open(path).read())
    m = re.search(r"impl<T> Links<T> \{", src)
    if not m:
        raise Unsupported("impl Links<T> not found")
    impl = src[m.end():]
    ins = link_fn(_fn_body(impl, r"pub fn insert\(&mut self, other: Link<T>\) \{"))
    rem = link_fn(_fn_body(impl, r"pub fn remove\(&mut self, other: Link<T>, strong: usize\) \{"))
    # Link's equality and hashing: which fields decide that two records are the same key
    m = re.search(r"impl<T> PartialEq for Link<T> \{", src)
    if not m:
        raise Unsupported("impl PartialEq for Link<T> not found")
    eqb = _norm(_fn_body(src[m.end():], r"fn eq\(&self, other: &Self\) -> bool \{"))
    atoms = {"self.kind == other.kind": "kind_eqb (snd a) (snd b)",
             "ptr::eq(self.as_ptr(), other.as_ptr())": "Nat.eqb (fst a) (fst b)",
             "self.ptr == other.ptr": "Nat.eqb (fst a) (fst b)"}
    parts = [x.strip() for x in eqb.split("&&")]
    if not parts or any(x not in atoms for x in parts):
        raise Unsupported("Link::eq outside the subset: %r" % eqb)
    eq_g = " && ".join(atoms[x] for x in parts)
    m = re.search(r"impl<T> Hash for Link<T> \{", src)
    if not m:
        raise Unsupported("impl Hash for Link<T> not found")
    hb = _norm(_fn_body(src[m.end():], r"fn hash<H: Hasher>\(&self, state: &mut H\) \{"))
    hf = []
    for st in [x.strip() for x in hb.split(";") if x.strip()]:
        mm = re.match(r"self\.(ptr|kind)\.hash\(state\)$", st)
        if not mm:
            raise Unsupported("Link::hash outside the subset: %r" % st)
        hf.append({"ptr": "HPtr", "kind": "HKind"}[mm.group(1)])
    extra = ("\n(* impl PartialEq for Link<T> / impl Hash for Link<T> *)\n"
             "Definition g_link_eq (a b : link) : bool := %s.\n"
             "Definition g_link_hash_fields : list hfield := [%s].\n" % (eq_g, "; ".join(hf)))
    return ("(* GENERATED by tools/rs2v.py from %s (impl Links<T>) -- do not edit. *)\n"
            "From Coq Require Import NArith List Bool. Import ListNotations.\nFrom CR Require Import Base.\n"
            "From Gen Require Import LinksLang.\nLocal Open Scope N_scope.\n\n"
            "Definition g_links_insert (t : table) (other : link) : table :=\n%s.\n\n"
            "Definition g_links_remove (t : table) (other : link) (strong : N) : table :=\n%s.\n" % (path, ins, rem)) + extra


# ---------------------------------------------------------------------------------------------------
# rc.rs: the functions that read the counters or create a handle: Rc::{strong_count, weak_count, clone,
# downgrade}, Weak::{upgrade, strong_count, weak_count, clone}. Block/expression language:
#   stmt ::= `let inner = self.inner()?;` | RECV.m(); | debug_assert!(..);
#   expr ::= if C { blk } (else if C { blk })* else { blk } | if let Some(inner) = self.inner() { blk } else { blk }
#          | self.inner().map_or(D, |inner| { blk }) | e (+|-|==|!=|<|>|<=|>=|&&|'||') e | !e | int | usize::MAX
#          | None | Some(<handle>) | <handle> | RECV.m()
#   RECV ::= inner | self.inner() | this.inner();   <handle> ::= Rc::from_inner(..) | Self::from_inner(..) | Weak { .. }
# A Weak function yields two definitions: the attached case (in the counters monad) and the value for a
# dangling Weak (self.inner() == None).
HTOK = re.compile(r"\s*(?:(\d+)|(usize::MAX)|(debug_assert!\((?:[^()]|\((?:[^()]|\([^()]*\))*\))*\);)|"
                  r"(Weak \{[^{}]*\})|((?:Rc|Self)::from_inner\([^()]*(?:\([^()]*\))?[^()]*\))|"
                  r"([A-Za-z_][A-Za-z_0-9]*)|(\|\||&&|==|!=|<=|>=|=>|::|[-+!(){};.,=<>?|&]))")


def htokenize(src):
    out, i = [], 0
    while i < len(src):
        if src[i:].strip() == "":
            break
        m = HTOK.match(src, i)
        if not m:
            raise Unsupported("cannot tokenize at: %r" % src[i:i + 40])
        i = m.end()
        if m.group(1):
            out.append(("int", m.group(1)))
        elif m.group(2):
            out.append(("max", "usize::MAX"))
        elif m.group(3):
            continue                                  # debug_assert!: no behaviour in the translated reading
        elif m.group(4) or m.group(5):
            out.append(("handle", "h"))
        elif m.group(6):
            out.append(("id", m.group(6)))
        else:
            out.append(("op", m.group(7)))
    return out


class HP:
    """parser producing Gallina text; `dang` collects the dangling-case value (None if not a Weak function)"""
    def __init__(self, toks, methods):
        self.t, self.i, self.methods = toks, 0, methods

    def peek(self, k=0):
        return self.t[self.i + k] if self.i + k < len(self.t) else ("eof", "")

    def eat(self, kind=None, val=None):
        tk = self.peek()
        if (kind and tk[0] != kind) or (val is not None and tk[1] != val):
            raise Unsupported("expected %s %s, found %s (token %d)" % (kind, val, tk, self.i))
        self.i += 1
        return tk

    def at(self, *vals):
        return all(self.peek(k)[1] == v for k, v in enumerate(vals))

    def recv(self):
        """inner | self.inner() | this.inner()  -> consumed?"""
        if self.at("inner", "."):
            self.eat()
            return True
        if (self.at("self", ".", "inner", "(", ")", ".") or self.at("this", ".", "inner", "(", ")", ".")):
            for _ in range(5):
                self.eat()
            return True
        return False

    def block(self):
        """-> (gallina of type M T, dangling value or None)"""
        self.eat("op", "{")
        r = self.block_body()
        self.eat("op", "}")
        return r

    def block_body(self):
        # statements
        if self.at("let", "inner", "=", "self", ".", "inner", "(", ")", "?", ";"):
            for _ in range(10):
                self.eat()
            g, _ = self.block_body()
            return g, "DNone"
        save = self.i
        if self.recv():
            if (self.peek() == ("op", ".") and self.peek(1)[0] == "id" and self.peek(2) == ("op", "(")
                    and self.peek(3) == ("op", ")") and self.peek(4) == ("op", ";")):
                self.eat()
                name = self.eat("id")[1]
                self.eat()
                self.eat()
                self.eat()
                if name not in self.methods:
                    raise Unsupported("unknown counter method " + name)
                g, d = self.block_body()
                return "bind g_%s (fun _ => %s)" % (name, g), d
            self.i = save
        # `if let Some(inner) = self.inner() { stmts }` without else, as a statement (Weak::clone)
        if self.at("if", "let", "Some", "(", "inner", ")", "=", "self", ".", "inner", "(", ")"):
            j = self.i
            for _ in range(12):
                self.eat()
            g, _ = self.block()
            if self.peek() != ("id", "else"):
                rest, _ = self.block_body()
                return "bind (%s) (fun _ => %s)" % (g, rest), ("DExpr", rest)
            self.i = j
        if self.peek() == ("op", "}"):
            return "ret tt", None
        g, d = self.expr()
        if self.peek() != ("op", "}") and self.peek()[0] != "eof":
            raise Unsupported("code after the tail expression near token %d %s" % (self.i, self.peek()))
        return g, d

    def expr(self):
        return self.binop(0)

    LEVELS = [["||"], ["&&"], ["==", "!=", "<", ">", "<=", ">="], ["+", "-"]]

    def binop(self, lvl):
        if lvl == len(self.LEVELS):
            return self.unary()
        g, d = self.binop(lvl + 1)
        while self.peek()[0] == "op" and self.peek()[1] in self.LEVELS[lvl]:
            op = self.eat()[1]
            r, _ = self.binop(lvl + 1)
            if op == "||":
                g = "(bind %s (fun t => if t then ret true else %s))" % (g, r)
            elif op == "&&":
                g = "(bind %s (fun t => if t then %s else ret false))" % (g, r)
            else:
                f = {"==": "ret (N.eqb a b)", "!=": "ret (negb (N.eqb a b))", "<": "ret (N.ltb a b)", ">": "ret (N.ltb b a)",
                     "<=": "ret (N.leb a b)", ">=": "ret (N.leb b a)", "+": "add_chk a b", "-": "sub_chk a b"}[op]
                g = "(bind %s (fun a => bind %s (fun b => %s)))" % (g, r, f)
        return g, d

    def unary(self):
        if self.peek() == ("op", "!"):
            self.eat()
            g, d = self.unary()
            return "(bind %s (fun t => ret (negb t)))" % g, d
        return self.atom()

    def atom(self):
        tk = self.peek()
        if tk[0] == "int":
            self.eat()
            return "(ret %s%%N)" % tk[1], None
        if tk[0] == "max":
            self.eat()
            return "(ret MAXU)", None
        if tk[0] == "handle":
            self.eat()
            return "(ret tt)", None
        if tk == ("id", "None"):
            self.eat()
            return "(ret false)", None
        if tk == ("id", "Some"):
            self.eat()
            self.eat("op", "(")
            self.eat("handle")
            self.eat("op", ")")
            return "(ret true)", None
        if tk == ("op", "("):
            self.eat()
            g, d = self.expr()
            self.eat("op", ")")
            return g, d
        if tk == ("id", "if"):
            self.eat()
            if self.at("let", "Some", "(", "inner", ")", "=", "self", ".", "inner", "(", ")"):
                for _ in range(11):
                    self.eat()
                g, _ = self.block()
                self.eat("id", "else")
                gd, _ = self.block()
                return g, ("DExpr", gd)
            c, _ = self.expr()
            th, _ = self.block()
            self.eat("id", "else")
            if self.peek() == ("id", "if"):
                el, _ = self.atom()
            else:
                el, _ = self.block()
            return "(bind %s (fun c => if c then %s else %s))" % (c, th, el), None
        if self.at("self", ".", "inner", "(", ")", ".", "map_or", "("):
            for _ in range(8):
                self.eat()
            dflt, _ = self.expr()
            self.eat("op", ",")
            self.eat("op", "|")
            self.eat("id", "inner")
            self.eat("op", "|")
            g, _ = self.block()
            self.eat("op", ")")
            return g, ("DExpr", dflt)
        if self.recv():
            self.eat("op", ".")
            name = self.eat("id")[1]
            self.eat("op", "(")
            self.eat("op", ")")
            if name not in self.methods:
                raise Unsupported("unknown counter method " + name)
            return "g_%s" % name, None
        if self.at("Rc", "::") and self.peek(2)[1] in ("weak_count", "strong_count") and self.peek(3) == ("op", "("):
            name = self.peek(2)[1]
            for _ in range(4):
                self.eat()
            if self.peek() == ("op", "&"):
                self.eat()
            self.eat("id", "this")
            self.eat("op", ")")
            return "g_rc_%s" % name, None
        raise Unsupported("unexpected token %s at %d" % (tk, self.i))


HANDLE_FNS = [("rc_weak_count", r"pub fn weak_count\(this: &Self\) -> usize \{", "N", False),
              ("rc_strong_count", r"pub fn strong_count\(this: &Self\) -> usize \{", "N", False),
              ("rc_clone", r"fn clone\(&self\) -> Rc<T> \{", "unit", False),
              ("rc_downgrade", r"pub fn downgrade\(this: &Self\) -> Weak<T> \{", "unit", False),
              ("rc_is_unique", r"fn is_unique\(this: &Self\) -> bool \{", "bool", False),
              ("weak_upgrade", r"pub fn upgrade\(&self\) -> Option<Rc<T>> \{", "bool", True),
              ("weak_strong_count", r"pub fn strong_count\(&self\) -> usize \{", "N", True),
              ("weak_weak_count", r"pub fn weak_count\(&self\) -> usize \{", "N", True),
              ("weak_clone", r"fn clone\(&self\) -> Weak<T> \{", "unit", True)]


def translate_handles(repo):
    path = repo + "/src/rc.rs"
    src = re.sub(r"//[^\n]*", "", open(path).read())
    src = re.sub(r"#\[cfg\(cactusref_verif\)\]\s*[^;]*;", "", src)
    _, methods = translate(repo)
    text = ("(* GENERATED by tools/rs2v.py from %s (count observers, clone, downgrade, upgrade) -- do not edit. *)\n"
            "From Coq Require Import NArith Bool.\nFrom Gen Require Import Counters.\nLocal Open Scope N_scope.\n\n" % path)
    # the two places that initialise an allocation: Rc::new (struct literal) and allocate_for_layout
    # (new_uninit, From<Box<T>>): initial counters and an empty link table
    inits = []
    body = " ".join(_fn_body(src, r"pub fn new\(value: T\) -> Rc<T> \{").split())
    m = re.search(r"RcBox \{ strong: Cell::new\((\d+)\), weak: Cell::new\((\d+)\), "
                  r"links: MaybeUninit::new\(RefCell::new\(Links::new\(\)\)\), value: MaybeUninit::new\(value\), \}", body)
    if not m:
        raise Unsupported("Rc::new does not initialise the allocation the way the model's new_box transcribes")
    inits.append(("new", m.group(1), m.group(2)))
    m = re.search(r"ptr::write\(&mut \(\*inner\)\.strong, Cell::new\((\d+)\)\);\s*ptr::write\(&mut \(\*inner\)\.weak, Cell::new\((\d+)\)\);\s*"
                  r"ptr::write\(\s*&mut \(\*inner\)\.links,\s*MaybeUninit::new\(RefCell::new\(Links::new\(\)\)\),\s*\);", src)
    if not m:
        raise Unsupported("allocate_for_layout does not initialise the allocation the way the model's new_box transcribes")
    inits.append(("alloc", m.group(1), m.group(2)))
    for nm, a, b in inits:
        text += ("Definition g_%s_cells : cells := {| c_strong := %s; c_weak := %s |}.   (* links: Links::new() *)\n"
                 % (nm, a, b))
    text += "\n"
    for name, hdr, ty, is_weak in HANDLE_FNS:
        body = " ".join(_fn_body(src, hdr).split())
        p = HP(htokenize("{ " + body + " }"), set(methods))
        g, d = p.block()
        if p.peek()[0] != "eof":
            raise Unsupported("trailing tokens in " + name)
        # `if let Some(inner) = self.inner() { inner.m(); }` without else (Weak::clone): statement form
        text += "Definition g_%s : M %s :=\n  %s.\n" % (name, ty, g)
        if is_weak:
            if d is None:
                raise Unsupported("%s does not handle the dangling Weak" % name)
            if d == "DNone":
                dv = "false" if ty == "bool" else None
                if dv is None:
                    raise Unsupported("`?` in a function that does not return an Option: " + name)
                text += "Definition g_%s_dangling : M %s := ret %s.\n" % (name, ty, dv)
            else:
                text += "Definition g_%s_dangling : M %s :=\n  %s.\n" % (name, ty, d[1])
        text += "\n"
    return text


# ---------------------------------------------------------------------------------------------------
# drop.rs: the purge loop of `drop_unreachable_with_adoptions` and `release_links`: which records a dying
# (or given-up) object removes from which peer, with which count.
def translate_purge(repo):
    path = repo + "/src/drop.rs"
    src = re.sub(r"//[^\n]*", "", open(path).read())
    text = ("(* GENERATED by tools/rs2v.py from %s (purge loops) -- do not edit. *)\n"
            "From Coq Require Import List. Import ListNotations.\nFrom CR Require Import Base.\n"
            "From Gen Require Import PurgeLang.\n\n" % path)
    for name, hdr in (("drop_unreachable_with_adoptions", r"unsafe fn drop_unreachable_with_adoptions<T>\(this: &mut Rc<T>\) \{"),
                      ("release_links", r"pub\(crate\) unsafe fn release_links<T>\(this: &Rc<T>\) \{")):
        body = _norm(_fn_body(src, hdr))
        body = re.sub(r"(?:debug|trace)!\((?:[^()]|\((?:[^()]|\([^()]*\))*\))*\);", "", body).strip()
        binds = {}
        while True:
            m = re.match(r"let (\w+) = Link::(forward|backward|loopback)\(this\.ptr\); ", body)
            if not m:
                break
            binds[m.group(1)] = KIND[m.group(2)]
            body = body[m.end():]
        m = re.match(r"let links = this\.inner\(\)\.links\(\); for \(item, &strong\) in links\.borrow\(\)\.iter\(\) \{", body)
        if not m:
            raise Unsupported("%s: the purge loop header is not the one the model transcribes" % name)
        depth, i = 1, m.end()
        while depth:
            depth += body[i] == "{"
            depth -= body[i] == "}"
            i += 1
        loop = body[m.end():i - 1].strip()
        sts = []
        while loop:
            for pat, f in ((r"if ptr::eq\(this\.inner\(\), item\.as_ptr\(\)\) \{ continue; \}", lambda mm: "PSkipSelf"),
                           (r"let mut links = item\.as_ref\(\)\.links\(\)\.borrow_mut\(\);", lambda mm: "PBorrowPeer"),
                           (r"links\.remove\((\w+), strong\);", lambda mm: "PRemove %s" % binds[mm.group(1)] if mm.group(1) in binds else None)):
                mm = re.match(pat, loop)
                if mm:
                    t = f(mm)
                    if t is None:
                        raise Unsupported("%s: remove of an unknown link %s" % (name, mm.group(1)))
                    sts.append(t)
                    loop = loop[mm.end():].strip()
                    break
            else:
                raise Unsupported("%s: purge statement outside the subset: %r" % (name, loop[:70]))
        text += "Definition g_%s_purge : list pstmt :=\n  [ %s ].\n\n" % (name, "; ".join(sts))
    return text


# ---------------------------------------------------------------------------------------------------
# drop.rs: phase one of `drop_cycle`: which entries `extract_if` removes from a member's table, and how
# often the member's strong count is decremented.
def translate_bust(repo):
    path = repo + "/src/drop.rs"
    src = re.sub(r"//[^\n]*", "", open(path).read())
    body = _norm(_fn_body(src, r"unsafe fn drop_cycle<T>\(cycle: HashMap<Link<T>, usize>\) \{"))
    body = " ".join(re.sub(r"(?:debug|trace)!\((?:[^()]|\((?:[^()]|\([^()]*\))*\))*\);", "", body).split())
    m = re.search(r"for \(ptr, &refcount\) in &cycle \{ let rcbox = ptr\.as_ptr\(\); let _busted_forward_links = \{ "
                  r"let mut links = \(\*rcbox\)\.links\(\)\.borrow_mut\(\); links\.extract_if\(\|link, _\| \{ "
                  r"if let (?P<kinds>Kind::\w+(?: \| Kind::\w+)*) = link\.kind\(\) \{ (?P<th>[^{}]*) \} else \{ (?P<el>[^{}]*) \} \}\)"
                  r"(?P<unused>\.map\(.*?\)\.sum::<usize>\(\))? \}; "
                  r"for _ in 0\.\.(?P<bound>[^{]*) \{ \(\*rcbox\)\.dec_strong\(\); \} \}", body)
    if not m:
        raise Unsupported("phase one of drop_cycle is not of the shape the model's bust_one transcribes")
    ks = [KINDS[k.strip()[6:]] for k in m.group("kinds").split("|")]

    def pred(e):
        e = e.strip()
        if e == "cycle.contains_key(link)":
            return "in_cycle"
        if e in ("true", "false"):
            return e
        raise Unsupported("extract_if predicate branch outside the subset: %r" % e)
    b = m.group("bound").strip()
    mb = re.match(r"refcount\.min\(\(\*rcbox\)\.strong\(\)\)$", b)
    if mb:
        bound = "N.min refcount strong"
    elif b == "refcount":
        bound = "refcount"
    elif b == "(*rcbox).strong()":
        bound = "strong"
    else:
        raise Unsupported("decrement bound outside the subset: %r" % b)
    return ("(* GENERATED by tools/rs2v.py from %s (drop_cycle, phase one) -- do not edit. *)\n"
            "From Coq Require Import NArith List Bool. Import ListNotations.\nFrom CR Require Import Base.\n"
            "From Gen Require Import CycleLang.\nLocal Open Scope N_scope.\n\n"
            "(* the closure of extract_if: is the entry of kind [k] removed? [in_cycle] = cycle.contains_key(link) *)\n"
            "Definition g_extract (k : kind) (in_cycle : bool) : bool :=\n"
            "  if existsb (kind_is k) [%s] then %s else %s.\n\n"
            "(* for _ in 0..BOUND { dec_strong } *)\n"
            "Definition g_dec_times (refcount strong : N) : N := %s.\n"
            % (path, "; ".join(ks), pred(m.group("th")), pred(m.group("el")), bound))


# ---------------------------------------------------------------------------------------------------
# rc.rs: the address arithmetic of the raw-pointer API (as_ptr / into_raw / from_raw of Rc and Weak,
# data_offset, is_dangling, the sentinel of Weak::new, ptr_eq) and the declaration of RcBox.
# Each function is matched against the statement shape it has today; the parts that carry the
# arithmetic (field names, the sign of the offset, the operands of the subtraction, the sentinel
# constants, the comparison operators, the orientation of the dangling test) are holes that are
# translated, so that a change there yields different Gallina and a broken theorem, not a parse error.
FTY = {"Cell<usize>": "TCellUsize", "MaybeUninit<RefCell<Links<T>>>": "TLinks", "MaybeUninit<T>": "TValue"}


def _const(e):
    e = e.strip()
    if e == "usize::MAX":
        return "USIZE_MAX"
    if re.fullmatch(r"usize::MAX - \d+", e):
        return "(USIZE_MAX - %s)" % e.split("-")[1].strip()
    if re.fullmatch(r"\d+", e):
        return e
    raise Unsupported("address constant outside the subset: %r" % e)


def _cmp(op):
    return {"==": "Z.eqb", "!=": "(fun a b => negb (Z.eqb a b))"}[op]


def translate_rawptr(repo):
    path = repo + "/src/rc.rs"
    src = re.sub(r"//[^\n]*", "", open(path).read())
    src = re.sub(r"#\[cfg\(cactusref_verif\)\]\s*[^;]*;", "", src)

    def body(hdr):
        return _norm(_fn_body(src, hdr))

    def need(m, what):
        if not m:
            raise Unsupported(what + " is not of the shape the address model transcribes")
        return m
    out = ["(* GENERATED by tools/rs2v.py from %s (raw-pointer API: address arithmetic) -- do not edit. *)" % path,
           "From Coq Require Import ZArith List String Bool. Import ListNotations.",
           "From Gen Require Import RawPtrLang.", "Local Open Scope Z_scope. Local Open Scope string_scope.", ""]
    # struct RcBox
    m = need(re.search(r"(?P<attrs>(?:#\[[^\]]*\]\s*)*)pub\(crate\) struct RcBox<T> \{(?P<fields>[^}]*)\}", src), "struct RcBox")
    reprc = "true" if re.search(r"#\[repr\(C\)\]", m.group("attrs")) else "false"
    fields = []
    for f in [x.strip() for x in m.group("fields").split(",") if x.strip()]:
        mf = need(re.fullmatch(r"(?:pub(?:\(crate\))? )?(\w+): (.+)", " ".join(f.split())), "field of RcBox")
        fields.append('("%s", %s)' % (mf.group(1), FTY.get(mf.group(2), "TOther")))
    out.append("Definition g_repr_c : bool := %s." % reprc)
    out.append("Definition g_rcbox_fields : list (string * fty) := [%s]." % "; ".join(fields))
    out += ["", "Section G.", "Variable off : string -> Z.   (* byte offset of a field of RcBox<T> *)", ""]
    # Rc::as_ptr
    b = body(r"pub fn as_ptr\(this: &Self\) -> \*const T \{")
    m = need(re.fullmatch(r"let ptr: \*mut RcBox<T> = NonNull::as_ptr\(this\.ptr\); unsafe \{ "
                          r"ptr::addr_of_mut!\(\(\*ptr\)\.(\w+)\)\.cast::<T>\(\) \}", b), "Rc::as_ptr")
    out.append('Definition g_rc_as_ptr (ptr : Z) : Z := wadd ptr (off "%s").' % m.group(1))
    # Rc::into_raw
    b = body(r"pub fn into_raw\(this: Self\) -> \*const T \{")
    need(re.fullmatch(r"let ptr = Self::as_ptr\(&this\); mem::forget\(this\); ptr", b), "Rc::into_raw")
    out.append("Definition g_rc_into_raw (this : Z) : Z := g_rc_as_ptr this.   (* mem::forget(this) *)")
    # data_offset
    b = body(r"unsafe fn data_offset<T>\(ptr: \*const T\) -> isize \{")
    m = need(re.fullmatch(r"let _ = ptr; let rcbox = MaybeUninit::<RcBox<T>>::uninit\(\); let base_ptr = rcbox\.as_ptr\(\); "
                          r"let base_ptr = base_ptr as usize; "
                          r"let field_ptr = ptr::addr_of!\(\(\*\(base_ptr as \*const RcBox<T>\)\)\.(\w+)\); "
                          r"let field_ptr = field_ptr as usize; \((field_ptr|base_ptr) (-|\+) (field_ptr|base_ptr)\) as isize", b),
             "data_offset")
    op = {"-": "wsub", "+": "wadd"}[m.group(3)]
    out.append('Definition g_data_offset (base_ptr : Z) : Z :=\n  let field_ptr := wadd base_ptr (off "%s") in to_isize (%s %s %s).'
               % (m.group(1), op, m.group(2), m.group(4)))

    def reverse(txt, what):
        mm = need(re.fullmatch(r"\(ptr as \*mut u8\)\.offset\((-?)offset\)\.with_metadata_of\(ptr as \*mut RcBox<T>\)", txt), what)
        return "ptr_offset ptr (%s offset)" % ("-" if mm.group(1) else "")
    # Rc::from_raw
    b = body(r"pub unsafe fn from_raw\(ptr: \*const T\) -> Self \{\s*let offset")
    b = "let offset " + b
    m = need(re.fullmatch(r"let offset = data_offset\(ptr\); let rc_ptr = (.*?); Self::from_ptr\(rc_ptr\)", b), "Rc::from_raw")
    out.append("Definition g_rc_from_raw (base ptr : Z) : Z :=\n  let offset := g_data_offset base in %s."
               % reverse(m.group(1), "Rc::from_raw"))
    b = body(r"unsafe fn from_ptr\(ptr: \*mut RcBox<T>\) -> Self \{")
    need(re.fullmatch(r"Self::from_inner\(NonNull::new_unchecked\(ptr\)\)", b), "Rc::from_ptr")
    # is_dangling
    b = body(r"pub\(crate\) fn is_dangling<T: \?Sized>\(ptr: \*mut T\) -> bool \{")
    m = need(re.fullmatch(r"let address = ptr\.cast::<\(\)>\(\) as usize; address (==|!=) (.+)", b), "is_dangling")
    out.append("Definition g_is_dangling (address : Z) : bool := %s address %s." % (_cmp(m.group(1)), _const(m.group(2))))
    # Weak::new
    b = body(r"pub fn new\(\) -> Weak<T> \{")
    m = need(re.fullmatch(r"Weak \{ ptr: NonNull::new\((.+?) as \*mut RcBox<T>\)\.expect\(\"[^\"]*\"\), phantom: PhantomData, \}", b),
             "Weak::new")
    out.append("Definition g_weak_new : Z := %s." % _const(m.group(1)))

    def cond(c, what):
        mm = need(re.fullmatch(r"(!?)is_dangling\((ptr|ptr\.cast_mut\(\))\)", c), what)
        return "negb (g_is_dangling ptr)" if mm.group(1) else "g_is_dangling ptr"
    # Weak::as_ptr
    b = body(r"pub fn as_ptr\(&self\) -> \*const T \{")
    m = need(re.fullmatch(r"let ptr: \*mut RcBox<T> = NonNull::as_ptr\(self\.ptr\); if (.+?) \{ (.+?) \} else \{ (.+?) \}$", b), "Weak::as_ptr")

    def arm(t):
        t = t.strip()
        if t == "ptr as *const T":
            return "ptr"
        mm = re.fullmatch(r"unsafe \{ ptr::addr_of_mut!\(\(\*ptr\)\.(\w+)\) as \*const T \}", t)
        if mm:
            return 'wadd ptr (off "%s")' % mm.group(1)
        raise Unsupported("arm of Weak::as_ptr outside the subset: %r" % t)
    out.append("Definition g_weak_as_ptr (ptr : Z) : Z := if %s then %s else %s."
               % (cond(m.group(1), "Weak::as_ptr"), arm(m.group(2)), arm(m.group(3))))
    # Weak::into_raw
    b = body(r"pub fn into_raw\(self\) -> \*const T \{")
    need(re.fullmatch(r"let result = self\.as_ptr\(\); mem::forget\(self\); result", b), "Weak::into_raw")
    out.append("Definition g_weak_into_raw (self : Z) : Z := g_weak_as_ptr self.   (* mem::forget(self) *)")
    # Weak::from_raw
    b = body(r"pub unsafe fn from_raw\(ptr: \*const T\) -> Self \{\s*let ptr = if")
    b = "let ptr = if " + b
    m = need(re.fullmatch(r"let ptr = if (.+?) \{ (.+?) \} else \{ (.+?) \}; "
                          r"Weak \{ ptr: NonNull::new_unchecked\(ptr\), phantom: PhantomData, \}", b), "Weak::from_raw")

    def arm2(t):
        t = t.strip()
        if t == "ptr as *mut RcBox<T>":
            return "ptr"
        mm = re.fullmatch(r"let offset = data_offset\(ptr\); (.+)", t)
        if mm:
            return "(let offset := g_data_offset base in %s)" % reverse(mm.group(1), "Weak::from_raw")
        raise Unsupported("arm of Weak::from_raw outside the subset: %r" % t)
    out.append("Definition g_weak_from_raw (base ptr : Z) : Z := if %s then %s else %s."
               % (cond(m.group(1), "Weak::from_raw"), arm2(m.group(2)), arm2(m.group(3))))
    # ptr_eq
    for nm, hdr, a in (("rc", r"pub fn ptr_eq\(this: &Self, other: &Self\) -> bool \{", "this"),
                       ("weak", r"pub fn ptr_eq\(&self, other: &Self\) -> bool \{", "self")):
        b = body(hdr)
        m = need(re.fullmatch(r"(\w+)\.ptr\.as_ptr\(\) (==|!=) (\w+)\.ptr\.as_ptr\(\)", b), nm + " ptr_eq")
        names = {a: "a", "other": "b"}
        if m.group(1) not in names or m.group(3) not in names:
            raise Unsupported("operands of ptr_eq")
        out.append("Definition g_%s_ptr_eq (a b : Z) : bool := %s %s %s." % (nm, _cmp(m.group(2)), names[m.group(1)], names[m.group(3)]))
    out += ["", "End G.", ""]
    return "\n".join(out)


if __name__ == "__main__":
    # rs2v.py <repo> <outdir> <counters|adopt>   (no outdir: print)
    import os
    repo = sys.argv[1] if len(sys.argv) > 1 else "/repo"
    outdir = sys.argv[2] if len(sys.argv) > 2 else None
    part = sys.argv[3] if len(sys.argv) > 3 else "counters"
    try:
        if part == "counters":
            text, name = translate(repo)[0], "Counters.v"
        elif part == "adopt":
            text, name = translate_adopt(repo), "AdoptGen.v"
        elif part == "cycle":
            text, name = translate_cycle(repo), "CycleGen.v"
        elif part == "drop":
            text, name = translate_drop(repo), "DropGen.v"
        elif part == "effects":
            text, name = translate_effects(repo), "EffectsGen.v"
        elif part == "links":
            text, name = translate_links(repo), "LinksGen.v"
        elif part == "purge":
            text, name = translate_purge(repo), "PurgeGen.v"
        elif part == "bust":
            text, name = translate_bust(repo), "BustGen.v"
        elif part == "rawptr":
            text, name = translate_rawptr(repo), "RawPtrGen.v"
        else:
            text, name = translate_handles(repo), "HandlesGen.v"
    except (Unsupported, ValueError, IndexError) as e:
        print("rs2v (%s): outside the translated subset: %s" % (part, e), file=sys.stderr)
        sys.exit(2)
    if outdir:
        open(os.path.join(outdir, name), "w").write(text)
    else:
        sys.stdout.write(text)
