#!/usr/bin/env python3
"""Generates the committed enumerated corpus files (deterministic)."""
import itertools, os
ROOT = os.path.dirname(os.path.dirname(os.path.abspath(__file__)))
T = 7  # scratch register

def build(n, edges, scripts=None, recorded=None, keep=()):
    """objects 0..n-1 in registers 0..n-1; edges (i,j) stored in slot order and adopted"""
    scripts = scripts or {}
    ops = []
    for i in range(n):
        if i in scripts:
            ops.append("news %d [%s]" % (i, ", ".join(scripts[i])))
        else:
            ops.append("new %d" % i)
    used = [0] * n
    for e, (i, j) in enumerate(edges):
        k = used[i]; used[i] += 1
        ops.append("clone r%d %d" % (j, T))
        if recorded is None or recorded[e]:
            ops.append("adopt r%d r%d" % (i, T))
        ops.append("store %d r%d %d" % (T, i, k))
    return ops

def ring(n): return [(i, (i + 1) % n) for i in range(n)]

SHAPES = {
    "self": (1, [(0, 0)]),
    "ring2": (2, ring(2)),
    "ring3": (3, ring(3)),
    "ring4": (4, ring(4)),
    "ring3tail": (4, ring(3) + [(1, 3)]),
    "clique3": (3, [(i, j) for i in range(3) for j in range(3) if i != j]),
    "par": (2, [(0, 1), (0, 1), (1, 0)]),
    "selfleaf": (2, [(0, 0), (0, 1)]),
    "two_rings": (3, [(0, 1), (1, 0), (0, 2), (2, 0)]),
    "chain3": (3, [(0, 1), (1, 2)]),
}

def out(name, lines):
    with open(os.path.join(ROOT, "corpus", name), "w") as f:
        for l in lines:
            f.write(l + "\n")
    print(name, len(lines))

# ---- defects of DESIGN 2.3 and shapes of tests/
d = []
d.append("d1_selfleaf|A|new 0;new 1;clone r0 7;adopt r0 r7;store 7 r0 0;adopt r0 r1;store 1 r0 1;down r0 2;drop 0;up r2 3")
d.append("d1_deg|A|new 0;new 1;clone r1 7;adopt r0 r7;store 7 r0 0;clone r1 7;adopt r0 r7;store 7 r0 1;clone r0 7;adopt r1 r7;store 7 r1 0;down r0 2;down r1 3;drop 1;drop 0;up r2 4;up r3 4")
d.append("d2_c01|A|new 0;new 1;new 2;clone r0 7;store 7 r0 0;clone r0 7;store 7 r0 1;clone r1 7;store 7 r0 2;clone r2 7;store 7 r1 0;store 2 r1 1;adopt r0.0 r0.0;adopt r0 r0.1;adopt r0 r0.2;adopt r1 r1.0;adopt r1 r1.1;sc r0;sc r1;drop 0;deref r1;sc r1;deref r1.0")
d.append("d3_loop|A|new 0;clone r0 1;store 1 r0 0;adopt r0.0 r0.0;down r0 2;drop 0;up r2 3")
d.append("d4_elide|A|new 0;new 1;clone r1 7;adopt r0 r7;store 7 r0 0;clone r0 7;adopt r1 r7;store 7 r1 0;take r0 0 2;drop 1;sc r2;drop 0;sc r2;deref r2")
d.append("d5_unwrap|A|new 0;new 1;clone r1 7;adopt r0 r7;store 7 r0 0;drop 1;unwrap 0 2;drop 2")
d.append("d5_makemut|A|new 0;new 1;clone r1 7;adopt r0 r7;store 7 r0 0;down r0 3;drop 1;makemut 0;drop 3;drop 0")
d.append("t_adopt_self_noop|A|new 0;adopt r0 r0;adopt r0 r0;adopt r0 r0;drop 0")
d.append("t_adopt_self|A|new 0;clone r0 1;adopt r0 r1;adopt r0 r1;adopt r0 r1;store 1 r0 0;drop 0")
d.append("t_unadopt|A|new 0;new 1;clone r1 7;store 7 r0 0;adopt r0 r1;take r0 0 2;unadopt r0 r2;unadopt r0 r2;unadopt r0 r2;drop 2;drop 0;drop 1")
d.append("t_elided|A|new 0;new 1;clone r1 7;store 7 r0 0;adopt r0 r1;take r0 0 2;drop 2;drop 0;drop 1")
for name, (n, edges) in SHAPES.items():
    ops = build(n, edges)
    ops += ["down r%d %d" % (0, 4)]
    for i in range(n):
        ops.append("drop %d" % i)
    ops += ["up r4 5", "wsc r4", "wwc r4", "drop 4"]
    d.append("shape_%s|A|%s" % (name, ";".join(ops)))
    # drop in reverse order too
    ops = build(n, edges) + ["drop %d" % i for i in reversed(range(n))]
    d.append("shape_%s_rev|A|%s" % (name, ";".join(ops)))
out("00_defects_and_shapes.hist", d)

# ---- C16: clone / drop / count a handle to a dying peer at every member position
c16 = []
for name in ("ring2", "ring3", "ring4", "clique3", "ring3tail", "par", "two_rings"):
    n, edges = SHAPES[name]
    for m in range(n):
        for sc in (["clone s.0 6"], ["sc s.0"], ["up s.1 6"], ["clone s.0 6", "drop 6"], ["ptreq s.0 s.0"]):
            for last in range(n):
                ops = build(n, edges, scripts={m: sc})
                order = [i for i in range(n) if i != last] + [last]
                ops += ["drop %d" % i for i in order]
                c16.append("c16_%s_m%d_%s_l%d|A|%s" % (name, m, sc[0].split()[0], last, ";".join(ops)))
out("10_c16.hist", c16)

# ---- C10: destructor actions at every member position, on every other object
c10 = []
ACTIONS = [
    ["clone r5 6", "drop 6"], ["drop 5"], ["down r5 6", "up r6 7", "drop 7", "drop 6"],
    ["new 6", "drop 6"], ["up s.2 6"], ["wsc s.2", "wwc s.2"], ["unadopt r5 r5"], ["sc r5", "wc r5"],
    ["drop 4"], ["up r3 6", "drop 6"],
]
for name in ("ring2", "ring3", "ring3tail", "clique3", "selfleaf"):
    n, edges = SHAPES[name]
    for m in range(n):
        for a in ACTIONS:
            # outside objects: r5 = plain outsider, r4 = last handle of another 2-ring, r3 = weak to a member
            ops = build(n, edges, scripts={m: a})
            # a weak handle to the next member, stored in slot 2 of member m
            ops += ["down r%d %d" % ((m + 1) % n, T), "store %d r%d 2" % (T, m)]
            ops += ["new 5"]
            # second group: objects in regs 4 and 6
            ops += ["new 4", "new 6", "clone r6 7", "adopt r4 r7", "store 7 r4 0", "clone r4 7", "adopt r6 r7", "store 7 r6 0", "drop 6"]
            ops += ["down r%d 3" % ((m + 1) % n)]
            ops += ["drop %d" % i for i in range(n)]
            ops += ["sc r5", "wsc r3", "drop 5", "drop 4", "drop 3"]
            c10.append("c10_%s_m%d_%s|A|%s" % (name, m, "_".join(x.split()[0] for x in a), ";".join(ops)))
out("20_c10.hist", c10)

# ---- C11: a panic at every destructor index, every teardown path
c11 = []
for name in ("self", "ring2", "ring3", "ring4", "clique3", "ring3tail", "chain3", "selfleaf", "par"):
    n, edges = SHAPES[name]
    for m in range(n):
        for sc in (["panic"], ["drop 5", "panic"], ["panic", "drop 5"]):
            for second in (None, (m + 1) % n):
                scripts = {m: sc}
                if second is not None and second != m:
                    scripts[second] = ["panic"]
                ops = build(n, edges, scripts=scripts)
                ops += ["new 5", "down r0 4", "down r%d 6" % (n - 1)]
                ops += ["drop %d" % i for i in range(n)]
                ops += ["up r4 7", "wsc r4", "wwc r6", "drop 4", "drop 6", "drop 5"]
                c11.append("c11_%s_m%d_%s_%s|A|%s" % (name, m, "".join(x[0] for x in sc), second, ";".join(ops)))
# plain objects without adoption
for sc in (["panic"], ["drop 5", "panic"]):
    c11.append("c11_plain_%d|A|news 0 [%s];new 1;new 5;clone r1 7;store 7 r0 0;down r0 4;drop 0;up r4 6;sc r1;drop 1;drop 4" % (len(sc), ", ".join(sc)))
out("30_c11.hist", c11)

# ---- C12: each consuming API on every object of every shape, then the peers are dropped
c12 = []
APIS = [["unwrap {o} 6", "drop 6"], ["makemut {o}"], ["down r{o} 5", "makemut {o}", "drop 5"], ["getmut {o}"],
        ["intoraw {o}", "fromraw {o}"], ["intoraw {o}", "incs {o} 6", "decs 6", "fromraw {o}"],
        ["intoraw {o}", "decs {o}"]]
for name in ("ring2", "ring3", "clique3", "chain3", "selfleaf", "par", "ring3tail"):
    n, edges = SHAPES[name]
    for o in range(n):
        for api in APIS:
            for prefix_drops in ([], [i for i in range(n) if i != o]):
                ops = build(n, edges)
                ops += ["drop %d" % i for i in prefix_drops]
                ops += [a.format(o=o) for a in api]
                ops += ["drop %d" % i for i in range(n)]
                c12.append("c12_%s_o%d_%s_%d|A|%s" % (name, o, api[-1].split()[0] + str(len(api)), len(prefix_drops), ";".join(ops)))
out("40_c12.hist", c12)

# ---- C13: take a recorded handle out of every slot without unadopt, keep or drop it
c13 = []
for name in ("ring2", "ring3", "clique3", "chain3", "par", "ring3tail", "two_rings"):
    n, edges = SHAPES[name]
    used = [0] * n
    slots = []
    for (i, j) in edges:
        slots.append((i, used[i])); used[i] += 1
    for (i, k) in slots:
        for keep in (True, False):
            for order in (list(range(n)), list(reversed(range(n)))):
                ops = build(n, edges)
                ops += ["take r%d %d 6" % (i, k)]
                if not keep:
                    ops += ["drop 6"]
                ops += ["drop %d" % x for x in order]
                if keep:
                    ops += ["sc r6", "deref r6", "drop 6"]
                c13.append("c13_%s_%d_%d_%s_%d|A|%s" % (name, i, k, "keep" if keep else "drop", order[0], ";".join(ops)))
out("50_c13.hist", c13)
