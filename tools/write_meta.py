#!/usr/bin/env python3
"""tools/write_meta.py <name> <property> <needs text>: write seeded/<name>/meta.json from confirm.log and checks.txt"""
import json, os, re, sys, glob
name, prop, needs = sys.argv[1], sys.argv[2], sys.argv[3]
d = os.path.join(os.path.dirname(os.path.abspath(__file__)), "..", "seeded", name)
cp = os.path.join(d, "confirm.log")
conf = open(cp).read() if os.path.exists(cp) else ""
m = re.search(r"suite_with_change_rc=(\d+) demo_with_change_rc=(\d+) demo_without_change_rc=(\d+)", conf)
checks = open(os.path.join(d, "checks.txt")).read()
caught = sorted(set(re.findall(r"VIOLATION property=(C\d+)", checks)))
meta = {
    "property": prop, "patch": "patch.diff",
    "demonstration": sorted(os.path.basename(x) for x in glob.glob(os.path.join(d, "demo_*.rs"))),
    "needs_to_manifest": needs,
    "author": "independent sub-agent given only the property text and a scratch worktree of /repo" if m else
              "revert of a fix: commit of /repo (the defect it repaired returns)",
    "confirmed_in_scratch_worktree": {"note": "the defect's witnesses are in corpus/00_defects_and_shapes.hist and known_findings.json (fixed: entries)"} if not m else {
        "existing_suite_with_change_rc": int(m.group(1)), "demo_with_change_rc": int(m.group(2)),
        "demo_without_change_rc": int(m.group(3)),
        "commands": ["cargo test --offline --test <demo> (unmodified source): pass",
                     "git apply patch.diff; cargo test --offline --test <demo>: fail",
                     "demo moved away; cargo test --workspace --no-fail-fast --offline: pass"]},
    "checks_run": "tools/seed_eval.sh (PAR=1: the scratch worktree with the change applied is the checkout under test, VERIF_REPO): ./check <each id> --tier quick",
    "caught_by": caught,
    "caught_with_a_concrete_failing_input_by": sorted(set(
        mm.group(1) for mm in re.finditer(r"VIOLATION property=(C\d+) replay=\S+\s*$", checks, flags=re.M))),
}
json.dump(meta, open(os.path.join(d, "meta.json"), "w"), indent=1)
print(name, prop, caught)
