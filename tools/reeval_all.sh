#!/bin/bash
# tools/reeval_all.sh [names...]: re-run every quick check against every seeded change (PAR mode: scratch
# worktrees, /repo untouched), JOBS at a time; refresh caught_by in each meta.json.
cd "$(dirname "$(readlink -f "$0")")/.."
names=${@:-$(ls seeded)}
JOBS=${JOBS:-5}
run_one() {
  n=$1
  wt=/tmp/wtre_$n
  git -C /repo worktree remove --force $wt >/dev/null 2>&1
  git -C /repo worktree add --detach $wt HEAD >/dev/null 2>&1 || { echo "$n: worktree failed"; return; }
  cp /repo/Cargo.lock $wt/ 2>/dev/null
  if git -C $wt apply /verif/seeded/$n/patch.diff 2>/dev/null; then
    SKIP_CONFIRM=1 PAR=1 WTDIR=$wt tools/seed_eval.sh X $n > /root/scratch/re_$n.log 2>&1
    python3 - "$n" <<'PY'
import json, re, sys
n = sys.argv[1]
d = "/verif/seeded/%s/" % n
caught = sorted(set(re.findall(r"VIOLATION property=(C\d+)", open(d + "checks.txt").read())))
try:
    m = json.load(open(d + "meta.json"))
except Exception:
    m = {"property": "?"}
m["caught_by"] = caught
json.dump(m, open(d + "meta.json", "w"), indent=1)
print(n, m.get("property"), "own property caught:", m.get("property") in caught, caught)
PY
  else
    echo "$n: patch does not apply"
  fi
  git -C /repo worktree remove --force $wt >/dev/null 2>&1
}
export -f run_one
printf "%s\n" $names | xargs -P $JOBS -I{} bash -c 'run_one {}'
