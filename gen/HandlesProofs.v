(** * The functions of rc.rs that read the counters or create a handle, as
    translated, are what the model's actions compute (C05, C06, C16).

    Re-checked on every run against gen/HandlesGen.v and gen/Counters.v, both
    regenerated from /repo/src/rc.rs. *)
From Coq Require Import NArith Bool Lia List. Import ListNotations.
From CR Require Import Base Atomic Machine Tokens.
From Gen Require Import Counters CountersProofs HandlesGen.
Local Open Scope N_scope.

Lemma bind_ret_tt (m : M unit) c : Counters.bind m (fun _ => ret tt) c = m c.
Proof. unfold Counters.bind, ret. destruct (m c) as [[] c1| |]; reflexivity. Qed.

Lemma repr_le b : repr_ok b -> enc (strong b) <= MAXU /\ weak b <= MAXU.
Proof. intros [Hs Hw]. split; [apply enc_le; exact Hs|lia]. Qed.

(** ** observers *)

(** [Rc::strong_count]: the raw counter (the marker shows as usize::MAX) *)
Theorem rc_strong_count_translated b :
  g_rc_strong_count (cells_of b) = Ret (enc (strong b)) (cells_of b).
Proof. reflexivity. Qed.

(** [Rc::weak_count]: [weak - 1]; on a zero counter the subtraction overflows,
    the model's underflow fault *)
Theorem rc_weak_count_translated b :
  g_rc_weak_count (cells_of b) =
  if weak b =? 0 then Overflow else Ret (weak b - 1) (cells_of b).
Proof.
  unfold g_rc_weak_count, g_weak. run. unfold cells_of; cbn [c_weak].
  destruct (N.eqb_spec (weak b) 0) as [E|E].
  - rewrite E. reflexivity.
  - assert (1 <=? weak b = true) as -> by (apply N.leb_le; lia). reflexivity.
Qed.

(** [Weak::strong_count]: 0 for a destroyed object (C05) *)
Theorem weak_strong_count_translated b : repr_ok b ->
  g_weak_strong_count (cells_of b) =
  Ret (match strong b with Uninit => 0 | Cnt n => n end) (cells_of b).
Proof.
  intros Hr. unfold g_weak_strong_count. unfold Counters.bind at 1. rewrite (is_uninit_refines b Hr).
  destruct (strong b) as [n|] eqn:E; cbn [is_uninit].
  - unfold cells_of. rewrite E. reflexivity.
  - reflexivity.
Qed.

(** [Weak::weak_count]: 0 for a destroyed object and when no strong handle is
    left, else [weak - 1] (C05) *)
Theorem weak_weak_count_translated b : repr_ok b ->
  g_weak_weak_count (cells_of b) =
  match strong b with
  | Uninit => Ret 0 (cells_of b)
  | Cnt n => if 0 <? n then (if weak b =? 0 then Overflow else Ret (weak b - 1) (cells_of b))
             else Ret 0 (cells_of b)
  end.
Proof.
  intros Hr. unfold g_weak_weak_count. unfold Counters.bind at 1. rewrite (is_uninit_refines b Hr).
  destruct (strong b) as [n|] eqn:E; cbn [is_uninit]; [|reflexivity].
  unfold g_strong, g_weak. run. unfold cells_of. rewrite E. cbn [enc c_strong c_weak].
  destruct (0 <? n); [|reflexivity]. cbn [c_weak].
  destruct (N.eqb_spec (weak b) 0) as [E0|E0].
  - rewrite E0. reflexivity.
  - assert (1 <=? weak b = true) as -> by (apply N.leb_le; lia). reflexivity.
Qed.

(** ** handle creation *)

(** [Rc::clone] is [inc_strong] (abort on a destroyed object: C16);
    [Rc::downgrade] and [Weak::clone] are [inc_weak]; a dangling Weak clones
    without touching anything *)
Theorem rc_clone_translated c : g_rc_clone c = g_inc_strong c.
Proof. apply bind_ret_tt. Qed.

Theorem rc_downgrade_translated c : g_rc_downgrade c = g_inc_weak c.
Proof. apply bind_ret_tt. Qed.

Theorem weak_clone_translated c : g_weak_clone c = g_inc_weak c.
Proof. unfold g_weak_clone. rewrite bind_ret_tt. apply bind_ret_tt. Qed.

Theorem weak_clone_dangling_translated c : g_weak_clone_dangling c = Ret tt c.
Proof. reflexivity. Qed.

(** [Weak::upgrade]: [None] exactly for a destroyed object (count 0 or the
    marker), otherwise one more strong handle (C05); a dangling Weak never
    upgrades *)
Theorem weak_upgrade_translated b : repr_ok b ->
  g_weak_upgrade (cells_of b) =
  if is_dead (strong b) then Ret false (cells_of b)
  else match strong b with
       | Cnt n => Ret true (cells_of (with_strong b (Cnt (n + 1))))
       | Uninit => Ret false (cells_of b)
       end.
Proof.
  intros Hr. unfold g_weak_upgrade. unfold Counters.bind at 1. rewrite (is_dead_refines b Hr).
  destruct (strong b) as [n|] eqn:E; cbn [is_dead]; [|reflexivity].
  destruct (n =? 0) eqn:E0; [reflexivity|].
  unfold Counters.bind. destruct Hr as [Hs Hw]. rewrite E in Hs.
  unfold cells_of at 1. rewrite E. cbn [enc].
  rewrite g_inc_strong_spec by (rewrite MAXU_val in *; lia). rewrite E0. cbn [orb].
  assert (n =? MAXU = false) as -> by (apply N.eqb_neq; rewrite MAXU_val in *; lia).
  assert (n + 1 =? MAXU = false) as -> by (apply N.eqb_neq; rewrite MAXU_val in *; lia).
  unfold ret. destruct b; reflexivity.
Qed.

Theorem weak_upgrade_dangling_translated c : g_weak_upgrade_dangling c = Ret false c.
Proof. reflexivity. Qed.

(** ** against the model's actions *)

(** what [Weak::upgrade] returns and does in the model is what the translated
    function returns and does *)
Theorem act_upgrade_translated s self wr dst o b :
  resolve_weak s self wr = Some (Some o) -> reg_free s dst = true ->
  getb (heap_of s) o = Ok b -> repr_ok b ->
  match g_weak_upgrade (cells_of b) with
  | Ret false _ => exec_act s self (AUpgrade wr dst) = AO s self RNone []
  | Ret true c' =>
      exists b', c' = cells_of b' /\
        exec_act s self (AUpgrade wr dst) =
        AO (set_reg (set_heap s (setb (heap_of s) o b')) dst (RStrong o)) self RSome []
  | _ => False
  end.
Proof.
  intros Hw Hf Hg Hr. rewrite (weak_upgrade_translated b Hr).
  cbn [exec_act]. rewrite Hw, Hf, Hg.
  destruct (strong b) as [n|] eqn:E; cbn [is_dead]; [|reflexivity].
  destruct (n =? 0) eqn:E0; [reflexivity|].
  exists (with_strong b (Cnt (n + 1))). split; [reflexivity|].
  unfold lift, inc_strong. rewrite Hg. cbn [Base.bind]. rewrite E, E0. reflexivity.
Qed.

(** the four observers *)
Theorem act_observers_translated s self o b :
  getb (heap_of s) o = Ok b -> repr_ok b ->
  (forall hr x, resolve_strong s self hr = Some (o, x) ->
     exec_act s self (AStrongCount hr) = AO s self (RCnt (strong b)) [] /\
     g_rc_strong_count (cells_of b) = Ret (enc (strong b)) (cells_of b)) /\
  (forall hr x, resolve_strong s self hr = Some (o, x) ->
     match g_rc_weak_count (cells_of b) with
     | Ret v _ => exec_act s self (AWeakCount hr) = AO s self (RNat v) []
     | Overflow => exec_act s self (AWeakCount hr) = AHalt (HFault FkUnderflow o)
     | Abort => False
     end) /\
  (forall wr, resolve_weak s self wr = Some (Some o) ->
     match g_weak_strong_count (cells_of b) with
     | Ret v _ => exec_act s self (AWStrongCount wr) = AO s self (RNat v) []
     | _ => False
     end) /\
  (forall wr, resolve_weak s self wr = Some (Some o) ->
     match g_weak_weak_count (cells_of b) with
     | Ret v _ => exec_act s self (AWWeakCount wr) = AO s self (RNat v) []
     | Overflow => exec_act s self (AWWeakCount wr) = AHalt (HFault FkUnderflow o)
     | Abort => False
     end).
Proof.
  intros Hg Hr. repeat split.
  - cbn [exec_act]. rewrite H, Hg. reflexivity.
  - intros hr x H. rewrite rc_weak_count_translated. cbn [exec_act]. rewrite H, Hg.
    destruct (weak b =? 0); reflexivity.
  - intros wr H. rewrite (weak_strong_count_translated b Hr). cbn [exec_act]. rewrite H, Hg. reflexivity.
  - intros wr H. rewrite (weak_weak_count_translated b Hr). cbn [exec_act]. rewrite H, Hg.
    destruct (strong b) as [n|]; [|reflexivity].
    destruct (0 <? n); [|reflexivity]. destruct (weak b =? 0); reflexivity.
Qed.

(** [Rc::is_unique] (behind [get_mut]): no Weak and exactly one strong handle;
    the model's [AGetMut] returns exactly this boolean *)
Theorem rc_is_unique_translated b : repr_ok b ->
  g_rc_is_unique (cells_of b) =
  if weak b =? 0 then Overflow
  else Ret ((weak b =? 1) && match strong b with Cnt 1 => true | _ => false end) (cells_of b).
Proof.
  intros Hr. unfold g_rc_is_unique. unfold Counters.bind at 1 2. rewrite rc_weak_count_translated.
  destruct (N.eqb_spec (weak b) 0) as [E0|E0]; [reflexivity|].
  unfold Counters.bind at 1 2. unfold ret at 1 2. cbn beta iota.
  destruct (N.eqb_spec (weak b - 1) 0) as [E1|E1].
  - assert (weak b =? 1 = true) as -> by (apply N.eqb_eq; lia). cbn [andb].
    unfold Counters.bind. rewrite rc_strong_count_translated. unfold ret. f_equal.
    destruct Hr as [Hs _]. destruct (strong b) as [n|] eqn:E; cbn [enc].
    + destruct n as [|[p|p|]]; reflexivity.
    + apply N.eqb_neq. rewrite MAXU_val. lia.
  - assert (weak b =? 1 = false) as -> by (apply N.eqb_neq; lia). reflexivity.
Qed.

Theorem act_get_mut_translated s self r o b :
  reg_get s r = RStrong o -> getb (heap_of s) o = Ok b -> repr_ok b ->
  match g_rc_is_unique (cells_of b) with
  | Ret v _ => exec_act s self (AGetMut r) = AO s self (RBool v) []
  | Overflow => exec_act s self (AGetMut r) = AHalt (HFault FkUnderflow o)
  | Abort => False
  end.
Proof.
  intros Hreg Hg Hr. rewrite (rc_is_unique_translated b Hr). cbn [exec_act]. rewrite Hreg, Hg.
  destruct (weak b =? 0); reflexivity.
Qed.

(** a fresh allocation: one strong handle, the implicit weak, an empty table --
    the model's [new_box], at both initialisation sites of the source
    ([Rc::new]; [allocate_for_layout] behind [new_uninit] and [From<Box<T>>]) *)
Theorem new_box_translated p :
  cells_of (new_box p) = g_new_cells /\ cells_of (new_box p) = g_alloc_cells /\
  links (new_box p) = Some [] /\ value (new_box p) = Some p /\ freed (new_box p) = false.
Proof. repeat split; reflexivity. Qed.

(** C05 about the translated source: [Weak::upgrade] returns a handle exactly
    for an object whose value has not been destroyed ([live]: a positive count,
    not the marker), and then leaves one more strong handle *)
Theorem translated_upgrade_iff_alive b : repr_ok b ->
  ((exists c, g_weak_upgrade (cells_of b) = Ret true c) <-> live b = true) /\
  (forall c, g_weak_upgrade (cells_of b) = Ret true c ->
     exists n, strong b = Cnt n /\ c = cells_of (with_strong b (Cnt (n + 1)))).
Proof.
  intros Hr. rewrite (weak_upgrade_translated b Hr). unfold live.
  destruct (strong b) as [n|] eqn:E; cbn [is_dead].
  - destruct (N.eqb_spec n 0) as [E0|E0].
    + subst n. split; [split; [intros [c H]; discriminate|discriminate]|intros c H; discriminate].
    + split.
      * split; [intros _; apply N.ltb_lt; lia|intros _; eexists; reflexivity].
      * intros c H. injection H as <-. exists n. split; reflexivity.
  - split; [split; [intros [c H]; discriminate|discriminate]|intros c H; discriminate].
Qed.

Print Assumptions translated_upgrade_iff_alive.
Print Assumptions new_box_translated.
Print Assumptions rc_is_unique_translated.
Print Assumptions act_get_mut_translated.
Print Assumptions rc_strong_count_translated.
Print Assumptions rc_weak_count_translated.
Print Assumptions weak_strong_count_translated.
Print Assumptions weak_weak_count_translated.
Print Assumptions rc_clone_translated.
Print Assumptions rc_downgrade_translated.
Print Assumptions weak_clone_translated.
Print Assumptions weak_upgrade_translated.
Print Assumptions act_upgrade_translated.
Print Assumptions act_observers_translated.
