(** * C08 and C05, stated about the translated source.

    [adopt_unchecked] / [unadopt] as regenerated from /repo/src/adopt.rs
    (gen/AdoptGen.v, meaning gen/AdoptLang.v) are what the model's actions
    [AAdopt] / [AUnadopt] execute; so the invariant -- tables well formed,
    symmetric, naming only live objects, counts untouched (C08, C06) -- is
    preserved by the translated functions, and their borrows never conflict
    (C10). Likewise [Weak::upgrade] (gen/HandlesGen.v) for C05. *)
From Coq Require Import NArith List. Import ListNotations.
From CR Require Import Base Atomic Machine Borrow InvDef ActBase ActAdopt ActHandles StepInv Recorded.
From Gen Require Import AdoptLang AdoptGen AdoptProofs.

Theorem action_adopt_is_translated s self h1 h2 a l1 b l2 :
  resolve_strong s self h1 = Some (a, l1) -> resolve_strong s self h2 = Some (b, l2) ->
  exec_act s self (AAdopt h1 h2) =
  match fst (run_prog a b g_adopt_unchecked (hloc_eqb l1 l2) (heap_of s)) with
  | Ok h' => AO (set_heap s h') self RUnit []
  | Bad e => AHalt e
  end.
Proof.
  intros E1 E2. cbn [exec_act]. rewrite E1, E2, adopt_translated. unfold lift.
  destruct (adopt (heap_of s) (hloc_eqb l1 l2) a b); reflexivity.
Qed.

Theorem action_unadopt_is_translated s self h1 h2 a l1 b l2 :
  resolve_strong s self h1 = Some (a, l1) -> resolve_strong s self h2 = Some (b, l2) ->
  exec_act s self (AUnadopt h1 h2) =
  match fst (run_prog a b g_unadopt (hloc_eqb l1 l2) (heap_of s)) with
  | Ok h' => AO (set_heap s h') self RUnit []
  | Bad e => AHalt e
  end.
Proof.
  intros E1 E2. cbn [exec_act]. rewrite E1, E2, unadopt_translated. unfold lift.
  destruct (unadopt (heap_of s) (hloc_eqb l1 l2) a b); reflexivity.
Qed.

(** the translated [adopt_unchecked] / [unadopt], run by a program or by a
    destructor script that does not touch a dying peer ([act_safe]), preserve
    the invariant and cannot fault *)
Theorem translated_adopt_is_safe s self pc k h1 h2 a l1 b l2 :
  Inv s (ctx self pc k) -> act_safe s self (AAdopt h1 h2) = true ->
  resolve_strong s self h1 = Some (a, l1) -> resolve_strong s self h2 = Some (b, l2) ->
  exists h', fst (run_prog a b g_adopt_unchecked (hloc_eqb l1 l2) (heap_of s)) = Ok h' /\
             Inv (set_heap s h') (ctx self pc k) /\
             cfb (snd (run_prog a b g_adopt_unchecked (hloc_eqb l1 l2) (heap_of s))).
Proof.
  intros HI Hs E1 E2. pose proof (act_adopt h1 h2 s self pc k HI Hs) as P.
  rewrite (action_adopt_is_translated s self h1 h2 a l1 b l2 E1 E2) in P.
  destruct (fst (run_prog a b g_adopt_unchecked (hloc_eqb l1 l2) (heap_of s))) as [h'|e] eqn:E.
  - exists h'. split; [reflexivity|]. split; [apply P|apply adopt_translated_never_conflicts].
  - exfalso. cbn [act_post] in P. rewrite adopt_translated in E. exact (adopt_fault _ _ _ _ _ E P).
Qed.

Theorem translated_unadopt_is_safe s self pc k h1 h2 a l1 b l2 :
  Inv s (ctx self pc k) -> act_safe s self (AUnadopt h1 h2) = true ->
  resolve_strong s self h1 = Some (a, l1) -> resolve_strong s self h2 = Some (b, l2) ->
  exists h', fst (run_prog a b g_unadopt (hloc_eqb l1 l2) (heap_of s)) = Ok h' /\
             Inv (set_heap s h') (ctx self pc k) /\
             cfb (snd (run_prog a b g_unadopt (hloc_eqb l1 l2) (heap_of s))).
Proof.
  intros HI Hs E1 E2. pose proof (act_unadopt h1 h2 s self pc k HI Hs) as P.
  rewrite (action_unadopt_is_translated s self h1 h2 a l1 b l2 E1 E2) in P.
  destruct (fst (run_prog a b g_unadopt (hloc_eqb l1 l2) (heap_of s))) as [h'|e] eqn:E.
  - exists h'. split; [reflexivity|]. split; [apply P|apply unadopt_translated_never_conflicts].
  - exfalso. cbn [act_post] in P. rewrite unadopt_translated in E. exact (unadopt_fault _ _ _ _ _ E P).
Qed.

Print Assumptions action_adopt_is_translated.
Print Assumptions action_unadopt_is_translated.
Print Assumptions translated_adopt_is_safe.
Print Assumptions translated_unadopt_is_safe.
