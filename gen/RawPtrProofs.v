(** * The raw-pointer API of rc.rs as translated: round trips, identity, the
    dangling sentinel (C06 identity, C07 / C12 raw-pointer round trips).
    Hand written; re-checked on every run against the regenerated
    [RawPtrGen.v].

    Parameters (facts of the target, not of the crate): [Cell<usize>] is 8
    bytes, 8-aligned; the link table's type is at least 8-aligned; every
    alignment is a power of two and divides the size of its type.  The layout
    is the [repr(C)] rule of [RawPtrLang.layout_c], applied to the field list
    the translator read from [struct RcBox]. *)
From Coq Require Import ZArith List String Bool Lia Znumtheory.
Import ListNotations.
From Gen Require Import RawPtrLang RawPtrGen.
Local Open Scope Z_scope.

(** ** arithmetic *)
Lemma word_pos : 0 < WORD. Proof. reflexivity. Qed.

Lemma wrap_small x : in_usize x -> wrap x = x.
Proof. unfold in_usize, wrap. intros H. apply Z.mod_small. exact H. Qed.

Lemma wrap_range x : in_usize (wrap x).
Proof. unfold in_usize, wrap. apply Z.mod_pos_bound. exact word_pos. Qed.

Lemma wrap_add_wrap_l a b : wrap (wrap a + b) = wrap (a + b).
Proof. unfold wrap. apply Zplus_mod_idemp_l. Qed.

Lemma wrap_add_wrap_r a b : wrap (a + wrap b) = wrap (a + b).
Proof. unfold wrap. apply Zplus_mod_idemp_r. Qed.

Lemma wrap_shift x k : wrap (x + k * WORD) = wrap x.
Proof. unfold wrap. apply Z_mod_plus_full. Qed.

(** [to_isize] only subtracts a multiple of 2^64 *)
Lemma to_isize_cong u : exists k, to_isize u = u + k * WORD.
Proof.
  unfold to_isize. destruct (u <? 9223372036854775808).
  - exists 0. lia.
  - exists (-1). lia.
Qed.

Lemma wrap_cong x : exists k, wrap x = x + k * WORD.
Proof.
  unfold wrap. exists (- (x / WORD)). pose proof (Z.div_mod x WORD). pose proof word_pos. lia.
Qed.

(** the offset computed on a scratch [RcBox] at any address [base] is the field offset, up to 2^64 *)
Lemma data_offset_cong off base : exists k, g_data_offset off base = off "value"%string + k * WORD.
Proof.
  unfold g_data_offset, wsub, wadd.
  destruct (to_isize_cong (wrap (wrap (base + off "value"%string) - base))) as [k1 ->].
  destruct (wrap_cong (wrap (base + off "value"%string) - base)) as [k2 ->].
  destruct (wrap_cong (base + off "value"%string)) as [k3 ->].
  exists (k1 + k2 + k3). lia.
Qed.

(** ** round trip of [Rc::into_raw] / [Rc::from_raw]: for every layout, every address *)
Theorem rc_round_trip_any_layout off base p :
  in_usize p -> g_rc_from_raw off base (g_rc_into_raw off p) = p.
Proof.
  intros Hp. unfold g_rc_from_raw, g_rc_into_raw, g_rc_as_ptr, ptr_offset, wadd.
  destruct (data_offset_cong off base) as [k ->].
  rewrite wrap_add_wrap_l.
  replace (p + off "value"%string + - (off "value"%string + k * WORD)) with (p + (- k) * WORD) by lia.
  rewrite wrap_shift. apply wrap_small. exact Hp.
Qed.

Theorem rc_as_ptr_injective off p1 p2 :
  in_usize p1 -> in_usize p2 -> g_rc_as_ptr off p1 = g_rc_as_ptr off p2 -> p1 = p2.
Proof.
  intros H1 H2 E.
  rewrite <- (rc_round_trip_any_layout off 0 p1 H1), <- (rc_round_trip_any_layout off 0 p2 H2).
  unfold g_rc_into_raw. rewrite E. reflexivity.
Qed.

Theorem ptr_eq_is_address_equality a b :
  g_rc_ptr_eq a b = Z.eqb a b /\ g_weak_ptr_eq a b = Z.eqb a b.
Proof. split; reflexivity. Qed.

(** all handles to one allocation agree on [as_ptr], and [as_ptr] separates what [ptr_eq] separates *)
Theorem as_ptr_agrees_with_ptr_eq off p1 p2 :
  in_usize p1 -> in_usize p2 ->
  g_rc_ptr_eq p1 p2 = Z.eqb (g_rc_as_ptr off p1) (g_rc_as_ptr off p2).
Proof.
  intros H1 H2. unfold g_rc_ptr_eq.
  destruct (Z.eqb_spec p1 p2) as [->|N].
  - symmetry. apply Z.eqb_refl.
  - symmetry. apply Z.eqb_neq. intros E. apply N. eapply rc_as_ptr_injective; eauto.
Qed.

(** ** the declaration of RcBox *)
Theorem rcbox_is_repr_c : g_repr_c = true.
Proof. reflexivity. Qed.

Theorem rcbox_fields :
  g_rcbox_fields = [("strong", TCellUsize); ("weak", TCellUsize); ("links", TLinks); ("value", TValue)]%string.
Proof. reflexivity. Qed.

(** ** round_up *)
Lemma round_up_spec x a : 0 < a -> (a | round_up x a) /\ x <= round_up x a < x + a.
Proof.
  intros Ha. unfold round_up. split.
  - exists ((x + a - 1) / a). reflexivity.
  - pose proof (Z.div_mod (x + a - 1) a). pose proof (Z.mod_pos_bound (x + a - 1) a Ha). lia.
Qed.

Lemma round_up_id x a : 0 < a -> (a | x) -> round_up x a = x.
Proof.
  intros Ha [q ->]. unfold round_up.
  replace (q * a + a - 1) with ((a - 1) + q * a) by lia.
  rewrite Z.div_add by lia. rewrite Z.div_small by lia. lia.
Qed.

Lemma pow2_pos a : pow2 a -> 0 < a.
Proof. intros (k & Hk & ->). apply Z.pow_pos_nonneg; lia. Qed.

(** a power of two is 1 or even *)
Lemma pow2_one_or_even a : pow2 a -> a = 1 \/ (2 | a).
Proof.
  intros (k & Hk & ->). destruct (Z.eq_dec k 0) as [->|N]; [left; reflexivity|right].
  exists (2 ^ (k - 1)). replace k with (k - 1 + 1) at 1 by lia. rewrite Z.pow_add_r by lia. lia.
Qed.

Lemma pow2_divide a b : pow2 a -> pow2 b -> a <= b -> (a | b).
Proof.
  intros (k & Hk & ->) (j & Hj & ->) Hle.
  assert (k <= j).
  { destruct (Z_le_gt_dec k j); [assumption|]. exfalso.
    assert (2 ^ j < 2 ^ k) by (apply Z.pow_lt_mono_r; lia). lia. }
  exists (2 ^ (j - k)). rewrite <- Z.pow_add_r by lia. f_equal. lia.
Qed.

Lemma pow2_8 : pow2 8. Proof. exists 3. split; [lia|reflexivity]. Qed.
Lemma pow2_2 : pow2 2. Proof. exists 1. split; [lia|reflexivity]. Qed.

Lemma pow2_max a b : pow2 a -> pow2 b -> pow2 (Z.max a b) /\ (a | Z.max a b) /\ (b | Z.max a b).
Proof.
  intros Ha Hb. destruct (Z_le_gt_dec a b).
  - rewrite Z.max_r by lia. split; [exact Hb|]. split; [apply pow2_divide; auto|apply Z.divide_refl].
  - rewrite Z.max_l by lia. split; [exact Ha|]. split; [apply Z.divide_refl|apply pow2_divide; auto; lia].
Qed.

Section Layout.
  Variable info : fty -> tyinfo.
  Hypothesis H_usize : info TCellUsize = {| sz := 8; al := 8 |}.
  Hypothesis H_links_al : pow2 (al (info TLinks)) /\ 8 <= al (info TLinks).
  Hypothesis H_links_sz : (al (info TLinks) | sz (info TLinks)) /\ 0 <= sz (info TLinks).
  Hypothesis H_value_al : pow2 (al (info TValue)).
  Hypothesis H_value_sz : (al (info TValue) | sz (info TValue)) /\ 0 <= sz (info TValue).

  Let la := al (info TLinks).
  Let ls := sz (info TLinks).
  Let va := al (info TValue).
  Let vs := sz (info TValue).
  Let off := offset_of info g_rcbox_fields.
  Let salign := struct_align info g_rcbox_fields.
  Let ssize := struct_size info g_rcbox_fields.

  Lemma la8 : (8 | la) /\ 0 < la.
  Proof.
    destruct H_links_al as [Hp Hge]. fold la in Hp, Hge. split; [|lia].
    apply pow2_divide; [exact pow2_8|exact Hp|exact Hge].
  Qed.

  Lemma layout_unfold :
    fst (layout_c info g_rcbox_fields 0) =
      [("strong", 0); ("weak", 8); ("links", round_up 16 la);
       ("value", round_up (round_up 16 la + ls) va)]%string /\
    snd (layout_c info g_rcbox_fields 0) = round_up (round_up 16 la + ls) va + vs.
  Proof.
    unfold g_rcbox_fields. cbn [layout_c]. rewrite H_usize. cbn [al sz]. fold la ls va vs.
    change (round_up 0 8) with 0. change (round_up (0 + 8) 8) with 8. change (8 + 8) with 16.
    split; reflexivity.
  Qed.

  Lemma off_value : off "value"%string = round_up (round_up 16 la + ls) va.
  Proof. unfold off, offset_of. rewrite (proj1 layout_unfold). reflexivity. Qed.

  Lemma links_end_mult8 : (8 | round_up 16 la + ls) /\ 16 <= round_up 16 la + ls.
  Proof.
    destruct la8 as [H8 Hp]. destruct H_links_sz as [Hd Hs]. fold la in Hd. fold ls in Hd, Hs.
    destruct (round_up_spec 16 la Hp) as [Hm Hr]. split; [|lia].
    apply Z.divide_add_r.
    - eapply Z.divide_trans; [exact H8|exact Hm].
    - eapply Z.divide_trans; [exact H8|exact Hd].
  Qed.

  (** the payload sits at an even, T-aligned offset behind the two counters and the table *)
  Theorem value_offset_facts :
    16 <= off "value"%string /\ (va | off "value"%string) /\ (2 | off "value"%string).
  Proof.
    rewrite off_value. pose proof (pow2_pos _ H_value_al) as Hv. fold va in Hv.
    destruct links_end_mult8 as [H8 H16].
    destruct (round_up_spec (round_up 16 la + ls) va Hv) as [Hm Hr].
    split; [lia|]. split; [exact Hm|].
    destruct (pow2_one_or_even _ H_value_al) as [E1|E2]; [fold va in E1|fold va in E2].
    - rewrite E1. rewrite round_up_id; [|lia|apply Z.divide_1_l].
      eapply Z.divide_trans; [|exact H8]. exists 4. reflexivity.
    - eapply Z.divide_trans; [exact E2|exact Hm].
  Qed.

  Lemma salign_facts : (8 | salign) /\ (va | salign) /\ 0 < salign.
  Proof.
    unfold salign, struct_align, g_rcbox_fields. cbn [fold_right snd]. rewrite H_usize. cbn [al]. fold la va.
    destruct H_links_al as [Hpl Hge]. fold la in Hpl, Hge.
    pose proof (pow2_pos _ H_value_al) as Hv. fold va in Hv.
    replace (Z.max 8 (Z.max 8 (Z.max la (Z.max va 1)))) with (Z.max la va) by lia.
    destruct (pow2_max la va Hpl H_value_al) as (_ & Hl & Hr).
    split; [eapply Z.divide_trans; [exact (proj1 la8)|exact Hl]|]. split; [exact Hr|lia].
  Qed.

  (** the payload lies inside the allocation *)
  Theorem value_in_bounds : off "value"%string + vs <= ssize.
  Proof.
    unfold ssize, struct_size. rewrite (proj2 layout_unfold). rewrite off_value.
    destruct salign_facts as (_ & _ & Hp). fold salign.
    destruct (round_up_spec (round_up (round_up 16 la + ls) va + vs) salign Hp) as [_ Hr]. lia.
  Qed.

  (** an allocation of RcBox<T>: aligned for the struct and inside the address space (no allocation
      contains the last byte of the address space: its one-past-the-end address must not wrap) *)
  Definition real (p : Z) : Prop := 0 <= p /\ (salign | p) /\ p + ssize < WORD.

  Lemma real_in_usize p : real p -> in_usize p.
  Proof.
    intros (H0 & _ & Hs). pose proof value_in_bounds. destruct value_offset_facts as (H16 & _).
    destruct H_value_sz as [_ Hvs]. fold vs in Hvs. unfold in_usize. lia.
  Qed.

  Lemma real_even p : real p -> (2 | p).
  Proof.
    intros (_ & Ha & _). destruct salign_facts as (H8 & _).
    eapply Z.divide_trans; [|exact Ha]. eapply Z.divide_trans; [|exact H8]. exists 4. reflexivity.
  Qed.

  Lemma even_not_max x : (2 | x) -> x <> USIZE_MAX.
  Proof. intros [q ->] E. unfold USIZE_MAX in E. lia. Qed.

  (** [as_ptr] of a real allocation does not wrap, is aligned for T, and is not the sentinel *)
  Theorem rc_as_ptr_real p : real p ->
    g_rc_as_ptr off p = p + off "value"%string /\ (va | g_rc_as_ptr off p) /\
    g_is_dangling (g_rc_as_ptr off p) = false /\ g_is_dangling p = false.
  Proof.
    intros Hr. pose proof Hr as (H0 & Ha & Hs).
    destruct value_offset_facts as (H16 & Hva & H2). pose proof value_in_bounds as Hb.
    destruct H_value_sz as [_ Hvs]. fold vs in Hvs.
    assert (E : g_rc_as_ptr off p = p + off "value"%string).
    { unfold g_rc_as_ptr, wadd. apply wrap_small. unfold in_usize. lia. }
    split; [exact E|]. rewrite E. split.
    - apply Z.divide_add_r; [|exact Hva]. eapply Z.divide_trans; [|exact Ha]. exact (proj1 (proj2 salign_facts)).
    - split; unfold g_is_dangling; apply Z.eqb_neq; apply even_not_max.
      + apply Z.divide_add_r; [apply real_even; exact Hr|exact H2].
      + apply real_even; exact Hr.
  Qed.

  (** ** Weak: the sentinel of [Weak::new] and the round trip *)
  Theorem weak_new_is_dangling :
    g_is_dangling g_weak_new = true /\ g_weak_as_ptr off g_weak_new = g_weak_new /\
    forall base, g_weak_from_raw off base g_weak_new = g_weak_new.
  Proof. split; [reflexivity|]. split; [reflexivity|]. intros base. reflexivity. Qed.

  Theorem weak_round_trip base p :
    p = g_weak_new \/ real p -> g_weak_from_raw off base (g_weak_into_raw off p) = p.
  Proof.
    intros [->|Hr].
    - reflexivity.
    - destruct (rc_as_ptr_real p Hr) as (E & _ & Hd & Hp).
      unfold g_weak_into_raw, g_weak_as_ptr. rewrite Hp.
      unfold g_weak_from_raw. unfold g_rc_as_ptr in Hd. rewrite Hd.
      apply (rc_round_trip_any_layout off base p). apply real_in_usize. exact Hr.
  Qed.

  (** a dangling Weak and a Weak to a real allocation are never confused, in either representation *)
  Theorem dangling_is_distinguished p : real p ->
    p <> g_weak_new /\ g_weak_as_ptr off p <> g_weak_as_ptr off g_weak_new.
  Proof.
    intros Hr. destruct (rc_as_ptr_real p Hr) as (E & _ & Hd & Hp).
    split.
    - intros ->. discriminate Hp.
    - unfold g_weak_as_ptr at 1. rewrite Hp. destruct weak_new_is_dangling as (_ & -> & _).
      intros Eq. unfold g_rc_as_ptr in Hd. rewrite Eq in Hd. discriminate Hd.
  Qed.

  Theorem weak_as_ptr_injective p1 p2 :
    (p1 = g_weak_new \/ real p1) -> (p2 = g_weak_new \/ real p2) ->
    g_weak_as_ptr off p1 = g_weak_as_ptr off p2 -> p1 = p2.
  Proof.
    intros H1 H2 E.
    rewrite <- (weak_round_trip 0 p1 H1), <- (weak_round_trip 0 p2 H2).
    unfold g_weak_into_raw. rewrite E. reflexivity.
  Qed.

  Theorem rc_round_trip base p : real p -> g_rc_from_raw off base (g_rc_into_raw off p) = p.
  Proof. intros Hr. apply rc_round_trip_any_layout. apply real_in_usize. exact Hr. Qed.
End Layout.

(** the hypotheses are satisfiable: the layout of RcBox<u8> and of RcBox<u128-aligned payload> on x86-64
    with a 40-byte, 8-aligned table *)
Definition info_u8 (t : fty) : tyinfo :=
  match t with TCellUsize => {| sz := 8; al := 8 |} | TLinks => {| sz := 40; al := 8 |}
             | TValue => {| sz := 1; al := 1 |} | TOther => {| sz := 0; al := 1 |} end.
Definition info_a32 (t : fty) : tyinfo :=
  match t with TCellUsize => {| sz := 8; al := 8 |} | TLinks => {| sz := 40; al := 8 |}
             | TValue => {| sz := 64; al := 32 |} | TOther => {| sz := 0; al := 1 |} end.

Example layout_u8 :
  offset_of info_u8 g_rcbox_fields "value" = 56 /\ struct_size info_u8 g_rcbox_fields = 64 /\
  offset_of info_a32 g_rcbox_fields "value" = 64 /\ struct_size info_a32 g_rcbox_fields = 128 /\
  struct_align info_a32 g_rcbox_fields = 32.
Proof. vm_compute. repeat split; reflexivity. Qed.

Example real_nonvacuous : real info_u8 4096 /\ real info_a32 4096.
Proof. unfold real. vm_compute. repeat split; try discriminate; try (exists 512; reflexivity); try (exists 128; reflexivity). Qed.

(** negative controls: what the theorems exclude *)
Example wrong_sign_breaks_round_trip :
  ptr_offset (wadd 4096 56) 56 <> 4096.
Proof. vm_compute. discriminate. Qed.

Example unaligned_links_would_allow_the_sentinel :
  (* were the offset odd, an allocation at the very top of the address space could hand out usize::MAX *)
  wadd (USIZE_MAX - 57) 57 = USIZE_MAX.
Proof. reflexivity. Qed.

Print Assumptions rc_round_trip_any_layout.
Print Assumptions rc_as_ptr_injective.
Print Assumptions ptr_eq_is_address_equality.
Print Assumptions as_ptr_agrees_with_ptr_eq.
Print Assumptions rcbox_is_repr_c.
Print Assumptions rcbox_fields.
Print Assumptions value_offset_facts.
Print Assumptions value_in_bounds.
Print Assumptions rc_as_ptr_real.
Print Assumptions weak_new_is_dangling.
Print Assumptions weak_round_trip.
Print Assumptions dangling_is_distinguished.
Print Assumptions weak_as_ptr_injective.
Print Assumptions rc_round_trip.
