(** * The purge loops as translated are the model's [purge_loop] (C08: records
    involving an object disappear when it is destroyed; C12: or given up by
    [try_unwrap] / [make_mut]). Re-checked on every run against
    gen/PurgeGen.v. *)
From Coq Require Import NArith List. Import ListNotations.
From CR Require Import Base Atomic.
From Gen Require Import PurgeLang PurgeGen.

Lemma purge_body_is_model this body :
  body = [PSkipSelf; PBorrowPeer; PRemove Fwd; PRemove Bwd] ->
  forall t h, g_purge_loop this body h t = purge_loop h this t.
Proof.
  Opaque links_remove.
  intros ->. induction t as [|[[x k] n] t IH]; intros h; [reflexivity|].
  cbn [g_purge_loop purge_loop]. unfold run_entry. simpl fold_left. cbn [fst snd].
  destruct (Nat.eqb x this); simpl; [apply IH|].
  destruct (links_remove h x (this, Fwd) n) as [h1|e]; simpl; [|reflexivity].
  destruct (links_remove h1 x (this, Bwd) n) as [h2|e]; simpl; [apply IH|reflexivity].
Qed.

Theorem drop_unreachable_purge_translated this t h :
  g_purge_loop this g_drop_unreachable_with_adoptions_purge h t = purge_loop h this t.
Proof. apply purge_body_is_model. reflexivity. Qed.

Theorem release_links_purge_translated this t h :
  g_purge_loop this g_release_links_purge h t = purge_loop h this t.
Proof. apply purge_body_is_model. reflexivity. Qed.

Print Assumptions drop_unreachable_purge_translated.
Print Assumptions release_links_purge_translated.
