(** * The order of effects in the teardown functions of drop.rs is the order the
    machine model implements.

    gen/EffectsGen.v is regenerated from /repo/src/drop.rs on every run: for
    each teardown function the tree of effect markers in program order (loops
    and tests keep their nesting; logging and the verif instrumentation are
    dropped). The expected trees below are the reading the model was built
    from; the theorems are plain equalities, so ANY reordering, insertion or
    removal of an effect in these functions breaks them.

    How the model realises each tree (Model/Machine.v, Model/Atomic.v):

    [drop_unreachable] (count reached 0, empty table) and
    [drop_unreachable_with_adoptions] (count reached 0, records present):
      - the purge loop ([Loop [Borrow] [TestSelf/Continue; BorrowMut; Remove;
        Remove]]) and [BorrowMut; Clear] are [purge_loop] and [set_links _ []]
        in [drop_strong]; in the plain function the loop runs over an empty
        table;
      - [TestUninit; MakeUninit; MoveValue] is [start_unreachable] (strong :=
        Uninit, value := None), which pushes
      - [FDtorStart v]: [DropValue] -- user code, a frame of its own, and
      - [FAfterValue o]: [MoveLinks; DropLinks] (links := None, event
        EvTableDropped) then [DecWeak; TestWeakZero; Dealloc] ([dec_weak_free]).
      The marker precedes the value's destructor (C05, C11); the implicit weak
      is released after it (C02, C04).
    [drop_cycle]:
      - phase one [Loop [] [BorrowMut; ExtractIf; Loop [] [DecStrong]]] is
        [bust_all] ([bust_one]: [bust_table], then [refcount.min(strong)]
        decrements);
      - phase two [Loop [] [TestDead/Continue; TestUninit -> MakeUninit;
        MoveValue; MoveLinks; PushInner]] is [gather]: EVERY member is marked
        and emptied before any destructor runs (C05, C16);
      - [DropInners] is the frame [FInners] (per member: [FDtorStart v] then
        [FTableDrop o]);
      - phase three [TestDead; Loop [] [DecWeak; TestWeakZero -> Dealloc]] is
        the frame [FFinishGroup] ([finish_group]): the implicit weak of every
        member is released only after all destructors have run (C02, C10).
    [release_links] ([try_unwrap], [make_mut]): the purge loop, then
      [MoveLinks; DropLinks] -- [release_links] of Model/Atomic.v. *)
From Coq Require Import List. Import ListNotations.
From Gen Require Import EffectsLang EffectsGen.

Definition purge_loop_tree : enode :=
  Loop [E Borrow] [Branch [E TestSelf] [E Continue]; E BorrowMut; E Remove; E Remove].
Definition destroy_tail : list enode :=
  [ Branch [E TestUninit] [E MakeUninit; E MoveValue; E DropValue; E MoveLinks; E DropLinks];
    E DecWeak;
    Branch [E TestWeakZero] [E Dealloc] ].

Theorem drop_unreachable_effects :
  g_drop_unreachable =
  Loop [E Borrow] [Branch [] [Branch [] [E BorrowMut; E Remove; E Remove]; Branch [] [E BorrowMut; E Remove]]]
  :: destroy_tail.
Proof. reflexivity. Qed.

Theorem drop_unreachable_with_adoptions_effects :
  g_drop_unreachable_with_adoptions = purge_loop_tree :: E BorrowMut :: E Clear :: destroy_tail.
Proof. reflexivity. Qed.

Theorem drop_cycle_effects :
  g_drop_cycle =
  [ Loop [] [E BorrowMut; E ExtractIf; Loop [] [E DecStrong]];
    Loop [] [Branch [E TestDead] [E Continue];
             Branch [E TestUninit] [E MakeUninit; E MoveValue; E MoveLinks; E PushInner]];
    E DropInners;
    E TestDead;
    Loop [] [E DecWeak; Branch [E TestWeakZero] [E Dealloc]] ].
Proof. reflexivity. Qed.

Theorem release_links_effects :
  g_release_links = [ purge_loop_tree; E MoveLinks; E DropLinks ].
Proof. reflexivity. Qed.

(** rc.rs. [try_unwrap] (model: [ATryUnwrap], Model/Machine.v): only with
    exactly one strong handle; peers unlinked and the table destroyed FIRST
    (fix 6e7f797), then the value read out, the count decremented, and the
    implicit weak released by the hand-built Weak's drop at the end of the
    block; the handle itself forgotten. [make_mut] ([AMakeMut]): shared ->
    clone into a fresh allocation and assign (the old handle goes through
    [Rc::drop]: a trace may run, C03b); unique with Weaks -> bitwise move,
    unlink, give the old allocation up by hand ([dec_strong], [dec_weak]) and
    overwrite without drop; unique without Weaks -> nothing. [Weak::drop]
    ([weak_drop]): nothing for a dangling Weak, else [dec_weak] and release
    at zero. *)
Theorem try_unwrap_effects :
  g_try_unwrap =
  [ Branch [E TestStrongIsOne] [E ReleaseLinks; E ReadValue; E DecStrong; E MakeWeakGuard; E Forget; E ReturnOk];
    Branch [] [E ReturnErr] ].
Proof. reflexivity. Qed.

Theorem make_mut_effects :
  g_make_mut =
  [ Branch [E TestStrongNotOne] [E NewUninit; E CloneValue; E AssignDropOld];
    Branch [E TestWeakCountNotZero]
      [E NewUninit; E CopyValue; E ReleaseLinks; E DecStrong; E DecWeak; E OverwriteNoDrop] ].
Proof. reflexivity. Qed.

Theorem weak_drop_effects :
  g_weak_drop = [ Branch [] [E Return]; E DecWeak; Branch [E TestWeakZero] [E Dealloc] ].
Proof. reflexivity. Qed.

(** the raw-pointer functions: [increment_strong_count] is one [Rc::clone] of a
    handle that is never dropped (model: [AIncStrong] = [inc_strong]);
    [decrement_strong_count] is exactly the drop of one handle (model:
    [ADecStrong] pushes [FDropStrong]: the whole of [Rc::drop], trace included);
    [into_raw] forgets the handle, [from_raw] rebuilds it from the data offset *)
Theorem raw_pointer_effects :
  g_increment_strong_count = [E ManuallyDropNew; E FromRaw; E CloneValue] /\
  g_decrement_strong_count = [E DropFromRaw] /\
  g_into_raw = [E AsPtr; E Forget] /\
  g_from_raw = [E DataOffset; E FromPtr].
Proof. repeat split; reflexivity. Qed.

Print Assumptions raw_pointer_effects.
Print Assumptions try_unwrap_effects.
Print Assumptions make_mut_effects.
Print Assumptions weak_drop_effects.
Print Assumptions drop_unreachable_effects.
Print Assumptions drop_unreachable_with_adoptions_effects.
Print Assumptions drop_cycle_effects.
Print Assumptions release_links_effects.
