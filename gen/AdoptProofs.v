(** * adopt.rs as translated is adopt.rs as modelled (C08) and as annotated (C10).

    Re-checked on every run against gen/AdoptGen.v, which tools/rs2v.py
    regenerates from /repo/src/adopt.rs. *)
From Coq Require Import NArith List. Import ListNotations.
From CR Require Import Base Atomic Borrow.
From Gen Require Import AdoptLang AdoptGen.

(** the heap effect of the translated [adopt_unchecked] is the model's [adopt]:
    a Loopback record when the two handle objects are the same, else one
    Forward record in the owner and one Backward record in the target *)
Theorem adopt_translated h same a b :
  fst (run_prog a b g_adopt_unchecked same h) = adopt h same a b.
Proof.
  unfold run_prog, g_adopt_unchecked, adopt. destruct same; cbn.
  - destruct (links_insert h a (b, Loop)); reflexivity.
  - destruct (links_insert h a (b, Fwd)) as [h1|e]; cbn; [|reflexivity].
    destruct (links_insert h1 b (a, Bwd)); reflexivity.
Qed.

Theorem unadopt_translated h same a b :
  fst (run_prog a b g_unadopt same h) = unadopt h same a b.
Proof.
  unfold run_prog, g_unadopt, unadopt. destruct same; cbn.
  - destruct (links_remove h a (b, Loop) 1); reflexivity.
  - destruct (links_remove h a (b, Fwd) 1) as [h1|e]; cbn; [|reflexivity].
    destruct (links_remove h1 b (a, Bwd) 1); reflexivity.
Qed.

(** the borrow events of the translated functions are the sequences that
    Proofs/Borrow.v transcribed by hand (hence conflict free and balanced:
    [cfb_adopt_bev], also when both handles point to one allocation) *)
Theorem adopt_events_translated h same a b :
  snd (run_prog a b g_adopt_unchecked same h) = adopt_bev same a b.
Proof. unfold run_prog, g_adopt_unchecked, adopt_bev. destruct same; reflexivity. Qed.

Theorem unadopt_events_translated h same a b :
  snd (run_prog a b g_unadopt same h) = unadopt_bev same a b.
Proof. unfold run_prog, g_unadopt, unadopt_bev, adopt_bev. destruct same; reflexivity. Qed.

Corollary adopt_translated_never_conflicts h same a b :
  cfb (snd (run_prog a b g_adopt_unchecked same h)).
Proof. rewrite adopt_events_translated. apply cfb_adopt_bev. Qed.

Corollary unadopt_translated_never_conflicts h same a b :
  cfb (snd (run_prog a b g_unadopt same h)).
Proof. rewrite unadopt_events_translated. apply cfb_unadopt_bev. Qed.

Print Assumptions adopt_translated.
Print Assumptions unadopt_translated.
Print Assumptions adopt_events_translated.
Print Assumptions unadopt_events_translated.
Print Assumptions adopt_translated_never_conflicts.
Print Assumptions unadopt_translated_never_conflicts.
