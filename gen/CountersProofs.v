(** * The counter protocol of the model is the counter protocol of the source.

    [Gen.Counters] is regenerated from /repo/src/rc.rs ([trait RcInnerPtr]) by
    tools/rs2v.py on every run of ./check; this file is hand written, is
    re-checked against the regenerated definitions on every run, and proves
    that the hand-written model (Model/Base.v, Model/Atomic.v) computes, on
    the encoding [Cnt n |-> n], [Uninit |-> usize::MAX], exactly what the
    translated Rust methods compute: the same new counter values, an abort
    exactly where the Rust code calls [abort()], and the model's "underflow"
    fault exactly where the Rust subtraction would overflow.

    Range: the model's counters are unbounded; the correspondence is stated
    for counters that fit ([repr_ok]: strong < usize::MAX - 1, weak <
    usize::MAX), i.e. fewer than 2^64 - 2 handles. At the boundary the source
    aborts ("or would reach it", property C16) -- [inc_strong_at_the_limit]. *)
From Coq Require Import NArith Bool Lia List.
From CR Require Import Base Atomic.
From Gen Require Import Counters.
Local Open Scope N_scope.

Definition enc (s : scount) : N := match s with Cnt n => n | Uninit => MAXU end.
Definition cells_of (b : box) : cells := {| c_strong := enc (strong b); c_weak := weak b |}.
Definition repr_ok (b : box) : Prop :=
  match strong b with Cnt n => n < MAXU - 1 | Uninit => True end /\ weak b < MAXU.

Lemma MAXU_val : MAXU = 18446744073709551615. Proof. reflexivity. Qed.
Global Opaque MAXU.

Ltac run := unfold Counters.bind, ret, abort, get_strong, get_weak, set_strong, set_weak, add_chk, sub_chk; cbn [c_strong c_weak].

(** ** the translated methods, characterised *)

Lemma g_strong_spec c : g_strong c = Ret (c_strong c) c.
Proof. reflexivity. Qed.

Lemma g_weak_spec c : g_weak c = Ret (c_weak c) c.
Proof. reflexivity. Qed.

Lemma g_is_uninit_spec c : g_is_uninit c = Ret (c_strong c =? MAXU) c.
Proof. reflexivity. Qed.

Lemma g_is_dead_spec c : g_is_dead c = Ret ((c_strong c =? 0) || (c_strong c =? MAXU)) c.
Proof.
  unfold g_is_dead, g_is_uninit, g_strong. run. destruct (c_strong c =? 0); reflexivity.
Qed.

Lemma g_make_uninit_spec c : g_make_uninit c = Ret tt {| c_strong := MAXU; c_weak := c_weak c |}.
Proof. reflexivity. Qed.

(** for usize values (s <= MAXU) *)
Lemma g_inc_strong_spec s w : s <= MAXU ->
  g_inc_strong {| c_strong := s; c_weak := w |} =
  if (s =? 0) || (s =? MAXU) then Abort
  else if s + 1 =? MAXU then Abort
  else Ret tt {| c_strong := s + 1; c_weak := w |}.
Proof.
  intros Hs. unfold g_inc_strong, g_strong. run.
  destruct (s =? 0) eqn:E0; cbn [orb]; [reflexivity|].
  destruct (s =? MAXU) eqn:E1; [reflexivity|].
  apply N.eqb_neq in E1.
  destruct (N.leb_spec (s + 1) MAXU) as [H|H]; [|lia].
  destruct (s + 1 =? MAXU); reflexivity.
Qed.

Lemma g_dec_strong_spec s w :
  g_dec_strong {| c_strong := s; c_weak := w |} =
  if 1 <=? s then Ret tt {| c_strong := s - 1; c_weak := w |} else Overflow.
Proof. unfold g_dec_strong, g_strong. run. destruct (1 <=? s); reflexivity. Qed.

Lemma g_inc_weak_spec s w : w <= MAXU ->
  g_inc_weak {| c_strong := s; c_weak := w |} =
  if (w =? 0) || (w =? MAXU) then Abort else Ret tt {| c_strong := s; c_weak := w + 1 |}.
Proof.
  intros Hw. unfold g_inc_weak, g_weak. run.
  destruct (w =? 0) eqn:E0; cbn [orb]; [reflexivity|].
  destruct (w =? MAXU) eqn:E1; [reflexivity|].
  apply N.eqb_neq in E1.
  destruct (N.leb_spec (w + 1) MAXU) as [H|H]; [reflexivity|lia].
Qed.

Lemma g_dec_weak_spec s w :
  g_dec_weak {| c_strong := s; c_weak := w |} =
  if 1 <=? w then Ret tt {| c_strong := s; c_weak := w - 1 |} else Overflow.
Proof. unfold g_dec_weak, g_weak. run. destruct (1 <=? w); reflexivity. Qed.

(** ** the model's functions against the translated ones *)

Lemma enc_le s : match s with Cnt n => n < MAXU - 1 | Uninit => True end -> enc s <= MAXU.
Proof. destruct s as [n|]; cbn [enc]; intros H; [rewrite MAXU_val in *; lia|lia]. Qed.

(** [is_dead], [is_uninit] (Model/Base.v): what [Weak::upgrade], [Rc::drop]
    and [drop_cycle] consult *)
Theorem is_uninit_refines b : repr_ok b ->
  g_is_uninit (cells_of b) = Ret (is_uninit (strong b)) (cells_of b).
Proof.
  intros [Hs _]. rewrite g_is_uninit_spec. cbn [cells_of c_strong]. f_equal.
  destruct (strong b) as [n|]; cbn [enc is_uninit].
  - apply N.eqb_neq. rewrite MAXU_val in *. lia.
  - apply N.eqb_refl.
Qed.

Theorem is_dead_refines b : repr_ok b ->
  g_is_dead (cells_of b) = Ret (is_dead (strong b)) (cells_of b).
Proof.
  intros [Hs _]. rewrite g_is_dead_spec. cbn [cells_of c_strong]. f_equal.
  destruct (strong b) as [n|]; cbn [enc is_dead].
  - assert (n =? MAXU = false) as -> by (apply N.eqb_neq; rewrite MAXU_val in *; lia).
    apply orb_false_r.
  - rewrite N.eqb_refl. apply orb_true_r.
Qed.

(** [inc_strong] (Model/Atomic.v): [Rc::clone], [Weak::upgrade],
    [increment_strong_count]. Same new value; abort exactly where the source
    aborts (count 0, or the usize::MAX marker: property C16) *)
Theorem inc_strong_refines h o b : getb h o = Ok b -> repr_ok b ->
  match strong b with
  | Uninit => inc_strong h o = Bad HAbort /\ g_inc_strong (cells_of b) = Abort
  | Cnt n =>
      if n =? 0 then inc_strong h o = Bad HAbort /\ g_inc_strong (cells_of b) = Abort
      else inc_strong h o = Ok (setb h o (with_strong b (Cnt (n + 1)))) /\
           g_inc_strong (cells_of b) = Ret tt (cells_of (with_strong b (Cnt (n + 1))))
  end.
Proof.
  intros Hg [Hs Hw]. unfold inc_strong. rewrite Hg. cbn [Base.bind].
  unfold cells_of. pose proof (enc_le (strong b) Hs) as Hle.
  destruct (strong b) as [n|] eqn:E; cbn [enc] in *.
  - destruct (n =? 0) eqn:E0.
    + split; [reflexivity|]. rewrite g_inc_strong_spec by exact Hle. rewrite E0. reflexivity.
    + split; [reflexivity|]. rewrite g_inc_strong_spec by exact Hle. rewrite E0. cbn [orb].
      assert (n =? MAXU = false) as -> by (apply N.eqb_neq; rewrite MAXU_val in *; lia).
      assert (n + 1 =? MAXU = false) as -> by (apply N.eqb_neq; rewrite MAXU_val in *; lia).
      destruct b; reflexivity.
  - split; [reflexivity|]. rewrite g_inc_strong_spec by lia. rewrite N.eqb_refl, orb_true_r. reflexivity.
Qed.

(** at the limit the source refuses to create the marker value by counting up *)
Theorem inc_strong_at_the_limit w :
  g_inc_strong {| c_strong := MAXU - 1; c_weak := w |} = Abort.
Proof.
  rewrite g_inc_strong_spec by (rewrite MAXU_val; lia).
  assert (MAXU - 1 =? 0 = false) as -> by (apply N.eqb_neq; rewrite MAXU_val; lia).
  assert (MAXU - 1 =? MAXU = false) as -> by (apply N.eqb_neq; rewrite MAXU_val; lia).
  cbn [orb]. assert (MAXU - 1 + 1 =? MAXU = true) as -> by (apply N.eqb_eq; rewrite MAXU_val; lia).
  reflexivity.
Qed.

(** [inc_weak]: [Rc::downgrade], [Weak::clone] *)
Theorem inc_weak_refines h o b : getb h o = Ok b -> repr_ok b ->
  if weak b =? 0 then inc_weak h o = Bad HAbort /\ g_inc_weak (cells_of b) = Abort
  else inc_weak h o = Ok (setb h o (with_weak b (weak b + 1))) /\
       g_inc_weak (cells_of b) = Ret tt (cells_of (with_weak b (weak b + 1))).
Proof.
  intros Hg [Hs Hw]. unfold inc_weak. rewrite Hg. cbn [Base.bind]. unfold cells_of.
  rewrite g_inc_weak_spec by lia. cbn [c_weak].
  destruct (weak b =? 0) eqn:E0; cbn [orb]; [split; reflexivity|].
  assert (weak b =? MAXU = false) as -> by (apply N.eqb_neq; lia).
  split; [reflexivity|]. destruct b; reflexivity.
Qed.

(** [dec_weak] in [dec_weak_free] (the tail shared by [Weak::drop] and every
    teardown path): same new value; the model's underflow fault is the Rust
    subtraction overflow; the allocation is released exactly when the
    translated counter reaches 0 *)
Theorem dec_weak_refines h o b : getb h o = Ok b ->
  if weak b =? 0 then dec_weak_free h o = Bad (HFault FkUnderflow o) /\ g_dec_weak (cells_of b) = Overflow
  else exists b', dec_weak_free h o = Ok (setb h o b') /\
       g_dec_weak (cells_of b) = Ret tt (cells_of b') /\
       (freed b' = true <-> c_weak (cells_of b') = 0 \/ freed b = true).
Proof.
  intros Hg. unfold dec_weak_free. rewrite Hg. cbn [Base.bind]. unfold cells_of at 1 2.
  rewrite g_dec_weak_spec. cbn [c_weak c_strong].
  destruct (weak b =? 0) eqn:E0.
  - apply N.eqb_eq in E0. rewrite E0. split; reflexivity.
  - apply N.eqb_neq in E0. assert (1 <=? weak b = true) as -> by (apply N.leb_le; lia).
    destruct (weak b - 1 =? 0) eqn:E1.
    + exists (with_freed (with_weak b (weak b - 1)) true). split; [reflexivity|]. split.
      * destruct b; reflexivity.
      * apply N.eqb_eq in E1. destruct b; cbn in *. split; [intros _; left; exact E1|reflexivity].
    + exists (with_weak b (weak b - 1)). split; [reflexivity|]. split.
      * destruct b; reflexivity.
      * apply N.eqb_neq in E1. destruct b; cbn in *. split; [auto|intros [H|H]; [contradiction|exact H]].
Qed.

(** [dec_strong] as used by [Rc::drop] (Machine.drop_strong decrements a
    non-zero [Cnt]) and by phase one of [drop_cycle] ([bust_one]: [refcount.min(strong)]
    decrements of a [Cnt]) *)
Theorem dec_strong_refines b n : strong b = Cnt n -> n <> 0 ->
  g_dec_strong (cells_of b) = Ret tt (cells_of (with_strong b (Cnt (n - 1)))).
Proof.
  intros E Hn. unfold cells_of. rewrite E. cbn [enc]. rewrite g_dec_strong_spec.
  assert (1 <=? n = true) as -> by (apply N.leb_le; lia). destruct b; reflexivity.
Qed.

(** the model is STRICTER than the source in one place, on purpose: arithmetic
    on the marker. The source would turn usize::MAX into usize::MAX - 1 (a live
    looking count); the model reports a fault ([bust_one] on [Uninit]) *)
Theorem dec_strong_on_the_marker w :
  g_dec_strong {| c_strong := MAXU; c_weak := w |} = Ret tt {| c_strong := MAXU - 1; c_weak := w |}.
Proof.
  rewrite g_dec_strong_spec. assert (1 <=? MAXU = true) as -> by (apply N.leb_le; rewrite MAXU_val; lia).
  reflexivity.
Qed.

(** [make_uninit]: the marker the model calls [Uninit] *)
Theorem make_uninit_refines b :
  g_make_uninit (cells_of b) = Ret tt (cells_of (with_strong b Uninit)).
Proof. rewrite g_make_uninit_spec. destruct b; reflexivity. Qed.

Print Assumptions inc_strong_refines.
Print Assumptions inc_strong_at_the_limit.
Print Assumptions inc_weak_refines.
Print Assumptions dec_weak_refines.
Print Assumptions dec_strong_refines.
Print Assumptions dec_strong_on_the_marker.
Print Assumptions is_dead_refines.
Print Assumptions is_uninit_refines.
Print Assumptions make_uninit_refines.
