(** * Phase one of [drop_cycle] as translated is the model's [bust_one]
    (C01, C06: members are decremented by the count the trace attributed to
    the group, never below zero -- fix 3bbd100; C08: exactly the forward
    records into the group are removed). Re-checked on every run against
    gen/BustGen.v.

    [cycle.contains_key(link)]: the keys of the map returned by [cycle_refs]
    are Forward links (Forward entries are inserted as they are, Backward ones
    through [as_forward], Loopback ones are skipped), and [Link]'s equality
    compares pointer and kind; so a link is a key iff it is a Forward link
    whose target is a member: [link_in_cycle]. *)
From Coq Require Import NArith List Bool Lia. Import ListNotations.
From CR Require Import Base Atomic.
From Gen Require Import CycleLang BustGen.
Local Open Scope N_scope.

Definition link_in_cycle (keys : list oid) (l : link) : bool :=
  match snd l with Fwd => memb (fst l) keys | _ => false end.

(** the entries [extract_if] removes from a member's table *)
Theorem bust_table_translated keys t :
  bust_table t keys =
  filter (fun e => negb (g_extract (snd (fst e)) (link_in_cycle keys (fst e)))) t.
Proof.
  induction t as [|[[x k] c] t IH]; [reflexivity|].
  cbn [bust_table filter fst snd]. unfold g_extract, link_in_cycle. cbn [fst snd].
  destruct k; cbn [existsb kind_is orb negb].
  - destruct (memb x keys); cbn [negb]; rewrite IH; reflexivity.
  - rewrite IH. reflexivity.
  - rewrite IH. reflexivity.
Qed.

(** how often the member's count is decremented *)
Theorem dec_times_translated refcount n : g_dec_times refcount n = N.min refcount n.
Proof. reflexivity. Qed.

(** together: [bust_one] *)
Theorem bust_one_translated h keys k refcount b t n :
  getb h k = Ok b -> links b = Some t -> strong b = Cnt n ->
  bust_one h keys k refcount =
  Ok (setb h k (with_strong
        (with_links b (Some (filter (fun e => negb (g_extract (snd (fst e)) (link_in_cycle keys (fst e)))) t)))
        (Cnt (n - g_dec_times refcount n)))).
Proof.
  intros G L S. unfold bust_one. rewrite G. cbn [Base.bind]. rewrite L.
  rewrite <- bust_table_translated, dec_times_translated.
  assert (strong (with_links b (Some (bust_table t keys))) = Cnt n) as -> by (destruct b; exact S).
  reflexivity.
Qed.

Print Assumptions bust_table_translated.
Print Assumptions dec_times_translated.
Print Assumptions bust_one_translated.
