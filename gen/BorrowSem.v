(** * The borrow events of drop.rs, derived from the GENERATED effect trees.

    coq/Proofs/Borrow.v transcribes BY HAND, for each function of drop.rs that
    goes through the [RefCell] API, the sequence of borrow events ([bev]) the
    Rust code performs, and proves the sequences conflict free ([cfb]).
    gen/EffectsGen.v holds, for the same functions, the tree of effect markers
    GENERATED from the Rust source, among them [Borrow] ([.borrow()]) and
    [BorrowMut] ([.borrow_mut()]).  The tree says WHERE a borrow is taken, not
    of which table nor when the guard is dropped.  This file fixes a reading
    of the trees that supplies both by the scoping rules of Rust ([blk] below:
    [seq] on statement lists, [node] on loops and branches),
    computes the events of the generated trees with it, and proves them EQUAL
    to the hand transcriptions.  The [cfb] theorems of Borrow.v are then
    theorems about sequences computed from the source's trees.

    ** The guard-scope reading

    The reading is a partial function ([None] = "this shape is given no
    meaning", never "no event").  It is parametrised by
    - [this]: the object the function is called on;
    - [its]: what the function's [for] loop iterates over, in order: the item
      ([fst (fst e)] of a table entry [e], or a member key of drop_cycle) and,
      for a table entry, its kind (needed only by a [match item.kind()]);
    - [w : who]: the receiver of the [borrow_mut()] calls INSIDE the loop
      body.  The marker does not record the receiver; in drop.rs it is
      [item.as_ref().links()] / the dereferenced [rcbox.links()] of the current member
      ([WItem]: release_links, drop_unreachable_with_adoptions, drop_cycle) or
      the outer [links] = the table of [this] itself ([WThis]: the plain
      drop_unreachable).  Outside a loop body the receiver is always [this].

    Rules, on a statement list (a Rust block), [tgt] being the receiver:
    R1 [Loop hdr body] at function level = [for .. in <hdr> { body }].  Each
       [Borrow] / [BorrowMut] marker of the HEADER is a guard on the table of
       [this] created by the iterator expression ([links.borrow().iter()]):
       a temporary of the [for] expression, which lives for the WHOLE loop and
       is released after the last iteration (several: released in reverse
       order).  The body is read once per element of [its], as a block of its
       own.
    R2 [E BorrowMut] followed by [E Clear] or [E ExtractIf] = a guard released
       right after that marker:
       [links.borrow_mut().clear();] is a temporary dropped at the end of the
       statement; in phase one of drop_cycle
       [{ let mut links = ..borrow_mut(); links.extract_if(..)...sum() }] is a
       block expression that ends with the [extract_if] chain, so the guard is
       released BEFORE the decrement loop that follows.
    R3 any other [E BorrowMut] = [let mut links = ...borrow_mut();]: a guard
       that lives to the END OF THE ENCLOSING BLOCK (the iteration, or the
       match arm): the rest of the block runs inside it.
    R4 [Branch [E TestSelf] [E Continue]] =
       [if ptr::eq(this.inner(), item.as_ptr()) { continue; }]: when the item
       is [this] the rest of the iteration is skipped.
    R5 [Branch [] arms], every arm of the form [Branch [] b] = [match
       item.kind() { .. }]: the translator keeps the arms in source order and
       drops empty ones, and the marker does not record the pattern; the arms
       get their kinds BY POSITION: 0 = Forward, 1 = Loopback, 2 = Backward
       (the order in drop.rs; an absent arm has no event).  Each arm is a
       block.
    R6 markers and sub-trees that touch no [RefCell] and do not leave the
       block ([quiet]: no Borrow, BorrowMut, Continue, Return, no user code)
       have no event; a nested loop must be quiet (header and body).
    Everything else is [None]. *)
From CR Require Import Base Borrow.
From Gen Require Import EffectsLang EffectsGen.

(** ** Small option-monad helpers *)
Definition obind {A B} (a : option A) (f : A -> option B) : option B :=
  match a with Some x => f x | None => None end.

Fixpoint ocat (l : list (option (list bev))) : option (list bev) :=
  match l with
  | [] => Some []
  | a :: r => obind a (fun x => obind (ocat r) (fun y => Some (x ++ y)))
  end.

(** ** Quiet markers and trees (R6) *)
Definition quiet_eff (e : eff) : bool :=
  match e with
  | Borrow | BorrowMut                       (* RefCell *)
  | Continue | Return | ReturnOk | ReturnErr (* leave the block *)
  | DropValue | DropInners | CloneValue | AssignDropOld | DropFromRaw
  | ReleaseLinks                             (* user code / calls that borrow *)
      => false
  | _ => true
  end.

Fixpoint quiet_node (n : enode) : bool :=
  match n with
  | E e => quiet_eff e
  | EffectsLang.Loop h b => forallb quiet_node h && forallb quiet_node b
  | Branch c b => forallb quiet_node c && forallb quiet_node b
  end.
Definition quiet (l : list enode) : bool := forallb quiet_node l.

(** [Clear] / [ExtractIf]: the markers that end a statement-scoped guard (R2) *)
Definition ends_guard (e : eff) : bool :=
  match e with Clear | ExtractIf => true | _ => false end.

(** position of a kind among the arms of [match item.kind()] (R5) *)
Definition kind_ix (k : kind) : nat :=
  match k with Fwd => 0 | Base.Loop => 1 | Bwd => 2 end.

Inductive who := WThis | WItem.

(** what a loop iterates over: the item and (for a table entry) its kind *)
Definition items := list (oid * option kind).
Definition of_table (t : table) : items :=
  map (fun e => (fst (fst e), Some (snd (fst e)))) t.
Definition of_keys (keys : list oid) : items := map (fun k => (k, None)) keys.

Section Reading.
Variable this : oid.
Variable w : who.

Definition recv (item : oid) : oid := match w with WThis => this | WItem => item end.

(** R1: guards of a loop header, around the events [inner] of the iterations *)
Fixpoint hdr_ev (hdr : list enode) (inner : list bev) : option (list bev) :=
  match hdr with
  | [] => Some inner
  | E Borrow :: h =>
      obind (hdr_ev h inner) (fun x => Some ([BShr this] ++ x ++ [BRelShr this]))
  | E BorrowMut :: h =>
      obind (hdr_ev h inner) (fun x => Some ([BMut this] ++ x ++ [BRelMut this]))
  | _ => None
  end.

(** The events of the block [l].  [top] = [Some its] at function level,
    [None] inside an iteration; [tgt] = receiver of the block's [borrow_mut];
    [item], [ok] = the current item and its kind.
    [enode] is a nested inductive: the recursion is [node] on one tree, with
    the block-level function [seq] (structural on the list) taking the reading
    of compound nodes as an argument. *)
Section Seq.
Variable nd : enode -> option items -> oid -> oid -> option kind -> option (list bev).

Fixpoint seq (top : option items) (tgt item : oid) (ok : option kind)
             (l : list enode) {struct l} : option (list bev) :=
  match l with
  | [] => Some []
  | E e :: r =>
      match e with
      | BorrowMut =>
          match r with
          | E e' :: r' =>
              if ends_guard e'
              then (* R2 *)
                obind (seq top tgt item ok r')
                      (fun x => Some ([BMut tgt; BRelMut tgt] ++ x))
              else (* R3 *)
                obind (seq top tgt item ok r)
                      (fun x => Some ([BMut tgt] ++ x ++ [BRelMut tgt]))
          | _ => (* R3 *)
              obind (seq top tgt item ok r)
                    (fun x => Some ([BMut tgt] ++ x ++ [BRelMut tgt]))
          end
      | _ => if quiet_eff e then seq top tgt item ok r else None   (* R6 *)
      end
  | Branch [E TestSelf] [E Continue] :: r =>                          (* R4 *)
      match top with
      | None => if Nat.eqb item this then Some [] else seq top tgt item ok r
      | Some _ => None
      end
  | n :: r =>                                              (* R1, R5, R6 *)
      obind (nd n top tgt item ok)
            (fun x => obind (seq top tgt item ok r) (fun y => Some (x ++ y)))
  end.
End Seq.

Fixpoint node (n : enode) (top : option items) (tgt item : oid) (ok : option kind)
              {struct n} : option (list bev) :=
  match n with
  | E _ => None
  | EffectsLang.Loop hdr body =>
      match top with
      | Some its =>                                                   (* R1 *)
          obind (ocat (map (fun it => seq node None (recv (fst it)) (fst it) (snd it) body) its))
                (hdr_ev hdr)
      | None =>                                                       (* R6 *)
          if quiet hdr && quiet body then Some [] else None
      end
  | Branch [] arms =>                                                 (* R5 *)
      match ok with
      | None => None
      | Some k =>
          (fix sel (i : nat) (a : list enode) {struct a} : option (list bev) :=
             match a with
             | [] => Some []
             | Branch [] b :: a' =>
                 match i with
                 | O => seq node top tgt item ok b
                 | S i' => sel i' a'
                 end
             | _ => None
             end) (kind_ix k) arms
      end
  | Branch c b => if quiet c && quiet b then Some [] else None       (* R6 *)
  end.

Definition blk := seq node.

(** the events of a function body (or of a prefix of it) *)
Definition fn_bev (its : items) (l : list enode) : option (list bev) :=
  blk (Some its) this this None l.

End Reading.

(** ** The generated trees read this way = the hand transcriptions *)

(** R1 as an equation *)
Lemma blk_loop this w its tgt item ok hdr body r :
  blk this w (Some its) tgt item ok (EffectsLang.Loop hdr body :: r) =
  obind (obind (ocat (map (fun it => blk this w None (recv this w (fst it)) (fst it) (snd it) body)
                          its))
               (hdr_ev this hdr))
        (fun x => obind (blk this w (Some its) tgt item ok r) (fun y => Some (x ++ y))).
Proof. reflexivity. Qed.

(** the body of the purge loops, as generated *)
Definition purge_body : list enode :=
  [Branch [E TestSelf] [E Continue]; E BorrowMut; E Remove; E Remove].

Lemma purge_iter this t :
  ocat (map (fun it => blk this WItem None (recv this WItem (fst it)) (fst it) (snd it) purge_body)
            (of_table t))
  = Some (purge_bev this t).
Proof.
  induction t as [|[[x k] n] t IH]; [reflexivity|].
  change (of_table (((x, k), n) :: t)) with ((x, Some k) :: of_table t).
  rewrite map_cons. cbn [ocat]. rewrite IH. cbn [purge_bev fst snd].
  unfold purge_body. cbn. destruct (Nat.eqb x this); reflexivity.
Qed.

(** 1. release_links: the loop, and the whole function (the rest,
    [MoveLinks; DropLinks], does not go through the [RefCell]) *)
Theorem release_links_loop_bev this t :
  fn_bev this WItem (of_table t) (firstn 1 g_release_links)
  = Some (release_links_bev this t).
Proof.
  change (firstn 1 g_release_links) with [EffectsLang.Loop [E Borrow] purge_body].
  unfold fn_bev. rewrite blk_loop, purge_iter. cbn. rewrite app_nil_r. reflexivity.
Qed.

Theorem release_links_fn_bev this t :
  fn_bev this WItem (of_table t) g_release_links = Some (release_links_bev this t).
Proof.
  change g_release_links with [EffectsLang.Loop [E Borrow] purge_body; E MoveLinks; E DropLinks].
  unfold fn_bev. rewrite blk_loop, purge_iter. cbn. rewrite app_nil_r. reflexivity.
Qed.

(** 2. drop_unreachable_with_adoptions, up to and including
    [links.borrow_mut().clear()] (what follows is counters, [mem::replace],
    and the value's destructor) *)
Theorem drop_unreachable_with_adoptions_bev this t :
  fn_bev this WItem (of_table t) (firstn 3 g_drop_unreachable_with_adoptions)
  = Some (drop_unreachable_bev this t).
Proof.
  change (firstn 3 g_drop_unreachable_with_adoptions)
    with [EffectsLang.Loop [E Borrow] purge_body; E BorrowMut; E Clear].
  unfold fn_bev. rewrite blk_loop, purge_iter. cbn.
  unfold drop_unreachable_bev, release_links_bev. cbn [app].
  rewrite <- !app_assoc. reflexivity.
Qed.

(** 3. the plain drop_unreachable: the [borrow_mut] of the arms is on the
    outer [links], the table of [this] ([WThis]) *)
Definition plain_body : list enode :=
  [Branch [] [Branch [] [E BorrowMut; E Remove; E Remove]; Branch [] [E BorrowMut; E Remove]]].

Lemma plain_iter this t :
  ocat (map (fun it => blk this WThis None (recv this WThis (fst it)) (fst it) (snd it) plain_body)
            (of_table t))
  = Some (concat (map (plain_body_bev this) t)).
Proof.
  induction t as [|[[x k] n] t IH]; [reflexivity|].
  change (of_table (((x, k), n) :: t)) with ((x, Some k) :: of_table t).
  rewrite !map_cons. cbn [ocat concat]. rewrite IH.
  unfold plain_body, plain_body_bev. destruct k; reflexivity.
Qed.

Theorem drop_unreachable_plain_loop_bev this t :
  fn_bev this WThis (of_table t) (firstn 1 g_drop_unreachable)
  = Some (drop_unreachable_plain_bev this t).
Proof.
  change (firstn 1 g_drop_unreachable) with [EffectsLang.Loop [E Borrow] plain_body].
  unfold fn_bev. rewrite blk_loop, plain_iter. cbn. rewrite app_nil_r. reflexivity.
Qed.

(** 4. drop_cycle, phase one (the first loop), over the member list [keys];
    [this] plays no role *)
Definition bust_body : list enode :=
  [E BorrowMut; E ExtractIf; EffectsLang.Loop [] [E DecStrong]].

Lemma bust_iter this keys :
  ocat (map (fun it => blk this WItem None (recv this WItem (fst it)) (fst it) (snd it) bust_body)
            (of_keys keys))
  = Some (bust_bev keys).
Proof.
  unfold bust_bev. induction keys as [|k keys IH]; [reflexivity|].
  change (of_keys (k :: keys)) with ((k, @None kind) :: of_keys keys).
  rewrite !map_cons. cbn [ocat concat]. rewrite IH. reflexivity.
Qed.

Theorem drop_cycle_phase_one_bev this keys :
  fn_bev this WItem (of_keys keys) (firstn 1 g_drop_cycle) = Some (bust_bev keys).
Proof.
  change (firstn 1 g_drop_cycle) with [EffectsLang.Loop [] bust_body].
  unfold fn_bev. rewrite blk_loop, bust_iter. cbn. rewrite app_nil_r. reflexivity.
Qed.

(** ** Conflict freedom of the DERIVED sequences (Borrow.v's theorems through
    the equalities) *)
Corollary cfb_release_links_derived this t l :
  fn_bev this WItem (of_table t) (firstn 1 g_release_links) = Some l -> cfb l.
Proof.
  rewrite release_links_loop_bev. intros H. injection H as <-. apply cfb_release_links_bev.
Qed.

Corollary cfb_release_links_fn_derived this t l :
  fn_bev this WItem (of_table t) g_release_links = Some l -> cfb l.
Proof.
  rewrite release_links_fn_bev. intros H. injection H as <-. apply cfb_release_links_bev.
Qed.

Corollary cfb_drop_unreachable_with_adoptions_derived this t l :
  fn_bev this WItem (of_table t) (firstn 3 g_drop_unreachable_with_adoptions) = Some l -> cfb l.
Proof.
  rewrite drop_unreachable_with_adoptions_bev. intros H. injection H as <-.
  apply cfb_drop_unreachable_bev.
Qed.

(** only on the empty table, as in Borrow.v: with a Forward or Loopback entry
    the derived sequence panics ([drop_unreachable_plain_panics]) *)
Corollary cfb_drop_unreachable_plain_derived this l :
  fn_bev this WThis (of_table []) (firstn 1 g_drop_unreachable) = Some l -> cfb l.
Proof.
  rewrite drop_unreachable_plain_loop_bev. intros H. injection H as <-.
  apply cfb_drop_unreachable_plain_bev.
Qed.

Corollary drop_unreachable_plain_derived_panics this x k n t l :
  k <> Bwd ->
  fn_bev this WThis (of_table (((x, k), n) :: t)) (firstn 1 g_drop_unreachable) = Some l ->
  breplay quiescent0 l = None.
Proof.
  intros Hk. rewrite drop_unreachable_plain_loop_bev. intros H. injection H as <-.
  apply drop_unreachable_plain_panics. exact Hk.
Qed.

Corollary cfb_drop_cycle_phase_one_derived this keys l :
  fn_bev this WItem (of_keys keys) (firstn 1 g_drop_cycle) = Some l -> cfb l.
Proof.
  rewrite drop_cycle_phase_one_bev. intros H. injection H as <-. apply cfb_bust_bev.
Qed.

(** ** The reading has teeth *)

(** the receiver matters: the purge loop read with the body's [borrow_mut] on
    [this] (as in the plain function) panics on any entry not naming [this] *)
Example purge_on_this_panics :
  obind (fn_bev 0 WThis (of_table [((1, Fwd), 1%N)]) (firstn 1 g_release_links))
        (breplay quiescent0) = None.
Proof. reflexivity. Qed.

(** shapes outside the rules are refused, not read as "no event" *)
Example unread_shape : fn_bev 0 WItem [] g_try_unwrap = None.
Proof. reflexivity. Qed.

Print Assumptions release_links_loop_bev.
Print Assumptions release_links_fn_bev.
Print Assumptions drop_unreachable_with_adoptions_bev.
Print Assumptions drop_unreachable_plain_loop_bev.
Print Assumptions drop_cycle_phase_one_bev.
Print Assumptions cfb_release_links_derived.
Print Assumptions cfb_release_links_fn_derived.
Print Assumptions cfb_drop_unreachable_with_adoptions_derived.
Print Assumptions cfb_drop_unreachable_plain_derived.
Print Assumptions drop_unreachable_plain_derived_panics.
Print Assumptions cfb_drop_cycle_phase_one_derived.
