(** * The marker hypothesis of [orphaned_cycle_skel_translated] follows from
    the machine invariant.

    Every key of the map returned by [cycle_refs h o] is the target of a
    Forward record or the owner named by a Backward record in the table of a
    visited object ([cycle_refs_spec]); the record has a positive count
    ([heap_wf]), so the box it names exists and is live ([names_live]); a live
    box has [strong = Cnt n] with [0 < n], never [Uninit].  Hence
    [owned_below_marker M h own] holds vacuously, for every [M].

    Only the two table clauses [ti_wf] and [ti_names] of [Inv] are used; no
    [has_table] hypothesis is needed (when [cycle_refs] faults there is nothing
    to show). *)
From Coq Require Import NArith List Bool Lia. Import ListNotations.
From CR Require Import Base Atomic Machine LinksFacts HeapFacts TraceFacts Tokens InvDef.
From Gen Require Import CycleLang CycleGen CycleProofs CycleSkelLang CycleSkelProofs.
Local Open Scope N_scope.

(** ** a record seen by the trace has a positive count *)
Lemma linked_lget h x y : heap_wf h -> linked h x y ->
  exists kd, 0 < lget h x (y, kd).
Proof.
  intros Hwf Hl. unfold linked, tbl_of in Hl. unfold lget.
  destruct (nth_error h x) as [b|] eqn:E; [|destruct Hl as [[]|[]]].
  pose proof (Hwf x b E) as Hb. unfold box_wf in Hb.
  destruct Hl as [Hl|Hl].
  - exists Fwd. apply tbl_get_in_pos; [exact Hb|]. apply fwd_targets_keys. exact Hl.
  - exists Bwd. apply tbl_get_in_pos; [exact Hb|]. apply bwd_targets_keys. exact Hl.
Qed.

(** ** every key of the returned map is a live box *)
Theorem cycle_refs_keys_live h o own pops visits :
  heap_wf h -> names_live h ->
  cycle_refs h o = Ok (own, pops, visits) ->
  forall k c, In (k, c) own -> exists b, nth_error h k = Some b /\ live b = true.
Proof.
  intros Hwf Hn C k c I.
  destruct (cycle_refs_spec h o own pops visits C) as (R & _ & _ & _ & Hk & _).
  assert (In k (map fst own)) as Ik by (apply in_map_iff; exists (k, c); auto).
  apply Hk in Ik as (x & _ & Hl).
  destruct (linked_lget h x k Hwf Hl) as (kd & Hp).
  exact (Hn x k kd Hp).
Qed.

Lemma live_not_uninit b : live b = true -> strong b <> Uninit.
Proof. unfold live. destruct (strong b); [discriminate|]. discriminate. Qed.

Theorem owned_below_marker_of_tbl h o own pops visits M :
  heap_wf h -> names_live h ->
  cycle_refs h o = Ok (own, pops, visits) -> owned_below_marker M h own.
Proof.
  intros Hwf Hn C k c b I G S. exfalso.
  destruct (cycle_refs_keys_live h o own pops visits Hwf Hn C k c I) as (b' & Eb & Lb).
  apply getb_ok in G as [G _]. assert (b' = b) as -> by congruence.
  exact (live_not_uninit b Lb S).
Qed.

Theorem orphaned_cycle_skel_translated_tbl h o M :
  heap_wf h -> names_live h ->
  run_orph M (trace_fuel h) g_orphaned_skel g_cycle_refs_skel g_entry_body g_external h o
  = Some (orphaned_cycle h o).
Proof.
  intros Hwf Hn. apply orphaned_cycle_skel_translated.
  intros own pops visits C. eapply owned_below_marker_of_tbl; eauto.
Qed.

(** ** on the states of the machine *)
Theorem owned_below_marker_of_inv s k o own pops visits M :
  Inv s k -> cycle_refs (heap_of s) o = Ok (own, pops, visits) ->
  owned_below_marker M (heap_of s) own.
Proof.
  intros HI. apply owned_below_marker_of_tbl.
  - exact (ti_wf _ (inv_tbl _ _ HI)).
  - exact (ti_names _ (inv_tbl _ _ HI)).
Qed.

Theorem orphaned_cycle_skel_translated_inv s k o M :
  Inv s k ->
  run_orph M (trace_fuel (heap_of s)) g_orphaned_skel g_cycle_refs_skel g_entry_body g_external
    (heap_of s) o
  = Some (orphaned_cycle (heap_of s) o).
Proof.
  intros HI. apply orphaned_cycle_skel_translated_tbl.
  - exact (ti_wf _ (inv_tbl _ _ HI)).
  - exact (ti_names _ (inv_tbl _ _ HI)).
Qed.

(** ** the heap the trace of [drop_strong] actually runs on: the dropped
    object's count has just been decremented, and is still positive *)
Section Decremented.
  Variables (h : heap) (o : oid) (b : box) (n : N).
  Hypothesis G : getb h o = Ok b.
  Hypothesis S : strong b = Cnt n.
  Hypothesis Hn : 1 < n.

  Let h1 : heap := setb h o (with_strong b (Cnt (n - 1))).

  (** same table and same liveness, box by box *)
  Lemma dec_nth x bx1 : nth_error h1 x = Some bx1 ->
    exists bx, nth_error h x = Some bx /\ btable bx1 = btable bx /\ live bx1 = live bx.
  Proof.
    unfold h1, setb. rewrite nth_error_upd.
    pose proof (getb_lt _ _ _ G) as Hlt. apply getb_ok in G as [Gn _].
    destruct (Nat.eqb_spec o x) as [<-|Hne].
    - apply Nat.ltb_lt in Hlt. rewrite Hlt. intros H; injection H as <-.
      exists b. split; [exact Gn|]. split; [reflexivity|].
      unfold live; cbn [with_strong strong]. rewrite S.
      destruct (N.ltb_spec 0 (n - 1)), (N.ltb_spec 0 n); try reflexivity; lia.
    - intros H. exists bx1. auto.
  Qed.

  Lemma dec_nth_rev x bx : nth_error h x = Some bx ->
    exists bx1, nth_error h1 x = Some bx1 /\ btable bx1 = btable bx /\ live bx1 = live bx.
  Proof.
    intros E. destruct (nth_error h1 x) as [bx1|] eqn:E1.
    - destruct (dec_nth x bx1 E1) as (bx' & E' & Ht & Hl).
      assert (bx' = bx) as -> by congruence. exists bx1. auto.
    - exfalso. apply nth_error_None in E1. unfold h1, setb in E1. rewrite upd_length in E1.
      assert (nth_error h x <> None) as Hx by congruence. apply nth_error_Some in Hx. lia.
  Qed.

  Lemma dec_lget a l : lget h1 a l = lget h a l.
  Proof.
    unfold lget. destruct (nth_error h1 a) as [ba1|] eqn:E1.
    - destruct (dec_nth a ba1 E1) as (ba & -> & -> & _). reflexivity.
    - destruct (nth_error h a) as [ba|] eqn:E; [|reflexivity].
      destruct (dec_nth_rev a ba E) as (ba1 & E1' & _). congruence.
  Qed.

  Lemma dec_heap_wf : heap_wf h -> heap_wf h1.
  Proof.
    intros Hwf x bx1 E1. destruct (dec_nth x bx1 E1) as (bx & E & Ht & _).
    unfold box_wf. rewrite Ht. exact (Hwf x bx E).
  Qed.

  Lemma dec_names_live : names_live h -> names_live h1.
  Proof.
    intros Hnl a x kd Hp. rewrite dec_lget in Hp.
    destruct (Hnl a x kd Hp) as (bx & E & Lx).
    destruct (dec_nth_rev x bx E) as (bx1 & E1 & _ & Hl).
    exists bx1. split; [exact E1|]. rewrite Hl. exact Lx.
  Qed.

  Theorem owned_below_marker_dec own pops visits M a :
    heap_wf h -> names_live h ->
    cycle_refs h1 a = Ok (own, pops, visits) -> owned_below_marker M h1 own.
  Proof.
    intros Hwf Hnl. apply owned_below_marker_of_tbl;
      [apply dec_heap_wf; exact Hwf | apply dec_names_live; exact Hnl].
  Qed.

  Theorem orphaned_cycle_skel_translated_dec M a :
    heap_wf h -> names_live h ->
    run_orph M (trace_fuel h1) g_orphaned_skel g_cycle_refs_skel g_entry_body g_external h1 a
    = Some (orphaned_cycle h1 a).
  Proof.
    intros Hwf Hnl. apply orphaned_cycle_skel_translated_tbl;
      [apply dec_heap_wf; exact Hwf | apply dec_names_live; exact Hnl].
  Qed.
End Decremented.

(** the same, from [Inv] of the state before the decrement *)
Theorem owned_below_marker_of_inv_dec s k o b n a own pops visits M :
  Inv s k -> getb (heap_of s) o = Ok b -> strong b = Cnt n -> 1 < n ->
  let h1 := setb (heap_of s) o (with_strong b (Cnt (n - 1))) in
  cycle_refs h1 a = Ok (own, pops, visits) -> owned_below_marker M h1 own.
Proof.
  intros HI G S Hn h1. apply (owned_below_marker_dec (heap_of s) o b n G S Hn).
  - exact (ti_wf _ (inv_tbl _ _ HI)).
  - exact (ti_names _ (inv_tbl _ _ HI)).
Qed.

Theorem orphaned_cycle_skel_translated_inv_dec s k o b n a M :
  Inv s k -> getb (heap_of s) o = Ok b -> strong b = Cnt n -> 1 < n ->
  let h1 := setb (heap_of s) o (with_strong b (Cnt (n - 1))) in
  run_orph M (trace_fuel h1) g_orphaned_skel g_cycle_refs_skel g_entry_body g_external h1 a
  = Some (orphaned_cycle h1 a).
Proof.
  intros HI G S Hn h1. apply (orphaned_cycle_skel_translated_dec (heap_of s) o b n G S Hn).
  - exact (ti_wf _ (inv_tbl _ _ HI)).
  - exact (ti_names _ (inv_tbl _ _ HI)).
Qed.

Print Assumptions owned_below_marker_of_inv.
Print Assumptions orphaned_cycle_skel_translated_inv.
Print Assumptions owned_below_marker_of_inv_dec.
Print Assumptions orphaned_cycle_skel_translated_inv_dec.
