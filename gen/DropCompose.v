(** * [Rc::drop] end to end: the generated dispatch, with each call running the
    GENERATED TREE of its callee, is the model's [drop_strong] (hand written).

    gen/DropLang.v gives the calls of [g_rc_drop] the meaning of the model's
    own functions by definition; gen/EffectsSem.v shows that the generated
    trees of the callees compute those functions under hypotheses on the state
    at the call. Here the two are composed: the dispatch is re-run with a
    argument for the meaning of calls, the argument is instantiated with the
    interpreter of EffectsSem on the generated trees, and the hypotheses of
    the EffectsSem theorems are discharged from the tests the dispatch itself
    performs before each call. *)
From Coq Require Import NArith List Bool Lia. Import ListNotations.
From CR Require Import Base Atomic Machine.
From Gen Require Import EffectsLang EffectsGen EffectsProofs EffectsSem DropLang DropGen DropProofs.
Local Open Scope N_scope.

(** ** Structural equality of effect trees (to recognise the continuation) *)
Scheme Equality for eff.

Definition list_eqb {A} (eqb : A -> A -> bool) : list A -> list A -> bool :=
  fix go (l1 l2 : list A) : bool :=
    match l1, l2 with
    | [], [] => true
    | x :: r1, y :: r2 => eqb x y && go r1 r2
    | _, _ => false
    end.

Fixpoint enode_eqb (a b : enode) {struct a} : bool :=
  match a, b with
  | E x, E y => eff_beq x y
  | EffectsLang.Loop h1 b1, EffectsLang.Loop h2 b2 => list_eqb enode_eqb h1 h2 && list_eqb enode_eqb b1 b2
  | Branch c1 b1, Branch c2 b2 => list_eqb enode_eqb c1 c2 && list_eqb enode_eqb b1 b2
  | _, _ => false
  end.

Definition tree_eqb : list enode -> list enode -> bool := list_eqb enode_eqb.

Lemma enode_eqb_sound : forall a b, enode_eqb a b = true -> a = b.
Proof.
  fix IH 1.
  intros [x|h1 b1|c1 b1] [y|h2 b2|c2 b2]; simpl; try discriminate.
  - intros H. apply internal_eff_dec_bl in H. now subst.
  - intros H. apply andb_prop in H as [H1 H2]. f_equal.
    + revert h2 H1. induction h1 as [|x r IHr]; intros [|y r2]; simpl; try discriminate; [reflexivity|].
      intros H. apply andb_prop in H as [Hx Hr]. f_equal; [apply IH, Hx|apply IHr, Hr].
    + revert b2 H2. induction b1 as [|x r IHr]; intros [|y r2]; simpl; try discriminate; [reflexivity|].
      intros H. apply andb_prop in H as [Hx Hr]. f_equal; [apply IH, Hx|apply IHr, Hr].
  - intros H. apply andb_prop in H as [H1 H2]. f_equal.
    + revert c2 H1. induction c1 as [|x r IHr]; intros [|y r2]; simpl; try discriminate; [reflexivity|].
      intros H. apply andb_prop in H as [Hx Hr]. f_equal; [apply IH, Hx|apply IHr, Hr].
    + revert b2 H2. induction b1 as [|x r IHr]; intros [|y r2]; simpl; try discriminate; [reflexivity|].
      intros H. apply andb_prop in H as [Hx Hr]. f_equal; [apply IH, Hx|apply IHr, Hr].
Qed.

Lemma tree_eqb_sound l1 l2 : tree_eqb l1 l2 = true -> l1 = l2.
Proof.
  revert l2. induction l1 as [|x r IHr]; intros [|y r2]; simpl; try discriminate; [reflexivity|].
  intros H. apply andb_prop in H as [Hx Hr]. f_equal; [apply enode_eqb_sound, Hx|apply IHr, Hr].
Qed.

(** ** The dispatch interpreter of DropLang, with the meaning of calls as an argument *)
Section RunWith.
Variable o : oid.
Variable call : dcall -> dst -> R dst.

Fixpoint run_dstmt_with (st : dstmt) (d : dst) : R dst :=
  if d_done d then Ok d else
  match st with
  | DDecStrong => dec_strong_cmd o d
  | DCall f => call f d
  | DReturn => Ok {| d_state := d_state d; d_frames := d_frames d; d_cyc := d_cyc d; d_done := true |}
  | DIf c body =>
      let fix go (l : list dstmt) (d : dst) : R dst :=
        match l with
        | [] => Ok d
        | s :: l' => let* d1 := run_dstmt_with s d in go l' d1
        end in
      let* r := DropLang.eval_cond o c d in
      if fst r then go body (snd r) else Ok (snd r)
  end.

Fixpoint run_dstmts_with (l : list dstmt) (d : dst) : R dst :=
  match l with
  | [] => Ok d
  | s :: l' => let* d1 := run_dstmt_with s d in run_dstmts_with l' d1
  end.

Definition run_drop_with (p : list dstmt) (s : state) : R (state * list frame) :=
  let* d := run_dstmts_with p {| d_state := s; d_frames := []; d_cyc := None; d_done := false |} in
  Ok (d_state d, d_frames d).
End RunWith.

(** instance 1: the calls mean the model's functions = DropLang's [run_drop], for every program *)
Lemma run_drop_with_model pri o : run_drop_with o (run_call pri o) = run_drop pri o.
Proof. reflexivity. Qed.

(** ** instance 2: the calls run the generated trees of the callees

    [stk] is the answer given when the interpreter of the trees does not reach
    user code in the expected shape ([XStuck], [XDone], [XCont], a wrong
    continuation, locals not as the frames expect). The end-to-end theorem
    holds for EVERY [stk]: so that answer is never the one returned. *)
Section Trees.
Variables (stk : halt) (pri : list oid) (o : oid).

(** a single-object teardown stopped at [DropValue]: the value moved out is
    the one whose destructor starts; the rest of the tree is what the frame
    [FAfterValue o] stands for (EffectsSem.after_value_is_step) *)
Definition user_single (x : xres) : R (state * list frame) :=
  match x with
  | XUser m rest =>
      match m_val m, m_tbl m, m_inn m with
      | Some v, None, [] =>
          if tree_eqb rest after_value_tree then Ok (m_st m, [FDtorStart v; FAfterValue o]) else Bad stk
      | _, _, _ => Bad stk
      end
  | XFault e => Bad e
  | _ => Bad stk
  end.

(** the group teardown stopped at [DropInners]: the vector [inners] goes to
    [FInners]; the rest of the tree is what [FFinishGroup keys] stands for
    (EffectsSem.finish_group_is_step); [EvGroup] is the model's log entry for
    the start of the group *)
Definition user_group (keys : list oid) (x : xres) : R (state * list frame) :=
  match x with
  | XUser m rest =>
      match m_val m, m_tbl m with
      | None, None =>
          if tree_eqb rest cycle_cont
          then Ok (add_ev (m_st m) (EvGroup keys), [FInners (m_inn m); FFinishGroup keys]) else Bad stk
      | _, _ => Bad stk
      end
  | XFault e => Bad e
  | _ => Bad stk
  end.

(** what an [Ok] answer of the two conversions certifies about the interpreter's
    result: it stopped at user code, and the rest of the tree is the one whose
    execution is the machine's step on the second frame pushed
    ([after_value_is_step], [finish_group_is_step]) *)
Lemma user_single_ok x s' fr :
  user_single x = Ok (s', fr) ->
  exists v, x = XUser {| m_st := s'; m_val := Some v; m_tbl := None; m_inn := [] |} after_value_tree
            /\ fr = [FDtorStart v; FAfterValue o].
Proof.
  destruct x as [m|m rest|m|e|]; simpl; try discriminate.
  destruct m as [ms [v|] [tb|] [|i inn]]; simpl; try discriminate.
  destruct (tree_eqb rest after_value_tree) eqn:T; [|discriminate].
  apply tree_eqb_sound in T. subst rest. intros [= <- <-]. eauto.
Qed.

Lemma user_group_ok keys x s' fr :
  user_group keys x = Ok (s', fr) ->
  exists m, x = XUser m cycle_cont /\ m_val m = None /\ m_tbl m = None
            /\ s' = add_ev (m_st m) (EvGroup keys) /\ fr = [FInners (m_inn m); FFinishGroup keys].
Proof.
  destruct x as [m|m rest|m|e|]; simpl; try discriminate.
  destruct (m_val m) eqn:V; [discriminate|]. destruct (m_tbl m) eqn:T; [discriminate|].
  destruct (tree_eqb rest cycle_cont) eqn:Q; [|discriminate].
  apply tree_eqb_sound in Q. subst rest. intros [= <- <-]. exists m. auto.
Qed.

Definition tree_call (f : dcall) (d : dst) : R dst :=
  let s := d_state d in
  match f with
  | DUnreachable =>
      let* r := user_single (exec_list (env1 o) g_drop_unreachable (m0 s)) in Ok (with_result d r)
  | DUnreachableAdopt =>
      let* r := user_single (exec_list (env1 o) g_drop_unreachable_with_adoptions (m0 s)) in Ok (with_result d r)
  | DCycle =>
      match d_cyc d with
      | None => Bad stk
      | Some cyc =>
          let cyc' := order_cycle pri cyc in
          let* r := user_group (map fst cyc') (exec_group cyc' g_drop_cycle (m0 s)) in Ok (with_result d r)
      end
  end.

Definition run_drop_trees (p : list dstmt) (s : state) : R (state * list frame) :=
  run_drop_with o tree_call p s.

(** ** The call sites: the hypotheses of the EffectsSem theorems, as
    preconditions on the state at the call *)
Lemma agrees_user_single x r : agrees o x r -> user_single x = r.
Proof.
  destruct r as [[s' fr]|e]; simpl.
  - intros (v & -> & ->). reflexivity.
  - intros ->. reflexivity.
Qed.

(** [drop_unreachable]: count just reached [Cnt 0], table present and empty *)
Lemma call_unreachable d b :
  getb (heap_of (d_state d)) o = Ok b -> strong b = Cnt 0 ->
  get_links (heap_of (d_state d)) o = Ok [] ->
  tree_call DUnreachable d = run_call pri o DUnreachable d.
Proof.
  intros G S GL. unfold tree_call, run_call.
  rewrite (agrees_user_single _ _ (unreachable_core (d_state d) o b G ltac:(now rewrite S) GL)).
  reflexivity.
Qed.

(** [drop_unreachable_with_adoptions]: count just reached [Cnt 0], table present *)
Lemma call_unreachable_adopt d b t :
  getb (heap_of (d_state d)) o = Ok b -> strong b = Cnt 0 -> links b = Some t ->
  tree_call DUnreachableAdopt d = run_call pri o DUnreachableAdopt d.
Proof.
  intros G S L. unfold tree_call, run_call.
  rewrite (agrees_user_single _ _ (with_adoptions_core (d_state d) o b t G ltac:(now rewrite S) L)).
  rewrite (get_links_of _ _ _ _ G L). cbn [bind].
  destruct (purge_loop (heap_of (d_state d)) o t) as [h2|e]; cbn [bind]; [|reflexivity].
  destruct (set_links h2 o []) as [h3|e]; cbn [bind]; reflexivity.
Qed.

(** [drop_cycle]: [cycle] bound by the test [DOrphaned] just before *)
Lemma call_cycle d cyc :
  d_cyc d = Some cyc -> tree_call DCycle d = run_call pri o DCycle d.
Proof.
  intros C. unfold tree_call, run_call. rewrite C. cbv zeta.
  pose proof (drop_cycle_sem (d_state d) (order_cycle pri cyc)) as D. cbv zeta in D.
  destruct (bust_all (heap_of (d_state d)) (map fst (order_cycle pri cyc)) (order_cycle pri cyc)) as [h2|e];
    cbn [bind] in *; [|rewrite D; reflexivity].
  destruct (gather h2 (map fst (order_cycle pri cyc)) []) as [[h3 inn]|e]; rewrite D; reflexivity.
Qed.
End Trees.

Arguments tree_call : simpl never.
Arguments run_call : simpl never.

(** ** The dispatch establishes the preconditions of every call it makes *)
Theorem trees_eq_model stk pri s o :
  run_drop_trees stk pri o g_rc_drop s = run_drop pri o g_rc_drop s.
Proof.
  rewrite <- run_drop_with_model.
  unfold run_drop_trees, run_drop_with, g_rc_drop.
  Opaque getb setb get_links purge_loop set_links start_unreachable orphaned_cycle bust_all gather order_cycle N.eqb N.sub.
  simpl.
  destruct (getb (heap_of s) o) as [b|e] eqn:G; simpl; [|reflexivity].
  destruct (getb_ok_inv _ _ _ G) as (_ & _ & _ & Fb).
  destruct (strong b) as [n|] eqn:Es; simpl; [|reflexivity].
  destruct (n =? 0) eqn:E0; simpl; [reflexivity|].
  unfold dec_strong_cmd; simpl. rewrite G; simpl. rewrite Es, E0; simpl.
  set (b1 := with_strong b (Cnt (n - 1))). set (h1 := setb (heap_of s) o b1).
  assert (G1 : getb h1 o = Ok b1) by (apply (getb_setb_here _ _ b); [exact G|destruct b; exact Fb]).
  assert (GL : get_links h1 o = match links b with Some t => Ok t | None => Bad (HFault FkTableMoved o) end).
  { Transparent get_links. unfold get_links. rewrite G1. simpl. destruct b; reflexivity. }
  Opaque get_links.
  assert (Hst : strong b1 = Cnt (n - 1)) by (destruct b; reflexivity).
  assert (Hl : links b1 = links b) by (destruct b; reflexivity).
  rewrite GL. destruct (links b) as [t|] eqn:El; simpl; [|reflexivity].
  destruct t as [|e0 t']; simpl.
  - rewrite G1; simpl. try rewrite Hst; simpl.
    destruct (n - 1 =? 0) eqn:E1; simpl; [|reflexivity].
    apply N.eqb_eq in E1. rewrite E1 in Hst.
    rewrite (call_unreachable stk pri o {| d_state := set_heap s h1; d_frames := []; d_cyc := None; d_done := false |} b1 G1 Hst GL).
    unfold run_call; simpl.
    destruct (start_unreachable (set_heap s h1) o) as [[s1 fr]|e]; reflexivity.
  - rewrite G1; simpl. try rewrite Hst; simpl.
    destruct (n - 1 =? 0) eqn:E1; simpl.
    + apply N.eqb_eq in E1. rewrite E1 in Hst.
      rewrite (call_unreachable_adopt stk pri o {| d_state := set_heap s h1; d_frames := []; d_cyc := None; d_done := false |} b1 (e0 :: t') G1 Hst Hl).
      unfold run_call; simpl. rewrite GL; simpl.
      destruct (purge_loop h1 o (e0 :: t')) as [h2|e]; simpl; [|reflexivity].
      destruct (set_links h2 o []) as [h3|e]; simpl; [|reflexivity].
      unfold set_heap; simpl.
      destruct (start_unreachable (mk h3 (regs s) (log s)) o) as [[s1 fr]|e]; reflexivity.
    + destruct (orphaned_cycle h1 o) as [[[oc pops] visits]|e]; simpl; [|reflexivity].
      destruct oc as [cyc|]; simpl; [|reflexivity].
      rewrite (call_cycle stk pri o {| d_state := add_ev (set_heap s h1) (EvTrace o pops visits); d_frames := []; d_cyc := Some cyc; d_done := false |} cyc eq_refl).
      unfold run_call; simpl.
      destruct (bust_all h1 (map fst (order_cycle pri cyc)) (order_cycle pri cyc)) as [h2|e]; simpl; [|reflexivity].
      destruct (gather h2 (map fst (order_cycle pri cyc)) []) as [[h3 inn]|e]; simpl; reflexivity.
Qed.

(** ** Capstone *)
Theorem rc_drop_end_to_end stk pri s o :
  run_drop_trees stk pri o g_rc_drop s = drop_strong pri s o.
Proof. rewrite trees_eq_model. apply rc_drop_translated. Qed.

(** the answer [stk] is never returned for being stuck: the result does not depend on it *)
Corollary rc_drop_trees_never_stuck stk stk' pri s o :
  run_drop_trees stk pri o g_rc_drop s = run_drop_trees stk' pri o g_rc_drop s.
Proof. now rewrite !rc_drop_end_to_end. Qed.

(** ** One full step of the machine on [FDropStrong o] *)
Theorem step_drop_strong_trees stk pri s o k u :
  step pri {| st := s; stack := FDropStrong o :: k; unw := u |} =
  match run_drop_trees stk pri o g_rc_drop s with
  | Ok (s1, push) => Running {| st := s1; stack := push ++ k; unw := u |}
  | Bad e => Halted s e
  end.
Proof. rewrite rc_drop_end_to_end. reflexivity. Qed.

Corollary step_drop_strong_trees_cfg stk pri c o k :
  stack c = FDropStrong o :: k ->
  (exists s1 push, run_drop_trees stk pri o g_rc_drop (st c) = Ok (s1, push) /\
                   step pri c = Running {| st := s1; stack := push ++ k; unw := unw c |})
  \/ (exists e, run_drop_trees stk pri o g_rc_drop (st c) = Bad e /\ step pri c = Halted (st c) e).
Proof.
  intros Hk. destruct c as [s k0 u]. simpl in Hk. subst k0. rewrite (step_drop_strong_trees stk). simpl.
  destruct (run_drop_trees stk pri o g_rc_drop s) as [[s1 push]|e]; [left|right]; eauto.
Qed.

Print Assumptions user_single_ok.
Print Assumptions user_group_ok.
Print Assumptions trees_eq_model.
Print Assumptions rc_drop_end_to_end.
Print Assumptions rc_drop_trees_never_stuck.
Print Assumptions step_drop_strong_trees.
Print Assumptions step_drop_strong_trees_cfg.
