(** * [Rc::drop] as translated is the model's [drop_strong].

    Re-checked on every run against gen/DropGen.v (regenerated from
    /repo/src/drop.rs): the order of the tests (dead handle: no effect; table
    empty: no trace, C14; count zero with adoptions: purge then destroy;
    otherwise trace and, if orphaned, collect the group) is the one the model
    implements. *)
From Coq Require Import NArith List Bool Lia. Import ListNotations.
From CR Require Import Base Atomic Machine.
From Gen Require Import DropLang DropGen.
Local Open Scope N_scope.

Lemma getb_ok_inv h o b : getb h o = Ok b -> exists b0, nth_error h o = Some b0 /\ b0 = b /\ freed b = false.
Proof.
  unfold getb. destruct (nth_error h o) as [b0|]; [|discriminate].
  destruct (freed b0) eqn:F; [discriminate|]. intros H; injection H as <-. eauto.
Qed.

Lemma nth_error_upd_here {A} (l : list A) i x : (i < length l)%nat -> nth_error (upd l i x) i = Some x.
Proof.
  revert i. induction l as [|a l IH]; intros [|i] H; cbn in *; try lia; [reflexivity|]. apply IH. lia.
Qed.

Lemma getb_setb_here h o b b' : getb h o = Ok b -> freed b' = false -> getb (setb h o b') o = Ok b'.
Proof.
  intros G F. destruct (getb_ok_inv _ _ _ G) as (b0 & Hn & _ & _).
  assert (L : (o < length h)%nat) by (apply nth_error_Some; congruence).
  unfold getb, setb. rewrite nth_error_upd_here by exact L. rewrite F. reflexivity.
Qed.

Theorem rc_drop_translated pri s o :
  run_drop pri o g_rc_drop s = drop_strong pri s o.
Proof.
  unfold run_drop, g_rc_drop, drop_strong.
  Opaque getb setb get_links purge_loop set_links start_unreachable orphaned_cycle bust_all gather order_cycle N.eqb N.sub.
  simpl.
  destruct (getb (heap_of s) o) as [b|e] eqn:G; simpl; [|reflexivity].
  destruct (getb_ok_inv _ _ _ G) as (_ & _ & _ & Fb).
  destruct (strong b) as [n|] eqn:Es; simpl; [|reflexivity].
  destruct (n =? 0) eqn:E0; simpl; [reflexivity|].
  unfold dec_strong_cmd; simpl. rewrite G; simpl. rewrite Es, E0; simpl.
  set (b1 := with_strong b (Cnt (n - 1))). set (h1 := setb (heap_of s) o b1).
  assert (G1 : getb h1 o = Ok b1) by (apply (getb_setb_here _ _ b); [exact G|destruct b; exact Fb]).
  assert (GL : get_links h1 o = match links b with Some t => Ok t | None => Bad (HFault FkTableMoved o) end).
  { Transparent get_links. unfold get_links. rewrite G1. simpl. destruct b; reflexivity. }
  Opaque get_links.
  assert (Hst : strong b1 = Cnt (n - 1)) by (destruct b; reflexivity).
  rewrite GL. destruct (links b) as [t|] eqn:El; simpl; [|reflexivity].
  destruct t as [|e0 t']; simpl.
  - rewrite G1; simpl. try rewrite Hst; simpl.
    destruct (n - 1 =? 0) eqn:E1; simpl; [|reflexivity].
    destruct (start_unreachable (set_heap s h1) o) as [[s1 fr]|e]; reflexivity.
  - rewrite G1; simpl. try rewrite Hst; simpl.
    destruct (n - 1 =? 0) eqn:E1; simpl.
    + rewrite GL; try rewrite El; simpl.
      destruct (purge_loop h1 o (e0 :: t')) as [h2|e]; simpl; [|reflexivity].
      destruct (set_links h2 o []) as [h3|e]; simpl; [|reflexivity].
      unfold set_heap; simpl.
      destruct (start_unreachable (mk h3 (regs s) (log s)) o) as [[s1 fr]|e]; reflexivity.
    + destruct (orphaned_cycle h1 o) as [[[oc pops] visits]|e]; simpl; [|reflexivity].
      destruct oc as [cyc|]; simpl; [|reflexivity].
      destruct (bust_all h1 (map fst (order_cycle pri cyc)) (order_cycle pri cyc)) as [h2|e]; simpl; [|reflexivity].
      destruct (gather h2 (map fst (order_cycle pri cyc)) []) as [[h3 inn]|e]; simpl; reflexivity.
Qed.

(** C14 as a consequence of the translated dispatch: on an object whose table
    is empty the program never evaluates [orphaned_cycle] -- read off the
    generated program: the only [DOrphaned] sits after the [DLinksEmpty] block,
    which ends in [DReturn] *)
Theorem dispatch_shape :
  g_rc_drop =
  [ DIf DIsDead [DReturn]; DDecStrong;
    DIf DLinksEmpty [DIf DIsDead [DCall DUnreachable]; DReturn];
    DIf DIsDead [DCall DUnreachableAdopt; DReturn];
    DIf DOrphaned [DCall DCycle; DReturn] ].
Proof. reflexivity. Qed.

Print Assumptions rc_drop_translated.
Print Assumptions dispatch_shape.
