(** * Meaning of the control skeletons of [cycle_refs] and [Rc::orphaned_cycle]
    (hand written, static).

    tools/rs2v.py parses both functions statement by statement into
    [list wstmt] / [list ostmt] (syntax: gen/CycleLang.v; generated constants
    [g_cycle_refs_skel], [g_orphaned_skel] in gen/CycleGen.v). This file runs
    such a list over the model's data:

      - the heap [h] and the start object [o] ([this]);
      - [discovered : Vec<Link>] is a list whose LAST element is the last one
        pushed: [push] appends at the end ([apply_act EPush] of CycleLang),
        [pop()] removes the last element, [remove(0)] the first;
      - [visited : HashSet<Link>] is a list (only membership is observed);
      - [cycle_owned_refs] is the model's [omap];
      - [for (&link, &strong) in links.iter() { .. }] is
        [CycleLang.g_visit_entries body] run on the borrowed table, the map and
        the Vec itself;
      - [pops] counts the successful pops of the [while let], [visits] the
        executions of [visited.insert(node)] (where the instrumented source
        emits TRACE_POP / TRACE_VISIT);
      - the [while] takes fuel like [trace_go]: one unit per evaluation of its
        head, [Bad (HFault FkFuel 0)] when none is left.

    Results are [option (R _)]: [None] means the list is not a function body
    this file gives a meaning to (a variable used before its [let], a loop
    statement outside the loop, no tail expression, ..); [Some r] is the run. *)
From Coq Require Import NArith List Bool. Import ListNotations.
From CR Require Import Base Atomic.
From Gen Require Import CycleLang.
Local Open Scope N_scope.

(** ** Vec *)
Definition vec_pop {A} (d : popdir) (v : list A) : option (A * list A) :=
  match d with
  | PopBack => match rev v with [] => None | x :: r => Some (x, rev r) end
  | PopFront => match v with [] => None | x :: r => Some (x, r) end
  end.

(** ** One iteration of the [while let] *)
Record iter := {
  i_own : omap;               (* cycle_owned_refs *)
  i_work : list oid;          (* discovered *)
  i_vis : list oid;           (* visited *)
  i_links : option table;     (* [links], once borrowed in this iteration *)
  i_visits : N }.

Inductive outcome := ONext (s : iter) | OContinue (s : iter) | OFault (e : halt) | OStuck.

Definition run_lstmt (body : list estmt) (h : heap) (node : oid) (s : wstmt) (st : iter) : outcome :=
  match s with
  | WIfVisitedContinue => if memb node (i_vis st) then OContinue st else ONext st
  | WMarkVisited =>
      ONext {| i_own := i_own st; i_work := i_work st; i_vis := node :: i_vis st;
               i_links := i_links st; i_visits := i_visits st + 1 |}
  | WBorrowNode =>
      match get_links h node with
      | Ok t => ONext {| i_own := i_own st; i_work := i_work st; i_vis := i_vis st;
                         i_links := Some t; i_visits := i_visits st |}
      | Bad e => OFault e
      end
  | WForEntries =>
      match i_links st with
      | None => OStuck
      | Some t =>
          let '(own', work') := g_visit_entries body t (i_own st) (i_work st) in
          ONext {| i_own := own'; i_work := work'; i_vis := i_vis st;
                   i_links := i_links st; i_visits := i_visits st |}
      end
  | _ => OStuck
  end.

(** falling off the end of the block = next iteration, like [continue] *)
Fixpoint run_iter (body : list estmt) (h : heap) (node : oid) (l : list wstmt) (st : iter) : outcome :=
  match l with
  | [] => ONext st
  | s :: l' =>
      match run_lstmt body h node s st with
      | ONext st' => run_iter body h node l' st'
      | r => r
      end
  end.

(** ** The loop. State: map, Vec, set, pops, visits. *)
Definition wstate := (omap * list oid * list oid * N * N)%type.

Fixpoint run_while (fuel : nat) (body : list estmt) (h : heap) (d : popdir) (lbody : list wstmt)
         (own : omap) (work vis : list oid) (pops visits : N) : option (R wstate) :=
  match fuel with
  | O => Some (Bad (HFault FkFuel 0%nat))
  | S f =>
      match vec_pop d work with
      | None => Some (Ok (own, work, vis, pops, visits))
      | Some (node, work') =>
          match run_iter body h node lbody
                  {| i_own := own; i_work := work'; i_vis := vis; i_links := None; i_visits := visits |} with
          | ONext st | OContinue st =>
              run_while f body h d lbody (i_own st) (i_work st) (i_vis st) (pops + 1) (i_visits st)
          | OFault e => Some (Bad e)
          | OStuck => None
          end
      end
  end.

(** ** The function body *)
Record fstate := {
  f_own : option omap; f_work : option (list oid); f_vis : option (list oid);
  f_pops : N; f_visits : N }.

Fixpoint run_top (fuel : nat) (body : list estmt) (h : heap) (o : oid) (l : list wstmt) (st : fstate)
  : option (R (omap * N * N)) :=
  match l with
  | [] => None
  | s :: l' =>
      match s with
      | WInitMap =>
          run_top fuel body h o l' {| f_own := Some []; f_work := f_work st; f_vis := f_vis st;
                                      f_pops := f_pops st; f_visits := f_visits st |}
      | WInitWork =>
          run_top fuel body h o l' {| f_own := f_own st; f_work := Some [o]; f_vis := f_vis st;
                                      f_pops := f_pops st; f_visits := f_visits st |}
      | WInitVisited =>
          run_top fuel body h o l' {| f_own := f_own st; f_work := f_work st; f_vis := Some [];
                                      f_pops := f_pops st; f_visits := f_visits st |}
      | WWhilePop d lbody =>
          match f_own st, f_work st, f_vis st with
          | Some own, Some work, Some vis =>
              match run_while fuel body h d lbody own work vis (f_pops st) (f_visits st) with
              | None => None
              | Some (Bad e) => Some (Bad e)
              | Some (Ok (own', work', vis', pops', visits')) =>
                  run_top fuel body h o l' {| f_own := Some own'; f_work := Some work'; f_vis := Some vis';
                                              f_pops := pops'; f_visits := visits' |}
              end
          | _, _, _ => None
          end
      | WReturnMap =>
          match l', f_own st with
          | [], Some own => Some (Ok (own, f_pops st, f_visits st))
          | _, _ => None
          end
      | _ => None
      end
  end.

(** [cycle_refs(this)] as translated; also returns the counters (pops, visits) *)
Definition run_skel (fuel : nat) (skel : list wstmt) (body : list estmt) (h : heap) (o : oid)
  : option (R (omap * N * N)) :=
  run_top fuel body h o skel {| f_own := None; f_work := None; f_vis := None; f_pops := 0; f_visits := 0 |}.

(** ** [Rc::orphaned_cycle] *)

(** [item.strong()] reads the usize cell: the marker is [usize::MAX] = [M] *)
Definition strong_val (M : N) (s : scount) : N := match s with Cnt n => n | Uninit => M end.

(** [cycle.iter().any(|(item, &cycle_owned_refs)| ext ..)]: in map order, stops at the first [true] *)
Fixpoint any_ext (M : N) (ext : N -> N -> bool) (h : heap) (own : omap) : R bool :=
  match own with
  | [] => Ok false
  | (k, c) :: own' =>
      let* b := getb h k in
      if ext (strong_val M (strong b)) c then Ok true else any_ext M ext h own'
  end.

Fixpoint run_otop (M : N) (fuel : nat) (wskel : list wstmt) (body : list estmt) (ext : N -> N -> bool)
         (h : heap) (o : oid) (l : list ostmt) (cyc : option (omap * N * N)) (has : option bool)
  : option (R (option omap * N * N)) :=
  match l with
  | [] => None
  | s :: l' =>
      match s with
      | OTrace =>
          match run_skel fuel wskel body h o with
          | None => None
          | Some (Bad e) => Some (Bad e)
          | Some (Ok c) => run_otop M fuel wskel body ext h o l' (Some c) has
          end
      | OIfEmptyReturnNone =>
          match cyc with
          | None => None
          | Some ([], pops, visits) => Some (Ok (None, pops, visits))
          | Some _ => run_otop M fuel wskel body ext h o l' cyc has
          end
      | OAnyExternal =>
          match cyc with
          | None => None
          | Some (own, _, _) =>
              match any_ext M ext h own with
              | Bad e => Some (Bad e)
              | Ok b => run_otop M fuel wskel body ext h o l' cyc (Some b)
              end
          end
      | OIfExternalNoneElseSome =>
          match l', cyc, has with
          | [], Some (own, pops, visits), Some b => Some (Ok (if b then None else Some own, pops, visits))
          | _, _, _ => None
          end
      end
  end.

Definition run_orph (M : N) (fuel : nat) (oskel : list ostmt) (wskel : list wstmt) (body : list estmt)
           (ext : N -> N -> bool) (h : heap) (o : oid) : option (R (option omap * N * N)) :=
  run_otop M fuel wskel body ext h o oskel None None.
