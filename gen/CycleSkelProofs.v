(** * The control skeletons of [cycle_refs] and [Rc::orphaned_cycle] as
    translated are the model's [cycle_refs] / [orphaned_cycle].

    Re-checked on every run against gen/CycleGen.v (regenerated from
    src/cycle.rs): the order of the statements, the end of the Vec the
    worklist is popped from, the place of the visited test, of the borrow and
    of the entry loop all come from the source; a change of any of them changes
    [g_cycle_refs_skel] / [g_orphaned_skel] and these proofs are re-run.

    The model keeps the worklist reversed (head = top of the stack, Model/
    Atomic.v [trace_go]); the skeleton semantics keeps it as a Vec (pushes at
    the end, gen/CycleSkelLang.v). [while_translated] relates the two:
    model worklist = [rev] of the Vec. *)
From Coq Require Import NArith List Bool Lia. Import ListNotations.
From CR Require Import Base Atomic.
From Gen Require Import CycleLang CycleGen CycleProofs CycleSkelLang.
Local Open Scope N_scope.

(** ** pushes of a pass go to the end of whatever Vec the pass is given *)
Lemma acts_app e acts : forall own w1 w2,
  fold_left (apply_act e) acts (own, w1 ++ w2) =
  (fst (fold_left (apply_act e) acts (own, w2)), w1 ++ snd (fold_left (apply_act e) acts (own, w2))).
Proof.
  induction acts as [|a acts IH]; intros own w1 w2; [reflexivity|].
  cbn [fold_left]. destruct a; unfold apply_act at 2 4 6; cbn [fst snd].
  - apply IH.
  - rewrite <- app_assoc. apply IH.
  - apply IH.
Qed.

Lemma visit_app body t : forall own w1 w2,
  g_visit_entries body t own (w1 ++ w2) =
  (fst (g_visit_entries body t own w2), w1 ++ snd (g_visit_entries body t own w2)).
Proof.
  unfold g_visit_entries.
  induction t as [|e t IH]; intros own w1 w2; [reflexivity|].
  cbn [fold_left]. unfold visit_entry at 2 4 6.
  rewrite acts_app.
  destruct (fold_left (apply_act e) (run_body (snd (fst e)) body) (own, w2)) as [own' w'].
  cbn [fst snd]. apply IH.
Qed.

Lemma visit_vec body t own w :
  g_visit_entries body t own w =
  (fst (g_visit_entries body t own []), w ++ snd (g_visit_entries body t own [])).
Proof. rewrite <- (app_nil_r w) at 1. apply visit_app. Qed.

(** ** the loop *)
Definition forget (r : option (R wstate)) : option (R (omap * N * N)) :=
  match r with
  | None => None
  | Some (Bad e) => Some (Bad e)
  | Some (Ok (own, _, _, pops, visits)) => Some (Ok (own, pops, visits))
  end.

Definition g_loop_body : list wstmt := [WIfVisitedContinue; WMarkVisited; WBorrowNode; WForEntries].

Lemma while_translated h fuel : forall work vis own pops visits,
  forget (run_while fuel g_entry_body h PopBack g_loop_body own work vis pops visits) =
  Some (trace_go fuel h (rev work) vis own pops visits).
Proof.
  induction fuel as [|f IH]; intros work vis own pops visits; [reflexivity|].
  cbn [run_while trace_go vec_pop].
  destruct (rev work) as [|n rest] eqn:E; [reflexivity|].
  unfold g_loop_body. cbn [run_iter run_lstmt i_vis].
  destruct (memb n vis) eqn:V.
  - cbn [i_own i_work i_vis i_visits]. rewrite IH, rev_involutive. reflexivity.
  - cbn [run_iter run_lstmt i_own i_work i_vis i_links i_visits].
    destruct (get_links h n) as [t|e]; [|reflexivity].
    cbn [Base.bind run_iter run_lstmt i_own i_work i_vis i_links i_visits].
    rewrite visit_vec, <- visit_entries_translated.
    destruct (visit_entries t own []) as [own' pushed]. cbn [fst snd].
    cbn [run_iter i_own i_work i_vis i_visits].
    rewrite IH, rev_app_distr, rev_involutive. reflexivity.
Qed.

(** ** [cycle_refs] *)
Theorem cycle_refs_skel_translated h o :
  run_skel (trace_fuel h) g_cycle_refs_skel g_entry_body h o = Some (cycle_refs h o).
Proof.
  unfold run_skel, g_cycle_refs_skel, cycle_refs.
  cbn [run_top f_own f_work f_vis f_pops f_visits].
  change [o] with (rev [o]) at 2.
  rewrite <- (while_translated h (trace_fuel h) [o] [] [] 0 0).
  fold g_loop_body.
  destruct (run_while (trace_fuel h) g_entry_body h PopBack g_loop_body [] [o] [] 0 0)
    as [[[[[[own' work'] vis'] pops'] visits']|e]|]; reflexivity.
Qed.

(** ** [orphaned_cycle] *)

(** What is needed about the marker: a member the [any] looks at whose strong
    cell holds the marker [M] = usize::MAX must have an owned count below [M]
    (else [item.strong() > cycle_owned_refs] is false in the source and true
    for the model's [sgt Uninit _]); cf. [external_test_translated_marker]. *)
Definition owned_below_marker (M : N) (h : heap) (own : omap) : Prop :=
  forall k c b, In (k, c) own -> getb h k = Ok b -> strong b = Uninit -> c < M.

Lemma any_translated M h own :
  owned_below_marker M h own -> any_ext M g_external h own = has_external h own.
Proof.
  induction own as [|[k c] own IH]; intros HM; [reflexivity|].
  cbn [any_ext has_external].
  destruct (getb h k) as [b|e] eqn:G; [|reflexivity]. cbn [Base.bind].
  assert (g_external (strong_val M (strong b)) c = sgt (strong b) c) as ->.
  { destruct (strong b) as [n|] eqn:S; cbn [strong_val].
    - symmetry. apply external_test_translated.
    - symmetry. apply external_test_translated_marker. apply (HM k c b); [left; reflexivity|exact G|exact S]. }
  destruct (sgt (strong b) c); [reflexivity|].
  apply IH. intros k' c' b' I. apply HM. right. exact I.
Qed.

Theorem orphaned_cycle_skel_translated M h o :
  (forall own pops visits, cycle_refs h o = Ok (own, pops, visits) -> owned_below_marker M h own) ->
  run_orph M (trace_fuel h) g_orphaned_skel g_cycle_refs_skel g_entry_body g_external h o =
  Some (orphaned_cycle h o).
Proof.
  intros HM. unfold run_orph, g_orphaned_skel, orphaned_cycle.
  cbn [run_otop]. rewrite cycle_refs_skel_translated.
  destruct (cycle_refs h o) as [[[own pops] visits]|e] eqn:C; [|reflexivity].
  cbn [Base.bind]. destruct own as [|kc own]; [reflexivity|].
  rewrite (any_translated M h (kc :: own) (HM _ _ _ eq_refl)).
  destruct (has_external h (kc :: own)) as [b|e]; reflexivity.
Qed.

(** the hypothesis is needed: one member, marker in its strong cell, owned
    count = M: the source's test is [M > M] = false, the model's is true *)
Definition mk (s : scount) (t : table) : box :=
  {| strong := s; weak := 1; links := Some t; talloc := true; value := None; freed := false |}.

Example marker_hypothesis_needed :
  let M := 5 in
  let h := [mk Uninit [((0%nat, Fwd), M)]] in
  run_orph M (trace_fuel h) g_orphaned_skel g_cycle_refs_skel g_entry_body g_external h 0%nat
    = Some (Ok (Some [(0%nat, M)], 2, 1)) /\
  orphaned_cycle h 0%nat = Ok (None, 2, 1).
Proof. vm_compute. split; reflexivity. Qed.

(** ** Negative control: the end of the Vec that is popped is observable.
    0 -> 1, 2;  1 -> 3;  2 -> 4. Popping from the back visits 0 2 4 1 3, from
    the front 0 1 2 3 4 (same pops and visits, each node once either way);
    the order of the returned map -- the member order of the teardown --
    differs. *)
Definition g_skel_popfront : list wstmt :=
  [WInitMap; WInitWork; WInitVisited; WWhilePop PopFront g_loop_body; WReturnMap].

Definition h5 : heap :=
  [ mk (Cnt 1) [((1%nat, Fwd), 1); ((2%nat, Fwd), 1)];
    mk (Cnt 1) [((3%nat, Fwd), 1)];
    mk (Cnt 1) [((4%nat, Fwd), 1)];
    mk (Cnt 1) [];
    mk (Cnt 1) [] ].

Definition visit_order (d : popdir) (h : heap) (o : oid) : option (list oid) :=
  match run_while (trace_fuel h) g_entry_body h d g_loop_body [] [o] [] 0 0 with
  | Some (Ok (_, _, vis, _, _)) => Some (rev vis)
  | _ => None
  end.

Example popfront_differs :
  run_skel (trace_fuel h5) g_cycle_refs_skel g_entry_body h5 0%nat
    = Some (Ok ([(1%nat, 1); (2%nat, 1); (4%nat, 1); (3%nat, 1)], 5, 5)) /\
  run_skel (trace_fuel h5) g_skel_popfront g_entry_body h5 0%nat
    = Some (Ok ([(1%nat, 1); (2%nat, 1); (3%nat, 1); (4%nat, 1)], 5, 5)) /\
  visit_order PopBack h5 0%nat = Some [0; 2; 4; 1; 3]%nat /\
  visit_order PopFront h5 0%nat = Some [0; 1; 2; 3; 4]%nat /\
  run_skel (trace_fuel h5) g_skel_popfront g_entry_body h5 0%nat <> Some (cycle_refs h5 0%nat).
Proof. vm_compute. repeat split; try reflexivity. discriminate. Qed.

(** ([pops] and [visits] themselves cannot tell the two apart on a run that
    ends: every reachable node is visited once and pushes its Forward records
    once, whatever the order.) *)

Print Assumptions while_translated.
Print Assumptions cycle_refs_skel_translated.
Print Assumptions orphaned_cycle_skel_translated.
Print Assumptions marker_hypothesis_needed.
Print Assumptions popfront_differs.
