(** * Option<usize> combinators used by link.rs (hand written, static). *)
From Coq Require Import NArith.
Local Open Scope N_scope.

(** [usize::checked_sub] *)
Definition checked_sub (a b : N) : option N := if b <=? a then Some (a - b) else None.
(** [.and_then(NonZeroUsize::new)] *)
Definition and_then_nonzero (x : option N) : option N :=
  match x with Some v => if v =? 0 then None else Some v | None => None end.

(** fields of a [Link] fed to the hasher *)
Inductive hfield := HPtr | HKind.
