(** * The callee [release_links] composed into [try_unwrap] and [make_mut].

    EffectsSemRc.v reads the marker [ReleaseLinks] of the rc.rs trees BY FIAT
    as the model's [release_links] (Model/Atomic.v) plus the event
    [EvTableDropped].  The Rust function that is called has a generated tree
    of its own, [g_release_links] (EffectsGen.v), and EffectsSem.v gives that
    tree a meaning (purge loop, [MoveLinks], [DropLinks]).  Here:

    1. [release_links_sem]: the generated tree of the callee, run by the
       interpreter of EffectsSem.v, IS the model's [release_links] (same heap
       or same fault), with the event logged by [DropLinks] and the moved-out
       table consumed;
    2. [run_fn_trees]: the interpreter of EffectsSemRc.v in which the marker
       [ReleaseLinks] RUNS THE GENERATED TREE of the callee instead of calling
       the model; [try_unwrap_end_to_end], [make_mut_end_to_end]: it agrees
       with [exec_act].

    Position of [EvTableDropped].  In the trees the event is logged by
    [DropLinks], inside the callee, i.e. BEFORE [ReadValue; DecStrong; ...]
    (try_unwrap) resp. before [DecStrong; DecWeak; OverwriteNoDrop] (make_mut);
    the model applies [add_ev _ (EvTableDropped o)] LAST, to the final state.
    The equalities below are nevertheless exact, not "up to the position of
    the event": [add_ev] only conses onto the field [log], the effects that
    run between the two positions touch [heap_of] and [regs] only and log no
    event of their own, and a fault in between gives [AHalt e], which carries
    no state.  So the final logs are the same list ([ev_position_immaterial]
    states the commutations used, they hold by computation). *)
From CR Require Import Base Atomic Machine Tokens InvDef.
From Gen Require Import EffectsLang EffectsGen EffectsProofs EffectsSem EffectsSemRc EffectsSemRcInv.
Local Open Scope N_scope.

(** ** 1. The generated tree of [release_links] is the model's [release_links] *)

(** final state of the callee: heap [h'], the event on top of the log, the
    table local consumed, the other locals untouched *)
Definition released (m : mstate) (o : oid) (h' : heap) : mstate :=
  {| m_st := add_ev (set_heap (m_st m) h') (EvTableDropped o);
     m_val := m_val m; m_tbl := None; m_inn := m_inn m |}.

Lemma move_drop_links o m :
  exec_list (env1 o) [E MoveLinks; E DropLinks] m =
  match getb (m_heap m) o with
  | Bad e => XFault e
  | Ok b =>
      match links b with
      | None => XFault (HFault FkTableMoved o)
      | Some _ => XDone (released m o (setb (m_heap m) o (with_links b None)))
      end
  end.
Proof.
  unfold exec_list. cbn. unfold on_box.
  destruct (getb (m_heap m) o) as [b|e]; [|reflexivity].
  destruct (links b) as [t|]; reflexivity.
Qed.

(** from any interpreter state (whatever the locals hold) *)
Theorem release_links_sem_gen m o :
  exec_list (env1 o) g_release_links m =
  match release_links (m_heap m) o with
  | Ok h' => XDone (released m o h')
  | Bad e => XFault e
  end.
Proof.
  rewrite release_links_effects, exec_list_cons.
  unfold release_links, purge_peers.
  destruct (get_links (m_heap m) o) as [t|e] eqn:GL; cbn [bind].
  2:{ unfold purge_loop_tree. cbn [exec_node exec_loop this env1]. now rewrite GL. }
  rewrite (purge_node (env1 o) m t GL). cbn [this env1].
  destruct t as [|it t].
  - unfold purge_loop. cbn [bind]. rewrite move_drop_links.
    destruct (getb (m_heap m) o) as [b|e]; cbn [bind]; [|reflexivity].
    destruct (links b); reflexivity.
  - destruct (purge_loop (m_heap m) o (it :: t)) as [h1|e]; cbn [bind lift_heap]; [|reflexivity].
    rewrite move_drop_links.
    change (m_heap (m_set_heap m h1)) with h1.
    destruct (getb h1 o) as [b|e]; cbn [bind]; [|reflexivity].
    destruct (links b); reflexivity.
Qed.

(** the statement asked for: from [m0 s], for object [o] *)
Theorem release_links_sem s o :
  exec_list (env1 o) g_release_links (m0 s) =
  match release_links (heap_of s) o with
  | Ok h' => XDone {| m_st := add_ev (set_heap s h') (EvTableDropped o);
                      m_val := None; m_tbl := None; m_inn := [] |}
  | Bad e => XFault e
  end.
Proof. apply (release_links_sem_gen (m0 s) o). Qed.

(** ** 2. The rc.rs interpreter, parametrised by the meaning of [ReleaseLinks] *)
Section WithCallee.
  Variable rl : renv -> rstate -> yres.

  Definition rc_eff_with (ev : renv) (e : eff) (m : rstate) : yres :=
    match e with
    | ReleaseLinks => rl ev m
    | _ => rc_eff ev e m
    end.

  Fixpoint rc_seq_with (ev : renv) (l : list enode) (m : rstate) : yres :=
    match l with
    | [] => YDone m
    | E e :: r =>
        match rc_eff_with ev e m with
        | YDone m' => if returned m' then YDone m' else rc_seq_with ev r m'
        | x => x
        end
    | _ => YStuck
    end.

  Fixpoint rc_chain_with (ev : renv) (l : list enode) (m : rstate) : yres :=
    match l with
    | [] => YDone m
    | Branch [] b :: _ => rc_seq_with ev b m
    | Branch c b :: rest =>
        match rc_cond ev c m with
        | Bad e => YFault e
        | Ok None => YStuck
        | Ok (Some true) => rc_seq_with ev b m
        | Ok (Some false) => rc_chain_with ev rest m
        end
    | _ => YStuck
    end.

  Definition run_fn_with (ev : renv) (tree : list enode) (s : state) : yres :=
    match rc_chain_with ev tree (r0 s) with
    | YDone m => drop_guards (r_guards m) m
    | x => x
    end.

  (** a meaning of the callee that agrees with the fiat reading gives the
      same interpreter *)
  Hypothesis rl_ok : forall ev m, rl ev m = rc_eff ev ReleaseLinks m.

  Lemma rc_eff_with_ok ev e m : rc_eff_with ev e m = rc_eff ev e m.
  Proof. destruct e; try reflexivity. apply rl_ok. Qed.

  Lemma rc_seq_with_ok ev l : forall m, rc_seq_with ev l m = rc_seq ev l m.
  Proof.
    induction l as [|n l IH]; intros m; [reflexivity|].
    destruct n as [e| |]; try reflexivity.
    cbn [rc_seq_with rc_seq]. rewrite rc_eff_with_ok.
    destruct (rc_eff ev e m) as [m'| |]; try reflexivity.
    destruct (returned m'); [reflexivity|apply IH].
  Qed.

  Lemma rc_chain_with_ok ev l : forall m, rc_chain_with ev l m = rc_chain ev l m.
  Proof.
    induction l as [|n l IH]; intros m; [reflexivity|].
    destruct n as [e|hd bd|c b]; try reflexivity.
    cbn [rc_chain_with rc_chain].
    destruct c as [|c0 c]; [apply rc_seq_with_ok|].
    destruct (rc_cond ev (c0 :: c) m) as [[[|]|]|]; try reflexivity;
      [apply rc_seq_with_ok|apply IH].
  Qed.

  Lemma run_fn_with_ok ev tree s : run_fn_with ev tree s = run_fn ev tree s.
  Proof. unfold run_fn_with, run_fn. now rewrite rc_chain_with_ok. Qed.
End WithCallee.

(** a call of a function of drop.rs on [rthis]: its generated tree is run by
    the interpreter of EffectsSem.v from fresh locals ([m0]); the callee must
    run to its end and leave no local alive (a value or a table still held at
    the return would have to be dropped there, the trees do not say that);
    the caller continues from the callee's final state *)
Definition call_tree (callee : list enode) (ev : renv) (m : rstate) : yres :=
  match exec_list (env1 (rthis ev)) callee (m0 (r_st m)) with
  | XDone m' =>
      match m_val m', m_tbl m', m_inn m' with
      | None, None, [] => YDone (r_with_st m (m_st m'))
      | _, _, _ => YStuck
      end
  | XFault e => YFault e
  | _ => YStuck
  end.

(** [ReleaseLinks] = run [g_release_links] *)
Definition run_fn_trees : renv -> list enode -> state -> yres :=
  run_fn_with (call_tree g_release_links).

(** nothing of the model's [release_links] is left in it: on a concrete state
    the trees alone compute the result *)
Lemma call_release_links ev m :
  call_tree g_release_links ev m = rc_eff ev ReleaseLinks m.
Proof.
  unfold call_tree. rewrite release_links_sem. cbn [rc_eff]. unfold r_heap.
  destruct (release_links (heap_of (r_st m)) (rthis ev)); reflexivity.
Qed.

Theorem run_fn_trees_is_run_fn ev tree s : run_fn_trees ev tree s = run_fn ev tree s.
Proof. apply run_fn_with_ok. apply call_release_links. Qed.

(** ** Capstones *)

(** [Inv] is not needed for try_unwrap *)
Theorem try_unwrap_end_to_end s self r dst o :
  reg_get s r = RStrong o -> reg_free s dst = true ->
  as_aout self (run_fn_trees {| hreg := r; hdst := dst; rthis := o |} g_try_unwrap s)
  = Some (exec_act s self (ATryUnwrap r dst)).
Proof. intros HR HF. rewrite run_fn_trees_is_run_fn. now apply try_unwrap_sem. Qed.

(** [Inv] is needed for make_mut (EffectsSemRc.make_mut_order_matters: without
    it [odd_state] separates the two sides, for a reason unrelated to
    [release_links]: allocate-then-clone against clone-then-allocate) *)
Theorem make_mut_end_to_end s k self r o :
  Inv s k -> reg_get s r = RStrong o ->
  as_aout self (run_fn_trees {| hreg := r; hdst := r; rthis := o |} g_make_mut s)
  = Some (exec_act s self (AMakeMut r)).
Proof. intros I HR. rewrite run_fn_trees_is_run_fn. now apply (make_mut_sem_inv s k). Qed.

(** the same with the side condition of [make_mut_sem] instead of [Inv] *)
Theorem make_mut_end_to_end_side s self r o :
  reg_get s r = RStrong o ->
  (forall b p, getb (heap_of s) o = Ok b -> strong_is_one (strong b) = false -> value b = Some p ->
     Forall (slot_not (length (heap_of s))) (cloned_slots (slots p))) ->
  as_aout self (run_fn_trees {| hreg := r; hdst := r; rthis := o |} g_make_mut s)
  = Some (exec_act s self (AMakeMut r)).
Proof. intros HR HS. rewrite run_fn_trees_is_run_fn. now apply make_mut_sem. Qed.

(** the counterexample of EffectsSemRc also separates the composed interpreter
    from the model when [Inv] is dropped *)
Example make_mut_end_to_end_needs_inv :
  as_aout None (run_fn_trees {| hreg := 0%nat; hdst := 0%nat; rthis := 0%nat |} g_make_mut odd_state)
  <> Some (exec_act odd_state None (AMakeMut 0%nat)).
Proof. vm_compute. discriminate. Qed.

(** ** The position of [EvTableDropped] *)

(** logging the event early (at [DropLinks]) or late (on the final state, as
    [exec_act] does) is the same: every effect that runs in between is one of
    these three state updates, and each commutes with [add_ev] *)
Lemma ev_position_immaterial s e :
  (forall h, set_heap (add_ev s e) h = add_ev (set_heap s h) e)
  /\ (forall r x, set_reg (add_ev s e) r x = add_ev (set_reg s r x) e)
  /\ (forall h r x, set_reg (set_heap (add_ev s e) h) r x = add_ev (set_reg (set_heap s h) r x) e).
Proof. repeat split. Qed.

(** and the trees do log it early: after the callee returns inside
    try_unwrap, the event is already on the log, while the value is still in
    the box *)
Example event_is_logged_by_the_callee :
  let s := mk [ {| strong := Cnt 1; weak := 1; links := Some []; talloc := false;
                   value := Some {| pid := 0%nat; slots := []; script := [] |}; freed := false |} ]
              [RStrong 0%nat; REmpty] [] in
  exists m, rc_seq_with (call_tree g_release_links) {| hreg := 0%nat; hdst := 1%nat; rthis := 0%nat |}
              [E ReleaseLinks] (r0 s) = YDone m
            /\ log (r_st m) = [EvTableDropped 0%nat]
            /\ exists b, getb (r_heap m) 0%nat = Ok b /\ value b <> None /\ links b = None.
Proof.
  eexists. split; [vm_compute; reflexivity|]. split; [reflexivity|].
  eexists. split; [vm_compute; reflexivity|]. split; [discriminate|reflexivity].
Qed.

Print Assumptions release_links_sem_gen.
Print Assumptions release_links_sem.
Print Assumptions run_fn_trees_is_run_fn.
Print Assumptions try_unwrap_end_to_end.
Print Assumptions make_mut_end_to_end.
Print Assumptions make_mut_end_to_end_side.
Print Assumptions make_mut_end_to_end_needs_inv.
