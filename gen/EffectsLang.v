(** * Markers for the order of effects in drop.rs (hand written, static). *)
From Coq Require Import List. Import ListNotations.

Inductive eff :=
| MakeUninit      (* rcbox.make_uninit(): strong := usize::MAX                              *)
| MoveValue       (* mem::replace(&mut rcbox.value, uninit): the value leaves the box        *)
| DropValue       (* drop(inner.assume_init()): USER CODE runs (the value's destructor)         *)
| MoveLinks       (* mem::replace(&mut rcbox.links, uninit): the table leaves the box        *)
| DropLinks       (* drop(links.assume_init()): the table's heap storage is released            *)
| DecWeak | DecStrong
| Dealloc         (* Global.deallocate: the allocation is released                              *)
| PushInner       (* inners.push((value, table)): both moved into the group's vector            *)
| DropInners      (* drop(inners): USER CODE runs, once per member, then each table is released *)
| BorrowMut | Borrow | Remove | Insert | Clear | ExtractIf
| TestUninit | TestDead | TestWeakZero | TestSelf | Continue.

Inductive enode :=
| E (e : eff)
| Loop (header body : list enode)
| Branch (cond body : list enode).
