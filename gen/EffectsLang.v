(** * Markers for the order of effects in drop.rs (hand written, static). *)
From Coq Require Import List. Import ListNotations.

Inductive eff :=
| MakeUninit      (* rcbox.make_uninit(): strong := usize::MAX                              *)
| MoveValue       (* mem::replace(&mut rcbox.value, uninit): the value leaves the box        *)
| DropValue       (* drop(inner.assume_init()): USER CODE runs (the value's destructor)         *)
| MoveLinks       (* mem::replace(&mut rcbox.links, uninit): the table leaves the box        *)
| DropLinks       (* drop(links.assume_init()): the table's heap storage is released            *)
| DecWeak | DecStrong
| Dealloc         (* Global.deallocate: the allocation is released                              *)
| PushInner       (* inners.push((value, table)): both moved into the group's vector            *)
| DropInners      (* drop(inners): USER CODE runs, once per member, then each table is released *)
| BorrowMut | Borrow | Remove | Insert | Clear | ExtractIf
| TestUninit | TestDead | TestWeakZero | TestSelf | Continue
(* rc.rs: try_unwrap, make_mut, Weak::drop *)
| ReleaseLinks      (* crate::drop::release_links: unlink from peers, destroy the table          *)
| ReadValue         (* ptr::read: the value is moved out to the caller                          *)
| MakeWeakGuard     (* a Weak built by hand: its Drop (dec_weak, maybe deallocate) at scope end *)
| Forget            (* mem::forget(this): the strong handle is given up without Rc::drop        *)
| TestStrongIsOne | TestStrongNotOne | TestWeakCountNotZero | TestWeakCountZero
| NewUninit         (* a fresh allocation                                                       *)
| CloneValue        (* T::clone: USER CODE                                                      *)
| CopyValue         (* bitwise move of the value into the fresh allocation                      *)
| AssignDropOld     (* star-this = rc: the old handle is dropped through Rc::drop               *)
| OverwriteNoDrop   (* ptr::write(this, rc): the old handle is overwritten, no Rc::drop         *)
| ReturnOk | ReturnErr | Return
(* rc.rs: raw-pointer functions; CloneValue on a ManuallyDrop<Rc<T>> is Rc::clone *)
| ManuallyDropNew | FromRaw | DropFromRaw | AsPtr | DataOffset | FromPtr
(* any call into the Rc API that has no marker of its own: never expected *)
| OtherCall.

Inductive enode :=
| E (e : eff)
| Loop (header body : list enode)
| Branch (cond body : list enode).
