(** * The two consuming functions of rc.rs under the machine invariant.

    [make_mut_sem] (EffectsSemRc) carries a side condition: the value that is
    cloned holds no handle, strong or Weak, to the allocation [length heap]
    that does not exist yet.  The machine invariant implies it: clause
    [ci_range] of [Inv] says that the census [W] of strong and of Weak handles
    to an index with no box is 0, and the slots of a value that is still
    inside its box are counted by [W] (through [w_held], [w_box]).  So under
    [Inv] the tree order (allocate, then clone) and the model order (clone,
    then allocate) of [Rc::make_mut] agree on every state, with no further
    hypothesis.  [try_unwrap_sem] has no side condition; it is restated here so
    that both consuming functions are available under [Inv] in one place. *)
From CR Require Import Base Atomic Machine Tokens InvDef.
From Gen Require Import EffectsLang EffectsGen EffectsProofs EffectsSem EffectsSemRc.
Local Open Scope N_scope.

(** a slot that weighs nothing for [o'], as a strong and as a Weak handle,
    does not name [o'] *)
Lemma slot_not_of_weights o' sl :
  sw_strong o' sl = 0 -> sw_weak o' sl = 0 -> slot_not o' sl.
Proof.
  destruct sl as [x|[x|]|]; cbn [sw_strong sw_weak slot_not]; intros A B; auto;
    intros ->; rewrite Nat.eqb_refl in *; discriminate.
Qed.

Lemma total_zero_in {A} (f : A -> N) l a : total f l = 0 -> In a l -> f a = 0.
Proof. intros H Hin. pose proof (total_in_le f l a Hin). lia. Qed.

Lemma slots_not_of_weights o' ss :
  total (sw_strong o') ss = 0 -> total (sw_weak o') ss = 0 -> Forall (slot_not o') ss.
Proof.
  intros A B. apply Forall_forall. intros sl Hin.
  apply slot_not_of_weights; eapply total_zero_in; eauto.
Qed.

Lemma empty_slots_not o' : Forall (slot_not o') empty_slots.
Proof.
  apply Forall_forall. intros sl Hin. apply repeat_spec in Hin. subst sl. exact I.
Qed.

Lemma cloned_slots_not o' ss : Forall (slot_not o') ss -> Forall (slot_not o') (cloned_slots ss).
Proof.
  intros H. unfold cloned_slots. destruct (clone_detached ss); [apply empty_slots_not|exact H].
Qed.

(** ** the side condition of [make_mut_sem] follows from [ci_range] *)
Lemma inv_value_fresh s k o b p :
  Inv s k -> nth_error (heap_of s) o = Some b -> value b = Some p ->
  Forall (slot_not (length (heap_of s))) (slots p).
Proof.
  intros I Hb V.
  assert (Hn : nth_error (heap_of s) (length (heap_of s)) = None)
    by (apply nth_error_None; apply Nat.le_refl).
  destruct (ci_range _ _ (inv_cnt _ _ I) _ Hn) as (Ws & Ww & _).
  assert (Hin : In b (heap_of s)) by (eapply nth_error_In; eauto).
  assert (Box : forall f, W f s k = 0 -> total f (slots p) = 0).
  { intros f Hf. unfold W, w_held in Hf.
    pose proof (total_in_le (w_box f) (heap_of s) b Hin) as Le.
    unfold w_box at 1 in Le. rewrite V in Le. unfold w_payload in Le. lia. }
  apply slots_not_of_weights; apply Box; assumption.
Qed.

Lemma inv_make_mut_side s k o :
  Inv s k ->
  forall b p, getb (heap_of s) o = Ok b -> strong_is_one (strong b) = false -> value b = Some p ->
    Forall (slot_not (length (heap_of s))) (cloned_slots (slots p)).
Proof.
  intros I b p G _ V. apply getb_ok in G as [Hb _].
  apply cloned_slots_not. eapply inv_value_fresh; eauto.
Qed.

(** ** Rc::make_mut under the invariant *)
Theorem make_mut_sem_inv s k self r o :
  Inv s k -> reg_get s r = RStrong o ->
  as_aout self (run_fn {| hreg := r; hdst := r; rthis := o |} g_make_mut s)
  = Some (exec_act s self (AMakeMut r)).
Proof.
  intros I HR. apply make_mut_sem; [exact HR|]. apply (inv_make_mut_side s k o I).
Qed.

(** ** Rc::try_unwrap under the invariant (the invariant is not used) *)
Theorem try_unwrap_sem_inv s k self r dst o :
  Inv s k -> reg_get s r = RStrong o -> reg_free s dst = true ->
  as_aout self (run_fn {| hreg := r; hdst := dst; rthis := o |} g_try_unwrap s)
  = Some (exec_act s self (ATryUnwrap r dst)).
Proof. intros _. apply try_unwrap_sem. Qed.

(** the counterexample state of EffectsSemRc ([odd_state], whose value names
    the allocation 1 that does not exist) is indeed excluded by [Inv] *)
Lemma odd_state_not_inv k : ~ Inv odd_state k.
Proof.
  intros I.
  pose proof (inv_value_fresh odd_state k 0%nat _ odd_payload I eq_refl eq_refl) as F.
  cbn in F. inversion F as [|? ? H _]. apply H. reflexivity.
Qed.

Print Assumptions make_mut_sem_inv.
Print Assumptions try_unwrap_sem_inv.
Print Assumptions odd_state_not_inv.
