(** * Address arithmetic of the raw-pointer API of rc.rs (hand written, static).

    Addresses are [usize] values, arithmetic wraps modulo 2^64 exactly as
    [as usize] casts, [usize] subtraction in release builds, and
    [<*mut u8>::offset] on the address do.  The layout of [#[repr(C)] struct
    RcBox<T>] is the C rule: fields in declaration order, each at the next
    multiple of its alignment; the struct is as aligned as its most aligned
    field.  Sizes and alignments of the field types are parameters. *)
From Coq Require Import ZArith List String Bool Lia.
Import ListNotations.
Local Open Scope Z_scope.

Definition WORD : Z := 18446744073709551616.          (* 2^64 *)
Definition USIZE_MAX : Z := 18446744073709551615.
Definition wrap (x : Z) : Z := x mod WORD.
Definition wadd (a b : Z) : Z := wrap (a + b).
Definition wsub (a b : Z) : Z := wrap (a - b).
(** [x as isize] of a usize *)
Definition to_isize (u : Z) : Z := if u <? 9223372036854775808 then u else u - WORD.
(** [(p as *mut u8).offset(d)]: the address moves by the signed [d] *)
Definition ptr_offset (a d : Z) : Z := wrap (a + d).
Definition in_usize (x : Z) : Prop := 0 <= x < WORD.

(** ** field types of RcBox and the C layout rule *)
Inductive fty := TCellUsize | TLinks | TValue | TOther.

Record tyinfo := { sz : Z; al : Z }.

Definition round_up (x a : Z) : Z := ((x + a - 1) / a) * a.

(** offsets of the fields, in declaration order, starting at [cur] *)
Fixpoint layout_c (info : fty -> tyinfo) (fs : list (string * fty)) (cur : Z) : list (string * Z) * Z :=
  match fs with
  | [] => ([], cur)
  | (name, t) :: fs' =>
      let o := round_up cur (al (info t)) in
      let '(rest, e) := layout_c info fs' (o + sz (info t)) in
      ((name, o) :: rest, e)
  end.

Fixpoint lookup (l : list (string * Z)) (name : string) : Z :=
  match l with
  | [] => -1
  | (n, o) :: l' => if String.eqb n name then o else lookup l' name
  end.

Definition offset_of (info : fty -> tyinfo) (fs : list (string * fty)) (name : string) : Z :=
  lookup (fst (layout_c info fs 0)) name.

Definition struct_align (info : fty -> tyinfo) (fs : list (string * fty)) : Z :=
  fold_right (fun f m => Z.max (al (info (snd f))) m) 1 fs.

Definition struct_size (info : fty -> tyinfo) (fs : list (string * fty)) : Z :=
  round_up (snd (layout_c info fs 0)) (struct_align info fs).

Definition pow2 (a : Z) : Prop := exists k, 0 <= k /\ a = 2 ^ k.
