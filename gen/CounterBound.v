(** * Counters grow by at most a constant per elementary step: the dynamic
    side condition [hist_fits] of TranslatedMachine.v follows from a STATIC
    arithmetic bound on fuel and history length (hand written).

    [cmax h] is the largest counter (strong or weak) of any box of [h],
    released boxes included.  Decrements, table operations and the teardown
    functions never increase a counter; [inc_strong] / [inc_weak] add one;
    [make_mut] on a shared object clones the value, i.e. one increment per
    handle in the value's slot vector, possibly all on the same object.  Hence
    one elementary step adds at most (the length of the longest slot vector
    among the values in the heap, at least NSLOTS) to [cmax].

    The slot vectors of a heap built by the machine have NSLOTS entries; an
    arbitrary heap may hold longer ones ([make_mut_exceeds_kstep] below), so the
    bound by the constant [KSTEP] = NSLOTS needs the hypothesis [slots_ok]
    (Termination.hb NSLOTS: every value in the heap has at most NSLOTS slots).
    That hypothesis is preserved by every step (Termination.step_decreases)
    and holds of [init_state].  The general theorems ([*_bnd], parameter [M])
    are unconditional in the sense that [M] may be taken as
    [Termination.slot_bound c]. *)
From Coq Require Import NArith List Bool Lia. Import ListNotations.
From CR Require Import Base Atomic Machine HeapFacts Termination.
From CR Require Import Tokens InvDef ActBase StepInv RunInv.
From Gen Require Import Counters CountersProofs TranslatedMachine.
Local Open Scope N_scope.

(** ** 1. The largest counter of a heap *)
Definition cnt_val (c : scount) : N := match c with Cnt n => n | Uninit => 0 end.

Definition bmax (b : box) : N := N.max (cnt_val (strong b)) (weak b).

Fixpoint cmax (h : heap) : N :=
  match h with
  | [] => 0
  | b :: h' => N.max (bmax b) (cmax h')
  end.

Definition KSTEP : N := N.of_nat NSLOTS.

Definition outcome_state (x : outcome) : state :=
  match x with Running c => st c | Finished s _ => s | Halted s _ => s end.

(** every counter is at most [K] *)
Definition bnd (K : N) (h : heap) : Prop := Forall (fun b => bmax b <= K) h.

Lemma bnd_cmax K h : bnd K h <-> cmax h <= K.
Proof.
  unfold bnd. induction h as [|b h IH]; cbn [cmax].
  - split; [intros _; lia|constructor].
  - split.
    + intros H. inversion H as [|? ? H1 H2]; subst. apply IH in H2. lia.
    + intros H. constructor; [lia|apply IH; lia].
Qed.

Lemma bnd_self h : bnd (cmax h) h.
Proof. apply bnd_cmax. lia. Qed.

Lemma bnd_mono K K' h : K <= K' -> bnd K h -> bnd K' h.
Proof. intros HK. unfold bnd. apply Forall_impl. intros b Hb. lia. Qed.

Lemma bnd_nth K h o b : bnd K h -> nth_error h o = Some b -> bmax b <= K.
Proof.
  unfold bnd. intros H Hn. rewrite Forall_forall in H. apply H. eapply nth_error_In. exact Hn.
Qed.

Lemma bnd_getb K h o b : bnd K h -> getb h o = Ok b -> bmax b <= K.
Proof. intros H G. apply getb_ok in G as [G _]. eapply bnd_nth; eauto. Qed.

Lemma bnd_upd K h o b : bnd K h -> bmax b <= K -> bnd K (setb h o b).
Proof.
  unfold bnd, setb. intros H Hb. revert o.
  induction H as [|x l Hx Hl IH]; intros [|o]; cbn [upd]; constructor; auto.
Qed.

Lemma bnd_app K h b : bnd K h -> bmax b <= K -> bnd K (h ++ [b]).
Proof. unfold bnd. intros H Hb. apply Forall_app. split; [exact H|constructor; [exact Hb|constructor]]. Qed.

(** replacing a box by one whose counters are not larger *)
Lemma bnd_set_le K h o b b' : bnd K h -> getb h o = Ok b -> bmax b' <= bmax b -> bnd K (setb h o b').
Proof. intros B G L. apply bnd_upd; [exact B|]. pose proof (bnd_getb _ _ _ _ B G). lia. Qed.

Lemma bnd_set_le_nth K h o b b' :
  bnd K h -> nth_error h o = Some b -> bmax b' <= bmax b -> bnd K (setb h o b').
Proof. intros B G L. apply bnd_upd; [exact B|]. pose proof (bnd_nth _ _ _ _ B G). lia. Qed.

Ltac dmh H :=
  repeat (unfold Base.bind in H;
          match type of H with
          | match ?x with _ => _ end = _ => let E := fresh "E" in destruct x eqn:E; try discriminate H
          end).

Ltac bm := unfold bmax; cbn [strong weak with_strong with_weak with_links with_talloc with_value with_freed cnt_val];
           try lia.

(** ** 2. The functions of Atomic.v *)
Lemma inc_strong_bnd K h o h' : inc_strong h o = Ok h' -> bnd K h -> bnd (K + 1) h'.
Proof.
  unfold inc_strong, Base.bind. intros H B.
  destruct (getb h o) as [b|] eqn:G; [|discriminate].
  pose proof (bnd_getb _ _ _ _ B G) as Hb.
  destruct (strong b) as [n|] eqn:S; [|discriminate]. destruct (n =? 0); [discriminate|].
  injection H as <-.
  apply bnd_upd; [eapply bnd_mono; [|exact B]; lia|].
  revert Hb. bm. rewrite S. cbn [cnt_val]. lia.
Qed.

Lemma inc_weak_bnd K h o h' : inc_weak h o = Ok h' -> bnd K h -> bnd (K + 1) h'.
Proof.
  unfold inc_weak, Base.bind. intros H B.
  destruct (getb h o) as [b|] eqn:G; [|discriminate].
  pose proof (bnd_getb _ _ _ _ B G) as Hb.
  destruct (weak b =? 0); [discriminate|]. injection H as <-.
  apply bnd_upd; [eapply bnd_mono; [|exact B]; lia|].
  revert Hb. bm.
Qed.

Lemma dec_weak_free_bnd K h o h' : dec_weak_free h o = Ok h' -> bnd K h -> bnd K h'.
Proof.
  unfold dec_weak_free, Base.bind. intros H B.
  destruct (getb h o) as [b|] eqn:G; [|discriminate].
  destruct (weak b =? 0); [discriminate|]. injection H as <-.
  eapply bnd_set_le; [exact B|exact G|].
  destruct (weak b - 1 =? 0); bm.
Qed.

Lemma weak_drop_bnd K h w h' : weak_drop h w = Ok h' -> bnd K h -> bnd K h'.
Proof.
  destruct w as [o|]; unfold weak_drop; [apply dec_weak_free_bnd|].
  intros H; injection H as <-. auto.
Qed.

Lemma links_insert_bnd K h o l h' : links_insert h o l = Ok h' -> bnd K h -> bnd K h'.
Proof.
  unfold links_insert, Base.bind. intros H B.
  destruct (getb h o) as [b|] eqn:G; [|discriminate].
  destruct (links b) as [t|]; [|discriminate]. injection H as <-.
  eapply bnd_set_le; [exact B|exact G|]. bm.
Qed.

Lemma set_links_bnd K h o t h' : set_links h o t = Ok h' -> bnd K h -> bnd K h'.
Proof.
  unfold set_links, Base.bind. intros H B.
  destruct (getb h o) as [b|] eqn:G; [|discriminate]. injection H as <-.
  eapply bnd_set_le; [exact B|exact G|]. bm.
Qed.

Lemma links_remove_bnd K h o l n h' : links_remove h o l n = Ok h' -> bnd K h -> bnd K h'.
Proof.
  unfold links_remove. intros H B. unfold Base.bind in H.
  destruct (get_links h o) as [t|]; [|discriminate]. eapply set_links_bnd; eauto.
Qed.

Lemma adopt_bnd K h same a b h' : adopt h same a b = Ok h' -> bnd K h -> bnd K h'.
Proof.
  unfold adopt. intros H B. destruct same; [eapply links_insert_bnd; eauto|].
  unfold Base.bind in H. destruct (links_insert h a (b, Fwd)) as [h1|] eqn:E1; [|discriminate].
  eapply links_insert_bnd; [exact H|]. eapply links_insert_bnd; eauto.
Qed.

Lemma unadopt_bnd K h same a b h' : unadopt h same a b = Ok h' -> bnd K h -> bnd K h'.
Proof.
  unfold unadopt. intros H B. destruct same; [eapply links_remove_bnd; eauto|].
  unfold Base.bind in H. destruct (links_remove h a (b, Fwd) 1) as [h1|] eqn:E1; [|discriminate].
  eapply links_remove_bnd; [exact H|]. eapply links_remove_bnd; eauto.
Qed.

(** ([purge_loop], [clone_slots], [weak_drop] are [simpl never] once EffectsSem / EffectsSemRc are loaded) *)
Lemma purge_loop_nil h this : purge_loop h this [] = Ok h.
Proof. reflexivity. Qed.

Lemma purge_loop_cons h this x kd n rest :
  purge_loop h this (((x, kd), n) :: rest) =
  if Nat.eqb x this then purge_loop h this rest
  else Base.bind (links_remove h x (this, Fwd) n) (fun h1 =>
       Base.bind (links_remove h1 x (this, Bwd) n) (fun h2 => purge_loop h2 this rest)).
Proof. reflexivity. Qed.

Lemma purge_loop_bnd K this entries : forall h h', purge_loop h this entries = Ok h' -> bnd K h -> bnd K h'.
Proof.
  induction entries as [|[[x kd] n] rest IH]; intros h h' H B.
  - rewrite purge_loop_nil in H. injection H as <-. exact B.
  - rewrite purge_loop_cons in H. destruct (Nat.eqb x this); [eapply IH; eauto|].
    unfold Base.bind in H.
    destruct (links_remove h x (this, Fwd) n) as [h1|] eqn:E1; [|discriminate].
    destruct (links_remove h1 x (this, Bwd) n) as [h2|] eqn:E2; [|discriminate].
    eapply IH; [exact H|]. eapply links_remove_bnd; [exact E2|]. eapply links_remove_bnd; eauto.
Qed.

Lemma purge_peers_bnd K h this h' : purge_peers h this = Ok h' -> bnd K h -> bnd K h'.
Proof.
  unfold purge_peers, Base.bind. intros H B.
  destruct (get_links h this) as [t|]; [|discriminate]. eapply purge_loop_bnd; eauto.
Qed.

Lemma release_links_bnd K h o h' : release_links h o = Ok h' -> bnd K h -> bnd K h'.
Proof.
  unfold release_links. intros H B. unfold Base.bind in H.
  destruct (purge_peers h o) as [h1|] eqn:E1; [|discriminate].
  pose proof (purge_peers_bnd _ _ _ _ E1 B) as B1.
  destruct (getb h1 o) as [b|] eqn:G; [|discriminate].
  destruct (links b) as [t|]; [|discriminate].
  injection H as <-. eapply bnd_set_le; [exact B1|exact G|]. bm.
Qed.

Lemma bust_one_bnd K h keys k c h' : bust_one h keys k c = Ok h' -> bnd K h -> bnd K h'.
Proof.
  unfold bust_one. intros H B. unfold Base.bind in H.
  destruct (getb h k) as [b|] eqn:G; [|discriminate].
  destruct (links b) as [t|]; [|discriminate].
  cbn [strong with_links] in H. destruct (strong b) as [n|] eqn:S; [|discriminate].
  injection H as <-. eapply bnd_set_le; [exact B|exact G|]. bm. rewrite S. cbn [cnt_val]. lia.
Qed.

Lemma bust_all_bnd K keys cyc : forall h h', bust_all h keys cyc = Ok h' -> bnd K h -> bnd K h'.
Proof.
  induction cyc as [|[k c] cyc IH]; intros h h' H B; cbn [bust_all] in H.
  - injection H as <-. exact B.
  - unfold Base.bind in H. destruct (bust_one h keys k c) as [h1|] eqn:E1; [|discriminate].
    eapply IH; [exact H|]. eapply bust_one_bnd; eauto.
Qed.

Lemma gather_bnd K keys : forall h acc h' inn, gather h keys acc = Ok (h', inn) -> bnd K h -> bnd K h'.
Proof.
  induction keys as [|k keys IH]; intros h acc h' inn H B; cbn [gather] in H.
  - injection H as <- _. exact B.
  - unfold Base.bind in H. destruct (getb h k) as [b|] eqn:G; [|discriminate].
    destruct (negb (is_dead (strong b))); [eapply IH; eauto|].
    destruct (is_uninit (strong b)); [eapply IH; eauto|].
    destruct (value b) as [v|]; [|discriminate]. destruct (links b) as [t|]; [|discriminate].
    eapply IH; [exact H|]. eapply bnd_set_le; [exact B|exact G|]. bm.
Qed.

Lemma finish_group_bnd K keys : forall h h', finish_group h keys = Ok h' -> bnd K h -> bnd K h'.
Proof.
  induction keys as [|k keys IH]; intros h h' H B; cbn [finish_group] in H.
  - injection H as <-. exact B.
  - unfold Base.bind in H. destruct (getb h k) as [b|] eqn:G; [|discriminate].
    destruct (is_dead (strong b)); [|eapply IH; eauto].
    destruct (dec_weak_free h k) as [h1|] eqn:E1; [|discriminate].
    eapply IH; [exact H|]. eapply dec_weak_free_bnd; eauto.
Qed.

(** [Clone for Node]: one increment per handle *)
Lemma clone_slots_cons h sl ss :
  clone_slots h (sl :: ss) =
  match sl with
  | SStrong o => Base.bind (inc_strong h o) (fun h1 => clone_slots h1 ss)
  | SWeak (Some o) => Base.bind (inc_weak h o) (fun h1 => clone_slots h1 ss)
  | _ => clone_slots h ss
  end.
Proof. destruct sl as [o|[o|]|]; reflexivity. Qed.

Lemma clone_slots_bnd ss : forall K h h',
  clone_slots h ss = Ok h' -> bnd K h -> bnd (K + N.of_nat (length ss)) h'.
Proof.
  induction ss as [|sl ss IH]; intros K h h' H B.
  - change (clone_slots h []) with (Ok h) in H. injection H as <-. eapply bnd_mono; [|exact B]. cbn [length]. lia.
  - rewrite clone_slots_cons in H. cbn [length]. rewrite Nat2N.inj_succ.
    destruct sl as [o|[o|]|]; unfold Base.bind in H.
    + destruct (inc_strong h o) as [h1|] eqn:E1; [|discriminate].
      eapply bnd_mono; [|eapply IH; [exact H|eapply inc_strong_bnd; eauto]]. lia.
    + destruct (inc_weak h o) as [h1|] eqn:E1; [|discriminate].
      eapply bnd_mono; [|eapply IH; [exact H|eapply inc_weak_bnd; eauto]]. lia.
    + eapply bnd_mono; [|eapply IH; eauto]. lia.
    + eapply bnd_mono; [|eapply IH; eauto]. lia.
Qed.

(** ** 3. The machine *)
Lemma write_slot_bnd K s self ow k sl s1 self1 :
  write_slot s self ow k sl = (s1, self1) -> bnd K (heap_of s) -> bnd K (heap_of s1).
Proof.
  unfold write_slot. intros H B. destruct ow as [o p|p].
  - destruct (nth_error (heap_of s) o) as [b|] eqn:G; injection H as <- _; [|exact B].
    cbn [heap_of set_heap mk]. eapply bnd_set_le_nth; [exact B|exact G|]. bm.
  - injection H as <- _. exact B.
Qed.

Lemma start_unreachable_bnd K s o s1 push :
  start_unreachable s o = Ok (s1, push) -> bnd K (heap_of s) -> bnd K (heap_of s1).
Proof.
  unfold start_unreachable, Base.bind. intros H B.
  destruct (getb (heap_of s) o) as [b|] eqn:G; [|discriminate].
  destruct (value b) as [v|]; [|discriminate]. injection H as <- _.
  cbn [heap_of set_heap mk]. eapply bnd_set_le; [exact B|exact G|]. bm.
Qed.

Lemma drop_strong_bnd pri K s o s1 push :
  drop_strong pri s o = Ok (s1, push) -> bnd K (heap_of s) -> bnd K (heap_of s1).
Proof.
  unfold drop_strong. intros H B. unfold Base.bind in H.
  destruct (getb (heap_of s) o) as [b|] eqn:G; [|discriminate].
  destruct (strong b) as [n|] eqn:S; [|injection H as <- _; exact B].
  destruct (n =? 0); [injection H as <- _; exact B|].
  set (h1 := setb (heap_of s) o (with_strong b (Cnt (n - 1)))) in *.
  assert (B1 : bnd K h1).
  { eapply bnd_set_le; [exact B|exact G|]. bm. rewrite S. cbn [cnt_val]. lia. }
  destruct (get_links h1 o) as [t|]; [|discriminate].
  destruct t as [|e t].
  - destruct (n - 1 =? 0).
    + eapply start_unreachable_bnd; [exact H|exact B1].
    + injection H as <- _. exact B1.
  - destruct (n - 1 =? 0).
    + destruct (purge_loop h1 o (e :: t)) as [h2|] eqn:E2; [|discriminate].
      destruct (set_links h2 o []) as [h3|] eqn:E3; [|discriminate].
      eapply start_unreachable_bnd; [exact H|]. cbn [heap_of set_heap mk].
      eapply set_links_bnd; [exact E3|]. eapply purge_loop_bnd; eauto.
    + destruct (orphaned_cycle h1 o) as [[[oc pops] visits]|]; [|discriminate].
      destruct oc as [cyc|]; [|injection H as <- _; exact B1].
      destruct (bust_all h1 (map fst (order_cycle pri cyc)) (order_cycle pri cyc)) as [h2|] eqn:E2; [|discriminate].
      destruct (gather h2 (map fst (order_cycle pri cyc)) []) as [[h3 inn]|] eqn:E3; [|discriminate].
      injection H as <- _. cbn [heap_of set_heap add_ev mk].
      eapply gather_bnd; [exact E3|]. eapply bust_all_bnd; eauto.
Qed.

Lemma bmax_new_box p : bmax (new_box p) = 1.
Proof. reflexivity. Qed.

Lemma exec_new_bnd K s self dst sc s1 self1 r push :
  exec_new s self dst sc = AO s1 self1 r push -> 1 <= K -> bnd K (heap_of s) -> bnd K (heap_of s1).
Proof.
  unfold exec_new, invalid. intros H HK B. destruct (reg_free s dst); injection H as <- _ _ _; [|exact B].
  cbn [heap_of set_reg set_heap mk]. apply bnd_app; [exact B|]. rewrite bmax_new_box. exact HK.
Qed.

Lemma act_try_unwrap_bnd K s self r0 dst s1 self1 r push :
  exec_act s self (ATryUnwrap r0 dst) = AO s1 self1 r push -> bnd K (heap_of s) -> bnd K (heap_of s1).
Proof.
  intros H B. cbn [exec_act] in H. unfold invalid in H.
  destruct (reg_get s r0) as [o|w|o|p|]; try (injection H as <- _ _ _; exact B).
  destruct (reg_free s dst); [|injection H as <- _ _ _; exact B].
  destruct (getb (heap_of s) o) as [b|] eqn:G; [|discriminate].
  destruct (strong b) as [n|]; [|injection H as <- _ _ _; exact B].
  destruct n as [|q]; [injection H as <- _ _ _; exact B|].
  destruct q as [q|q|]; try (injection H as <- _ _ _; exact B).
  unfold lift in H.
  destruct (release_links (heap_of s) o) as [h1|] eqn:E1; [|discriminate].
  cbn [heap_of set_heap mk] in H.
  destruct (getb h1 o) as [b1|] eqn:G1; [|discriminate].
  destruct (value b1) as [p|]; [|discriminate].
  destruct (weak_drop (setb h1 o (with_strong (with_value b1 None) (Cnt 0))) (Some o)) as [h3|] eqn:E3; [|discriminate].
  injection H as <- _ _ _. cbn [heap_of set_reg set_heap add_ev mk].
  eapply weak_drop_bnd; [exact E3|]. eapply bnd_set_le; [eapply release_links_bnd; eauto|exact G1|]. bm.
Qed.

Lemma act_make_mut_bnd M K s self r0 s1 self1 r push :
  (4 <= M)%nat -> hb M (heap_of s) ->
  exec_act s self (AMakeMut r0) = AO s1 self1 r push -> bnd K (heap_of s) -> bnd (K + N.of_nat M) (heap_of s1).
Proof.
  intros HM HB H B. cbn [exec_act] in H. unfold invalid in H.
  assert (B' : bnd (K + N.of_nat M) (heap_of s)) by (eapply bnd_mono; [|exact B]; lia).
  destruct (reg_get s r0) as [o|w|o|p|]; try (injection H as <- _ _ _; exact B').
  destruct (getb (heap_of s) o) as [b|] eqn:G; [|discriminate].
  (* the clone branch *)
  assert (D : forall x,
    match value b with
    | Some p =>
        lift s self (clone_slots (heap_of s) (cloned_slots (slots p))) (fun s2 =>
          AO (set_reg (set_heap s2 (heap_of s2 ++
                 [new_box {| pid := length (heap_of s); slots := cloned_slots (slots p);
                             script := [] |}]))
                r0 (RStrong (length (heap_of s)))) self RUnit [FDropStrong o])
    | None => AHalt (HFault FkValueMoved o)
    end = x -> x = AO s1 self1 r push -> bnd (K + N.of_nat M) (heap_of s1)).
  { intros x <- H'. destruct (value b) as [p|] eqn:V; [|discriminate]. unfold lift in H'.
    destruct (clone_slots (heap_of s) (cloned_slots (slots p))) as [h1|] eqn:E1; [|discriminate].
    injection H' as <- _ _ _. cbn [heap_of set_reg set_heap mk].
    pose proof (cloned_slots_length (slots p)) as Hc.
    apply vals_getb in G. rewrite V in G. pose proof (vb_nth _ _ _ _ HB G) as Hp.
    apply bnd_app; [|rewrite bmax_new_box; lia].
    eapply bnd_mono; [|eapply clone_slots_bnd; [exact E1|exact B]]. lia. }
  destruct (strong b) as [n|]; [|exact (D _ eq_refl H)].
  destruct n as [|q]; [exact (D _ eq_refl H)|].
  destruct q as [q|q|]; try (exact (D _ eq_refl H)). clear D.
  destruct (weak b =? 0); [discriminate|].
  destruct (weak b =? 1); [injection H as <- _ _ _; exact B'|].
  destruct (value b) as [p|]; [|discriminate].
  unfold lift in H.
  set (p' := {| pid := length (heap_of s); slots := slots p; script := script p |}) in *.
  destruct (release_links (setb (heap_of s) o (with_value b None) ++ [new_box p']) o)
    as [h1|] eqn:E1; [|discriminate].
  cbn [heap_of set_heap mk] in H.
  destruct (getb h1 o) as [b1|] eqn:G1; [|discriminate].
  injection H as <- _ _ _. cbn [heap_of set_reg set_heap add_ev mk].
  eapply bnd_set_le; [eapply release_links_bnd; [exact E1|]|exact G1|bm].
  apply bnd_app; [|rewrite bmax_new_box; lia].
  eapply bnd_set_le; [exact B'|exact G|bm].
Qed.

Ltac bnd_step B :=
  match goal with
  | |- bnd _ (heap_of ?s) => exact B
  | E : inc_strong _ _ = Ok ?h |- bnd _ ?h => eapply bnd_mono; [|eapply inc_strong_bnd; [exact E|exact B]]; lia
  | E : inc_weak _ _ = Ok ?h |- bnd _ ?h => eapply bnd_mono; [|eapply inc_weak_bnd; [exact E|exact B]]; lia
  | E : weak_drop _ _ = Ok ?h |- bnd _ ?h => eapply bnd_mono; [|eapply weak_drop_bnd; [exact E|exact B]]; lia
  | E : adopt _ _ _ _ = Ok ?h |- bnd _ ?h => eapply bnd_mono; [|eapply adopt_bnd; [exact E|exact B]]; lia
  | E : unadopt _ _ _ _ = Ok ?h |- bnd _ ?h => eapply bnd_mono; [|eapply unadopt_bnd; [exact E|exact B]]; lia
  | E : write_slot _ _ _ _ _ = (?s, _) |- bnd _ (heap_of ?s) =>
      eapply bnd_mono; [|eapply write_slot_bnd; [exact E|cbn [heap_of set_reg mk]; exact B]]; lia
  end.

(** one action adds at most [M] (at least NSLOTS) to every counter, when the
    values in the heap have at most [M] slots *)
Lemma exec_act_bnd M K s self a s1 self1 r push :
  (4 <= M)%nat -> hb M (heap_of s) ->
  exec_act s self a = AO s1 self1 r push -> bnd K (heap_of s) -> bnd (K + N.of_nat M) (heap_of s1).
Proof.
  intros HM HB H B.
  assert (B' : bnd (K + N.of_nat M) (heap_of s)) by (eapply bnd_mono; [|exact B]; lia).
  destruct a;
    first [ eapply exec_new_bnd; [exact H|lia|exact B']
          | eapply bnd_mono; [|eapply act_try_unwrap_bnd; [exact H|exact B]]; lia
          | eapply act_make_mut_bnd; eassumption
          | idtac ].
  all: cbn [exec_act] in H; unfold lift, invalid in H.
  all: repeat dm H; try discriminate H; injection H as <- _ _ _.
  all: cbn [heap_of set_reg set_heap add_ev mk]; try exact B'.
  all: bnd_step B.
Qed.

(** a step that stops leaves the state alone *)
Lemma step_stop_state pri c :
  match step pri c with
  | Running _ => True
  | Finished s _ => s = st c
  | Halted s _ => s = st c
  end.
Proof.
  destruct c as [s k u]. unfold step. cbn [st stack unw].
  destruct k as [|f k]; [reflexivity|]. destruct f as [o|p|p pc|ss|o|es|o|keys|r0].
  - destruct (drop_strong pri s o) as [[s1 push]|]; [exact I|reflexivity].
  - exact I.
  - destruct pc as [|a pc]; [exact I|].
    destruct (exec_act s (Some p) a) as [s1 self r push| |]; [exact I|reflexivity|].
    destruct u; [reflexivity|]. destruct (unwind_stack s k). exact I.
  - destruct ss as [|[o|w|] ss]; try exact I.
    destruct (weak_drop (heap_of s) w); [exact I|reflexivity].
  - destruct (getb (heap_of s) o) as [b|]; [|reflexivity].
    destruct (links b); [|reflexivity].
    destruct (dec_weak_free (setb (heap_of s) o (with_links b None)) o); [exact I|reflexivity].
  - destruct es as [|[[o v] t] es]; exact I.
  - exact I.
  - destruct (finish_group (heap_of s) keys); [exact I|reflexivity].
  - exact I.
Qed.

Lemma step_bnd pri M K c c' :
  (4 <= M)%nat -> hb M (heap_of (st c)) -> step pri c = Running c' ->
  bnd K (heap_of (st c)) -> bnd (K + N.of_nat M) (heap_of (st c')).
Proof.
  intros HM HB H B. destruct c as [s k u]. unfold step in H. cbn [st stack unw] in *.
  assert (B' : bnd (K + N.of_nat M) (heap_of s)) by (eapply bnd_mono; [|exact B]; lia).
  destruct k as [|f k]; [discriminate|]. destruct f as [o|p|p pc|ss|o|es|o|keys|r0].
  - destruct (drop_strong pri s o) as [[s1 push]|] eqn:E; [|discriminate].
    injection H as <-. cbn [st]. eapply bnd_mono; [|eapply drop_strong_bnd; [exact E|exact B]]. lia.
  - injection H as <-. exact B'.
  - destruct pc as [|a pc]; [injection H as <-; exact B'|].
    destruct (exec_act s (Some p) a) as [s1 self r push| |] eqn:E; [|discriminate|].
    + injection H as <-. cbn [st]. eapply exec_act_bnd; eassumption.
    + destruct u; [discriminate|]. destruct (unwind_stack s k) as [s1 k1] eqn:EU.
      injection H as <-. cbn [st]. apply (unwind_stack_mu 0%nat) in EU as (E1 & _ & _).
      rewrite E1. exact B'.
  - destruct ss as [|[o|w|] ss]; try (injection H as <-; exact B').
    destruct (weak_drop (heap_of s) w) as [h1|] eqn:E; [|discriminate].
    injection H as <-. cbn [st heap_of set_heap mk].
    eapply bnd_mono; [|eapply weak_drop_bnd; [exact E|exact B]]. lia.
  - destruct (getb (heap_of s) o) as [b|] eqn:G; [|discriminate].
    destruct (links b) as [t|]; [|discriminate].
    destruct (dec_weak_free (setb (heap_of s) o (with_links b None)) o) as [h2|] eqn:E; [|discriminate].
    injection H as <-. cbn [st heap_of set_heap add_ev mk].
    eapply dec_weak_free_bnd; [exact E|]. eapply bnd_set_le; [exact B'|exact G|bm].
  - destruct es as [|[[o v] t] es]; injection H as <-; exact B'.
  - injection H as <-. exact B'.
  - destruct (finish_group (heap_of s) keys) as [h1|] eqn:E; [|discriminate].
    injection H as <-. cbn [st heap_of set_heap mk].
    eapply bnd_mono; [|eapply finish_group_bnd; [exact E|exact B]]. lia.
  - injection H as <-. exact B'.
Qed.

(** the slot bound is preserved (Termination) *)
Lemma step_hb pri M c c' :
  (4 <= M)%nat -> hb M (heap_of (st c)) -> step pri c = Running c' -> hb M (heap_of (st c')).
Proof.
  intros HM HB H.
  apply (step_decreases pri (10 + 4 * M)%nat M c c' HM (Nat.le_refl _) HB H).
Qed.

Lemma exec_act_hb M s self a s1 self1 r push :
  (4 <= M)%nat -> hb M (heap_of s) -> exec_act s self a = AO s1 self1 r push -> hb M (heap_of s1).
Proof. intros HM HB H. apply (exec_act_mu 0%nat M) in H; [|exact HM]. destruct H as (H1 & _). auto. Qed.

Lemma exec_new_hb M s self dst sc s1 self1 r push :
  (4 <= M)%nat -> hb M (heap_of s) -> exec_new s self dst sc = AO s1 self1 r push -> hb M (heap_of s1).
Proof.
  unfold exec_new, invalid. intros HM HB H. destruct (reg_free s dst); injection H as <- _ _ _; [|exact HB].
  unfold hb. cbn [heap_of set_reg set_heap mk]. rewrite vals_app. apply vb_app; [exact HB|].
  cbn [new_box value obnd slots]. change (length empty_slots) with 4%nat. exact HM.
Qed.

(** ** 4. Runs, calls, histories (general form: slot vectors of at most [M] entries) *)
Lemma run_bnd pri M : (4 <= M)%nat -> forall fuel c K,
  hb M (heap_of (st c)) -> bnd K (heap_of (st c)) ->
  hb M (heap_of (outcome_state (run pri fuel c))) /\
  bnd (K + N.of_nat M * N.of_nat fuel) (heap_of (outcome_state (run pri fuel c))).
Proof.
  intros HM. induction fuel as [|f IH]; intros c K HB B.
  - cbn [run outcome_state]. split; [exact HB|]. eapply bnd_mono; [|exact B]. lia.
  - cbn [run]. pose proof (step_stop_state pri c) as HS.
    destruct (step pri c) as [c'|s' b|s' e] eqn:E; cbn [outcome_state].
    + destruct (IH c' (K + N.of_nat M) (step_hb pri M c c' HM HB E) (step_bnd pri M K c c' HM HB E B))
        as [H1 H2].
      split; [exact H1|]. eapply bnd_mono; [|exact H2]. rewrite Nat2N.inj_succ. lia.
    + subst s'. split; [exact HB|]. eapply bnd_mono; [|exact B]. lia.
    + subst s'. split; [exact HB|]. eapply bnd_mono; [|exact B]. lia.
Qed.

Lemma op_start_bnd M K s o s1 self1 r push :
  (4 <= M)%nat -> RunInv.op_start s o = AO s1 self1 r push ->
  hb M (heap_of s) -> bnd K (heap_of s) ->
  hb M (heap_of s1) /\ bnd (K + N.of_nat M) (heap_of s1).
Proof.
  intros HM H HB B. destruct o as [a|dst sc]; cbn [RunInv.op_start] in H.
  - split; [eapply exec_act_hb; eassumption|eapply exec_act_bnd; eassumption].
  - split; [eapply exec_new_hb; eassumption|].
    eapply exec_new_bnd; [exact H|lia|]. eapply bnd_mono; [|exact B]. lia.
Qed.

Lemma exec_op_bnd pri M fuel K s o :
  (4 <= M)%nat -> hb M (heap_of s) -> bnd K (heap_of s) ->
  hb M (heap_of (fst (exec_op pri fuel s o))) /\
  bnd (K + N.of_nat M * (N.of_nat fuel + 1)) (heap_of (fst (exec_op pri fuel s o))).
Proof.
  intros HM HB B. unfold exec_op.
  change (match o with OAct a => exec_act s None a | ONewS dst sc => exec_new s None dst sc end)
    with (RunInv.op_start s o).
  assert (B' : bnd (K + N.of_nat M * (N.of_nat fuel + 1)) (heap_of s)) by (eapply bnd_mono; [|exact B]; lia).
  destruct (RunInv.op_start s o) as [s1 self1 r push|e|] eqn:E; cbn [fst]; [|split; assumption|split; assumption].
  destruct (op_start_bnd M K s o s1 self1 r push HM E HB B) as [HB1 B1].
  destruct (run_bnd pri M HM fuel {| st := s1; stack := push; unw := false |} (K + N.of_nat M) HB1 B1)
    as [H1 H2].
  assert (H3 : bnd (K + N.of_nat M * (N.of_nat fuel + 1))
                 (heap_of (outcome_state (run pri fuel {| st := s1; stack := push; unw := false |}))))
    by (eapply bnd_mono; [|exact H2]; lia).
  destruct (run pri fuel {| st := s1; stack := push; unw := false |}) as [c|s2 [|]|s2 e];
    cbn [fst outcome_state] in *; split; assumption.
Qed.

Lemma run_history_bnd M fuel : (4 <= M)%nat -> forall h s K,
  hb M (heap_of s) -> bnd K (heap_of s) ->
  hb M (heap_of (fst (run_history fuel s h))) /\
  bnd (K + N.of_nat M * (N.of_nat fuel + 1) * N.of_nat (length h)) (heap_of (fst (run_history fuel s h))).
Proof.
  intros HM. induction h as [|[o pri] h IH]; intros s K HB B.
  - cbn [run_history fst]. split; [exact HB|]. eapply bnd_mono; [|exact B]. lia.
  - cbn [run_history length]. rewrite Nat2N.inj_succ.
    destruct (exec_op_bnd pri M fuel K s o HM HB B) as [H1 H2].
    destruct (exec_op pri fuel s o) as [s1 r0]. cbn [fst] in H1, H2.
    destruct (IH s1 _ H1 H2) as [H3 H4].
    assert (H2' : bnd (K + N.of_nat M * (N.of_nat fuel + 1) * N.succ (N.of_nat (length h))) (heap_of s1))
      by (eapply bnd_mono; [|exact H2]; nia).
    destruct r0 as [res| |e|]; try (cbn [fst]; split; assumption).
    + destruct (run_history fuel s1 h) as [s2 rs]. cbn [fst] in *. split; [exact H3|].
      eapply bnd_mono; [|exact H4]. lia.
    + destruct (run_history fuel s1 h) as [s2 rs]. cbn [fst] in *. split; [exact H3|].
      eapply bnd_mono; [|exact H4]. lia.
Qed.

(** ** 5. The statements about [cmax]

    [slots_ok]: every value in the heap has at most NSLOTS slots.  It cannot be
    dropped ([make_mut_exceeds_kstep]); it is preserved ([step_slots_ok] ...)
    and holds initially ([slots_ok_init]). *)
Definition slots_ok (s : state) : Prop := hb NSLOTS (heap_of s).

Lemma KSTEP_val : KSTEP = 4.
Proof. reflexivity. Qed.

Lemma NSLOTS_ge : (4 <= NSLOTS)%nat.
Proof. apply Nat.le_refl. Qed.

Lemma slots_ok_init : slots_ok init_state.
Proof. unfold slots_ok, hb. cbn. constructor. Qed.

Lemma cmax_of_bnd h h' k : (forall K, bnd K h -> bnd (K + k) h') -> cmax h' <= cmax h + k.
Proof. intros H. apply bnd_cmax. apply H. apply bnd_self. Qed.

(** unconditional form: the bound is the longest slot vector in the heap (at least NSLOTS) *)
Theorem exec_act_cmax_gen s self a s1 self1 r push :
  exec_act s self a = AO s1 self1 r push ->
  cmax (heap_of s1) <= cmax (heap_of s) + N.of_nat (Nat.max NSLOTS (hmax (heap_of s))).
Proof.
  intros H. apply cmax_of_bnd. intros K. eapply exec_act_bnd; [|eapply hb_mono; [|apply hb_hmax]|exact H].
  - unfold NSLOTS. lia.
  - lia.
Qed.

Theorem exec_act_cmax s self a s1 self1 r push :
  slots_ok s ->
  exec_act s self a = AO s1 self1 r push -> cmax (heap_of s1) <= cmax (heap_of s) + KSTEP.
Proof. intros HB H. apply cmax_of_bnd. intros K. exact (exec_act_bnd NSLOTS K _ _ _ _ _ _ _ NSLOTS_ge HB H). Qed.

Theorem exec_new_cmax s self dst sc s1 self1 r push :
  exec_new s self dst sc = AO s1 self1 r push -> cmax (heap_of s1) <= cmax (heap_of s) + KSTEP.
Proof.
  intros H. apply cmax_of_bnd. intros K B. eapply exec_new_bnd; [exact H|rewrite KSTEP_val; lia|].
  eapply bnd_mono; [|exact B]. lia.
Qed.

Theorem step_cmax_gen pri c c' :
  step pri c = Running c' ->
  cmax (heap_of (st c')) <= cmax (heap_of (st c)) + N.of_nat (slot_bound c).
Proof.
  intros H. apply cmax_of_bnd. intros K. unfold slot_bound.
  eapply step_bnd; [|eapply hb_mono; [|apply hb_hmax]|exact H].
  - unfold NSLOTS. lia.
  - lia.
Qed.

Theorem step_cmax pri c c' :
  slots_ok (st c) ->
  step pri c = Running c' -> cmax (heap_of (st c')) <= cmax (heap_of (st c)) + KSTEP.
Proof. intros HB H. apply cmax_of_bnd. intros K. exact (step_bnd pri NSLOTS K c c' NSLOTS_ge HB H). Qed.

Theorem step_slots_ok pri c c' : slots_ok (st c) -> step pri c = Running c' -> slots_ok (st c').
Proof. intros HB H. exact (step_hb pri NSLOTS c c' NSLOTS_ge HB H). Qed.

Theorem run_cmax_gen pri fuel c :
  cmax (heap_of (outcome_state (run pri fuel c))) <=
  cmax (heap_of (st c)) + N.of_nat (slot_bound c) * N.of_nat fuel.
Proof.
  apply cmax_of_bnd. intros K B. apply run_bnd; [unfold slot_bound, NSLOTS; lia| |exact B].
  eapply hb_mono; [|apply hb_hmax]. unfold slot_bound. lia.
Qed.

Theorem run_cmax pri fuel c :
  slots_ok (st c) ->
  cmax (heap_of (outcome_state (run pri fuel c))) <= cmax (heap_of (st c)) + KSTEP * N.of_nat fuel.
Proof. intros HB. apply cmax_of_bnd. intros K B. apply (run_bnd pri NSLOTS NSLOTS_ge fuel c K HB B). Qed.

Theorem run_slots_ok pri fuel c : slots_ok (st c) -> slots_ok (outcome_state (run pri fuel c)).
Proof. intros HB. apply (run_bnd pri NSLOTS NSLOTS_ge fuel c _ HB (bnd_self _)). Qed.

Theorem exec_op_cmax pri fuel s o :
  slots_ok s ->
  cmax (heap_of (fst (exec_op pri fuel s o))) <= cmax (heap_of s) + KSTEP * (N.of_nat fuel + 1).
Proof. intros HB. apply cmax_of_bnd. intros K B. apply (exec_op_bnd pri NSLOTS fuel K s o NSLOTS_ge HB B). Qed.

Theorem exec_op_slots_ok pri fuel s o : slots_ok s -> slots_ok (fst (exec_op pri fuel s o)).
Proof. intros HB. apply (exec_op_bnd pri NSLOTS fuel _ s o NSLOTS_ge HB (bnd_self _)). Qed.

Theorem run_history_cmax fuel h s :
  slots_ok s ->
  cmax (heap_of (fst (run_history fuel s h))) <=
  cmax (heap_of s) + KSTEP * (N.of_nat fuel + 1) * N.of_nat (length h).
Proof. intros HB. apply cmax_of_bnd. intros K B. apply (run_history_bnd NSLOTS fuel NSLOTS_ge h s K HB B). Qed.

Theorem run_history_slots_ok fuel h s : slots_ok s -> slots_ok (fst (run_history fuel s h)).
Proof. intros HB. apply (run_history_bnd NSLOTS fuel NSLOTS_ge h s _ HB (bnd_self _)). Qed.

(** [slots_ok] cannot be dropped: a value with six handles to its own, shared
    object; [make_mut] clones it: six increments in one action *)
Definition wide_state : state :=
  mk [ {| strong := Cnt 2; weak := 1; links := Some []; talloc := false;
          value := Some {| pid := 0%nat; slots := repeat (SStrong 0%nat) 6; script := [] |};
          freed := false |} ]
     [RStrong 0%nat; REmpty] [].

Example make_mut_exceeds_kstep :
  exists s1 self1 r push,
    exec_act wide_state None (AMakeMut 0%nat) = AO s1 self1 r push /\
    cmax (heap_of wide_state) = 2 /\ cmax (heap_of s1) = 8 /\
    cmax (heap_of wide_state) + KSTEP < cmax (heap_of s1).
Proof. do 4 eexists. split; [vm_compute; reflexivity|]. vm_compute. repeat split. Qed.

(** ** 6. The discharge of [*_fits] *)
Definition LIMIT : N := MAXU - 1.

Lemma box_fits_of_bmax b : bmax b < LIMIT -> box_fits b = true.
Proof.
  unfold box_fits, LIMIT, bmax. rewrite MAXU_val. intros H. apply andb_true_iff. split.
  - destruct (strong b) as [n|]; [|reflexivity]. cbn [cnt_val] in H. apply N.ltb_lt. lia.
  - apply N.ltb_lt. lia.
Qed.

Theorem act_fits_of_cmax s self a : cmax (heap_of s) < LIMIT -> act_fits s self a = true.
Proof.
  intros H. unfold act_fits. destruct (act_cells_target s self a) as [o|]; [|reflexivity].
  destruct (getb (heap_of s) o) as [b|] eqn:G; [|reflexivity].
  apply box_fits_of_bmax. pose proof (bnd_getb _ _ _ _ (bnd_self _) G). lia.
Qed.

Theorem step_fits_of_cmax c : cmax (heap_of (st c)) < LIMIT -> step_fits c = true.
Proof.
  intros H. unfold step_fits. destruct (stack c) as [|f k]; [reflexivity|].
  destruct f; try reflexivity. destruct pc as [|a pc]; [reflexivity|]. apply act_fits_of_cmax. exact H.
Qed.

Theorem run_fits_of_cmax pri fuel : forall c,
  slots_ok (st c) ->
  cmax (heap_of (st c)) + KSTEP * N.of_nat fuel < LIMIT -> run_fits pri fuel c = true.
Proof.
  induction fuel as [|f IH]; intros c HB H; [reflexivity|].
  cbn [run_fits]. rewrite Nat2N.inj_succ in H. apply andb_true_iff. split.
  - apply step_fits_of_cmax. lia.
  - destruct (step pri c) as [c'|s' b|s' e] eqn:E; [|reflexivity|reflexivity].
    apply IH; [eapply step_slots_ok; eassumption|].
    pose proof (step_cmax pri c c' HB E). lia.
Qed.

Theorem op_fits_of_cmax pri fuel s o :
  slots_ok s ->
  cmax (heap_of s) + KSTEP * (N.of_nat fuel + 1) < LIMIT -> op_fits pri fuel s o = true.
Proof.
  intros HB H. unfold op_fits. apply andb_true_iff. split.
  - destruct o as [a|dst sc]; [|reflexivity]. apply act_fits_of_cmax. lia.
  - destruct (RunInv.op_start s o) as [s1 self1 r push|e|] eqn:E; [|reflexivity|reflexivity].
    destruct (op_start_bnd NSLOTS _ s o s1 self1 r push NSLOTS_ge E HB (bnd_self _)) as [HB1 B1].
    apply bnd_cmax in B1. fold KSTEP in B1.
    apply run_fits_of_cmax; cbn [st]; [exact HB1|lia].
Qed.

Theorem hist_fits_of_cmax fuel h : forall s,
  slots_ok s ->
  cmax (heap_of s) + KSTEP * (N.of_nat fuel + 1) * N.of_nat (length h) < LIMIT ->
  hist_fits fuel s h = true.
Proof.
  induction h as [|[o pri] h IH]; intros s HB H; [reflexivity|].
  cbn [hist_fits]. cbn [length] in H. rewrite Nat2N.inj_succ in H.
  set (A := KSTEP * (N.of_nat fuel + 1)) in *.
  apply andb_true_iff. split.
  - apply op_fits_of_cmax; [exact HB|]. fold A. nia.
  - pose proof (exec_op_cmax pri fuel s o HB) as C. pose proof (exec_op_slots_ok pri fuel s o HB) as HB1.
    fold A in C. destruct (exec_op pri fuel s o) as [s1 r0]. cbn [fst] in C, HB1.
    destruct r0 as [res| |e|]; try reflexivity; (apply IH; [exact HB1|nia]).
Qed.

(** ** 7. The payoff: no dynamic hypothesis besides [hist_ok] *)
Theorem trun_history_is_run_history_bounded stk fuel h :
  hist_ok fuel init_state h = true ->
  KSTEP * (N.of_nat fuel + 1) * N.of_nat (length h) < LIMIT ->
  trun_history stk fuel init_state h = run_history fuel init_state h.
Proof.
  intros Hok HL. apply trun_history_is_run_history; [exact Inv_init|exact Hok|].
  apply hist_fits_of_cmax; [exact slots_ok_init|]. change (cmax (heap_of init_state)) with 0. lia.
Qed.

Theorem translated_machine_is_safe_bounded stk fuel h :
  hist_ok fuel init_state h = true ->
  KSTEP * (N.of_nat fuel + 1) * N.of_nat (length h) < LIMIT ->
  Forall (fun r => match r with OHalt e => e = HAbort | _ => True end)
         (snd (trun_history stk fuel init_state h)) /\
  (forallb completed (snd (trun_history stk fuel init_state h)) = true ->
   Inv (fst (trun_history stk fuel init_state h)) []).
Proof.
  intros Hok HL. apply translated_machine_is_safe; [exact Hok|].
  apply hist_fits_of_cmax; [exact slots_ok_init|]. change (cmax (heap_of init_state)) with 0. lia.
Qed.

Corollary translated_machine_never_stuck_bounded stk stk' fuel h :
  hist_ok fuel init_state h = true ->
  KSTEP * (N.of_nat fuel + 1) * N.of_nat (length h) < LIMIT ->
  trun_history stk fuel init_state h = trun_history stk' fuel init_state h.
Proof.
  intros Hok HL. rewrite !(trun_history_is_run_history_bounded _ fuel h Hok HL). reflexivity.
Qed.

(** a million calls of a million steps each are far below the limit *)
Example bound_is_generous : KSTEP * (1000000 + 1) * 1000000 < LIMIT.
Proof. unfold LIMIT. rewrite MAXU_val, KSTEP_val. lia. Qed.

Print Assumptions exec_act_cmax_gen.
Print Assumptions exec_act_cmax.
Print Assumptions exec_new_cmax.
Print Assumptions step_cmax_gen.
Print Assumptions step_cmax.
Print Assumptions run_cmax_gen.
Print Assumptions run_cmax.
Print Assumptions exec_op_cmax.
Print Assumptions run_history_cmax.
Print Assumptions run_history_slots_ok.
Print Assumptions make_mut_exceeds_kstep.
Print Assumptions act_fits_of_cmax.
Print Assumptions step_fits_of_cmax.
Print Assumptions run_fits_of_cmax.
Print Assumptions op_fits_of_cmax.
Print Assumptions hist_fits_of_cmax.
Print Assumptions trun_history_is_run_history_bounded.
Print Assumptions translated_machine_is_safe_bounded.
Print Assumptions translated_machine_never_stuck_bounded.
Print Assumptions bound_is_generous.
