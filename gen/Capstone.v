(** * The safety theorem, stated about the translated source.

    [step_inv] (coq/Inv/StepInv.v) is about the hand-written model;
    [step_drop_strong_trees] (gen/DropCompose.v) says that the model's step on
    [FDropStrong o] is what the TRANSLATED [Rc::drop] -- the dispatch and the
    effect trees of its callees, regenerated from /repo/src/drop.rs on every
    run -- computes. Together: from any configuration satisfying the invariant
    and the checked hypotheses (C01's precondition: the traced objects record
    no more adoptions than they hold handles), the translated [Rc::drop] never
    touches released or moved-out memory (it cannot fault) and re-establishes
    the invariant, whatever the hash iteration order [pri]. All consequences
    of [Inv] (C01: reachable objects alive; C05: upgrade iff alive; C06:
    counts exact; C08: tables consistent) then hold of the state it leaves. *)
From Coq Require Import List. Import ListNotations.
From CR Require Import Base Atomic Machine InvDef StepInv.
From CR Require Import ActBase ActConsume.
From Gen Require Import EffectsLang EffectsGen EffectsProofs EffectsSem DropLang DropGen DropProofs DropCompose.
From Gen Require Import EffectsSemRc EffectsSemRcInv RcCompose.

Theorem translated_rc_drop_is_safe stk pri s o k u :
  Inv s (FDropStrong o :: k) ->
  step_hyp {| st := s; stack := FDropStrong o :: k; unw := u |} ->
  match run_drop_trees stk pri o g_rc_drop s with
  | Ok (s1, push) => Inv s1 (push ++ k)
  | Bad e => e = HAbort
  end.
Proof.
  intros HI Hh.
  pose proof (step_inv pri {| st := s; stack := FDropStrong o :: k; unw := u |} HI Hh) as G.
  rewrite (step_drop_strong_trees stk) in G.
  destruct (run_drop_trees stk pri o g_rc_drop s) as [[s1 push]|e]; exact G.
Qed.

(** C12, about the translated source: [try_unwrap] and [make_mut] -- the
    regenerated trees of the two functions AND of their callee [release_links]
    -- called from a program ([self = None]) or from a destructor script, on
    any object of any state satisfying the invariant, can neither fault nor
    abort, and re-establish the invariant *)
Theorem translated_try_unwrap_is_safe s self pc k r dst o :
  Inv s (ctx self pc k) -> reg_get s r = RStrong o -> reg_free s dst = true ->
  exists out, as_aout self (run_fn_trees {| hreg := r; hdst := dst; rthis := o |} g_try_unwrap s) = Some out /\
              act_post_strict self pc k out.
Proof.
  intros HI Hr Hf. eexists. split; [apply (try_unwrap_end_to_end s self r dst o Hr Hf)|].
  apply try_unwrap_strict. exact HI.
Qed.

Theorem translated_make_mut_is_safe s self pc k r o :
  Inv s (ctx self pc k) -> reg_get s r = RStrong o ->
  exists out, as_aout self (run_fn_trees {| hreg := r; hdst := r; rthis := o |} g_make_mut s) = Some out /\
              act_post_strict self pc k out.
Proof.
  intros HI Hr. eexists. split; [apply (make_mut_end_to_end s (ctx self pc k) self r o HI Hr)|].
  apply make_mut_strict. exact HI.
Qed.

Print Assumptions translated_rc_drop_is_safe.
Print Assumptions translated_try_unwrap_is_safe.
Print Assumptions translated_make_mut_is_safe.
