(** * An executable meaning of the generated effect trees of rc.rs
    ([try_unwrap], [make_mut], [Weak::drop]) and its agreement with the model.

    Same method as gen/EffectsSem.v (drop.rs): the trees of gen/EffectsGen.v
    are RUN on the model's state by an interpreter of the markers, and the
    result is compared with [exec_act _ _ (ATryUnwrap r dst)],
    [exec_act _ _ (AMakeMut r)] (Model/Machine.v) and [weak_drop]
    (Model/Atomic.v).

    Reading of the markers. The environment gives the register [hreg] of the
    handle, the object [rthis] it points to ([RStrong rthis]) and, for
    try_unwrap, the destination register [hdst].
    - tests: [TestStrongIsOne] = [Rc::strong_count(this) == 1],
      [TestStrongNotOne] = [!= 1] (strong_count = the field [strong]);
      [TestWeakCountNotZero] = [Rc::weak_count(this) != 0], weak_count =
      [weak - 1] (fault FkUnderflow when [weak = 0]);
    - [ReleaseLinks]: the model's [release_links _ rthis], and the event
      [EvTableDropped rthis] (the table's storage is released);
    - [ReadValue]: value := None, the value is kept in a local;
      [CopyValue]: the same, and the value is written into the fresh box
      (the model renames the payload after its new allocation: [pid := o']);
    - [DecStrong], [DecWeak]: the counters (fault on underflow);
    - [MakeWeakGuard]: a Weak to [rthis] is created; NOTHING happens at this
      position; its drop ([weak_drop _ (Some rthis)]) happens at the end of
      the function body, after [Forget] / [ReturnOk] ([drop_guards]);
    - [Forget]: register [hreg] := REmpty, no drop;
    - [ReturnOk]: the kept value goes to [hdst] ([RLoose]), result [RSome];
      [ReturnErr]: result [RErr]; no Return marker: result [RUnit];
    - [NewUninit]: a fresh box (counters 1/1, empty table, no value) is
      appended to the heap;
    - [CloneValue]: [T::clone] -- user code in principle; the model treats
      it atomically: [clone_slots _ (cloned_slots (slots p))], the clone is
      written into the fresh box;
    - [AssignDropOld]: [hreg] := the new box, and the old handle goes through
      [Rc::drop]: the frame [FDropStrong rthis] is pushed;
    - [OverwriteNoDrop]: [hreg] := the new box, nothing is dropped.

    Control structure. The generator keeps one [Branch] per arm of an
    [if / else if / else] chain, so a list of branches at the top of a
    function body is read as such a chain ([rc_chain]):
    - [[Branch c1 b1; Branch c2 b2]] of g_make_mut is
      [if c1 { b1 } else if c2 { b2 }]: [c2] is only evaluated when [c1] is
      false, and when both are false nothing happens;
    - [[Branch c b; Branch [] e]] of g_try_unwrap is [if c { b } else { e }]
      (an empty condition is the final [else]).
    In g_weak_drop the leading [Branch [] [E Return]] is
    [if is_dangling(ptr) { return }] (the test has no marker): it is decided
    by the Weak being dangling or not ([exec_weak_drop]); the rest of the
    tree is run by the interpreter of EffectsSem.v. *)
From CR Require Import Base Atomic Machine.
From Gen Require Import EffectsLang EffectsGen EffectsProofs EffectsSem.
Local Open Scope N_scope.

(** ** State of the interpreter *)
Record renv := { hreg : nat; hdst : nat; rthis : oid }.

Record rstate := {
  r_st : state;                  (* the model's state *)
  r_val : option payload;        (* value read out of the box (a local) *)
  r_new : option oid;            (* the fresh allocation (the local [rc]) *)
  r_guards : list oid;           (* hand-built Weaks alive in the scope, newest first *)
  r_res : option result;         (* the value returned, once a Return marker ran *)
  r_push : list frame            (* [Rc::drop] calls started *)
}.

Definition r0 (s : state) : rstate :=
  {| r_st := s; r_val := None; r_new := None; r_guards := []; r_res := None; r_push := [] |}.

Definition r_heap (m : rstate) : heap := heap_of (r_st m).
Definition r_with_st (m : rstate) (s : state) : rstate :=
  {| r_st := s; r_val := r_val m; r_new := r_new m; r_guards := r_guards m;
     r_res := r_res m; r_push := r_push m |}.
Definition r_set_heap (m : rstate) (h : heap) : rstate := r_with_st m (set_heap (r_st m) h).
Definition r_put (m : rstate) (o : oid) (b : box) : rstate := r_set_heap m (setb (r_heap m) o b).

Inductive yres :=
| YDone (m : rstate)
| YFault (e : halt)              (* the model's [AHalt] *)
| YStuck.                        (* the tree has no meaning here *)

Definition r_box (m : rstate) (o : oid) (f : box -> yres) : yres :=
  match getb (r_heap m) o with
  | Ok b => f b
  | Bad e => YFault e
  end.

(** [Rc::new_uninit()]: a box with no value yet *)
Definition uninit_box : box :=
  {| strong := Cnt 1; weak := 1; links := Some []; talloc := false;
     value := None; freed := false |}.

Definition strong_is_one (c : scount) : bool :=
  match c with Cnt 1 => true | _ => false end.

(** ** Primitive effects *)
Definition rc_eff (ev : renv) (e : eff) (m : rstate) : yres :=
  let o := rthis ev in
  match e with
  | ReleaseLinks =>
      match release_links (r_heap m) o with
      | Ok h => YDone (r_with_st m (add_ev (set_heap (r_st m) h) (EvTableDropped o)))
      | Bad e => YFault e
      end
  | ReadValue =>
      r_box m o (fun b =>
        match value b with
        | None => YFault (HFault FkValueMoved o)
        | Some v =>
            let m1 := r_put m o (with_value b None) in
            YDone {| r_st := r_st m1; r_val := Some v; r_new := r_new m1;
                     r_guards := r_guards m1; r_res := r_res m1; r_push := r_push m1 |}
        end)
  | CopyValue =>
      match r_new m with
      | None => YStuck
      | Some o' =>
          r_box m o (fun b =>
            match value b with
            | None => YFault (HFault FkValueMoved o)
            | Some v =>
                let m1 := r_put m o (with_value b None) in
                r_box m1 o' (fun bn =>
                  YDone (r_put m1 o' (with_value bn
                           (Some {| pid := o'; slots := slots v; script := script v |}))))
            end)
      end
  | CloneValue =>
      match r_new m with
      | None => YStuck
      | Some o' =>
          r_box m o (fun b =>
            match value b with
            | None => YFault (HFault FkValueMoved o)
            | Some v =>
                match clone_slots (r_heap m) (cloned_slots (slots v)) with
                | Bad e => YFault e
                | Ok h1 =>
                    let m1 := r_set_heap m h1 in
                    r_box m1 o' (fun bn =>
                      YDone (r_put m1 o' (with_value bn
                               (Some {| pid := o'; slots := cloned_slots (slots v); script := [] |}))))
                end
            end)
      end
  | DecStrong =>
      r_box m o (fun b =>
        match strong b with
        | Uninit => YFault (HFault FkUnderflow o)
        | Cnt n => if (n =? 0) then YFault (HFault FkUnderflow o)
                   else YDone (r_put m o (with_strong b (Cnt (n - 1))))
        end)
  | DecWeak =>
      r_box m o (fun b =>
        if (weak b =? 0) then YFault (HFault FkUnderflow o)
        else YDone (r_put m o (with_weak b (weak b - 1))))
  | MakeWeakGuard =>
      YDone {| r_st := r_st m; r_val := r_val m; r_new := r_new m;
               r_guards := o :: r_guards m; r_res := r_res m; r_push := r_push m |}
  | Forget => YDone (r_with_st m (set_reg (r_st m) (hreg ev) REmpty))
  | ReturnOk =>
      match r_val m with
      | None => YStuck
      | Some p =>
          YDone {| r_st := set_reg (r_st m) (hdst ev) (RLoose p); r_val := None; r_new := r_new m;
                   r_guards := r_guards m; r_res := Some RSome; r_push := r_push m |}
      end
  | ReturnErr =>
      YDone {| r_st := r_st m; r_val := r_val m; r_new := r_new m;
               r_guards := r_guards m; r_res := Some RErr; r_push := r_push m |}
  | NewUninit =>
      YDone {| r_st := set_heap (r_st m) (r_heap m ++ [uninit_box]); r_val := r_val m;
               r_new := Some (length (r_heap m));
               r_guards := r_guards m; r_res := r_res m; r_push := r_push m |}
  | AssignDropOld =>
      match r_new m with
      | None => YStuck
      | Some o' =>
          YDone {| r_st := set_reg (r_st m) (hreg ev) (RStrong o'); r_val := r_val m; r_new := None;
                   r_guards := r_guards m; r_res := r_res m;
                   r_push := r_push m ++ [FDropStrong o] |}
      end
  | OverwriteNoDrop =>
      match r_new m with
      | None => YStuck
      | Some o' =>
          YDone {| r_st := set_reg (r_st m) (hreg ev) (RStrong o'); r_val := r_val m; r_new := None;
                   r_guards := r_guards m; r_res := r_res m; r_push := r_push m |}
      end
  | _ => YStuck
  end.

(** ** Tests *)
Definition rc_cond (ev : renv) (c : list enode) (m : rstate) : R (option bool) :=
  let o := rthis ev in
  match c with
  | [E TestStrongIsOne] => let* b := getb (r_heap m) o in Ok (Some (strong_is_one (strong b)))
  | [E TestStrongNotOne] => let* b := getb (r_heap m) o in Ok (Some (negb (strong_is_one (strong b))))
  | [E TestWeakCountNotZero] =>
      let* b := getb (r_heap m) o in
      if (weak b =? 0) then Bad (HFault FkUnderflow o)      (* weak_count = weak - 1 *)
      else Ok (Some (negb (weak b - 1 =? 0)))
  | _ => Ok None
  end.

(** ** Trees *)
Definition returned (m : rstate) : bool :=
  match r_res m with Some _ => true | None => false end.

(** a block of plain effects; a Return marker ends it *)
Fixpoint rc_seq (ev : renv) (l : list enode) (m : rstate) : yres :=
  match l with
  | [] => YDone m
  | E e :: r =>
      match rc_eff ev e m with
      | YDone m' => if returned m' then YDone m' else rc_seq ev r m'
      | x => x
      end
  | _ => YStuck
  end.

(** [if c1 { b1 } else if c2 { b2 } ... [else { e }]]: the first branch whose
    test holds is run and the chain ends; an empty test is the final [else];
    when no test holds nothing happens *)
Fixpoint rc_chain (ev : renv) (l : list enode) (m : rstate) : yres :=
  match l with
  | [] => YDone m
  | Branch [] b :: _ => rc_seq ev b m
  | Branch c b :: rest =>
      match rc_cond ev c m with
      | Bad e => YFault e
      | Ok None => YStuck
      | Ok (Some true) => rc_seq ev b m
      | Ok (Some false) => rc_chain ev rest m
      end
  | _ => YStuck
  end.

(** end of the function body: the guards still alive are dropped, newest first *)
Fixpoint drop_guards (gs : list oid) (m : rstate) : yres :=
  match gs with
  | [] => YDone {| r_st := r_st m; r_val := r_val m; r_new := r_new m;
                   r_guards := []; r_res := r_res m; r_push := r_push m |}
  | g :: gs' =>
      match weak_drop (r_heap m) (Some g) with
      | Ok h => drop_guards gs' (r_set_heap m h)
      | Bad e => YFault e
      end
  end.

Definition run_fn (ev : renv) (tree : list enode) (s : state) : yres :=
  match rc_chain ev tree (r0 s) with
  | YDone m => drop_guards (r_guards m) m
  | x => x
  end.

(** what the caller sees: the model's [aout] *)
Definition as_aout (self : option payload) (x : yres) : option aout :=
  match x with
  | YDone m =>
      match r_guards m with
      | [] => Some (AO (r_st m) self (match r_res m with Some r => r | None => RUnit end) (r_push m))
      | _ :: _ => None
      end
  | YFault e => Some (AHalt e)
  | YStuck => None
  end.

(** ** [Weak::drop]: [if is_dangling { return }], then the shared tail *)
Definition exec_weak_drop (w : option oid) (l : list enode) (m : mstate) : xres :=
  match l with
  | Branch [] [E Return] :: rest =>
      match w with
      | None => XDone m                           (* dangling: return *)
      | Some o => exec_list (env1 o) rest m
      end
  | _ => XStuck
  end.

Theorem weak_drop_sem s w :
  exec_weak_drop w g_weak_drop (m0 s) = lift_heap (m0 s) (weak_drop (heap_of s) w).
Proof.
  rewrite weak_drop_effects. destruct s as [h rg lg]. destruct w as [o|]; cbn [exec_weak_drop weak_drop].
  - change (m0 {| heap_of := h; regs := rg; log := lg |}) with (mS h rg lg None None []).
    change [E DecWeak; Branch [E TestWeakZero] [E Dealloc]] with finish_body.
    rewrite finish_item. cbn [this env1 heap_of].
    destruct (dec_weak_free h o); reflexivity.
  - reflexivity.
Qed.

(** ** Heap facts *)
Arguments release_links : simpl never.
Arguments weak_drop : simpl never.
Arguments clone_slots : simpl never.
Arguments inc_strong : simpl never.
Arguments inc_weak : simpl never.
Arguments reg_get : simpl never.
Arguments reg_free : simpl never.
Arguments cloned_slots : simpl never.
Arguments N.eqb : simpl never.
Arguments N.sub : simpl never.

Lemma upd_len {A} (l : list A) i x : length (upd l i x) = length l.
Proof. revert i; induction l as [|a l IH]; intros [|i]; cbn; auto. Qed.

Lemma setb_len h o b : length (setb h o b) = length h.
Proof. apply upd_len. Qed.

Lemma getb_lt h o b : getb h o = Ok b -> (o < length h)%nat.
Proof. intros G. apply getb_ok in G as [G _]. apply nth_error_Some. congruence. Qed.

Lemma getb_app_ne h u x : x <> length h -> getb (h ++ [u]) x = getb h x.
Proof.
  intros Hne. unfold getb. destruct (Nat.lt_ge_cases x (length h)) as [L|L].
  - now rewrite nth_error_app1.
  - assert (N1 : nth_error h x = None) by (apply nth_error_None; lia).
    assert (N2 : nth_error (h ++ [u]) x = None).
    { apply nth_error_None. rewrite app_length. cbn. lia. }
    now rewrite N1, N2.
Qed.

Lemma getb_app_l h u o b : getb h o = Ok b -> getb (h ++ [u]) o = Ok b.
Proof. intros G. rewrite getb_app_ne; [exact G|]. apply getb_lt in G. lia. Qed.

Lemma getb_app_new h u : freed u = false -> getb (h ++ [u]) (length h) = Ok u.
Proof.
  intros F. unfold getb. rewrite nth_error_app2 by lia. rewrite Nat.sub_diag. cbn. now rewrite F.
Qed.

Lemma upd_app_l {A} (l e : list A) i x : (i < length l)%nat -> upd (l ++ e) i x = upd l i x ++ e.
Proof.
  revert i; induction l as [|a l IH]; intros [|i] H; cbn in *; try lia; auto.
  f_equal. apply IH. lia.
Qed.

Lemma upd_app_new {A} (l : list A) u y : upd (l ++ [u]) (length l) y = l ++ [y].
Proof. induction l as [|a l IH]; cbn; auto. now rewrite IH. Qed.

Lemma setb_app_l h e o b : (o < length h)%nat -> setb (h ++ e) o b = setb h o b ++ e.
Proof. apply upd_app_l. Qed.

Lemma setb_app_new h u y : setb (h ++ [u]) (length h) y = h ++ [y].
Proof. apply upd_app_new. Qed.

(** [release_links] leaves everything of [o] alone but the table *)
Lemma release_links_this h o b h' :
  getb h o = Ok b -> release_links h o = Ok h' -> getb h' o = Ok (with_links b None).
Proof.
  intros G. unfold release_links, purge_peers, get_links. rewrite G. cbn [bind].
  destruct (links b) as [t|] eqn:L; cbn [bind]; [|discriminate].
  destruct (purge_loop h o t) as [h1|e] eqn:P; cbn [bind]; [|discriminate].
  rewrite (purge_loop_this _ _ _ _ P), G. cbn [bind]. rewrite L. intros [= <-].
  apply (getb_setb_same h1 o b).
  - rewrite (purge_loop_this _ _ _ _ P). exact G.
  - reflexivity.
Qed.

(** ** try_unwrap *)
Theorem try_unwrap_sem s self r dst o :
  reg_get s r = RStrong o -> reg_free s dst = true ->
  as_aout self (run_fn {| hreg := r; hdst := dst; rthis := o |} g_try_unwrap s)
  = Some (exec_act s self (ATryUnwrap r dst)).
Proof.
  intros HR HF. rewrite try_unwrap_effects. unfold run_fn. cbn [exec_act]. rewrite HR, HF.
  destruct s as [h rg lg]. cbn [rc_chain rc_cond rthis r_heap r0 r_st heap_of].
  destruct (getb h o) as [b|e] eqn:G; cbn [bind]; [|reflexivity].
  destruct (strong b) as [[|[q|q|]]|] eqn:S; cbn [strong_is_one rc_seq]; try reflexivity.
  (* strong = 1 *)
  cbn [rc_eff rthis r_heap r0 r_st heap_of]. unfold lift.
  destruct (release_links h o) as [h1|e] eqn:RL; [|reflexivity].
  pose proof (release_links_this _ _ _ _ G RL) as G1.
  cbn. unfold r_box, r_heap. cbn. rewrite G1. cbn.
  destruct (value b) as [p|] eqn:V; [|reflexivity].
  cbn. unfold r_box, r_put, r_heap. cbn.
  rewrite (getb_setb_same _ _ _ _ G1) by reflexivity. cbn. rewrite S.
  change (1 =? 0) with false. change (1 - 1) with 0. cbn. unfold r_set_heap. cbn.
  rewrite setb_setb.
  destruct (weak_drop _ (Some o)) as [h3|e]; reflexivity.
Qed.

(** ** make_mut *)

(** no handle of the value names the allocation [o'] *)
Definition slot_not (o' : oid) (sl : slot) : Prop :=
  match sl with
  | SStrong x => x <> o'
  | SWeak (Some x) => x <> o'
  | _ => True
  end.

Lemma inc_strong_len h x h' : inc_strong h x = Ok h' -> length h' = length h.
Proof.
  unfold inc_strong. destruct (getb h x) as [b|]; cbn [bind]; [|discriminate].
  destruct (strong b) as [n|]; [|discriminate].
  destruct (n =? 0); [discriminate|]. intros [= <-]. apply setb_len.
Qed.

Lemma inc_weak_len h x h' : inc_weak h x = Ok h' -> length h' = length h.
Proof.
  unfold inc_weak. destruct (getb h x) as [b|]; cbn [bind]; [|discriminate].
  destruct (weak b =? 0); [discriminate|]. intros [= <-]. apply setb_len.
Qed.

Lemma inc_strong_app h u x : x <> length h ->
  inc_strong (h ++ [u]) x = match inc_strong h x with Ok h' => Ok (h' ++ [u]) | Bad e => Bad e end.
Proof.
  intros Hne. unfold inc_strong. rewrite (getb_app_ne _ _ _ Hne).
  destruct (getb h x) as [b|] eqn:G; cbn [bind]; [|reflexivity].
  destruct (strong b) as [n|]; [|reflexivity].
  destruct (n =? 0); [reflexivity|]. rewrite setb_app_l by exact (getb_lt _ _ _ G). reflexivity.
Qed.

Lemma inc_weak_app h u x : x <> length h ->
  inc_weak (h ++ [u]) x = match inc_weak h x with Ok h' => Ok (h' ++ [u]) | Bad e => Bad e end.
Proof.
  intros Hne. unfold inc_weak. rewrite (getb_app_ne _ _ _ Hne).
  destruct (getb h x) as [b|] eqn:G; cbn [bind]; [|reflexivity].
  destruct (weak b =? 0); [reflexivity|]. rewrite setb_app_l by exact (getb_lt _ _ _ G). reflexivity.
Qed.

(** allocating first and cloning afterwards is cloning first and allocating
    afterwards, PROVIDED the value holds no handle to the allocation that
    does not exist yet *)
Lemma clone_slots_app u ss : forall h,
  Forall (slot_not (length h)) ss ->
  clone_slots (h ++ [u]) ss =
  match clone_slots h ss with Ok h' => Ok (h' ++ [u]) | Bad e => Bad e end
  /\ forall h', clone_slots h ss = Ok h' -> length h' = length h.
Proof.
  induction ss as [|sl ss IH]; intros h F.
  - split; [reflexivity|]. now intros h' [= <-].
  - inversion F as [|? ? Hsl F']; subst.
    destruct sl as [x|[x|]|]; unfold clone_slots; fold clone_slots; try (apply IH; exact F').
    + cbn [slot_not] in Hsl. rewrite (inc_strong_app _ _ _ Hsl).
      destruct (inc_strong h x) as [h1|e] eqn:I; cbn [bind]; [|split; [reflexivity|discriminate]].
      pose proof (inc_strong_len _ _ _ I) as L1. rewrite <- L1 in F'.
      destruct (IH h1 F') as [A B]. split; [exact A|]. intros h' H. rewrite (B _ H). exact L1.
    + cbn [slot_not] in Hsl. rewrite (inc_weak_app _ _ _ Hsl).
      destruct (inc_weak h x) as [h1|e] eqn:I; cbn [bind]; [|split; [reflexivity|discriminate]].
      pose proof (inc_weak_len _ _ _ I) as L1. rewrite <- L1 in F'.
      destruct (IH h1 F') as [A B]. split; [exact A|]. intros h' H. rewrite (B _ H). exact L1.
Qed.

Lemma weak_count_test w : (w =? 0) = false -> (w - 1 =? 0) = (w =? 1).
Proof.
  intros H. apply N.eqb_neq in H.
  destruct (N.eqb_spec (w - 1) 0), (N.eqb_spec w 1); auto; lia.
Qed.

Theorem make_mut_sem s self r o :
  reg_get s r = RStrong o ->
  (forall b p, getb (heap_of s) o = Ok b -> strong_is_one (strong b) = false -> value b = Some p ->
     Forall (slot_not (length (heap_of s))) (cloned_slots (slots p))) ->
  as_aout self (run_fn {| hreg := r; hdst := r; rthis := o |} g_make_mut s)
  = Some (exec_act s self (AMakeMut r)).
Proof.
  intros HR HFresh. rewrite make_mut_effects. unfold run_fn. cbn [exec_act]. rewrite HR.
  destruct s as [h rg lg]. cbn [heap_of] in HFresh.
  cbn [rc_chain rc_cond rthis r_heap r0 r_st heap_of].
  destruct (getb h o) as [b|e] eqn:G; cbn [bind]; [|reflexivity].
  specialize (HFresh b).
  assert (CLONE : strong_is_one (strong b) = false ->
    as_aout self
      match rc_seq {| hreg := r; hdst := r; rthis := o |}
              [E NewUninit; E CloneValue; E AssignDropOld] (r0 {| heap_of := h; regs := rg; log := lg |}) with
      | YDone m => drop_guards (r_guards m) m
      | x => x
      end =
    Some match value b with
         | Some p =>
             lift {| heap_of := h; regs := rg; log := lg |} self (clone_slots h (cloned_slots (slots p)))
               (fun s1 =>
                  AO (set_reg (set_heap s1 (heap_of s1 ++
                        [new_box {| pid := length h; slots := cloned_slots (slots p); script := [] |}]))
                        r (RStrong (length h))) self RUnit [FDropStrong o])
         | None => AHalt (HFault FkValueMoved o)
         end).
  { intros S1. cbn. unfold r_box, r_heap. cbn. rewrite (getb_app_l _ _ _ _ G).
    destruct (value b) as [p|] eqn:V; [|reflexivity].
    destruct (clone_slots_app uninit_box _ h (HFresh p eq_refl S1 eq_refl)) as [A B]. rewrite A.
    unfold lift. destruct (clone_slots h (cloned_slots (slots p))) as [h1|e] eqn:C; [|reflexivity].
    cbn. rewrite <- (B _ eq_refl). rewrite getb_app_new by reflexivity.
    cbn. unfold r_put, r_heap. cbn. rewrite setb_app_new. reflexivity. }
  destruct (strong b) as [[|[q|q|]]|] eqn:S; cbn [strong_is_one negb];
    try (apply CLONE; reflexivity).
  (* strong = 1 *)
  clear CLONE.
  destruct (weak b =? 0) eqn:W0; [reflexivity|].
  rewrite (weak_count_test _ W0).
  destruct (weak b =? 1) eqn:W1; cbn [negb]; [reflexivity|].
  cbn. unfold r_box, r_heap. cbn. rewrite (getb_app_l _ _ _ _ G).
  destruct (value b) as [p|] eqn:V; [|reflexivity].
  pose proof (getb_lt _ _ _ G) as Lt.
  cbn. unfold r_put, r_heap. cbn. rewrite (setb_app_l _ _ _ _ Lt).
  pose proof (getb_app_new (setb h o (with_value b None)) uninit_box eq_refl) as GN.
  rewrite setb_len in GN. rewrite GN. cbn. unfold r_set_heap. cbn.
  pose proof (fun y => setb_app_new (setb h o (with_value b None)) uninit_box y) as SN.
  rewrite setb_len in SN. rewrite SN. clear GN SN.
  change (with_value uninit_box (Some {| pid := length h; slots := slots p; script := script p |}))
    with (new_box {| pid := length h; slots := slots p; script := script p |}).
  set (h1 := setb h o (with_value b None) ++ [new_box {| pid := length h; slots := slots p; script := script p |}]).
  assert (G1 : getb h1 o = Ok (with_value b None)).
  { apply getb_app_l. apply (getb_setb_same _ _ _ _ G). reflexivity. }
  unfold lift. destruct (release_links h1 o) as [h2|e] eqn:RL; [|reflexivity].
  pose proof (release_links_this _ _ _ _ G1 RL) as G2.
  cbn. unfold r_box, r_heap. cbn. rewrite G2. cbn. rewrite S.
  change (1 =? 0) with false. change (1 - 1) with 0. cbn.
  unfold r_put, r_heap. cbn. rewrite (getb_setb_same _ _ _ _ G2) by reflexivity.
  cbn. rewrite W0. cbn. rewrite setb_setb. reflexivity.
Qed.

(** The side condition of [make_mut_sem] is needed: the tree allocates the
    fresh box BEFORE [T::clone] runs ([NewUninit; CloneValue]), the model runs
    [clone_slots] on the old heap and appends the box afterwards. The two
    orders differ exactly when the value holds a handle to the allocation
    [o' = length heap] that does not exist yet: the model faults ([FkNoBox o']),
    the tree order finds the fresh box and increments its counter. Concretely: *)
Definition odd_payload : payload :=
  {| pid := 0%nat; slots := [SStrong 1%nat; SEmpty; SEmpty; SEmpty]; script := [] |}.
Definition odd_state : state :=
  mk [ {| strong := Cnt 2; weak := 1; links := Some []; talloc := false;
          value := Some odd_payload; freed := false |} ]
     [RStrong 0%nat; REmpty] [].

Example make_mut_order_matters :
  exec_act odd_state None (AMakeMut 0%nat) = AHalt (HFault FkNoBox 1%nat)
  /\ exists m, run_fn {| hreg := 0%nat; hdst := 0%nat; rthis := 0%nat |} g_make_mut odd_state = YDone m.
Proof. split; [reflexivity|]. eexists. vm_compute. reflexivity. Qed.

(** the guard's drop is the generated tree of [Weak::drop] *)
Corollary guard_drop_is_weak_drop_tree s o :
  exec_weak_drop (Some o) g_weak_drop (m0 s) = lift_heap (m0 s) (weak_drop (heap_of s) (Some o)).
Proof. apply weak_drop_sem. Qed.

Print Assumptions try_unwrap_sem.
Print Assumptions make_mut_sem.
Print Assumptions weak_drop_sem.
Print Assumptions make_mut_order_matters.
