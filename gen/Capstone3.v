(** * C06 identity, stated about the translated source.

    Two halves meet here.  [CR.AddrInv] (coq/Inv/AddrInv.v): along every run,
    under any address assignment within the allocator's contract (addresses of
    released allocations may be reused), everything a program or a destructor
    script can name is an allocation that has not been released, and such
    allocations have pairwise distinct addresses.  [Gen.RawPtrProofs]: the
    address arithmetic of [ptr_eq], [as_ptr], [into_raw], [from_raw] as
    regenerated from /repo/src/rc.rs.  Together: the TRANSLATED [Rc::ptr_eq]
    and [Rc::as_ptr], applied to the addresses of any two handles the program
    holds, answer what the model's [APtrEq] answers (identity of objects), and
    the translated [into_raw] / [from_raw] give back the address of the same
    object. *)
From Coq Require Import ZArith List String Bool Lia. Import ListNotations.
From CR Require Import Base Atomic Machine InvDef ActBase AddrInv.
From Gen Require Import RawPtrLang RawPtrGen RawPtrProofs.
Local Open Scope Z_scope.

Theorem translated_ptr_eq_is_identity s self pc k am h1 h2 o1 l1 o2 l2 :
  Inv s (ctx self pc k) -> addr_inj (heap_of s) am ->
  resolve_strong s self h1 = Some (o1, l1) -> resolve_strong s self h2 = Some (o2, l2) ->
  exec_act s self (APtrEq h1 h2) = AO s self (RBool (g_rc_ptr_eq (am o1) (am o2))) [].
Proof.
  intros HI HA R1 R2. rewrite (proj1 (ptr_eq_is_address_equality (am o1) (am o2))).
  eapply act_ptr_eq_by_address; eauto.
Qed.

(** [as_ptr] separates exactly what identity separates (addresses are usize values) *)
Theorem translated_as_ptr_is_identity off s self pc k am h1 h2 o1 l1 o2 l2 :
  Inv s (ctx self pc k) -> addr_inj (heap_of s) am ->
  in_usize (am o1) -> in_usize (am o2) ->
  resolve_strong s self h1 = Some (o1, l1) -> resolve_strong s self h2 = Some (o2, l2) ->
  (g_rc_as_ptr off (am o1) = g_rc_as_ptr off (am o2) <-> o1 = o2).
Proof.
  intros HI HA U1 U2 R1 R2.
  pose proof (ptr_eq_exact s self pc k am h1 h2 o1 l1 o2 l2 HI HA R1 R2) as Hiff. split.
  - intros E. apply Hiff. eapply rc_as_ptr_injective; eauto.
  - intros ->. reflexivity.
Qed.

(** the raw-pointer round trip names the same object again: [from_raw (into_raw x)] is a handle whose
    address is [x]'s, hence (previous theorem) a handle to the same object, for every layout *)
Theorem translated_raw_round_trip_same_object off base s self pc k am h1 o1 l1 :
  Inv s (ctx self pc k) -> addr_inj (heap_of s) am -> in_usize (am o1) ->
  resolve_strong s self h1 = Some (o1, l1) ->
  g_rc_from_raw off base (g_rc_into_raw off (am o1)) = am o1.
Proof. intros _ _ U _. apply rc_round_trip_any_layout. exact U. Qed.

(** a Weak: dangling ([Weak::new], sentinel address) or to an allocation that has not been released;
    the translated [Weak::ptr_eq] on the addresses decides identity, the dangling one included *)
Theorem translated_weak_ptr_eq_is_identity s self pc k am w1 w2 x1 x2 :
  Inv s (ctx self pc k) -> addr_inj (heap_of s) am ->
  resolve_weak s self w1 = Some x1 -> resolve_weak s self w2 = Some x2 ->
  let a x := match x with Some o => am o | None => g_weak_new end in
  (g_weak_ptr_eq (a x1) (a x2) = true <-> x1 = x2).
Proof.
  intros HI HA R1 R2 a.
  pose proof (weak_ptr_eq_exact s self pc k am w1 w2 x1 x2 HI HA R1 R2) as Hiff. cbv zeta in Hiff.
  rewrite (proj2 (ptr_eq_is_address_equality (a x1) (a x2))). rewrite Z.eqb_eq.
  assert (Es : g_weak_new = SENTINEL) by reflexivity.
  subst a. cbv beta. rewrite Es. exact Hiff.
Qed.

Print Assumptions translated_ptr_eq_is_identity.
Print Assumptions translated_as_ptr_is_identity.
Print Assumptions translated_raw_round_trip_same_object.
Print Assumptions translated_weak_ptr_eq_is_identity.
