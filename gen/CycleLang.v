(** * The per-entry language of cycle_refs and its meaning (hand written, static).

    tools/rs2v.py parses the body of [for (&link, &strong) in links.iter()] of
    [cycle_refs] into [list estmt] (gen/CycleGen.v, regenerated on every run).
    [run_body] is the meaning of such a body for an entry of a given kind: the
    actions it performs before falling off the end or hitting [continue]. The
    three actions are the three statements of the source that touch the trace's
    state:
      EAdd     = cycle_owned_refs.entry(link).and_modify(|c| *c += strong).or_insert(strong)
      EPush    = discovered.push(link)
      EDefault = cycle_owned_refs.entry(link.as_forward()).or_default()
    [apply_act] gives them the model's meaning ([own_add], worklist append,
    [own_dflt]: Model/Atomic.v). *)
From Coq Require Import NArith List Bool. Import ListNotations.
From CR Require Import Base Atomic.

Inductive eact := EAdd | EPush | EDefault.
Inductive estmt := EIfKind (ks : list kind) (th el : list estmt) | EContinue | EAct (a : eact).

Definition kind_is (k k' : kind) : bool :=
  match k, k' with Fwd, Fwd | Bwd, Bwd | Loop, Loop => true | _, _ => false end.

(** actions performed, and whether [continue] was executed *)
Fixpoint run_stmt (k : kind) (st : estmt) : list eact * bool :=
  match st with
  | EContinue => ([], true)
  | EAct a => ([a], false)
  | EIfKind ks th el =>
      let fix go (l : list estmt) : list eact * bool :=
        match l with
        | [] => ([], false)
        | s :: l' =>
            let '(a1, c1) := run_stmt k s in
            if c1 then (a1, true) else let '(a2, c2) := go l' in (a1 ++ a2, c2)
        end in
      if existsb (kind_is k) ks then go th else go el
  end.

Fixpoint run_stmts (k : kind) (l : list estmt) : list eact * bool :=
  match l with
  | [] => ([], false)
  | s :: l' =>
      let '(a1, c1) := run_stmt k s in
      if c1 then (a1, true) else let '(a2, c2) := run_stmts k l' in (a1 ++ a2, c2)
  end.

Definition run_body (k : kind) (body : list estmt) : list eact := fst (run_stmts k body).

Definition apply_act (e : link * N) (st : omap * list oid) (a : eact) : omap * list oid :=
  let x := fst (fst e) in
  let c := snd e in
  match a with
  | EAdd => (own_add (fst st) x c, snd st)
  | EPush => (fst st, snd st ++ [x])
  | EDefault => (own_dflt (fst st) x, snd st)
  end.

Definition visit_entry (body : list estmt) (st : omap * list oid) (e : link * N) : omap * list oid :=
  fold_left (apply_act e) (run_body (snd (fst e)) body) st.

(** one pass over a table *)
Definition g_visit_entries (body : list estmt) (t : table) (own : omap) (pushed : list oid) : omap * list oid :=
  fold_left (visit_entry body) t (own, pushed).

(** ** Syntax of the control skeletons of [cycle_refs] and [Rc::orphaned_cycle]

    (syntax only, so that the generated gen/CycleGen.v can mention it; the
    meaning is gen/CycleSkelLang.v.) One constructor per statement form of the
    source:
      WInitMap            let mut cycle_owned_refs = HashMap::default();
      WInitWork           let mut discovered = vec![this];
      WInitVisited        let mut visited = HashSet::default();
      WWhilePop d body    while let Some(node) = discovered.pop() { body }      (d = PopBack)
                                                 discovered.remove(0)           (d = PopFront)
      WIfVisitedContinue  if visited.contains(&node) { continue; }
      WMarkVisited        visited.insert(node);
      WBorrowNode         let links = unsafe { node.as_ref().links().borrow() };
      WForEntries         for (&link, &strong) in links.iter() { g_entry_body }
      WReturnMap          cycle_owned_refs                                      (tail expression)
      OTrace                    let cycle = cycle_refs(Link::forward(this.ptr));
      OIfEmptyReturnNone        if cycle.is_empty() { return None; }
      OAnyExternal              let has_external_owners = cycle.iter().any(|(item, &cycle_owned_refs)| g_external);
      OIfExternalNoneElseSome   if has_external_owners { None } else { Some(cycle) }   (tail expression) *)
Inductive popdir := PopBack | PopFront.
Inductive wstmt :=
| WInitMap | WInitWork | WInitVisited
| WWhilePop (d : popdir) (body : list wstmt)
| WIfVisitedContinue | WMarkVisited | WBorrowNode | WForEntries
| WReturnMap.
Inductive ostmt := OTrace | OIfEmptyReturnNone | OAnyExternal | OIfExternalNoneElseSome.
