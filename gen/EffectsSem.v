(** * An executable meaning of the generated effect trees, and its agreement
    with the machine model.

    gen/EffectsProofs.v pins the trees of effect markers generated from
    drop.rs and explains in a comment how the model's frames realise them.
    Here the comment becomes theorems: the trees are RUN on the model's state
    by an interpreter of the markers, and the result is compared with what
    [drop_strong] and [step] of Model/Machine.v do.

    Reading of the markers (all on the object [this] of the environment):
    - [Borrow], [BorrowMut]: RefCell flags, not modelled: no effect;
    - [MakeUninit]: strong := Uninit;  [MoveValue]: value := None, the value
      is remembered;  [MoveLinks]: links := None, the table is remembered;
      [DropLinks]: the remembered table is released (event EvTableDropped);
    - [DecWeak]: weak := weak - 1 (fault on underflow);  [Dealloc]: freed;
    - [Clear]: [set_links _ this []];  [ExtractIf]: [bust_table];
    - [PushInner]: the remembered value and table go to the group's vector;
    - [DropValue], [DropInners]: USER CODE: the interpreter stops and returns
      the state, and the rest of the tree (the continuation);
    - tests are named after the predicate called in the source, the polarity
      is the source's: [Branch [TestUninit] b] = [if !is_uninit() b],
      [Branch [TestDead] b] = [if !is_dead() b],
      [Branch [TestWeakZero] b] = [if weak() == 0 b];
    - [Loop [Borrow] body]: [for (item, &strong) in links.borrow().iter()];
      the body [TestSelf -> Continue; BorrowMut; Remove; Remove] removes the
      Forward and the Backward record of [this] from the peer's table;
    - [Loop [] [DecStrong]]: [for _ in 0..refcount.min(strong)].
    Anything else is [XStuck]: the interpreter gives it no meaning. *)
From CR Require Import Base Atomic Machine.
From Gen Require Import EffectsLang EffectsGen EffectsProofs.
Local Open Scope N_scope.

(** ** State of the interpreter *)
Record mstate := {
  m_st  : state;                 (* the model's state *)
  m_val : option payload;        (* value moved out of the box (a local) *)
  m_tbl : option table;          (* table moved out of the box (a local) *)
  m_inn : list inner             (* the vector [inners] of drop_cycle *)
}.

Definition m0 (s : state) : mstate :=
  {| m_st := s; m_val := None; m_tbl := None; m_inn := [] |}.

Definition m_heap (m : mstate) : heap := heap_of (m_st m).
Definition m_with_st (m : mstate) (s : state) : mstate :=
  {| m_st := s; m_val := m_val m; m_tbl := m_tbl m; m_inn := m_inn m |}.
Definition m_set_heap (m : mstate) (h : heap) : mstate :=
  m_with_st m (set_heap (m_st m) h).
Definition m_put (m : mstate) (o : oid) (b : box) : mstate :=
  m_set_heap m (setb (m_heap m) o b).

Record env := { this : oid; ekeys : list oid; eref : N }.
Definition env1 (o : oid) : env := {| this := o; ekeys := []; eref := 0 |}.

Inductive xres :=
| XDone (m : mstate)                       (* ran to the end *)
| XUser (m : mstate) (rest : list enode)   (* stopped at user code; [rest] runs after it *)
| XCont (m : mstate)                       (* [continue] *)
| XFault (e : halt)                        (* the model's [Bad] *)
| XStuck.                                  (* the tree has no meaning here *)

Definition on_box (m : mstate) (o : oid) (f : box -> xres) : xres :=
  match getb (m_heap m) o with
  | Ok b => f b
  | Bad e => XFault e
  end.

Definition lift_heap (m : mstate) (x : R heap) : xres :=
  match x with
  | Ok h => XDone (m_set_heap m h)
  | Bad e => XFault e
  end.

(** ** Primitive effects *)
Definition exec_eff (ev : env) (e : eff) (m : mstate) : xres :=
  let o := this ev in
  match e with
  | Borrow | BorrowMut => XDone m
  | MakeUninit => on_box m o (fun b => XDone (m_put m o (with_strong b Uninit)))
  | MoveValue =>
      on_box m o (fun b =>
        match value b with
        | None => XFault (HFault FkValueMoved o)
        | Some v =>
            let m1 := m_put m o (with_value b None) in
            XDone {| m_st := m_st m1; m_val := Some v; m_tbl := m_tbl m1; m_inn := m_inn m1 |}
        end)
  | MoveLinks =>
      on_box m o (fun b =>
        match links b with
        | None => XFault (HFault FkTableMoved o)
        | Some t =>
            let m1 := m_put m o (with_links b None) in
            XDone {| m_st := m_st m1; m_val := m_val m1; m_tbl := Some t; m_inn := m_inn m1 |}
        end)
  | DropLinks =>
      match m_tbl m with
      | None => XStuck
      | Some _ =>
          XDone {| m_st := add_ev (m_st m) (EvTableDropped o);
                   m_val := m_val m; m_tbl := None; m_inn := m_inn m |}
      end
  | DecWeak =>
      on_box m o (fun b =>
        if (weak b =? 0) then XFault (HFault FkUnderflow o)
        else XDone (m_put m o (with_weak b (weak b - 1))))
  | Dealloc => on_box m o (fun b => XDone (m_put m o (with_freed b true)))
  | Clear => lift_heap m (set_links (m_heap m) o [])
  | ExtractIf =>
      on_box m o (fun b =>
        match links b with
        | None => XFault (HFault FkTableMoved o)
        | Some t => XDone (m_put m o (with_links b (Some (bust_table t (ekeys ev)))))
        end)
  | PushInner =>
      match m_val m, m_tbl m with
      | Some v, Some t =>
          XDone {| m_st := m_st m; m_val := None; m_tbl := None;
                   m_inn := m_inn m ++ [(o, v, t)] |}
      | _, _ => XStuck
      end
  | Continue => XCont m
  | DropValue | DropInners => XUser m []
  | _ => XStuck
  end.

(** ** Tests *)
Definition eval_cond (ev : env) (c : list enode) (m : mstate) : R (option bool) :=
  match c with
  | [E t] =>
      match t with
      | TestUninit => let* b := getb (m_heap m) (this ev) in Ok (Some (negb (is_uninit (strong b))))
      | TestDead => let* b := getb (m_heap m) (this ev) in Ok (Some (negb (is_dead (strong b))))
      | TestWeakZero => let* b := getb (m_heap m) (this ev) in Ok (Some (weak b =? 0))
      | _ => Ok None
      end
  | _ => Ok None
  end.

(** ** Loops inside one object's teardown *)
Fixpoint foreach {A} (f : A -> heap -> R heap) (l : list A) (h : heap) : R heap :=
  match l with
  | [] => Ok h
  | x :: l' => let* h1 := f x h in foreach f l' h1
  end.

(** one iteration of the purge loop on the entry [((x, _), n)] *)
Definition purge_item (o : oid) (it : link * N) (h : heap) : R heap :=
  let '((x, _), n) := it in
  if Nat.eqb x o then Ok h                                  (* TestSelf -> Continue *)
  else let* h1 := links_remove h x (o, Fwd) n in            (* BorrowMut; Remove *)
       links_remove h1 x (o, Bwd) n.                        (* Remove *)

Definition is_purge_body (l : list enode) : bool :=
  match l with
  | [Branch [E TestSelf] [E Continue]; E BorrowMut; E Remove; E Remove] => true
  | _ => false
  end.

Definition item_step (o : oid) (body : list enode) : option (link * N -> heap -> R heap) :=
  if is_purge_body body then Some (purge_item o) else None.

Definition exec_loop (ev : env) (hdr body : list enode) (m : mstate) : xres :=
  let o := this ev in
  match hdr with
  | [E Borrow] =>
      match get_links (m_heap m) o with
      | Bad e => XFault e
      | Ok [] => XDone m                 (* no iteration: the body is not run *)
      | Ok t =>
          match item_step o body with
          | Some f => lift_heap m (foreach f t (m_heap m))
          | None => XStuck
          end
      end
  | [] =>
      match body with
      | [E DecStrong] =>
          on_box m o (fun b =>
            match strong b with
            | Uninit => XFault (HFault FkUnderflow o)
            | Cnt n => XDone (m_put m o (with_strong b (Cnt (n - N.min (eref ev) n))))
            end)
      | _ => XStuck
      end
  | _ => XStuck
  end.

(** ** Trees *)
Definition seq (f : enode -> mstate -> xres) : list enode -> mstate -> xres :=
  fix go (l : list enode) (m : mstate) : xres :=
    match l with
    | [] => XDone m
    | n :: r =>
        match f n m with
        | XDone m' => go r m'
        | XUser m' k => XUser m' (k ++ r)
        | x => x
        end
    end.

Fixpoint exec_node (ev : env) (n : enode) (m : mstate) {struct n} : xres :=
  match n with
  | E e => exec_eff ev e m
  | Branch c b =>
      match eval_cond ev c m with
      | Bad e => XFault e
      | Ok None => XStuck
      | Ok (Some false) => XDone m
      | Ok (Some true) => seq (exec_node ev) b m
      end
  | EffectsLang.Loop hdr body => exec_loop ev hdr body m
  end.

Definition exec_list (ev : env) : list enode -> mstate -> xres := seq (exec_node ev).

(** ** The group teardown [drop_cycle]: its loops run over the members of the
    cycle map, in the order of the list [cyc] *)
Fixpoint for_members (keys : list oid) (f : env -> mstate -> xres) (cyc : omap) (m : mstate) : xres :=
  match cyc with
  | [] => XDone m
  | (k, c) :: cyc' =>
      match f {| this := k; ekeys := keys; eref := c |} m with
      | XDone m' | XCont m' => for_members keys f cyc' m'
      | XUser _ _ => XStuck
      | x => x
      end
  end.

(** [.filter(|ptr| ptr.is_dead())]: evaluated lazily, once per item *)
Definition if_dead (f : env -> mstate -> xres) (ev : env) (m : mstate) : xres :=
  on_box m (this ev) (fun b => if is_dead (strong b) then f ev m else XDone m).

Fixpoint exec_group (cyc : omap) (l : list enode) (m : mstate) {struct l} : xres :=
  let keys := map fst cyc in
  match l with
  | [] => XDone m
  | EffectsLang.Loop [] body :: r =>
      match for_members keys (fun ev => exec_list ev body) cyc m with
      | XDone m' => exec_group cyc r m'
      | x => x
      end
  | E TestDead :: EffectsLang.Loop [] body :: r =>
      match for_members keys (if_dead (fun ev => exec_list ev body)) cyc m with
      | XDone m' => exec_group cyc r m'
      | x => x
      end
  | E DropInners :: r => XUser m r
  | _ => XStuck
  end.

(** ** Heap facts *)
Arguments getb : simpl never.
Arguments setb : simpl never.
Arguments get_links : simpl never.
Arguments set_links : simpl never.
Arguments links_remove : simpl never.
Arguments purge_loop : simpl never.
Arguments dec_weak_free : simpl never.
Arguments bust_table : simpl never.

Lemma upd_upd {A} (l : list A) i x y : upd (upd l i x) i y = upd l i y.
Proof. revert i; induction l as [|a l IH]; intros [|i]; cbn; auto. now rewrite IH. Qed.

Lemma nth_error_upd_same {A} (l : list A) i x a :
  nth_error l i = Some a -> nth_error (upd l i x) i = Some x.
Proof. revert i; induction l as [|a' l IH]; intros [|i] H; cbn in *; try discriminate; auto. Qed.

Lemma nth_error_upd_other {A} (l : list A) i j x :
  i <> j -> nth_error (upd l i x) j = nth_error l j.
Proof. revert i j; induction l as [|a l IH]; intros [|i] [|j] H; cbn; auto; congruence. Qed.

Lemma setb_setb h o x y : setb (setb h o x) o y = setb h o y.
Proof. apply upd_upd. Qed.

Lemma getb_ok h o b : getb h o = Ok b -> nth_error h o = Some b /\ freed b = false.
Proof.
  unfold getb. destruct (nth_error h o) as [b'|]; [|discriminate].
  destruct (freed b') eqn:F; [discriminate|]. intros [= <-]. auto.
Qed.

Lemma getb_setb_same h o b b' :
  getb h o = Ok b -> freed b' = freed b -> getb (setb h o b') o = Ok b'.
Proof.
  intros H F. apply getb_ok in H as [H Fb]. unfold getb, setb.
  rewrite (nth_error_upd_same _ _ _ _ H), F, Fb. reflexivity.
Qed.

Lemma getb_setb_other h k x o : k <> o -> getb (setb h k x) o = getb h o.
Proof. intros H. unfold getb, setb. now rewrite nth_error_upd_other. Qed.

Lemma links_remove_other h x l n h' o :
  links_remove h x l n = Ok h' -> x <> o -> getb h' o = getb h o.
Proof.
  unfold links_remove, get_links, set_links. intros H Hne.
  destruct (getb h x) as [b|e]; cbn in H; [|discriminate].
  destruct (links b); cbn in H; [|discriminate].
  injection H as <-. now apply getb_setb_other.
Qed.

Lemma foreach_purge o t : forall h, foreach (purge_item o) t h = purge_loop h o t.
Proof.
  induction t as [|[[x kd] n] t IH]; intros h; [reflexivity|].
  cbn [foreach purge_item]. unfold purge_loop; fold purge_loop.
  destruct (Nat.eqb x o); cbn [bind]; [apply IH|].
  destruct (links_remove h x (o, Fwd) n) as [h1|e]; cbn [bind]; [|reflexivity].
  destruct (links_remove h1 x (o, Bwd) n) as [h2|e]; cbn [bind]; [|reflexivity].
  apply IH.
Qed.

Lemma purge_loop_this o t : forall h h', purge_loop h o t = Ok h' -> getb h' o = getb h o.
Proof.
  induction t as [|[[x kd] n] t IH]; intros h h'; unfold purge_loop; fold purge_loop.
  - now intros [= <-].
  - destruct (Nat.eqb_spec x o) as [->|Hne]; [apply IH|].
    destruct (links_remove h x (o, Fwd) n) as [h1|e] eqn:E1; cbn [bind]; [|discriminate].
    destruct (links_remove h1 x (o, Bwd) n) as [h2|e] eqn:E2; cbn [bind]; [|discriminate].
    intros H. rewrite (IH _ _ H), (links_remove_other _ _ _ _ _ _ E2 Hne).
    exact (links_remove_other _ _ _ _ _ _ E1 Hne).
Qed.

(** ** The single-object teardowns *)

(** the continuation after [DropValue] *)
Definition after_value_tree : list enode :=
  [E MoveLinks; E DropLinks; E DecWeak; Branch [E TestWeakZero] [E Dealloc]].

(** the interpreter (left) agrees with the model's [Rc::drop] step (right):
    same fault, or same state, the moved-out value is the one whose destructor
    is started, and the frames are [FDtorStart v; FAfterValue o] *)
Definition agrees (o : oid) (x : xres) (r : R (state * list frame)) : Prop :=
  match r with
  | Ok (s', fr) =>
      exists v, x = XUser {| m_st := s'; m_val := Some v; m_tbl := None; m_inn := [] |} after_value_tree
                /\ fr = [FDtorStart v; FAfterValue o]
  | Bad e => x = XFault e
  end.

Arguments exec_list : simpl never.

Lemma exec_list_cons ev n r m :
  exec_list ev (n :: r) m =
  match exec_node ev n m with
  | XDone m' => exec_list ev r m'
  | XUser m' k => XUser m' (k ++ r)
  | x => x
  end.
Proof. reflexivity. Qed.

Ltac gs G :=
  repeat (first [ rewrite G | rewrite setb_setb
                | rewrite (getb_setb_same _ _ _ _ G) by reflexivity ]; cbn).

Lemma destroy_tail_sem s o b :
  getb (heap_of s) o = Ok b -> is_uninit (strong b) = false ->
  agrees o (exec_list (env1 o) destroy_tail (m0 s)) (start_unreachable s o).
Proof.
  intros G U. unfold start_unreachable, destroy_tail, exec_list. rewrite G. cbn [bind].
  cbn. unfold on_box, m_heap. cbn. gs G. rewrite U. cbn. gs G.
  destruct (value b) as [v|]; cbn; [|reflexivity].
  exists v. split; reflexivity.
Qed.

Lemma get_links_of h o b t : getb h o = Ok b -> links b = Some t -> get_links h o = Ok t.
Proof. intros G L. unfold get_links. rewrite G. cbn. now rewrite L. Qed.

Lemma purge_node ev m t :
  get_links (m_heap m) (this ev) = Ok t ->
  exec_node ev purge_loop_tree m =
  match t with [] => XDone m | _ :: _ => lift_heap m (purge_loop (m_heap m) (this ev) t) end.
Proof.
  intros GL. unfold purge_loop_tree. cbn [exec_node exec_loop]. rewrite GL.
  destruct t; [reflexivity|]. cbn [item_step is_purge_body]. now rewrite foreach_purge.
Qed.

(** (a), against the branch of [drop_strong] that is drop_unreachable_with_adoptions *)
Lemma with_adoptions_core s o b t :
  getb (heap_of s) o = Ok b -> is_uninit (strong b) = false -> links b = Some t ->
  agrees o (exec_list (env1 o) g_drop_unreachable_with_adoptions (m0 s))
    (let* h2 := purge_loop (heap_of s) o t in
     let* h3 := set_links h2 o [] in
     start_unreachable (set_heap s h3) o).
Proof.
  intros G U L. pose proof (get_links_of _ _ _ _ G L) as GL.
  rewrite drop_unreachable_with_adoptions_effects.
  rewrite exec_list_cons, (purge_node (env1 o) (m0 s) t GL).
  assert (K : forall h2, getb h2 o = Ok b ->
            agrees o (exec_list (env1 o) (E BorrowMut :: E Clear :: destroy_tail)
                                (m_set_heap (m0 s) h2))
                     (let* h3 := set_links h2 o [] in start_unreachable (set_heap s h3) o)).
  { intros h2 G2. rewrite exec_list_cons. cbn [exec_node exec_eff].
    rewrite exec_list_cons. cbn [exec_node exec_eff this env1].
    unfold m_heap, set_links. cbn [m_set_heap m_with_st m_st m0 set_heap mk heap_of].
    rewrite G2. cbn [bind lift_heap].
    apply (destroy_tail_sem _ _ (with_links b (Some []))); [|exact U].
    cbn [heap_of mk]. apply (getb_setb_same _ _ _ _ G2). reflexivity. }
  destruct t as [|e t'].
  - unfold purge_loop. cbn [bind]. destruct s as [h rg lg]. apply (K h G).
  - unfold m_heap. cbn [this env1 m0 m_st]. destruct (purge_loop (heap_of s) o (e :: t')) as [h2|e2] eqn:P;
      cbn [bind lift_heap]; [|reflexivity].
    apply K. rewrite (purge_loop_this _ _ _ _ P). exact G.
Qed.

(** the state in which [o]'s strong count has just reached 0: the first thing
    [Rc::drop] does ([dec_strong]) *)
Definition dec_to_zero (s : state) (o : oid) (b : box) : state :=
  set_heap s (setb (heap_of s) o (with_strong b (Cnt 0))).

Lemma dec_to_zero_getb s o b :
  getb (heap_of s) o = Ok b ->
  getb (heap_of (dec_to_zero s o b)) o = Ok (with_strong b (Cnt 0)).
Proof. intros G. cbn. apply (getb_setb_same _ _ _ _ G). reflexivity. Qed.

Theorem drop_unreachable_with_adoptions_sem pri s o b e t :
  getb (heap_of s) o = Ok b -> strong b = Cnt 1 -> links b = Some (e :: t) ->
  agrees o (exec_list (env1 o) g_drop_unreachable_with_adoptions (m0 (dec_to_zero s o b)))
           (drop_strong pri s o).
Proof.
  intros G S L. pose proof (dec_to_zero_getb _ _ _ G) as G1.
  unfold drop_strong. rewrite G. cbn [bind]. rewrite S.
  change (1 =? 0) with false. change (1 - 1) with 0. change (0 =? 0) with true. cbv iota.
  change (set_heap s (setb (heap_of s) o (with_strong b (Cnt 0)))) with (dec_to_zero s o b).
  change (setb (heap_of s) o (with_strong b (Cnt 0))) with (heap_of (dec_to_zero s o b)).
  rewrite (get_links_of _ _ _ (e :: t) G1 L). cbn [bind].
  exact (with_adoptions_core _ _ _ _ G1 eq_refl L).
Qed.

(** the plain function: the initial loop runs over an empty table *)
Lemma unreachable_core s o b :
  getb (heap_of s) o = Ok b -> is_uninit (strong b) = false ->
  get_links (heap_of s) o = Ok [] ->
  agrees o (exec_list (env1 o) g_drop_unreachable (m0 s)) (start_unreachable s o).
Proof.
  intros G U GL. rewrite drop_unreachable_effects.
  rewrite exec_list_cons. cbn [exec_node exec_loop this env1]. unfold m_heap. cbn [m0 m_st].
  rewrite GL. exact (destroy_tail_sem _ _ _ G U).
Qed.

(** the loop of the plain function is a no-op whatever its body is *)
Lemma empty_table_loop_noop ev body m :
  get_links (m_heap m) (this ev) = Ok [] ->
  exec_node ev (EffectsLang.Loop [E Borrow] body) m = XDone m.
Proof. intros GL. cbn [exec_node exec_loop]. now rewrite GL. Qed.

Theorem drop_unreachable_sem pri s o b :
  getb (heap_of s) o = Ok b -> strong b = Cnt 1 ->
  get_links (heap_of (dec_to_zero s o b)) o = Ok [] ->
  agrees o (exec_list (env1 o) g_drop_unreachable (m0 (dec_to_zero s o b)))
           (drop_strong pri s o).
Proof.
  intros G S GL. pose proof (dec_to_zero_getb _ _ _ G) as G1.
  unfold drop_strong. rewrite G. cbn [bind]. rewrite S.
  change (1 =? 0) with false. change (1 - 1) with 0. change (0 =? 0) with true. cbv iota.
  change (set_heap s (setb (heap_of s) o (with_strong b (Cnt 0)))) with (dec_to_zero s o b).
  change (setb (heap_of s) o (with_strong b (Cnt 0))) with (heap_of (dec_to_zero s o b)).
  rewrite GL. cbn [bind].
  exact (unreachable_core _ _ _ G1 eq_refl GL).
Qed.

(** (b): the continuation is one step of the machine on [FAfterValue o] *)
Definition as_outcome (s : state) (k : list frame) (u : bool) (x : xres) : option outcome :=
  match x with
  | XDone m' => Some (Running {| st := m_st m'; stack := k; unw := u |})
  | XFault e => Some (Halted s e)
  | _ => None
  end.

Theorem after_value_is_step pri o m k u :
  as_outcome (m_st m) k u (exec_list (env1 o) after_value_tree m)
  = Some (step pri {| st := m_st m; stack := FAfterValue o :: k; unw := u |}).
Proof.
  unfold step, after_value_tree, exec_list. cbn [st stack unw].
  destruct (getb (heap_of (m_st m)) o) as [b|e] eqn:G.
  2:{ cbn. unfold on_box, m_heap. rewrite G. reflexivity. }
  cbn. unfold on_box, m_heap. rewrite G.
  destruct (links b) as [t|]; [|reflexivity].
  cbn. unfold dec_weak_free. gs G.
  destruct (weak b =? 0) eqn:W; [reflexivity|].
  cbn. unfold m_put, m_heap. cbn. gs G.
  destruct (weak b - 1 =? 0) eqn:W1; cbn; unfold on_box, m_put, m_heap; cbn; gs G.
  all: reflexivity.
Qed.

(** ** The group teardown [drop_cycle] *)
Definition mS (h : heap) (rg : list reg) (lg : list event)
           (v : option payload) (tb : option table) (inn : list inner) : mstate :=
  {| m_st := mk h rg lg; m_val := v; m_tbl := tb; m_inn := inn |}.

Definition bust_body : list enode := [E BorrowMut; E ExtractIf; EffectsLang.Loop [] [E DecStrong]].
Definition gather_body : list enode :=
  [Branch [E TestDead] [E Continue];
   Branch [E TestUninit] [E MakeUninit; E MoveValue; E MoveLinks; E PushInner]].
Definition finish_body : list enode := [E DecWeak; Branch [E TestWeakZero] [E Dealloc]].
(** the continuation after [DropInners] *)
Definition cycle_cont : list enode := [E TestDead; EffectsLang.Loop [] finish_body].

Lemma bust_item keys k c h rg lg v tb inn :
  exec_list {| this := k; ekeys := keys; eref := c |} bust_body (mS h rg lg v tb inn) =
  match bust_one h keys k c with
  | Ok h' => XDone (mS h' rg lg v tb inn)
  | Bad e => XFault e
  end.
Proof.
  unfold bust_one, bust_body, exec_list. cbn. unfold on_box, m_heap. cbn.
  destruct (getb h k) as [b|e] eqn:G; [|reflexivity]. cbn.
  destruct (links b) as [t|]; [|reflexivity]. cbn. unfold on_box, m_put, m_heap. cbn. gs G.
  destruct (strong b); cbn; gs G; reflexivity.
Qed.

Lemma phase_one keys b1 cyc :
  b1 = bust_body -> forall h rg lg v tb inn,
  for_members keys (fun ev => exec_list ev b1) cyc (mS h rg lg v tb inn) =
  match bust_all h keys cyc with
  | Ok h' => XDone (mS h' rg lg v tb inn)
  | Bad e => XFault e
  end.
Proof.
  intros ->. induction cyc as [|[k c] cyc IH]; intros; [reflexivity|].
  cbn [for_members bust_all]. rewrite bust_item.
  destruct (bust_one h keys k c) as [h1|e]; cbn [bind]; [apply IH|reflexivity].
Qed.

Lemma gather_item keys k c h rg lg acc :
  exec_list {| this := k; ekeys := keys; eref := c |} gather_body (mS h rg lg None None acc) =
  match getb h k with
  | Bad e => XFault e
  | Ok b =>
      if negb (is_dead (strong b)) then XCont (mS h rg lg None None acc)
      else if is_uninit (strong b) then XDone (mS h rg lg None None acc)
      else match value b, links b with
           | None, _ => XFault (HFault FkValueMoved k)
           | _, None => XFault (HFault FkTableMoved k)
           | Some v, Some t =>
               XDone (mS (setb h k (with_links (with_value (with_strong b Uninit) None) None))
                         rg lg None None (acc ++ [(k, v, t)]))
           end
  end.
Proof.
  unfold gather_body, exec_list. cbn. unfold m_heap. cbn.
  destruct (getb h k) as [b|e] eqn:G; [|reflexivity]. cbn.
  destruct (is_dead (strong b)); cbn; [|reflexivity]. gs G.
  destruct (is_uninit (strong b)); cbn; [reflexivity|].
  unfold on_box, m_put, m_heap. cbn. gs G.
  destruct (value b) as [v|]; cbn; [|reflexivity]. gs G.
  destruct (links b) as [t|]; cbn; reflexivity.
Qed.

Lemma phase_two keys b2 cyc :
  b2 = gather_body -> forall h rg lg acc,
  for_members keys (fun ev => exec_list ev b2) cyc (mS h rg lg None None acc) =
  match gather h (map fst cyc) acc with
  | Ok (h', acc') => XDone (mS h' rg lg None None acc')
  | Bad e => XFault e
  end.
Proof.
  intros ->. induction cyc as [|[k c] cyc IH]; intros; [reflexivity|].
  cbn [for_members gather map fst]. rewrite gather_item.
  destruct (getb h k) as [b|e]; cbn [bind]; [|reflexivity].
  destruct (negb (is_dead (strong b))); [apply IH|].
  destruct (is_uninit (strong b)); [apply IH|].
  destruct (value b) as [v|]; [|reflexivity].
  destruct (links b) as [t|]; [|reflexivity]. apply IH.
Qed.

Lemma finish_item ev h rg lg v tb inn :
  exec_list ev finish_body (mS h rg lg v tb inn) =
  match dec_weak_free h (this ev) with
  | Ok h' => XDone (mS h' rg lg v tb inn)
  | Bad e => XFault e
  end.
Proof.
  unfold finish_body, exec_list, dec_weak_free. cbn. unfold on_box, m_heap. cbn.
  destruct (getb h (this ev)) as [b|e] eqn:G; [|reflexivity]. cbn.
  destruct (weak b =? 0); [reflexivity|]. cbn. gs G.
  destruct (weak b - 1 =? 0); cbn; unfold on_box, m_put, m_heap; cbn; gs G; reflexivity.
Qed.

Lemma phase_three keys b3 cyc :
  b3 = finish_body -> forall h rg lg v tb inn,
  for_members keys (if_dead (fun ev => exec_list ev b3)) cyc (mS h rg lg v tb inn) =
  match finish_group h (map fst cyc) with
  | Ok h' => XDone (mS h' rg lg v tb inn)
  | Bad e => XFault e
  end.
Proof.
  intros ->. induction cyc as [|[k c] cyc IH]; intros; [reflexivity|].
  cbn [for_members finish_group map fst]. unfold if_dead, on_box, m_heap. cbn [this mS m_st heap_of mk].
  destruct (getb h k) as [b|e]; cbn [bind]; [|reflexivity].
  destruct (is_dead (strong b)); [|apply IH].
  fold (mS h rg lg v tb inn). rewrite finish_item. cbn [this].
  destruct (dec_weak_free h k) as [h1|e]; cbn [bind]; [apply IH|reflexivity].
Qed.

(** (a): phases one and two are [bust_all] and [gather]; the interpreter stops
    at [DropInners] with the vector [inners] that the frame [FInners] gets *)
Theorem drop_cycle_sem s cyc :
  let keys := map fst cyc in
  match (let* h2 := bust_all (heap_of s) keys cyc in gather h2 keys []) with
  | Ok (h3, inners) =>
      exec_group cyc g_drop_cycle (m0 s) =
      XUser {| m_st := set_heap s h3; m_val := None; m_tbl := None; m_inn := inners |} cycle_cont
  | Bad e => exec_group cyc g_drop_cycle (m0 s) = XFault e
  end.
Proof.
  destruct s as [h rg lg]. cbn zeta. rewrite drop_cycle_effects.
  cbn [exec_group heap_of].
  change (m0 {| heap_of := h; regs := rg; log := lg |}) with (mS h rg lg None None []).
  rewrite (phase_one _ _ _ eq_refl).
  destruct (bust_all h (map fst cyc) cyc) as [h2|e]; cbn [bind]; [|reflexivity].
  rewrite (phase_two _ _ _ eq_refl).
  destruct (gather h2 (map fst cyc) []) as [[h3 inners]|e]; reflexivity.
Qed.

(** (b): the continuation is one step of the machine on [FFinishGroup keys] *)
Theorem finish_group_is_step pri cyc m k u :
  as_outcome (m_st m) k u (exec_group cyc cycle_cont m)
  = Some (step pri {| st := m_st m; stack := FFinishGroup (map fst cyc) :: k; unw := u |}).
Proof.
  destruct m as [[h rg lg] v tb inn]. unfold cycle_cont, step. cbn [exec_group st stack unw m_st heap_of].
  change (Build_mstate (Build_state h rg lg) v tb inn) with (mS h rg lg v tb inn).
  rewrite (phase_three _ _ _ eq_refl).
  destruct (finish_group h (map fst cyc)) as [h1|e]; reflexivity.
Qed.

(** (a) against [drop_strong] itself: the branch in which the trace found an
    orphaned cycle. [EvTrace] and [EvGroup] are the model's instrumentation
    (not effects of drop_cycle): the tree runs between the two. *)
Theorem drop_cycle_drop_strong pri s o b n e t cyc0 pops visits :
  getb (heap_of s) o = Ok b -> strong b = Cnt n ->
  (n =? 0) = false -> (n - 1 =? 0) = false -> links b = Some (e :: t) ->
  let h1 := setb (heap_of s) o (with_strong b (Cnt (n - 1))) in
  orphaned_cycle h1 o = Ok (Some cyc0, pops, visits) ->
  let s2 := add_ev (set_heap s h1) (EvTrace o pops visits) in
  let cyc := order_cycle pri cyc0 in
  let keys := map fst cyc in
  match drop_strong pri s o with
  | Ok (s', fr) =>
      exists m, exec_group cyc g_drop_cycle (m0 s2) = XUser m cycle_cont
                /\ m_val m = None /\ m_tbl m = None
                /\ s' = add_ev (m_st m) (EvGroup keys)
                /\ fr = [FInners (m_inn m); FFinishGroup keys]
  | Bad e => exec_group cyc g_drop_cycle (m0 s2) = XFault e
  end.
Proof.
  intros G S N0 N1 L h1 OC s2 cyc keys.
  assert (G1 : getb h1 o = Ok (with_strong b (Cnt (n - 1)))).
  { apply (getb_setb_same _ _ _ _ G). reflexivity. }
  unfold drop_strong. rewrite G. cbn [bind]. rewrite S, N0. cbv zeta. fold h1.
  rewrite (get_links_of _ _ _ (e :: t) G1 L). cbn [bind]. rewrite N1, OC. cbn [bind].
  fold s2. fold cyc. fold keys.
  pose proof (drop_cycle_sem s2 cyc) as D. cbv zeta in D. fold keys in D.
  change (heap_of s2) with h1 in D.
  destruct (bust_all h1 keys cyc) as [h2|e2]; cbn [bind] in *; [|exact D].
  destruct (gather h2 keys []) as [[h3 inners]|e2]; [|exact D].
  eexists. split; [exact D|]. repeat split.
Qed.

(** ** Summary: each generated tree, run by the interpreter, is the model *)
Theorem drop_unreachable_realised pri s o b :
  getb (heap_of s) o = Ok b -> strong b = Cnt 1 ->
  get_links (heap_of (dec_to_zero s o b)) o = Ok [] ->
  agrees o (exec_list (env1 o) g_drop_unreachable (m0 (dec_to_zero s o b))) (drop_strong pri s o)
  /\ forall m k u,
       as_outcome (m_st m) k u (exec_list (env1 o) after_value_tree m)
       = Some (step pri {| st := m_st m; stack := FAfterValue o :: k; unw := u |}).
Proof. intros. split; [now apply drop_unreachable_sem | intros; apply after_value_is_step]. Qed.

Theorem drop_unreachable_with_adoptions_realised pri s o b e t :
  getb (heap_of s) o = Ok b -> strong b = Cnt 1 -> links b = Some (e :: t) ->
  agrees o (exec_list (env1 o) g_drop_unreachable_with_adoptions (m0 (dec_to_zero s o b)))
           (drop_strong pri s o)
  /\ forall m k u,
       as_outcome (m_st m) k u (exec_list (env1 o) after_value_tree m)
       = Some (step pri {| st := m_st m; stack := FAfterValue o :: k; unw := u |}).
Proof. intros. split; [now apply (drop_unreachable_with_adoptions_sem pri s o b e t) | intros; apply after_value_is_step]. Qed.

Print Assumptions drop_unreachable_realised.
Print Assumptions drop_unreachable_with_adoptions_realised.
Print Assumptions unreachable_core.
Print Assumptions with_adoptions_core.
Print Assumptions after_value_is_step.
Print Assumptions drop_cycle_sem.
Print Assumptions drop_cycle_drop_strong.
Print Assumptions finish_group_is_step.
