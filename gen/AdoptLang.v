(** * The command language of adopt.rs and its meaning (hand written, static).

    tools/rs2v.py parses [adopt_unchecked] and [unadopt] into [list lstmt]
    (gen/AdoptGen.v, regenerated on every run); [run_prog] says what such a
    program does: which link table the guard named [links] borrows, that
    [insert]/[remove] act on the table of the most recent live guard, that a
    guard is released by [drop(links)] or, in reverse order of creation, when
    the function returns (Rust scope rules: shadowing a binding does NOT drop
    the previous guard). The heap operations are the model's own primitives
    [links_insert] / [links_remove]; the borrow events are those of
    Proofs/Borrow.v. *)
From Coq Require Import NArith List. Import ListNotations.
From CR Require Import Base Atomic Borrow.

Inductive tgt := This | Other.
Inductive lcmd :=
| LBorrowMut (x : tgt)
| LRelease
| LInsert (k : kind) (y : tgt)
| LRemove (k : kind) (y : tgt) (n : N)
| LReturn.
Inductive lstmt := LIfSame (body : list lcmd) | LCmd (c : lcmd).

Section Run.
Variables (a b : oid).      (* the allocations behind [this] and [other] *)
Definition res (x : tgt) : oid := match x with This => a | Other => b end.

(** state: heap (or the halt), the live guards (innermost first), events so far
    (oldest first), returned? *)
Record lst := { l_heap : R heap; l_guards : list oid; l_evs : list bev; l_done : bool }.

Definition release_all (g : list oid) : list bev := map BRelMut g.

Definition on_heap (s : lst) (f : heap -> R heap) : lst :=
  {| l_heap := match l_heap s with Ok h => f h | Bad e => Bad e end;
     l_guards := l_guards s; l_evs := l_evs s; l_done := l_done s |}.

Definition run_cmd (s : lst) (c : lcmd) : lst :=
  if l_done s then s else
  match c with
  | LBorrowMut x =>
      {| l_heap := l_heap s; l_guards := res x :: l_guards s; l_evs := l_evs s ++ [BMut (res x)]; l_done := false |}
  | LRelease =>
      match l_guards s with
      | g :: gs => {| l_heap := l_heap s; l_guards := gs; l_evs := l_evs s ++ [BRelMut g]; l_done := false |}
      | [] => {| l_heap := Bad (HFault FkFuel 0); l_guards := []; l_evs := l_evs s; l_done := true |}  (* ill formed *)
      end
  | LInsert k y =>
      match l_guards s with
      | g :: _ => on_heap s (fun h => links_insert h g (res y, k))
      | [] => {| l_heap := Bad (HFault FkFuel 0); l_guards := []; l_evs := l_evs s; l_done := true |}
      end
  | LRemove k y n =>
      match l_guards s with
      | g :: _ => on_heap s (fun h => links_remove h g (res y, k) n)
      | [] => {| l_heap := Bad (HFault FkFuel 0); l_guards := []; l_evs := l_evs s; l_done := true |}
      end
  | LReturn =>
      {| l_heap := l_heap s; l_guards := []; l_evs := l_evs s ++ release_all (l_guards s); l_done := true |}
  end.

Definition run_stmt (same : bool) (s : lst) (st : lstmt) : lst :=
  match st with
  | LCmd c => run_cmd s c
  | LIfSame body => if same then fold_left run_cmd body s else s
  end.

(** the whole function body; falling off the end is a return *)
Definition run_prog (p : list lstmt) (same : bool) (h : heap) : R heap * list bev :=
  let s := fold_left (run_stmt same) p {| l_heap := Ok h; l_guards := []; l_evs := []; l_done := false |} in
  let s := run_cmd s LReturn in
  (l_heap s, l_evs s).
End Run.
