(** * The raw-pointer functions of rc.rs as translated are the model's actions
    (C12). Re-checked on every run against gen/EffectsGen.v.

    Reading of the markers on a register machine in which a raw pointer is a
    register holding [RRaw o] (a strong count owned by nobody's destructor):
      FromRaw          the register's pointer becomes a handle again (no counter changes)
      ManuallyDropNew  that handle will not be dropped at scope end
      CloneValue       on a handle: [Rc::clone] = the model's [inc_strong]
      DropFromRaw      [drop(Rc::from_raw(p))]: one full [Rc::drop] = the frame [FDropStrong o]
      AsPtr; Forget    [into_raw]: the pointer is kept, the handle forgotten (no counter changes) *)
From Coq Require Import NArith List. Import ListNotations.
From CR Require Import Base Atomic Machine.
From Gen Require Import EffectsLang EffectsGen EffectsProofs.

(** counter effect and pushed frames of a raw-pointer function on object [o] *)
Definition raw_effect (o : oid) (tree : list enode) (h : heap) : option (R heap * list frame) :=
  match tree with
  | [E ManuallyDropNew; E FromRaw; E CloneValue] => Some (inc_strong h o, [])
  | [E DropFromRaw] => Some (Ok h, [FDropStrong o])
  | [E AsPtr; E Forget] => Some (Ok h, [])
  | [E DataOffset; E FromPtr] => Some (Ok h, [])
  | _ => None
  end.

Theorem increment_strong_count_sem s self r dst o :
  reg_get s r = RRaw o -> reg_free s dst = true ->
  exists x, raw_effect o g_increment_strong_count (heap_of s) = Some (x, []) /\
    exec_act s self (AIncStrong r dst) =
    match x with
    | Ok h1 => AO (set_reg (set_heap s h1) dst (RRaw o)) self RUnit []
    | Bad e => AHalt e
    end.
Proof.
  intros Hr Hf. destruct raw_pointer_effects as (-> & _). eexists. split; [reflexivity|].
  cbn [exec_act]. rewrite Hr, Hf. unfold lift. destruct (inc_strong (heap_of s) o); reflexivity.
Qed.

Theorem decrement_strong_count_sem s self r o :
  reg_get s r = RRaw o ->
  raw_effect o g_decrement_strong_count (heap_of s) = Some (Ok (heap_of s), [FDropStrong o]) /\
  exec_act s self (ADecStrong r) = AO (set_reg s r REmpty) self RUnit [FDropStrong o].
Proof.
  intros Hr. destruct raw_pointer_effects as (_ & -> & _). split; [reflexivity|].
  cbn [exec_act]. rewrite Hr. reflexivity.
Qed.

Theorem into_from_raw_sem s self r o :
  raw_effect o g_into_raw (heap_of s) = Some (Ok (heap_of s), []) /\
  raw_effect o g_from_raw (heap_of s) = Some (Ok (heap_of s), []) /\
  (reg_get s r = RStrong o -> exec_act s self (AIntoRaw r) = AO (set_reg s r (RRaw o)) self RUnit []) /\
  (reg_get s r = RRaw o -> exec_act s self (AFromRaw r) = AO (set_reg s r (RStrong o)) self RUnit []).
Proof.
  destruct raw_pointer_effects as (_ & _ & -> & ->). repeat split.
  - intros Hr. cbn [exec_act]. rewrite Hr. reflexivity.
  - intros Hr. cbn [exec_act]. rewrite Hr. reflexivity.
Qed.

Print Assumptions increment_strong_count_sem.
Print Assumptions decrement_strong_count_sem.
Print Assumptions into_from_raw_sem.
