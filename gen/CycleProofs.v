(** * The decision logic of the trace as translated is the one the model uses.

    Re-checked on every run against gen/CycleGen.v (regenerated from
    /repo/src/cycle.rs). The two places that carry the decision logic are proved equal
    to the model here; the control skeletons of [cycle_refs] and
    [orphaned_cycle], also translated, in gen/CycleSkelProofs.v. *)
From Coq Require Import NArith List Bool Lia. Import ListNotations.
From CR Require Import Base Atomic.
From Gen Require Import CycleLang CycleGen.
Local Open Scope N_scope.

(** what the translated body does with an entry of each kind: Loopback records
    are skipped (fix 916b7e3), Forward records are counted and followed,
    Backward records make their owner part of the comparison with count 0 *)
Theorem entry_actions :
  run_body Loop g_entry_body = [] /\
  run_body Fwd g_entry_body = [EAdd; EPush] /\
  run_body Bwd g_entry_body = [EDefault].
Proof. repeat split; reflexivity. Qed.

(** one pass over a node's table: the model's [visit_entries] *)
Theorem visit_entries_translated t : forall own pushed,
  visit_entries t own pushed = g_visit_entries g_entry_body t own pushed.
Proof.
  destruct entry_actions as (HL & HF & HB).
  induction t as [|[[x k] c] t IH]; intros own pushed; [reflexivity|].
  unfold g_visit_entries in *. cbn [fold_left]. unfold visit_entry at 2. cbn [fst snd].
  destruct k; cbn [visit_entries].
  - rewrite HF. cbn [fold_left apply_act fst snd]. apply IH.
  - rewrite HB. cbn [fold_left apply_act fst snd]. apply IH.
  - rewrite HL. cbn [fold_left]. apply IH.
Qed.

(** the external-owner test of [orphaned_cycle]: the model's [sgt]; for a
    member carrying the marker (strong = M = usize::MAX) as long as the owned
    count stays below the marker *)
Theorem external_test_translated n c : sgt (Cnt n) c = g_external n c.
Proof. reflexivity. Qed.

Theorem external_test_translated_marker M c : c < M -> sgt Uninit c = g_external M c.
Proof. intros H. unfold g_external. cbn [sgt]. symmetry. apply N.ltb_lt. exact H. Qed.

Print Assumptions entry_actions.
Print Assumptions visit_entries_translated.
Print Assumptions external_test_translated.
Print Assumptions external_test_translated_marker.
