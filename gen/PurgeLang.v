(** * The body of the purge loop and its meaning (hand written, static).

    [for (item, &strong) in links.borrow().iter() { body }] of
    [drop_unreachable_with_adoptions] and [release_links]: for the entry
    [((x, _), n)] of [this]'s table the body may skip the entry when it names
    [this] itself, borrows the PEER's table ([item.as_ref().links()]) and
    removes from it records naming [this], with the entry's count. *)
From Coq Require Import NArith List. Import ListNotations.
From CR Require Import Base Atomic.

Inductive pstmt := PSkipSelf | PBorrowPeer | PRemove (k : kind).

Section Run.
Variable this : oid.

(** one entry: heap, peer borrowed?, stopped by [continue]? *)
Definition run_pstmt (x : oid) (n : N) (st : R heap * bool * bool) (s : pstmt) : R heap * bool * bool :=
  let '(h, borrowed, stopped) := st in
  if stopped then st else
  match s with
  | PSkipSelf => if Nat.eqb x this then (h, borrowed, true) else st
  | PBorrowPeer => (h, true, false)
  | PRemove k =>
      if borrowed then
        (match h with Ok h0 => links_remove h0 x (this, k) n | Bad e => Bad e end, true, false)
      else (Bad (HFault FkFuel this), borrowed, true)      (* remove without a borrowed table: ill formed *)
  end.

Definition run_entry (body : list pstmt) (h : heap) (e : link * N) : R heap :=
  fst (fst (fold_left (run_pstmt (fst (fst e)) (snd e)) body (Ok h, false, false))).

Fixpoint g_purge_loop (body : list pstmt) (h : heap) (entries : table) : R heap :=
  match entries with
  | [] => Ok h
  | e :: rest =>
      match run_entry body h e with
      | Ok h1 => g_purge_loop body h1 rest
      | Bad x => Bad x
      end
  end.
End Run.
