(** * The translated machine: ONE machine in which every piece of library code
    is executed by the code regenerated from the Rust source, and ONE theorem
    that it is the model's machine (hand written; re-checked on every run
    against the regenerated [*Gen.v] / [Counters.v]).

    The other files of this directory prove, piece by piece, that the model
    (CR.Machine) computes what the generated code computes.  Here the pieces
    are put together:

    - [texec_act] is [Machine.exec_act] with every action that is library
      code run by the generated code, through the interpreters of the
      piecewise files (table below);
    - [tstep] is [Machine.step] with [Rc::drop], the continuations of the
      teardown functions after user code, [Weak::drop] of a slot, and the
      script actions run by the generated code;
    - [trun], [texec_op], [trun_history] are [run], [exec_op], [run_history]
      over [tstep] / [texec_act];
    - [trun_history_is_run_history]: on disciplined histories the translated
      machine IS the model's machine; [translated_machine_is_safe]: the safety
      theorem ([RunInv.run_history_inv]) about the translated machine.

    What runs generated code, and through what:

      action / frame                 generated code                    interpreter / piece
      ------------------------------ --------------------------------- -------------------------------
      AAdopt, AUnadopt               g_adopt_unchecked, g_unadopt      AdoptLang.run_prog (Capstone2)
      ATryUnwrap                     g_try_unwrap (+ g_release_links)  RcCompose.run_fn_trees
      AMakeMut                       g_make_mut (+ g_release_links)    RcCompose.run_fn_trees  [Inv]
      AClone                         g_rc_clone                        [on_cells]  (HandlesProofs) [fits]
      ADowngrade                     g_rc_downgrade                    [on_cells]                  [fits]
      ACloneWeak                     g_weak_clone(_dangling)           [on_cells] / [on_dangling]  [fits]
      AUpgrade                       g_weak_upgrade(_dangling)         [on_cells] / [on_dangling]  [fits]
      AGetMut                        g_rc_is_unique                    [on_cells]                  [fits]
      AStrongCount, AWeakCount       g_rc_strong_count, g_rc_weak_count                            [fits]
      AWStrongCount, AWWeakCount     g_weak_strong_count(_dangling), g_weak_weak_count(_dangling)  [fits]
      AIncStrong, ADecStrong         g_increment/decrement_strong_count  RawSem.raw_effect  [+]
      AIntoRaw, AFromRaw             g_into_raw, g_from_raw            RawSem.raw_effect
      ADrop r (register holds Weak)  g_weak_drop                       EffectsSemRc.exec_weak_drop
      ANew, ONewS                    g_new_cells                       [fresh_box] (new_box_translated)
      FDropStrong o                  g_rc_drop + g_drop_unreachable,   DropCompose.run_drop_trees
                                     g_drop_unreachable_with_adoptions,
                                     g_drop_cycle
      FAfterValue o                  the rest of g_drop_unreachable /  EffectsSem.exec_list
                                     _with_adoptions after [DropValue]
      FFinishGroup keys              the rest of g_drop_cycle after    EffectsSem.exec_group
                                     [DropInners]
      FDropSlots (SWeak w :: _)      g_weak_drop                       EffectsSemRc.exec_weak_drop
      FRunDtor p (a :: pc)           [texec_act]

    [+] RawSem reads the marker [CloneValue] of g_increment_strong_count as the
    model's [inc_strong], not as [g_rc_clone] on the cells: no [fits] there.
    Likewise the counter markers INSIDE the effect trees ([DecStrong],
    [DecWeak], [DDecStrong] of the dispatch) are read by the interpreters of
    EffectsSem / EffectsSemRc / DropLang with the model's arithmetic;
    CountersProofs ([dec_strong_refines], [dec_weak_refines]) ties that
    arithmetic to [g_dec_strong] / [g_dec_weak] separately.

    [Inv]: the equality needs the machine invariant (make_mut allocates before
    it clones, the model clones before it allocates: EffectsSemRc).
    [fits]: the equality needs the counters of the object the action works on
    to fit the usize cells of the source ([CountersProofs.repr_ok]: strong <
    usize::MAX - 1, weak < usize::MAX).  The model's counters are unbounded;
    neither [Inv] nor [step_hyp] bound them.  This is the ONE side condition
    that the invariant does not provide; it is named [act_fits] (one action),
    [step_fits] (one step), [run_fits] / [op_fits] / [hist_fits] (checked along
    the run exactly as [run_ok] / [op_ok] / [hist_ok] are), and
    [clone_at_the_limit] shows that it cannot be dropped.

    Left to the model ([exec_act] / [step]), with the reason:
      AStore, ATake, APanic        harness language (moves between registers and fields; user panic)
      ADeref                       [Deref for Rc]: reads the value; the translator produces no code
                                   for it (a field access, no counter, no table)
      APtrEq                       [Rc::ptr_eq]: RawPtrGen.g_rc_ptr_eq is equality of ADDRESSES; the
                                   model's state has allocation identities, not addresses, and no
                                   theorem of this directory relates [exec_act] to addresses
      AWeakNew                     [Weak::new]: RawPtrGen.g_weak_new is the sentinel ADDRESS; in the
                                   model's state it is the register content [RWeak None], no code
      ADrop r (register holds Rc)  harness: pushes [FDropStrong o], which [tstep] runs translated
      ADrop r (register holds a    harness: pushes [FDtorStart p] (user code)
        loose value)
      all frames but the five above: bookkeeping of the harness language (script sequencing, field
                                   drop glue, the per-member order of [drop(inners)], logging)

    [stk] is the answer given when an interpreter is stuck (a tree without
    meaning, a missing continuation).  The equalities hold for EVERY [stk]: it
    is never the answer returned. *)
From Coq Require Import NArith List Bool Lia. Import ListNotations.
From Gen Require Import Counters CountersProofs HandlesGen HandlesProofs.
From CR Require Import Base Atomic Machine Tokens InvDef ActBase StepInv RunInv.
From Gen Require Import AdoptLang AdoptGen AdoptProofs Capstone2.
From Gen Require Import EffectsLang EffectsGen EffectsProofs EffectsSem EffectsSemRc EffectsSemRcInv RcCompose.
From Gen Require Import DropLang DropGen DropProofs DropCompose RawSem.
Local Open Scope N_scope.

(** ** 1. Running a counter method of [trait RcInnerPtr] / [impl Rc] on an object *)

(** the usize cells of a box, read back ([CountersProofs.enc] is the encoding) *)
Definition dec_cnt (n : N) : scount := if n =? MAXU then Uninit else Cnt n.

Definition put_cells (b : box) (c : cells) : box :=
  with_weak (with_strong b (dec_cnt (c_strong c))) (c_weak c).

(** run the translated method [m] on the counters of object [o]; the counters
    it leaves are written back; [abort()] is the model's [HAbort], a usize
    subtraction overflow is the model's underflow fault *)
Definition on_cells {A} (s : state) (o : oid) (m : M A) (k : A -> state -> aout) : aout :=
  match getb (heap_of s) o with
  | Bad e => AHalt e
  | Ok b =>
      match m (cells_of b) with
      | Ret a c' => k a (set_heap s (setb (heap_of s) o (put_cells b c')))
      | Abort => AHalt HAbort
      | Overflow => AHalt (HFault FkUnderflow o)
      end
  end.

(** the methods of a dangling [Weak] touch no allocation *)
Definition no_cells : cells := {| c_strong := 0; c_weak := 0 |}.

Definition on_dangling {A} (stk : halt) (m : M A) (k : A -> aout) : aout :=
  match m no_cells with
  | Ret a _ => k a
  | Abort => AHalt HAbort
  | Overflow => AHalt stk
  end.

(** a fresh allocation: counters from the generated initialiser *)
Definition blank_box (p : payload) : box :=
  {| strong := Uninit; weak := 0; links := Some []; talloc := false; value := Some p; freed := false |}.

Definition fresh_box (p : payload) : box := put_cells (blank_box p) g_new_cells.

(** ** 2. The side condition: the counters fit the cells *)
Definition box_fits (b : box) : bool :=
  match strong b with Cnt n => n <? MAXU - 1 | Uninit => true end && (weak b <? MAXU).

(** the object whose counters the action reads or writes through [on_cells] *)
Definition act_cells_target (s : state) (self : option payload) (a : act) : option oid :=
  match a with
  | AClone hr _ | ADowngrade hr _ | AStrongCount hr | AWeakCount hr =>
      match resolve_strong s self hr with Some (o, _) => Some o | None => None end
  | AUpgrade wr _ | ACloneWeak wr _ | AWStrongCount wr | AWWeakCount wr =>
      match resolve_weak s self wr with Some (Some o) => Some o | _ => None end
  | AGetMut r => match reg_get s r with RStrong o => Some o | _ => None end
  | _ => None
  end.

Definition act_fits (s : state) (self : option payload) (a : act) : bool :=
  match act_cells_target s self a with
  | Some o => match getb (heap_of s) o with Ok b => box_fits b | Bad _ => true end
  | None => true
  end.

(** ** 3. [texec_act] *)

(** the result of a tree of EffectsSem run to its end, no local left alive *)
Definition tree_done (stk : halt) (x : xres) (k : state -> aout) : aout :=
  match x with
  | XDone m' =>
      match m_val m', m_tbl m', m_inn m' with
      | None, None, [] => k (m_st m')
      | _, _, _ => AHalt stk
      end
  | XFault e => AHalt e
  | _ => AHalt stk
  end.

(** a raw-pointer function on object [o] (RawSem) *)
Definition raw_call (stk : halt) (s : state) (self : option payload) (o : oid)
           (tree : list enode) (k : state -> state) : aout :=
  match raw_effect o tree (heap_of s) with
  | Some (Ok h1, push) => AO (k (set_heap s h1)) self RUnit push
  | Some (Bad e, _) => AHalt e
  | None => AHalt stk
  end.

(** a function of rc.rs given by an effect tree (RcCompose) *)
Definition rc_call (stk : halt) (self : option payload) (x : yres) : aout :=
  match as_aout self x with Some out => out | None => AHalt stk end.

Definition texec_new (s : state) (self : option payload) (dst : nat) (sc : list act) : aout :=
  if reg_free s dst then
    let o := length (heap_of s) in
    let p := {| pid := o; slots := empty_slots; script := sc |} in
    AO (set_reg (set_heap s (heap_of s ++ [fresh_box p])) dst (RStrong o)) self RUnit []
  else invalid s self.

Definition texec_act (stk : halt) (s : state) (self : option payload) (a : act) : aout :=
  match a with
  | ANew dst => texec_new s self dst []
  | AClone hr dst =>
      match resolve_strong s self hr with
      | Some (o, _) =>
          if reg_free s dst then
            on_cells s o g_rc_clone (fun _ s1 => AO (set_reg s1 dst (RStrong o)) self RUnit [])
          else invalid s self
      | None => invalid s self
      end
  | ADowngrade hr dst =>
      match resolve_strong s self hr with
      | Some (o, _) =>
          if reg_free s dst then
            on_cells s o g_rc_downgrade (fun _ s1 => AO (set_reg s1 dst (RWeak (Some o))) self RUnit [])
          else invalid s self
      | None => invalid s self
      end
  | AUpgrade wr dst =>
      match resolve_weak s self wr with
      | Some w =>
          if reg_free s dst then
            match w with
            | None =>
                on_dangling stk g_weak_upgrade_dangling
                  (fun ok => if ok then AHalt stk else AO s self RNone [])
            | Some o =>
                on_cells s o g_weak_upgrade
                  (fun ok s1 => if ok then AO (set_reg s1 dst (RStrong o)) self RSome []
                                else AO s1 self RNone [])
            end
          else invalid s self
      | None => invalid s self
      end
  | ACloneWeak wr dst =>
      match resolve_weak s self wr with
      | Some w =>
          if reg_free s dst then
            match w with
            | None =>
                on_dangling stk g_weak_clone_dangling
                  (fun _ => AO (set_reg s dst (RWeak None)) self RUnit [])
            | Some o =>
                on_cells s o g_weak_clone
                  (fun _ s1 => AO (set_reg s1 dst (RWeak (Some o))) self RUnit [])
            end
          else invalid s self
      | None => invalid s self
      end
  | ADrop r =>
      match reg_get s r with
      | RWeak w =>
          tree_done stk (exec_weak_drop w g_weak_drop (m0 s))
            (fun s1 => AO (set_reg s1 r REmpty) self RUnit [])
      | _ => exec_act s self a            (* Rc / loose value: a frame is pushed *)
      end
  | AAdopt h1 h2 =>
      match resolve_strong s self h1, resolve_strong s self h2 with
      | Some (a1, l1), Some (a2, l2) =>
          match fst (run_prog a1 a2 g_adopt_unchecked (hloc_eqb l1 l2) (heap_of s)) with
          | Ok h' => AO (set_heap s h') self RUnit []
          | Bad e => AHalt e
          end
      | _, _ => invalid s self
      end
  | AUnadopt h1 h2 =>
      match resolve_strong s self h1, resolve_strong s self h2 with
      | Some (a1, l1), Some (a2, l2) =>
          match fst (run_prog a1 a2 g_unadopt (hloc_eqb l1 l2) (heap_of s)) with
          | Ok h' => AO (set_heap s h') self RUnit []
          | Bad e => AHalt e
          end
      | _, _ => invalid s self
      end
  | ATryUnwrap r dst =>
      match reg_get s r with
      | RStrong o =>
          if reg_free s dst then
            rc_call stk self (run_fn_trees {| hreg := r; hdst := dst; rthis := o |} g_try_unwrap s)
          else invalid s self
      | _ => invalid s self
      end
  | AGetMut r =>
      match reg_get s r with
      | RStrong o => on_cells s o g_rc_is_unique (fun v s1 => AO s1 self (RBool v) [])
      | _ => invalid s self
      end
  | AMakeMut r =>
      match reg_get s r with
      | RStrong o =>
          rc_call stk self (run_fn_trees {| hreg := r; hdst := r; rthis := o |} g_make_mut s)
      | _ => invalid s self
      end
  | AIntoRaw r =>
      match reg_get s r with
      | RStrong o => raw_call stk s self o g_into_raw (fun s1 => set_reg s1 r (RRaw o))
      | _ => invalid s self
      end
  | AFromRaw r =>
      match reg_get s r with
      | RRaw o => raw_call stk s self o g_from_raw (fun s1 => set_reg s1 r (RStrong o))
      | _ => invalid s self
      end
  | AIncStrong r dst =>
      match reg_get s r with
      | RRaw o =>
          if reg_free s dst then
            raw_call stk s self o g_increment_strong_count (fun s1 => set_reg s1 dst (RRaw o))
          else invalid s self
      | _ => invalid s self
      end
  | ADecStrong r =>
      match reg_get s r with
      | RRaw o => raw_call stk s self o g_decrement_strong_count (fun s1 => set_reg s1 r REmpty)
      | _ => invalid s self
      end
  | AStrongCount hr =>
      match resolve_strong s self hr with
      | Some (o, _) => on_cells s o g_rc_strong_count (fun v s1 => AO s1 self (RCnt (dec_cnt v)) [])
      | None => invalid s self
      end
  | AWeakCount hr =>
      match resolve_strong s self hr with
      | Some (o, _) => on_cells s o g_rc_weak_count (fun v s1 => AO s1 self (RNat v) [])
      | None => invalid s self
      end
  | AWStrongCount wr =>
      match resolve_weak s self wr with
      | Some None => on_dangling stk g_weak_strong_count_dangling (fun v => AO s self (RNat v) [])
      | Some (Some o) => on_cells s o g_weak_strong_count (fun v s1 => AO s1 self (RNat v) [])
      | None => invalid s self
      end
  | AWWeakCount wr =>
      match resolve_weak s self wr with
      | Some None => on_dangling stk g_weak_weak_count_dangling (fun v => AO s self (RNat v) [])
      | Some (Some o) => on_cells s o g_weak_weak_count (fun v s1 => AO s1 self (RNat v) [])
      | None => invalid s self
      end
  (* not library code, or no generated code to run (see the header) *)
  | AWeakNew _ | AStore _ _ _ | ATake _ _ _ | APtrEq _ _ | ADeref _ | APanic => exec_act s self a
  end.

(** ** 4. [tstep] *)

(** the rest of a tree after the marker at which user code runs ([DropValue],
    [DropInners]), computed the way [EffectsSem.seq] assembles the
    continuation [XUser _ rest] *)
Definition first_cont (f : enode -> option (list enode)) : list enode -> option (list enode) :=
  fix go (l : list enode) : option (list enode) :=
    match l with
    | [] => None
    | x :: r => match f x with Some k => Some (k ++ r) | None => go r end
    end.

Fixpoint node_cont (n : enode) : option (list enode) :=
  match n with
  | E DropValue | E DropInners => Some []
  | E _ => None
  | Branch _ b => first_cont node_cont b
  | EffectsLang.Loop _ _ => None
  end.

Definition user_cont : list enode -> option (list enode) := first_cont node_cont.

(** [FAfterValue o] is pushed by [drop_unreachable] and by
    [drop_unreachable_with_adoptions]; the frame does not say by which: it
    stands for the continuation of both, which must be the same tree *)
Definition after_value_cont : option (list enode) :=
  match user_cont g_drop_unreachable, user_cont g_drop_unreachable_with_adoptions with
  | Some k1, Some k2 => if tree_eqb k1 k2 then Some k1 else None
  | _, _ => None
  end.

Definition finish_group_cont : option (list enode) := user_cont g_drop_cycle.

(** the members of the group, as the map the loops of [drop_cycle] run over
    (the counts are used by phase one only, which is over) *)
Definition keyed (keys : list oid) : omap := map (fun k => (k, 0)) keys.

Definition cont_outcome (stk : halt) (s : state) (k : list frame) (u : bool) (x : option xres) : outcome :=
  match x with
  | Some r => match as_outcome s k u r with Some out => out | None => Halted s stk end
  | None => Halted s stk
  end.

Definition tstep (stk : halt) (pri : list oid) (c : config) : outcome :=
  let s := st c in
  match stack c with
  | FDropStrong o :: k =>
      match run_drop_trees stk pri o g_rc_drop s with
      | Ok (s1, push) => Running {| st := s1; stack := push ++ k; unw := unw c |}
      | Bad e => Halted s e
      end
  | FRunDtor p (a :: pc) :: k =>
      match texec_act stk s (Some p) a with
      | AO s1 self r push =>
          let p1 := match self with Some q => q | None => p end in
          Running {| st := s1; stack := push ++ FRes r :: FRunDtor p1 pc :: k; unw := unw c |}
      | AHalt e => Halted s e
      | APanicOut =>
          if unw c then Halted s HAbort
          else
            let '(s1, k1) := unwind_stack s k in
            Running {| st := s1; stack := FDropSlots (slots p) :: k1; unw := true |}
      end
  | FDropSlots (SWeak w :: ss) :: k =>
      match exec_weak_drop w g_weak_drop (m0 s) with
      | XDone m' =>
          match m_val m', m_tbl m', m_inn m' with
          | None, None, [] => Running {| st := m_st m'; stack := FDropSlots ss :: k; unw := unw c |}
          | _, _, _ => Halted s stk
          end
      | XFault e => Halted s e
      | _ => Halted s stk
      end
  | FAfterValue o :: k =>
      cont_outcome stk s k (unw c)
        (option_map (fun t => exec_list (env1 o) t (m0 s)) after_value_cont)
  | FFinishGroup keys :: k =>
      cont_outcome stk s k (unw c)
        (option_map (fun t => exec_group (keyed keys) t (m0 s)) finish_group_cont)
  | _ => step pri c
  end.

(** ** 5. Runs, calls, histories *)
Fixpoint trun (stk : halt) (pri : list oid) (fuel : nat) (c : config) : outcome :=
  match fuel with
  | O => Running c
  | S f =>
      match tstep stk pri c with
      | Running c' => trun stk pri f c'
      | o => o
      end
  end.

Definition texec_op (stk : halt) (pri : list oid) (fuel : nat) (s : state) (o : op) : state * op_outcome :=
  let first :=
    match o with
    | OAct a => texec_act stk s None a
    | ONewS dst sc => texec_new s None dst sc
    end in
  match first with
  | AHalt e => (s, OHalt e)
  | APanicOut => (s, OPanicked)
  | AO s1 _ r push =>
      match trun stk pri fuel {| st := s1; stack := push; unw := false |} with
      | Finished s2 false => (s2, ODone r)
      | Finished s2 true => (s2, OPanicked)
      | Halted s2 e => (s2, OHalt e)
      | Running c => (st c, OFuel)
      end
  end.

Fixpoint trun_history (stk : halt) (fuel : nat) (s : state) (h : list (op * list oid))
  : state * list op_outcome :=
  match h with
  | [] => (s, [])
  | (o, pri) :: h' =>
      let '(s1, r) := texec_op stk pri fuel s o in
      match r with
      | OHalt _ | OFuel => (s1, [r])
      | _ => let '(s2, rs) := trun_history stk fuel s1 h' in (s2, r :: rs)
      end
  end.

(** ** 6. The side condition along steps, runs, calls and histories *)
Definition step_fits (c : config) : bool :=
  match stack c with
  | FRunDtor p (a :: _) :: _ => act_fits (st c) (Some p) a
  | _ => true
  end.

Fixpoint run_fits (pri : list oid) (fuel : nat) (c : config) : bool :=
  match fuel with
  | O => true
  | S f =>
      step_fits c &&
      match step pri c with
      | Running c' => run_fits pri f c'
      | _ => true
      end
  end.

Definition op_fits (pri : list oid) (fuel : nat) (s : state) (o : op) : bool :=
  match o with OAct a => act_fits s None a | ONewS _ _ => true end &&
  match op_start s o with
  | AO s1 _ _ push => run_fits pri fuel {| st := s1; stack := push; unw := false |}
  | _ => true
  end.

Fixpoint hist_fits (fuel : nat) (s : state) (h : list (op * list oid)) : bool :=
  match h with
  | [] => true
  | (o, pri) :: h' =>
      op_fits pri fuel s o &&
      (let '(s1, r) := exec_op pri fuel s o in
       match r with
       | OHalt _ | OFuel => true
       | _ => hist_fits fuel s1 h'
       end)
  end.

(** ** 7. Facts about cells *)
Definition cnt_fits (c : scount) : Prop := match c with Cnt n => n < MAXU | Uninit => True end.

Lemma dec_enc c : cnt_fits c -> dec_cnt (enc c) = c.
Proof.
  destruct c as [n|]; cbn [enc cnt_fits]; unfold dec_cnt; intros H.
  - destruct (N.eqb_spec n MAXU) as [E|E]; [lia|reflexivity].
  - rewrite N.eqb_refl. reflexivity.
Qed.

Lemma repr_cnt_fits b : repr_ok b -> cnt_fits (strong b).
Proof. intros [Hs _]. unfold cnt_fits. destruct (strong b) as [n|]; [lia|exact I]. Qed.

Lemma box_fits_repr b : box_fits b = true -> repr_ok b.
Proof.
  unfold box_fits, repr_ok. intros H. apply andb_true_iff in H as [H1 H2]. split.
  - destruct (strong b) as [n|]; [apply N.ltb_lt; exact H1|exact I].
  - apply N.ltb_lt. exact H2.
Qed.

Lemma put_cells_of b b' : cnt_fits (strong b') ->
  put_cells b (cells_of b') = with_weak (with_strong b (strong b')) (weak b').
Proof.
  intros H. unfold put_cells, cells_of. cbn [c_strong c_weak]. rewrite (dec_enc _ H). reflexivity.
Qed.

Lemma with_same b : with_weak (with_strong b (strong b)) (weak b) = b.
Proof. destruct b; reflexivity. Qed.

Lemma upd_same {A} (l : list A) i x : nth_error l i = Some x -> upd l i x = l.
Proof.
  revert i. induction l as [|a l IH]; intros [|i] H; cbn in *; try discriminate.
  - injection H as ->. reflexivity.
  - f_equal. apply IH. exact H.
Qed.

Lemma setb_same h o b : getb h o = Ok b -> setb h o b = h.
Proof. intros G. apply getb_ok in G as [G _]. apply upd_same. exact G. Qed.

Lemma set_heap_same s : set_heap s (heap_of s) = s.
Proof. destruct s; reflexivity. Qed.

(** the object's counters fit, if it can be read at all *)
Definition fits_at (s : state) (o : oid) : Prop :=
  forall b, getb (heap_of s) o = Ok b -> repr_ok b.

Lemma fits_at_intro s o :
  match getb (heap_of s) o with Ok b => box_fits b | Bad _ => true end = true -> fits_at s o.
Proof. intros H b G. rewrite G in H. apply box_fits_repr. exact H. Qed.

(** a method that leaves the cells [(st', w')] *)
Lemma on_cells_ret {A} s o b (m : M A) k a st' w' :
  getb (heap_of s) o = Ok b -> m (cells_of b) = Ret a {| c_strong := enc st'; c_weak := w' |} ->
  cnt_fits st' ->
  on_cells s o m k = k a (set_heap s (setb (heap_of s) o (with_weak (with_strong b st') w'))).
Proof.
  intros G E F. unfold on_cells. rewrite G, E. unfold put_cells. cbn [c_strong c_weak].
  rewrite (dec_enc _ F). reflexivity.
Qed.

Lemma ws_keep_weak b X : with_weak (with_strong b X) (weak b) = with_strong b X.
Proof. destruct b; reflexivity. Qed.

Lemma ws_keep_strong b w : with_weak (with_strong b (strong b)) w = with_weak b w.
Proof. destruct b; reflexivity. Qed.

(** a method that leaves the cells alone *)
Lemma on_cells_same {A} s o b (m : M A) k a :
  getb (heap_of s) o = Ok b -> repr_ok b -> m (cells_of b) = Ret a (cells_of b) ->
  on_cells s o m k = k a s.
Proof.
  intros G Hr E. rewrite (on_cells_ret s o b m k a (strong b) (weak b) G E (repr_cnt_fits b Hr)).
  rewrite with_same, (setb_same _ _ _ G), set_heap_same. reflexivity.
Qed.

Lemma on_cells_bad {A} s o (m : M A) k e : getb (heap_of s) o = Bad e -> on_cells s o m k = AHalt e.
Proof. intros G. unfold on_cells. rewrite G. reflexivity. Qed.

(** [inc_strong] through any method that is [g_inc_strong] *)
Lemma on_cells_inc_strong s self o (m : M unit) k :
  (forall c, m c = g_inc_strong c) -> fits_at s o ->
  on_cells s o m (fun _ s1 => k s1) = lift s self (inc_strong (heap_of s) o) k.
Proof.
  intros Hm F. destruct (getb (heap_of s) o) as [b|e] eqn:G.
  2:{ rewrite (on_cells_bad _ _ _ _ _ G). unfold inc_strong. rewrite G. reflexivity. }
  pose proof (F b G) as Hr. pose proof (inc_strong_refines _ _ _ G Hr) as P.
  assert (Hs : match strong b with Cnt n => n < MAXU - 1 | Uninit => True end) by (destruct Hr; assumption).
  destruct (strong b) as [n|] eqn:S.
  - destruct (n =? 0) eqn:E0; destruct P as [P1 P2]; rewrite P1.
    + unfold on_cells. rewrite G, Hm, P2. reflexivity.
    + rewrite (on_cells_ret s o b m _ tt (Cnt (n + 1)) (weak b) G).
      * rewrite ws_keep_weak. reflexivity.
      * rewrite Hm. exact P2.
      * cbn [cnt_fits]. lia.
  - destruct P as [P1 P2]. rewrite P1. unfold on_cells. rewrite G, Hm, P2. reflexivity.
Qed.

Lemma on_cells_inc_weak s self o (m : M unit) k :
  (forall c, m c = g_inc_weak c) -> fits_at s o ->
  on_cells s o m (fun _ s1 => k s1) = lift s self (inc_weak (heap_of s) o) k.
Proof.
  intros Hm F. destruct (getb (heap_of s) o) as [b|e] eqn:G.
  2:{ rewrite (on_cells_bad _ _ _ _ _ G). unfold inc_weak. rewrite G. reflexivity. }
  pose proof (F b G) as Hr. pose proof (inc_weak_refines _ _ _ G Hr) as P.
  destruct (weak b =? 0) eqn:E0; destruct P as [P1 P2]; rewrite P1.
  - unfold on_cells. rewrite G, Hm, P2. reflexivity.
  - rewrite (on_cells_ret s o b m _ tt (strong b) (weak b + 1) G).
    + rewrite ws_keep_strong. reflexivity.
    + rewrite Hm. exact P2.
    + apply repr_cnt_fits. exact Hr.
Qed.

Lemma fresh_box_new p : fresh_box p = new_box p.
Proof.
  unfold fresh_box. destruct (new_box_translated p) as (E & _). rewrite <- E.
  rewrite put_cells_of; [reflexivity|]. cbn [new_box strong cnt_fits]. rewrite MAXU_val. reflexivity.
Qed.

(** ** 8. [texec_act] is [exec_act] *)
Theorem texec_new_is_exec_new s self dst sc : texec_new s self dst sc = exec_new s self dst sc.
Proof. unfold texec_new, exec_new. rewrite fresh_box_new. reflexivity. Qed.

Section Actions.
Variables (stk : halt) (s : state) (self : option payload).

Lemma t_clone hr dst : act_fits s self (AClone hr dst) = true ->
  texec_act stk s self (AClone hr dst) = exec_act s self (AClone hr dst).
Proof.
  unfold act_fits. cbn [act_cells_target texec_act exec_act].
  destruct (resolve_strong s self hr) as [[o l]|]; [|reflexivity]. intros F.
  destruct (reg_free s dst); [|reflexivity].
  apply on_cells_inc_strong; [apply rc_clone_translated|apply fits_at_intro; exact F].
Qed.

Lemma t_downgrade hr dst : act_fits s self (ADowngrade hr dst) = true ->
  texec_act stk s self (ADowngrade hr dst) = exec_act s self (ADowngrade hr dst).
Proof.
  unfold act_fits. cbn [act_cells_target texec_act exec_act].
  destruct (resolve_strong s self hr) as [[o l]|]; [|reflexivity]. intros F.
  destruct (reg_free s dst); [|reflexivity].
  apply on_cells_inc_weak; [apply rc_downgrade_translated|apply fits_at_intro; exact F].
Qed.

Lemma t_clone_weak wr dst : act_fits s self (ACloneWeak wr dst) = true ->
  texec_act stk s self (ACloneWeak wr dst) = exec_act s self (ACloneWeak wr dst).
Proof.
  unfold act_fits. cbn [act_cells_target texec_act exec_act].
  destruct (resolve_weak s self wr) as [[o|]|]; intros F; [| |reflexivity];
    (destruct (reg_free s dst); [|reflexivity]).
  - apply on_cells_inc_weak; [apply weak_clone_translated|apply fits_at_intro; exact F].
  - unfold on_dangling. rewrite weak_clone_dangling_translated. reflexivity.
Qed.

Lemma t_upgrade wr dst : act_fits s self (AUpgrade wr dst) = true ->
  texec_act stk s self (AUpgrade wr dst) = exec_act s self (AUpgrade wr dst).
Proof.
  unfold act_fits. cbn [act_cells_target texec_act exec_act].
  destruct (resolve_weak s self wr) as [[o|]|]; intros F; [| |reflexivity];
    (destruct (reg_free s dst); [|reflexivity]).
  2:{ unfold on_dangling. rewrite weak_upgrade_dangling_translated. reflexivity. }
  destruct (getb (heap_of s) o) as [b|e] eqn:G; [|apply on_cells_bad; exact G].
  pose proof (box_fits_repr b F) as Hr. pose proof (weak_upgrade_translated b Hr) as U.
  assert (Hs : match strong b with Cnt n => n < MAXU - 1 | Uninit => True end) by (destruct Hr; assumption).
  destruct (strong b) as [n|] eqn:S; cbn [is_dead] in *.
  - destruct (n =? 0) eqn:E0.
    + rewrite (on_cells_same s o b _ _ false G Hr U); reflexivity.
    + rewrite (on_cells_ret s o b _ _ true (Cnt (n + 1)) (weak b) G U).
      * unfold lift, inc_strong. rewrite G. cbn [Base.bind]. rewrite S, E0, ws_keep_weak. reflexivity.
      * cbn [cnt_fits]. lia.
  - rewrite (on_cells_same s o b _ _ false G Hr U); reflexivity.
Qed.

Lemma t_get_mut r : act_fits s self (AGetMut r) = true ->
  texec_act stk s self (AGetMut r) = exec_act s self (AGetMut r).
Proof.
  unfold act_fits. cbn [act_cells_target texec_act exec_act].
  destruct (reg_get s r) as [o| | | |]; try reflexivity. intros F.
  destruct (getb (heap_of s) o) as [b|e] eqn:G; [|apply on_cells_bad; exact G].
  pose proof (box_fits_repr b F) as Hr. pose proof (rc_is_unique_translated b Hr) as U.
  destruct (weak b =? 0) eqn:W0.
  - unfold on_cells. rewrite G, U. reflexivity.
  - rewrite (on_cells_same s o b _ _ _ G Hr U); reflexivity.
Qed.

Lemma t_strong_count hr : act_fits s self (AStrongCount hr) = true ->
  texec_act stk s self (AStrongCount hr) = exec_act s self (AStrongCount hr).
Proof.
  unfold act_fits. cbn [act_cells_target texec_act exec_act].
  destruct (resolve_strong s self hr) as [[o l]|]; [|reflexivity]. intros F.
  destruct (getb (heap_of s) o) as [b|e] eqn:G; [|apply on_cells_bad; exact G].
  pose proof (box_fits_repr b F) as Hr.
  rewrite (on_cells_same s o b _ _ _ G Hr (rc_strong_count_translated b)).
  rewrite (dec_enc _ (repr_cnt_fits b Hr)). reflexivity.
Qed.

Lemma t_weak_count hr : act_fits s self (AWeakCount hr) = true ->
  texec_act stk s self (AWeakCount hr) = exec_act s self (AWeakCount hr).
Proof.
  unfold act_fits. cbn [act_cells_target texec_act exec_act].
  destruct (resolve_strong s self hr) as [[o l]|]; [|reflexivity]. intros F.
  destruct (getb (heap_of s) o) as [b|e] eqn:G; [|apply on_cells_bad; exact G].
  pose proof (box_fits_repr b F) as Hr. pose proof (rc_weak_count_translated b) as U.
  destruct (weak b =? 0) eqn:W0.
  - unfold on_cells. rewrite G, U. reflexivity.
  - rewrite (on_cells_same s o b _ _ _ G Hr U); reflexivity.
Qed.

Lemma t_wstrong_count wr : act_fits s self (AWStrongCount wr) = true ->
  texec_act stk s self (AWStrongCount wr) = exec_act s self (AWStrongCount wr).
Proof.
  unfold act_fits. cbn [act_cells_target texec_act exec_act].
  destruct (resolve_weak s self wr) as [[o|]|]; try reflexivity. intros F.
  destruct (getb (heap_of s) o) as [b|e] eqn:G; [|apply on_cells_bad; exact G].
  pose proof (box_fits_repr b F) as Hr.
  rewrite (on_cells_same s o b _ _ _ G Hr (weak_strong_count_translated b Hr)); reflexivity.
Qed.

Lemma t_wweak_count wr : act_fits s self (AWWeakCount wr) = true ->
  texec_act stk s self (AWWeakCount wr) = exec_act s self (AWWeakCount wr).
Proof.
  unfold act_fits. cbn [act_cells_target texec_act exec_act].
  destruct (resolve_weak s self wr) as [[o|]|]; try reflexivity. intros F.
  destruct (getb (heap_of s) o) as [b|e] eqn:G; [|apply on_cells_bad; exact G].
  pose proof (box_fits_repr b F) as Hr. pose proof (weak_weak_count_translated b Hr) as U.
  destruct (strong b) as [n|] eqn:S.
  - destruct (0 <? n).
    + destruct (weak b =? 0) eqn:W0.
      * unfold on_cells. rewrite G, U. reflexivity.
      * rewrite (on_cells_same s o b _ _ _ G Hr U); reflexivity.
    + rewrite (on_cells_same s o b _ _ _ G Hr U); reflexivity.
  - rewrite (on_cells_same s o b _ _ _ G Hr U); reflexivity.
Qed.

(** no side condition *)
Lemma t_drop r : texec_act stk s self (ADrop r) = exec_act s self (ADrop r).
Proof.
  cbn [texec_act]. destruct (reg_get s r) as [o|w|o|p|] eqn:Hr; try reflexivity.
  cbn [exec_act]. rewrite Hr. rewrite weak_drop_sem. unfold lift.
  destruct (weak_drop (heap_of s) w) as [h1|e]; reflexivity.
Qed.

Lemma t_adopt h1 h2 : texec_act stk s self (AAdopt h1 h2) = exec_act s self (AAdopt h1 h2).
Proof.
  destruct (resolve_strong s self h1) as [[a1 l1]|] eqn:E1.
  - destruct (resolve_strong s self h2) as [[a2 l2]|] eqn:E2.
    + rewrite (action_adopt_is_translated s self h1 h2 a1 l1 a2 l2 E1 E2).
      cbn [texec_act]. rewrite E1, E2. reflexivity.
    + cbn [texec_act exec_act]. rewrite E1, E2. reflexivity.
  - cbn [texec_act exec_act]. rewrite E1. reflexivity.
Qed.

Lemma t_unadopt h1 h2 : texec_act stk s self (AUnadopt h1 h2) = exec_act s self (AUnadopt h1 h2).
Proof.
  destruct (resolve_strong s self h1) as [[a1 l1]|] eqn:E1.
  - destruct (resolve_strong s self h2) as [[a2 l2]|] eqn:E2.
    + rewrite (action_unadopt_is_translated s self h1 h2 a1 l1 a2 l2 E1 E2).
      cbn [texec_act]. rewrite E1, E2. reflexivity.
    + cbn [texec_act exec_act]. rewrite E1, E2. reflexivity.
  - cbn [texec_act exec_act]. rewrite E1. reflexivity.
Qed.

Lemma t_try_unwrap r dst : texec_act stk s self (ATryUnwrap r dst) = exec_act s self (ATryUnwrap r dst).
Proof.
  destruct (reg_get s r) as [o| | | |] eqn:Hr; try (cbn [texec_act exec_act]; rewrite Hr; reflexivity).
  destruct (reg_free s dst) eqn:Hf; [|cbn [texec_act exec_act]; rewrite Hr, Hf; reflexivity].
  cbn [texec_act]. rewrite Hr, Hf. unfold rc_call.
  rewrite (try_unwrap_end_to_end s self r dst o Hr Hf). reflexivity.
Qed.

(** needs the invariant *)
Lemma t_make_mut k r : Inv s k -> texec_act stk s self (AMakeMut r) = exec_act s self (AMakeMut r).
Proof.
  intros HI.
  destruct (reg_get s r) as [o| | | |] eqn:Hr; try (cbn [texec_act exec_act]; rewrite Hr; reflexivity).
  cbn [texec_act]. rewrite Hr. unfold rc_call.
  rewrite (make_mut_end_to_end s k self r o HI Hr). reflexivity.
Qed.

Lemma t_into_raw r : texec_act stk s self (AIntoRaw r) = exec_act s self (AIntoRaw r).
Proof.
  destruct (reg_get s r) as [o| | | |] eqn:Hr.
  2-5: cbn [texec_act exec_act]; rewrite Hr; reflexivity.
  destruct (into_from_raw_sem s self r o) as (E1 & _ & E3 & _).
  rewrite (E3 Hr). cbn [texec_act]. rewrite Hr. unfold raw_call. rewrite E1, set_heap_same. reflexivity.
Qed.

Lemma t_from_raw r : texec_act stk s self (AFromRaw r) = exec_act s self (AFromRaw r).
Proof.
  destruct (reg_get s r) as [| |o| |] eqn:Hr.
  1-2,4-5: cbn [texec_act exec_act]; rewrite Hr; reflexivity.
  destruct (into_from_raw_sem s self r o) as (_ & E2 & _ & E4).
  rewrite (E4 Hr). cbn [texec_act]. rewrite Hr. unfold raw_call. rewrite E2, set_heap_same. reflexivity.
Qed.

Lemma t_inc_strong r dst : texec_act stk s self (AIncStrong r dst) = exec_act s self (AIncStrong r dst).
Proof.
  destruct (reg_get s r) as [| |o| |] eqn:Hr.
  1-2,4-5: cbn [texec_act exec_act]; rewrite Hr; reflexivity.
  destruct (reg_free s dst) eqn:Hf; [|cbn [texec_act exec_act]; rewrite Hr, Hf; reflexivity].
  destruct (increment_strong_count_sem s self r dst o Hr Hf) as (x & E1 & E2).
  rewrite E2. cbn [texec_act]. rewrite Hr, Hf. unfold raw_call. rewrite E1.
  destruct x; reflexivity.
Qed.

Lemma t_dec_strong r : texec_act stk s self (ADecStrong r) = exec_act s self (ADecStrong r).
Proof.
  destruct (reg_get s r) as [| |o| |] eqn:Hr.
  1-2,4-5: cbn [texec_act exec_act]; rewrite Hr; reflexivity.
  destruct (decrement_strong_count_sem s self r o Hr) as (E1 & E2).
  rewrite E2. cbn [texec_act]. rewrite Hr. unfold raw_call. rewrite E1, set_heap_same. reflexivity.
Qed.
End Actions.

(** the exact hypotheses, action by action: the invariant for [AMakeMut]
    only, the cells for the counter methods only *)
Theorem texec_act_is_exec_act_min stk s self a :
  (forall r, a = AMakeMut r -> exists k, Inv s k) -> act_fits s self a = true ->
  texec_act stk s self a = exec_act s self a.
Proof.
  intros HI F. destruct a.
  - (* ANew *) apply texec_new_is_exec_new.
  - (* AClone *) apply t_clone; exact F.
  - (* ADrop *) apply t_drop.
  - (* ADowngrade *) apply t_downgrade; exact F.
  - (* AUpgrade *) apply t_upgrade; exact F.
  - (* ACloneWeak *) apply t_clone_weak; exact F.
  - (* AWeakNew *) reflexivity.
  - (* AStore *) reflexivity.
  - (* ATake *) reflexivity.
  - (* AAdopt *) apply t_adopt.
  - (* AUnadopt *) apply t_unadopt.
  - (* ATryUnwrap *) apply t_try_unwrap.
  - (* AGetMut *) apply t_get_mut; exact F.
  - (* AMakeMut *) destruct (HI r eq_refl) as [k Hk]. apply (t_make_mut stk s self k r Hk).
  - (* AIntoRaw *) apply t_into_raw.
  - (* AFromRaw *) apply t_from_raw.
  - (* AIncStrong *) apply t_inc_strong.
  - (* ADecStrong *) apply t_dec_strong.
  - (* APtrEq *) reflexivity.
  - (* AStrongCount *) apply t_strong_count; exact F.
  - (* AWeakCount *) apply t_weak_count; exact F.
  - (* AWStrongCount *) apply t_wstrong_count; exact F.
  - (* AWWeakCount *) apply t_wweak_count; exact F.
  - (* ADeref *) reflexivity.
  - (* APanic *) reflexivity.
Qed.

(** [act_safe] is not needed *)
Theorem texec_act_is_exec_act stk s self pc k a :
  Inv s (ctx self pc k) -> act_fits s self a = true ->
  texec_act stk s self a = exec_act s self a.
Proof. intros HI F. apply texec_act_is_exec_act_min; [intros r _; eauto|exact F]. Qed.

(** the side condition cannot be dropped: at [usize::MAX - 1] strong handles
    the source aborts ([CountersProofs.inc_strong_at_the_limit], C16: "or
    would reach it"), the model counts on *)
Definition limit_state : state :=
  mk [ {| strong := Cnt 18446744073709551614; weak := 1; links := Some []; talloc := false;
          value := Some {| pid := 0%nat; slots := []; script := [] |}; freed := false |} ]
     [RStrong 0%nat; REmpty] [].

Example clone_at_the_limit stk :
  texec_act stk limit_state None (AClone (HReg 0%nat) 1%nat) = AHalt HAbort /\
  exec_act limit_state None (AClone (HReg 0%nat) 1%nat) <> AHalt HAbort /\
  act_fits limit_state None (AClone (HReg 0%nat) 1%nat) = false.
Proof. split; [vm_compute; reflexivity|]. split; [vm_compute; discriminate|vm_compute; reflexivity]. Qed.

(** ** 9. [tstep] is [step] *)
Lemma after_value_cont_eq : after_value_cont = Some after_value_tree.
Proof. reflexivity. Qed.

Lemma finish_group_cont_eq : finish_group_cont = Some cycle_cont.
Proof. reflexivity. Qed.

Lemma keyed_keys keys : map fst (keyed keys) = keys.
Proof. unfold keyed. rewrite map_map. cbn [fst]. apply map_id. Qed.

(** the frames that need nothing *)
Lemma tstep_drop_strong stk pri s o k u :
  tstep stk pri {| st := s; stack := FDropStrong o :: k; unw := u |} =
  step pri {| st := s; stack := FDropStrong o :: k; unw := u |}.
Proof. rewrite (step_drop_strong_trees stk). reflexivity. Qed.

Lemma tstep_after_value stk pri s o k u :
  tstep stk pri {| st := s; stack := FAfterValue o :: k; unw := u |} =
  step pri {| st := s; stack := FAfterValue o :: k; unw := u |}.
Proof.
  unfold tstep. cbn [st stack unw]. rewrite after_value_cont_eq. cbn [option_map cont_outcome].
  pose proof (after_value_is_step pri o (m0 s) k u) as H. cbn [m_st m0] in H. rewrite H. reflexivity.
Qed.

Lemma tstep_finish_group stk pri s keys k u :
  tstep stk pri {| st := s; stack := FFinishGroup keys :: k; unw := u |} =
  step pri {| st := s; stack := FFinishGroup keys :: k; unw := u |}.
Proof.
  unfold tstep. cbn [st stack unw]. rewrite finish_group_cont_eq. cbn [option_map cont_outcome].
  pose proof (finish_group_is_step pri (keyed keys) (m0 s) k u) as H. cbn [m_st m0] in H.
  rewrite keyed_keys in H. rewrite H. reflexivity.
Qed.

Lemma tstep_weak_slot stk pri s w ss k u :
  tstep stk pri {| st := s; stack := FDropSlots (SWeak w :: ss) :: k; unw := u |} =
  step pri {| st := s; stack := FDropSlots (SWeak w :: ss) :: k; unw := u |}.
Proof.
  unfold tstep, step. cbn [st stack unw]. rewrite weak_drop_sem.
  destruct (weak_drop (heap_of s) w) as [h1|e]; reflexivity.
Qed.

Lemma tstep_script stk pri s p a pc k u :
  texec_act stk s (Some p) a = exec_act s (Some p) a ->
  tstep stk pri {| st := s; stack := FRunDtor p (a :: pc) :: k; unw := u |} =
  step pri {| st := s; stack := FRunDtor p (a :: pc) :: k; unw := u |}.
Proof. intros E. unfold tstep, step. cbn [st stack unw]. rewrite E. reflexivity. Qed.

(** [step_hyp] is not needed: the translated [Rc::drop] is the model's on
    every state *)
Theorem tstep_is_step stk pri c :
  Inv_cfg c -> step_fits c = true -> tstep stk pri c = step pri c.
Proof.
  destruct c as [s k u]. unfold Inv_cfg, step_fits. cbn [st stack]. intros HI F.
  destruct k as [|fr k]; [reflexivity|].
  destruct fr as [o|p|p pc|ss|o|es|o|keys|r]; try reflexivity.
  - apply tstep_drop_strong.
  - destruct pc as [|a pc]; [reflexivity|].
    apply tstep_script. apply (texec_act_is_exec_act stk s (Some p) (a :: pc) k a HI F).
  - destruct ss as [|[o|w|] ss]; try reflexivity. apply tstep_weak_slot.
  - apply tstep_after_value.
  - apply tstep_finish_group.
Qed.

(** ** 10. Runs, calls, histories *)
Theorem trun_is_run stk pri fuel : forall c,
  Inv_cfg c -> run_ok pri fuel c = true -> run_fits pri fuel c = true ->
  trun stk pri fuel c = run pri fuel c.
Proof.
  induction fuel as [|f IH]; intros c HI Hok Hfit; [reflexivity|].
  cbn [run_ok run_fits] in Hok, Hfit.
  apply andb_true_iff in Hok as [Hs Hr]. apply andb_true_iff in Hfit as [Fs Fr].
  cbn [trun run]. rewrite (tstep_is_step stk pri c HI Fs).
  pose proof (step_inv pri c HI (step_ok_hyp c Hs)) as Hg.
  destruct (step pri c) as [c'|s' b|s' e]; try reflexivity.
  cbn [step_goal] in Hg. apply IH; assumption.
Qed.

Lemma texec_start stk s o :
  Inv s [] -> match o with OAct a => act_fits s None a | ONewS _ _ => true end = true ->
  match o with
  | OAct a => texec_act stk s None a
  | ONewS dst sc => texec_new s None dst sc
  end = op_start s o.
Proof.
  intros HI F. destruct o as [a|dst sc]; cbn [op_start].
  - apply (texec_act_is_exec_act stk s None [] [] a HI F).
  - apply texec_new_is_exec_new.
Qed.

Theorem texec_op_is_exec_op stk pri fuel s o :
  Inv s [] -> op_ok pri fuel s o = true -> op_fits pri fuel s o = true ->
  texec_op stk pri fuel s o = exec_op pri fuel s o.
Proof.
  intros HI Hok Hfit. unfold op_fits in Hfit. apply andb_true_iff in Hfit as [F0 Fr].
  unfold op_ok in Hok. pose proof (op_start_inv s o HI) as Hst.
  unfold texec_op, exec_op. rewrite (texec_start stk s o HI F0).
  change (match o with OAct a => exec_act s None a | ONewS dst sc => exec_new s None dst sc end)
    with (op_start s o).
  destruct (op_start s o) as [s1 self1 r push|e|]; try reflexivity.
  rewrite (trun_is_run stk pri fuel {| st := s1; stack := push; unw := false |} Hst Hok Fr).
  reflexivity.
Qed.

Theorem trun_history_is_run_history stk fuel h : forall s,
  Inv s [] -> hist_ok fuel s h = true -> hist_fits fuel s h = true ->
  trun_history stk fuel s h = run_history fuel s h.
Proof.
  induction h as [|[o pri] h IH]; intros s HI Hok Hfit; [reflexivity|].
  cbn [hist_ok hist_fits] in Hok, Hfit.
  apply andb_true_iff in Hok as [Hop Hrest]. apply andb_true_iff in Hfit as [Fop Frest].
  cbn [trun_history run_history]. rewrite (texec_op_is_exec_op stk pri fuel s o HI Hop Fop).
  pose proof (exec_op_inv pri fuel s o HI Hop) as Hg.
  destruct (exec_op pri fuel s o) as [s1 r]. cbn [op_goal fst snd] in Hg.
  destruct r as [res| |e|]; try reflexivity.
  - rewrite (IH s1 Hg Hrest Frest). reflexivity.
  - rewrite (IH s1 Hg Hrest Frest). reflexivity.
Qed.

(** ** 11. The payoff: the safety theorem, about the translated machine.

    Every disciplined history ([hist_ok]: C01's and C10's preconditions,
    checked along the run) whose counters fit the usize cells ([hist_fits]),
    run from the initial state by the machine in which the library code is the
    code regenerated from the Rust source, never faults -- each call returns,
    panics, aborts the process or runs out of the given fuel -- and the
    invariant holds at every call boundary (hence C01, C05, C06, C08 of the
    state it leaves: Inv/Consequences.v). *)
Theorem translated_machine_inv stk fuel h s :
  Inv s [] -> hist_ok fuel s h = true -> hist_fits fuel s h = true ->
  Forall (fun r => match r with OHalt e => e = HAbort | _ => True end) (snd (trun_history stk fuel s h)) /\
  (forallb completed (snd (trun_history stk fuel s h)) = true -> Inv (fst (trun_history stk fuel s h)) []).
Proof.
  intros HI Hok Hfit. rewrite (trun_history_is_run_history stk fuel h s HI Hok Hfit).
  apply run_history_inv; assumption.
Qed.

Theorem translated_machine_is_safe stk fuel h :
  hist_ok fuel init_state h = true -> hist_fits fuel init_state h = true ->
  Forall (fun r => match r with OHalt e => e = HAbort | _ => True end)
         (snd (trun_history stk fuel init_state h)) /\
  (forallb completed (snd (trun_history stk fuel init_state h)) = true ->
   Inv (fst (trun_history stk fuel init_state h)) []).
Proof. apply translated_machine_inv. exact Inv_init. Qed.

(** the stuck answer is never returned: the translated machine does not depend on it *)
Corollary translated_machine_never_stuck stk stk' fuel h :
  hist_ok fuel init_state h = true -> hist_fits fuel init_state h = true ->
  trun_history stk fuel init_state h = trun_history stk' fuel init_state h.
Proof.
  intros Hok Hfit.
  rewrite !(trun_history_is_run_history _ fuel h init_state Inv_init Hok Hfit). reflexivity.
Qed.

(** ** 12. The translated machine computes.

    A history that exercises every translated piece -- two nodes adopt each
    other and are released (the trace finds the orphaned cycle, [drop_cycle]
    runs, a destructor script upgrades a Weak to a dying peer and counts), then
    [make_mut], [try_unwrap], the raw-pointer functions, [get_mut], the Weak
    observers -- run by [trun_history] alone: the hypotheses hold, every call
    completes, the stuck answer does not occur, the log shows the group
    teardown. *)
Definition demo_history : list (op * list oid) :=
  map (fun o => (o, @nil oid))
  [ ONewS 0 [AStrongCount (HSlot OSelf 0); AUpgrade (HSlot OSelf 1) 5; ADrop 5];
    ONewS 1 [];
    OAct (AClone (HReg 1) 2); OAct (AStore 2 (OReg 0) 0); OAct (AAdopt (HReg 0) (HSlot (OReg 0) 0));
    OAct (AClone (HReg 0) 2); OAct (AStore 2 (OReg 1) 0); OAct (AAdopt (HReg 1) (HSlot (OReg 1) 0));
    OAct (ADowngrade (HReg 1) 3); OAct (AStore 3 (OReg 0) 1);
    OAct (AStrongCount (HReg 0)); OAct (AWeakCount (HReg 1));
    OAct (ADrop 0); OAct (ADrop 1);
    OAct (ANew 0); OAct (AClone (HReg 0) 1); OAct (AMakeMut 0); OAct (ATryUnwrap 0 4); OAct (ADrop 4);
    OAct (AIntoRaw 1); OAct (AIncStrong 1 2); OAct (ADecStrong 2); OAct (AFromRaw 1); OAct (AGetMut 1);
    OAct (ADowngrade (HReg 1) 2); OAct (ACloneWeak (HReg 2) 3); OAct (ADrop 3); OAct (ADrop 1);
    OAct (AUpgrade (HReg 2) 3); OAct (AWStrongCount (HReg 2)); OAct (AWWeakCount (HReg 2)); OAct (ADrop 2) ]%nat.

Example translated_machine_runs :
  let stk := HFault FkFuel 999%nat in
  hist_ok 100 init_state demo_history = true /\
  hist_fits 100 init_state demo_history = true /\
  forallb completed (snd (trun_history stk 100 init_state demo_history)) = true /\
  length (snd (trun_history stk 100 init_state demo_history)) = length demo_history /\
  log (fst (trun_history stk 100 init_state demo_history)) =
    [EvTableDropped 2; EvDtor 2; EvDtor 3; EvTableDropped 3; EvTableDropped 1; EvDtor 1;
     EvTableDropped 0; EvRes RInvalid; EvRes RNone; EvRes (RCnt Uninit); EvDtor 0;
     EvGroup [0; 1]; EvTrace 1 3 2; EvTrace 0 3 2]%nat.
Proof. vm_compute. repeat split. Qed.

Print Assumptions texec_new_is_exec_new.
Print Assumptions texec_act_is_exec_act_min.
Print Assumptions texec_act_is_exec_act.
Print Assumptions clone_at_the_limit.
Print Assumptions tstep_is_step.
Print Assumptions trun_is_run.
Print Assumptions texec_op_is_exec_op.
Print Assumptions trun_history_is_run_history.
Print Assumptions translated_machine_inv.
Print Assumptions translated_machine_is_safe.
Print Assumptions translated_machine_never_stuck.
Print Assumptions translated_machine_runs.
