(** * The dispatch language of [Rc::drop] and its meaning (hand written, static).

    tools/rs2v.py parses [impl Drop for Rc<T>::drop] into [list dstmt]
    (gen/DropGen.v, regenerated on every run). Conditions are evaluated on the
    current heap each time they occur, as in the source; the three calls mean
    the model's own teardown entry points (Model/Machine.v). *)
From Coq Require Import NArith List Bool. Import ListNotations.
From CR Require Import Base Atomic Machine.
Local Open Scope N_scope.

Inductive dcond := DIsDead | DLinksEmpty | DOrphaned.
Inductive dcall := DUnreachable | DUnreachableAdopt | DCycle.
Inductive dstmt := DIf (c : dcond) (body : list dstmt) | DDecStrong | DCall (f : dcall) | DReturn.

Section Run.
Variables (pri : list oid) (o : oid).

Record dst := { d_state : state; d_frames : list frame; d_cyc : option omap; d_done : bool }.

Definition eval_cond (c : dcond) (d : dst) : R (bool * dst) :=
  let s := d_state d in
  let h := heap_of s in
  match c with
  | DIsDead => let* b := getb h o in Ok (is_dead (strong b), d)
  | DLinksEmpty => let* t := get_links h o in Ok (match t with [] => true | _ => false end, d)
  | DOrphaned =>
      let* r := orphaned_cycle h o in
      let '(oc, pops, visits) := r in
      let s2 := add_ev s (EvTrace o pops visits) in
      Ok (match oc with Some _ => true | None => false end,
          {| d_state := s2; d_frames := d_frames d; d_cyc := oc; d_done := d_done d |})
  end.

Definition with_result (d : dst) (r : state * list frame) : dst :=
  {| d_state := fst r; d_frames := snd r; d_cyc := d_cyc d; d_done := d_done d |}.

Definition run_call (f : dcall) (d : dst) : R dst :=
  let s := d_state d in
  let h := heap_of s in
  match f with
  | DUnreachable => let* r := start_unreachable s o in Ok (with_result d r)
  | DUnreachableAdopt =>
      let* t := get_links h o in
      let* h2 := purge_loop h o t in
      let* h3 := set_links h2 o [] in
      let* r := start_unreachable (set_heap s h3) o in Ok (with_result d r)
  | DCycle =>
      match d_cyc d with
      | None => Bad (HFault FkFuel o)          (* [cycle] is not bound: ill formed *)
      | Some cyc =>
          let cyc' := order_cycle pri cyc in
          let keys := map fst cyc' in
          let* h2 := bust_all h keys cyc' in
          let* r := gather h2 keys [] in
          let '(h3, inners) := r in
          Ok (with_result d (add_ev (set_heap s h3) (EvGroup keys), [FInners inners; FFinishGroup keys]))
      end
  end.

Definition dec_strong_cmd (d : dst) : R dst :=
  let s := d_state d in
  let h := heap_of s in
  let* b := getb h o in
  match strong b with
  | Cnt n =>
      if n =? 0 then Bad (HFault FkUnderflow o)
      else Ok {| d_state := set_heap s (setb h o (with_strong b (Cnt (n - 1))));
                 d_frames := d_frames d; d_cyc := d_cyc d; d_done := d_done d |}
  | Uninit => Bad (HFault FkUnderflow o)
  end.

Fixpoint run_dstmt (st : dstmt) (d : dst) : R dst :=
  if d_done d then Ok d else
  match st with
  | DDecStrong => dec_strong_cmd d
  | DCall f => run_call f d
  | DReturn => Ok {| d_state := d_state d; d_frames := d_frames d; d_cyc := d_cyc d; d_done := true |}
  | DIf c body =>
      let fix go (l : list dstmt) (d : dst) : R dst :=
        match l with
        | [] => Ok d
        | s :: l' => let* d1 := run_dstmt s d in go l' d1
        end in
      let* r := eval_cond c d in
      if fst r then go body (snd r) else Ok (snd r)
  end.

Fixpoint run_dstmts (l : list dstmt) (d : dst) : R dst :=
  match l with
  | [] => Ok d
  | s :: l' => let* d1 := run_dstmt s d in run_dstmts l' d1
  end.

Definition run_drop (p : list dstmt) (s : state) : R (state * list frame) :=
  let* d := run_dstmts p {| d_state := s; d_frames := []; d_cyc := None; d_done := false |} in
  Ok (d_state d, d_frames d).
End Run.
