(** * [Links::insert] / [Links::remove] as translated are the model's
    [tbl_insert] / [tbl_remove] (C08: each adopt adds one record, each unadopt
    removes at most one and is a no-op when none exists, removal saturates and
    deletes empty entries). Re-checked on every run against gen/LinksGen.v. *)
From Coq Require Import NArith List Lia Bool Arith. Import ListNotations.
From CR Require Import Base.
From Gen Require Import LinksLang LinksGen.
Local Open Scope N_scope.

Theorem links_insert_translated t l : g_links_insert t l = tbl_insert t l.
Proof. reflexivity. Qed.

Theorem links_remove_translated t l n : g_links_remove t l n = tbl_remove t l n.
Proof.
  unfold g_links_remove, tbl_remove, and_then_nonzero, checked_sub.
  destruct (N.leb_spec n (tbl_get t l)) as [H|H].
  - destruct (N.eqb_spec (tbl_get t l - n) 0) as [E|E].
    + assert (n <? tbl_get t l = false) as -> by (apply N.ltb_ge; lia). reflexivity.
    + assert (n <? tbl_get t l = true) as -> by (apply N.ltb_lt; lia). reflexivity.
  - assert (n <? tbl_get t l = false) as -> by (apply N.ltb_ge; lia). reflexivity.
Qed.

(** saturation, spelled out: removing more than is recorded deletes the entry *)
Corollary links_remove_saturates t l n : tbl_get t l <= n -> g_links_remove t l n = tbl_del t l.
Proof.
  intros H. rewrite links_remove_translated. unfold tbl_remove.
  assert (n <? tbl_get t l = false) as -> by (apply N.ltb_ge; exact H). reflexivity.
Qed.

(** [Link]'s equality is the model's [link_eqb] (allocation and kind: a
    Loopback, a Forward and a Backward record to the same allocation are three
    different keys), and the hash feeds exactly the compared fields, so equal
    links hash alike *)
Theorem link_eq_translated a b : g_link_eq a b = link_eqb a b.
Proof. unfold g_link_eq, link_eqb. apply Bool.andb_comm. Qed.

Definition hval (l : link) (f : hfield) : nat + kind :=
  match f with HPtr => inl (fst l) | HKind => inr (snd l) end.

Theorem link_hash_consistent a b :
  g_link_eq a b = true -> map (hval a) g_link_hash_fields = map (hval b) g_link_hash_fields.
Proof.
  rewrite link_eq_translated. unfold link_eqb. intros H. apply Bool.andb_true_iff in H as [H1 H2].
  apply Nat.eqb_eq in H1. destruct a as [x k], b as [y k']. cbn [fst snd] in *. subst y.
  assert (k = k') by (destruct k, k'; try discriminate; reflexivity). subst k'. reflexivity.
Qed.

Theorem link_hash_covers_eq :
  (forall a b, map (hval a) g_link_hash_fields = map (hval b) g_link_hash_fields -> g_link_eq a b = true).
Proof.
  intros [x k] [y k'] H. rewrite link_eq_translated. unfold link_eqb. cbn in H. injection H as H1 H2.
  cbn [fst snd]. subst. rewrite Nat.eqb_refl. destruct k'; reflexivity.
Qed.

Print Assumptions link_eq_translated.
Print Assumptions link_hash_consistent.
Print Assumptions link_hash_covers_eq.
Print Assumptions links_insert_translated.
Print Assumptions links_remove_translated.
Print Assumptions links_remove_saturates.
