(** * [Links::insert] / [Links::remove] as translated are the model's
    [tbl_insert] / [tbl_remove] (C08: each adopt adds one record, each unadopt
    removes at most one and is a no-op when none exists, removal saturates and
    deletes empty entries). Re-checked on every run against gen/LinksGen.v. *)
From Coq Require Import NArith List Lia. Import ListNotations.
From CR Require Import Base.
From Gen Require Import LinksLang LinksGen.
Local Open Scope N_scope.

Theorem links_insert_translated t l : g_links_insert t l = tbl_insert t l.
Proof. reflexivity. Qed.

Theorem links_remove_translated t l n : g_links_remove t l n = tbl_remove t l n.
Proof.
  unfold g_links_remove, tbl_remove, and_then_nonzero, checked_sub.
  destruct (N.leb_spec n (tbl_get t l)) as [H|H].
  - destruct (N.eqb_spec (tbl_get t l - n) 0) as [E|E].
    + assert (n <? tbl_get t l = false) as -> by (apply N.ltb_ge; lia). reflexivity.
    + assert (n <? tbl_get t l = true) as -> by (apply N.ltb_lt; lia). reflexivity.
  - assert (n <? tbl_get t l = false) as -> by (apply N.ltb_ge; lia). reflexivity.
Qed.

(** saturation, spelled out: removing more than is recorded deletes the entry *)
Corollary links_remove_saturates t l n : tbl_get t l <= n -> g_links_remove t l n = tbl_del t l.
Proof.
  intros H. rewrite links_remove_translated. unfold tbl_remove.
  assert (n <? tbl_get t l = false) as -> by (apply N.ltb_ge; exact H). reflexivity.
Qed.

Print Assumptions links_insert_translated.
Print Assumptions links_remove_translated.
Print Assumptions links_remove_saturates.
