(** * The bookkeeping frames of the machine preserve [Inv].

    Every frame of [step] except [FDropStrong] (Rc::drop proper) and
    [FRunDtor p (a :: pc)] (one action of a destructor script) only re-groups
    handles owned by the stack, logs a harmless event, or gives up one weak
    count of one allocation ([Weak::drop], the tail of [drop_unreachable*],
    phase three of [drop_cycle]).  None of them can fault. *)
From CR Require Import Base Atomic Machine LinksFacts HeapFacts Local Tokens InvDef InvLemmas ActBase ActClone.
Local Open Scope N_scope.

(** what one step must establish; no halt of any kind is allowed *)
Definition step_post (u : bool) (out : outcome) : Prop :=
  match out with
  | Running c' => Inv (st c') (stack c') /\ unw c' = u
  | Finished _ _ => False
  | Halted _ _ => False
  end.

(** ** small facts *)
Lemma set_heap_same s : set_heap s (heap_of s) = s.
Proof. destruct s; reflexivity. Qed.

Lemma upd_upd {A} (l : list A) i x y : upd (upd l i x) i y = upd l i y.
Proof.
  revert i; induction l as [|a l IH]; intros [|i]; cbn [upd]; auto. f_equal. apply IH.
Qed.

Lemma setb_setb h o x y : setb (setb h o x) o y = setb h o y.
Proof. apply upd_upd. Qed.

(** ** re-grouping the top frame *)

(** the frames that replace the top frame own no more than it did *)
Lemma inert_replace h lg fr frs k :
  inert_ok h lg (fr :: k) ->
  (forall fr', In fr' frs -> forall o, w_frame (sw_strong o) fr' <= w_frame (sw_strong o) fr) ->
  inert_ok h lg (frs ++ k).
Proof.
  intros Hin. apply inert_ok_cons in Hin as [Hf Hk].
  induction frs as [|fr1 frs IH]; intros Hle; cbn [app]; [exact Hk|].
  apply inert_ok_cons. split.
  - apply frame_ok_below with (k := k).
    + intros o. rewrite n_fin_app. lia.
    + apply frame_ok_weight with (fr := fr); [|exact Hf]. apply Hle. now left.
  - apply IH. intros fr' Hin' o. apply Hle. now right.
Qed.

(** the top frame is replaced by frames that own the same handles and promise
    the same obligations: nothing else is looked at *)
Lemma Inv_replace_top s fr frs k :
  Inv s (fr :: k) ->
  (forall o, total (w_frame (sw_strong o)) frs = w_frame (sw_strong o) fr) ->
  (forall o, total (w_frame (sw_weak o)) frs = w_frame (sw_weak o) fr) ->
  (forall o, n_after o frs = f_after o fr) ->
  (forall o, n_fin o frs = f_fin o fr) ->
  Inv s (frs ++ k).
Proof.
  intros [Hshape Htbl [C1 C2 C3 C4 C5 C6] Hnd Hin] Hws Hww Ha Hf.
  assert (HWs : forall o, W (sw_strong o) s (frs ++ k) = W (sw_strong o) s (fr :: k)).
  { intros o. unfold W. rewrite total_app. cbn [total]. rewrite Hws. lia. }
  assert (HWw : forall o, W (sw_weak o) s (frs ++ k) = W (sw_weak o) s (fr :: k)).
  { intros o. unfold W. rewrite total_app. cbn [total]. rewrite Hww. lia. }
  assert (HA : forall o, n_after o (frs ++ k) = n_after o (fr :: k)).
  { intros o. rewrite n_after_app, n_after_cons, Ha. reflexivity. }
  assert (HF : forall o, n_fin o (frs ++ k) = n_fin o (fr :: k)).
  { intros o. rewrite n_fin_app, n_fin_cons, Hf. reflexivity. }
  split; [exact Hshape|exact Htbl| |exact Hnd|].
  - split.
    + intros o b n Hb Hs. rewrite HWs. apply (C1 o b n Hb Hs).
    + intros o b Hb. rewrite HWw, HA, HF. apply (C2 o b Hb).
    + intros o b Hb. rewrite HA. apply (C3 o b Hb).
    + intros o b Hb Hp. rewrite HF in Hp. apply (C4 o b Hb Hp).
    + intros o Hb. rewrite HWs, HWw, HA, HF. apply (C5 o Hb).
    + exact C6.
  - apply inert_replace with (fr := fr); [exact Hin|].
    intros fr' Hin' o. rewrite <- Hws. apply (total_in_le (w_frame (sw_strong o)) frs fr' Hin').
Qed.

(** logging an event that is not a leak changes nothing *)
Lemma Inv_add_ev s e K : (forall o, e_leak o e = 0) -> Inv s K -> Inv (add_ev s e) K.
Proof.
  intros He [Hshape Htbl [C1 C2 C3 C4 C5 C6] Hnd Hin].
  assert (HL : forall o, n_leak o (log (add_ev s e)) = n_leak o (log s)).
  { intros o. rewrite log_add_ev, n_leak_cons, He. lia. }
  split; [exact Hshape|exact Htbl| |exact Hnd|].
  - split.
    + exact C1.
    + intros o b Hb. rewrite HL. apply (C2 o b Hb).
    + intros o b Hb. rewrite HL. apply (C3 o b Hb).
    + exact C4.
    + intros o Hb. rewrite HL. apply (C5 o Hb).
    + intros o b Hb Hp. rewrite HL in Hp. apply (C6 o b Hb Hp).
  - apply inert_ok_log with (lg := log s); [|exact Hin]. intros o. rewrite HL. lia.
Qed.

(** ** giving up one weak count *)

(** the box after [dec_weak] and "deallocate when zero" *)
Definition dec_box (b : box) : box :=
  if (weak b - 1 =? 0) then with_freed (with_weak b (weak b - 1)) true
  else with_weak b (weak b - 1).

Lemma dec_weak_free_ok h o b : getb h o = Ok b -> 0 < weak b ->
  dec_weak_free h o = Ok (setb h o (dec_box b)).
Proof.
  unfold dec_weak_free, bind, dec_box. intros -> Hw.
  destruct (N.eqb_spec (weak b) 0) as [E|E]; [lia|]. reflexivity.
Qed.

Lemma dec_box_facts b : freed b = false -> 0 < weak b ->
  strong (dec_box b) = strong b /\ value (dec_box b) = value b /\ links (dec_box b) = links b /\
  weak (dec_box b) + 1 = weak b /\ freed (dec_box b) = (weak (dec_box b) =? 0).
Proof.
  intros Hf Hw. unfold dec_box.
  destruct (N.eqb_spec (weak b - 1) 0) as [E|E];
    cbn [strong value links weak freed with_freed with_weak].
  - split; [reflexivity|]. split; [reflexivity|]. split; [reflexivity|]. split; [lia|].
    rewrite E. reflexivity.
  - split; [reflexivity|]. split; [reflexivity|]. split; [reflexivity|]. split; [lia|].
    rewrite Hf. symmetry. apply N.eqb_neq. exact E.
Qed.

Lemma dec_box_dying b : freed b = false -> 0 < weak b -> is_dying (dec_box b) = is_dying b.
Proof.
  intros Hf Hw. destruct (dec_box_facts b Hf Hw) as (Es & _ & El & _).
  unfold is_dying. rewrite Es, El. reflexivity.
Qed.

(** Box [o] loses one weak count (and is released when that was the last one)
    while exactly one summand of its weak equation decreases by one: a Weak
    handle owned by the stack, the pending [FAfterValue o], or one occurrence
    of [o] in a pending [FFinishGroup].  The table may be moved out at the same
    time when the object is already destroyed.  Nothing else changes. *)
Lemma Inv_dec_weak s K K' o b b' :
  Inv s K -> nth_error (heap_of s) o = Some b ->
  strong b' = strong b -> value b' = value b ->
  (links b' = links b \/ (strong b = Uninit /\ links b' = None)) ->
  weak b' + 1 = weak b -> freed b' = (weak b' =? 0) ->
  (forall y, total (w_frame (sw_strong y)) K' = total (w_frame (sw_strong y)) K) ->
  (forall y, y <> o ->
     total (w_frame (sw_weak y)) K' = total (w_frame (sw_weak y)) K /\
     n_after y K' = n_after y K /\ n_fin y K' = n_fin y K) ->
  n_fin o K' <= n_fin o K ->
  total (w_frame (sw_weak o)) K' + n_after o K' + n_fin o K' + 1 =
    total (w_frame (sw_weak o)) K + n_after o K + n_fin o K ->
  (if is_dying b' then n_after o K' + n_leak o (log s) = 1 else n_after o K' = 0) ->
  inert_ok (heap_of s) (log s) K' ->
  Inv (set_heap s (setb (heap_of s) o b')) K'.
Proof.
  intros HI Hb Hs Hv Hlk Hw Hfr HWs Hoth Hfin Hdelta Hdy Hin'.
  destruct HI as [Hshape Htbl [C1 C2 C3 C4 C5 C6] Hnd Hin].
  assert (Hlive : live b' = live b) by (unfold live; rewrite Hs; reflexivity).
  destruct (Hshape o b Hb) as (S1 & S2 & S3 & S4).
  assert (Hbt : btable b' = btable b).
  { destruct Hlk as [E|[Eu En]]; [unfold btable; rewrite E; reflexivity|].
    destruct S2 as [_ S2]; [apply live_uninit; exact Eu|]. rewrite S2. unfold btable. rewrite En. reflexivity. }
  assert (Hlt : (o < length (heap_of s))%nat) by (apply nth_error_Some; congruence).
  assert (Hnth : forall y, nth_error (setb (heap_of s) o b') y =
                           if Nat.eqb o y then Some b' else nth_error (heap_of s) y).
  { intros y. unfold setb. rewrite nth_error_upd. apply Nat.ltb_lt in Hlt. rewrite Hlt. reflexivity. }
  assert (Hheld : forall f, w_held f (set_heap s (setb (heap_of s) o b')) = w_held f s).
  { intros f. pose proof (W_setb_same_value f s o b b' [] Hb Hv) as H. unfold W in H. cbn [total] in H. lia. }
  assert (HWs' : forall y, W (sw_strong y) (set_heap s (setb (heap_of s) o b')) K' = W (sw_strong y) s K).
  { intros y. unfold W. rewrite Hheld, HWs. reflexivity. }
  assert (HWw : forall y, y <> o ->
            W (sw_weak y) (set_heap s (setb (heap_of s) o b')) K' = W (sw_weak y) s K).
  { intros y Hy. unfold W. rewrite Hheld. destruct (Hoth y Hy) as (-> & _). reflexivity. }
  assert (Hweq : weak b' = W (sw_weak o) (set_heap s (setb (heap_of s) o b')) K' + liveN b'
                           + n_after o K' + n_fin o K' + n_leak o (log s)).
  { pose proof (C2 o b Hb) as E. unfold W in *. rewrite Hheld. unfold liveN in *. rewrite Hlive. lia. }
  split.
  - (* shape *)
    intros y by' Hy. rewrite heap_of_set_heap, Hnth in Hy.
    destruct (Nat.eqb_spec o y) as [<-|Hne]; [|apply (Hshape y by' Hy)].
    injection Hy as <-. unfold shape_ok. rewrite Hlive, Hv, Hbt.
    split; [|split; [|split]].
    + intros Hl. destruct (S1 Hl) as (V & L & F). split; [exact V|]. split.
      * destruct Hlk as [E|[Eu _]]; [rewrite E; exact L|]. rewrite (live_uninit b Eu) in Hl. discriminate.
      * rewrite Hfr. apply N.eqb_neq. rewrite Hweq. unfold liveN. rewrite Hlive, Hl. lia.
    + exact S2.
    + intros E. destruct Hlk as [El|[_ En]]; [|exact En]. rewrite El. apply S3. rewrite <- Hs. exact E.
    + rewrite Hfr. split; intros E; apply N.eqb_eq; exact E.
  - (* tables *)
    rewrite heap_of_set_heap. eapply TblInv_same_tables; [|exact Htbl].
    apply same_tables_setb with (b := b); [exact Hb|exact Hbt|]. rewrite Hlive. auto.
  - (* counters *)
    split.
    + intros y by' m Hy Hm. rewrite heap_of_set_heap, Hnth in Hy. rewrite HWs'.
      destruct (Nat.eqb_spec o y) as [<-|Hne].
      * injection Hy as <-. rewrite Hs in Hm. apply (C1 o b m Hb Hm).
      * apply (C1 y by' m Hy Hm).
    + intros y by' Hy. rewrite heap_of_set_heap, Hnth in Hy. rewrite log_set_heap.
      destruct (Nat.eqb_spec o y) as [<-|Hne].
      * injection Hy as <-. exact Hweq.
      * rewrite (HWw y (not_eq_sym Hne)). destruct (Hoth y (not_eq_sym Hne)) as (_ & -> & ->).
        apply (C2 y by' Hy).
    + intros y by' Hy. rewrite heap_of_set_heap, Hnth in Hy. rewrite log_set_heap.
      destruct (Nat.eqb_spec o y) as [<-|Hne].
      * injection Hy as <-. exact Hdy.
      * destruct (Hoth y (not_eq_sym Hne)) as (_ & -> & _). apply (C3 y by' Hy).
    + intros y by' Hy Hp. rewrite heap_of_set_heap, Hnth in Hy.
      destruct (Nat.eqb_spec o y) as [<-|Hne].
      * injection Hy as <-. destruct (C4 o b Hb) as [Eu En]; [lia|]. split; [congruence|].
        destruct Hlk as [E|[_ E]]; congruence.
      * destruct (Hoth y (not_eq_sym Hne)) as (_ & _ & E). rewrite E in Hp. apply (C4 y by' Hy Hp).
    + intros y Hy. rewrite heap_of_set_heap in Hy.
      assert (Hy' : nth_error (heap_of s) y = None).
      { apply nth_error_None. apply nth_error_None in Hy. unfold setb in Hy.
        rewrite upd_length in Hy. exact Hy. }
      assert (Hne : y <> o) by (intros ->; congruence).
      destruct (C5 y Hy') as (E1 & E2 & E3 & E4 & E5). destruct (Hoth y Hne) as (_ & -> & ->).
      rewrite HWs', (HWw y Hne), log_set_heap. repeat split; assumption.
    + intros y by' Hy Hp. rewrite heap_of_set_heap, Hnth in Hy. rewrite log_set_heap in Hp.
      destruct (Nat.eqb_spec o y) as [<-|Hne]; [|apply (C6 y by' Hy Hp)].
      injection Hy as <-. rewrite Hs. apply (C6 o b Hb Hp).
  - (* no dangling handle *)
    intros y Hy. rewrite Hheld in Hy. rewrite heap_of_set_heap, Hnth.
    destruct (Hnd y Hy) as (by0 & Hy0 & Hl0).
    destruct (Nat.eqb_spec o y) as [<-|Hne].
    + exists b'. split; [reflexivity|]. rewrite Hlive. congruence.
    + exists by0. auto.
  - (* frames *)
    rewrite heap_of_set_heap, log_set_heap. eapply inert_ok_heap; [|exact Hin'].
    apply heap_mono_setb with (b := b); [exact Hb| rewrite Hlive; auto | rewrite Hs; auto].
Qed.

(** ** the frames, one by one *)
Section Frames.
Variables (pri : list oid) (s : state) (k : list frame) (u : bool).

Notation cfg fr := {| st := s; stack := fr :: k; unw := u |}.

(** [Drop for Node] begins: the destructor's start is logged *)
Lemma step_FDtorStart p : Inv s (FDtorStart p :: k) -> step_post u (step pri (cfg (FDtorStart p))).
Proof.
  intros HI. cbn [step st stack unw step_post]. split; [|reflexivity].
  apply Inv_add_ev; [intros o; reflexivity|].
  apply (Inv_replace_top s (FDtorStart p) [FRunDtor p (script p)] k HI); intros o; cbn [total w_frame]; try lia; reflexivity.
Qed.

(** the script is over: the fields of the value are dropped *)
Lemma step_FRunDtor_nil p : Inv s (FRunDtor p [] :: k) -> step_post u (step pri (cfg (FRunDtor p []))).
Proof.
  intros HI. cbn [step st stack unw step_post]. split; [|reflexivity].
  apply (Inv_replace_top s (FRunDtor p []) [FDropSlots (slots p)] k HI); intros o; cbn [total w_frame]; try (unfold w_payload; lia); reflexivity.
Qed.

Lemma step_FDropSlots_nil : Inv s (FDropSlots [] :: k) -> step_post u (step pri (cfg (FDropSlots []))).
Proof.
  intros HI. cbn [step st stack unw step_post]. split; [|reflexivity].
  apply (Inv_replace_top s (FDropSlots []) [] k HI); intros o; reflexivity.
Qed.

(** a strong field: its drop is scheduled, the handle changes owner *)
Lemma step_FDropSlots_strong o ss : Inv s (FDropSlots (SStrong o :: ss) :: k) ->
  step_post u (step pri (cfg (FDropSlots (SStrong o :: ss)))).
Proof.
  intros HI. cbn [step st stack unw step_post]. split; [|reflexivity].
  apply (Inv_replace_top s (FDropSlots (SStrong o :: ss)) [FDropStrong o; FDropSlots ss] k HI);
    intros y; cbn [total w_frame]; try lia; reflexivity.
Qed.

Lemma step_FDropSlots_empty ss : Inv s (FDropSlots (SEmpty :: ss) :: k) ->
  step_post u (step pri (cfg (FDropSlots (SEmpty :: ss)))).
Proof.
  intros HI. cbn [step st stack unw step_post]. split; [|reflexivity].
  apply (Inv_replace_top s (FDropSlots (SEmpty :: ss)) [FDropSlots ss] k HI);
    intros y; cbn [total w_frame sw_strong sw_weak]; try lia; reflexivity.
Qed.

(** a Weak field: [Weak::drop]; the allocation is released with its last weak *)
Lemma step_FDropSlots_weak w ss : Inv s (FDropSlots (SWeak w :: ss) :: k) ->
  step_post u (step pri (cfg (FDropSlots (SWeak w :: ss)))).
Proof.
  intros HI. cbn [step st stack unw]. destruct w as [o|].
  - destruct (inv_weak_token s _ HI o) as (b & Hg).
    { rewrite W_cons. cbn [w_frame total]. rewrite sw_weak_self. lia. }
    pose proof (getb_ok _ _ _ Hg) as [Hb Hf].
    assert (Hw : 0 < weak b).
    { rewrite (ci_weak _ _ (inv_cnt _ _ HI) o b Hb), W_cons. cbn [w_frame total]. rewrite sw_weak_self. lia. }
    cbn [weak_drop]. rewrite (dec_weak_free_ok _ _ _ Hg Hw). cbn [step_post st stack unw]. split; [|reflexivity].
    destruct (dec_box_facts b Hf Hw) as (Es & Ev & El & Ew & Ef).
    apply Inv_dec_weak with (K := FDropSlots (SWeak (Some o) :: ss) :: k) (b := b);
      [exact HI|exact Hb|exact Es|exact Ev|left; exact El|exact Ew|exact Ef| | | | | |].
    + intros y. cbn [total w_frame]. rewrite sw_strong_weak. lia.
    + intros y Hy. cbn [total w_frame]. rewrite (sw_weak_other y o) by congruence.
      split; [lia|]. split; reflexivity.
    + rewrite !n_fin_cons. cbn [f_fin]. lia.
    + cbn [total w_frame]. rewrite sw_weak_self, !n_after_cons, !n_fin_cons. cbn [f_after f_fin]. lia.
    + rewrite (dec_box_dying b Hf Hw). exact (ci_after _ _ (inv_cnt _ _ HI) o b Hb).
    + apply (inert_replace _ _ (FDropSlots (SWeak (Some o) :: ss)) [FDropSlots ss] k); [exact (inv_inert _ _ HI)|].
      intros fr' [<-|[]] y. cbn [w_frame total]. lia.
  - cbn [weak_drop step_post st stack unw]. rewrite set_heap_same. split; [|reflexivity].
    apply (Inv_replace_top s (FDropSlots (SWeak None :: ss)) [FDropSlots ss] k HI);
      intros y; cbn [total w_frame sw_strong sw_weak]; try lia; reflexivity.
Qed.

(** the rest of drop_unreachable / drop_unreachable_with_adoptions after the
    value's destructor returned: the table is moved out and dropped, the
    implicit weak is given up, the allocation is released unless a Weak is left *)
Lemma step_FAfterValue o : Inv s (FAfterValue o :: k) -> step_post u (step pri (cfg (FAfterValue o))).
Proof.
  intros HI. pose proof (inv_cnt _ _ HI) as HC.
  assert (Hna : n_after o (FAfterValue o :: k) = 1 + n_after o k).
  { rewrite n_after_cons. cbn [f_after]. rewrite Nat.eqb_refl. reflexivity. }
  destruct (nth_error (heap_of s) o) as [b|] eqn:Hb.
  2:{ destruct (ci_range _ _ HC o Hb) as (_ & _ & E & _). lia. }
  pose proof (ci_after _ _ HC o b Hb) as C3.
  destruct (is_dying b) eqn:Hd; [|lia].
  assert (Hsl : strong b = Uninit /\ exists t, links b = Some t).
  { unfold is_dying in Hd. destruct (strong b); [discriminate|].
    destruct (links b) as [t|]; [|discriminate]. eauto. }
  destruct Hsl as (Hs & t & Hl).
  assert (Hg : getb (heap_of s) o = Ok b). { apply (inv_obligation_getb s _ HI o b Hb). lia. }
  pose proof (getb_ok _ _ _ Hg) as [_ Hf].
  assert (Hw : 0 < weak b). { rewrite (ci_weak _ _ HC o b Hb). lia. }
  cbn [step st stack unw]. rewrite Hg, Hl.
  assert (Hg1 : getb (setb (heap_of s) o (with_links b None)) o = Ok (with_links b None)).
  { apply getb_intro; [|exact Hf]. unfold setb. apply nth_error_upd_same. apply nth_error_Some. congruence. }
  rewrite (dec_weak_free_ok _ _ _ Hg1) by exact Hw. rewrite setb_setb.
  cbn [step_post st stack unw]. split; [|reflexivity].
  apply Inv_add_ev; [intros y; reflexivity|].
  destruct (dec_box_facts (with_links b None) Hf Hw) as (Es & Ev & El & Ew & Ef).
  apply Inv_dec_weak with (K := FAfterValue o :: k) (b := b);
    [exact HI|exact Hb|exact Es|exact Ev|right; split; [exact Hs|exact El]|exact Ew|exact Ef| | | | | |].
  - intros y. cbn [total w_frame]. lia.
  - intros y Hy. split; [cbn [total w_frame]; lia|]. split; [|reflexivity].
    rewrite n_after_cons. cbn [f_after]. destruct (Nat.eqb_spec o y) as [E|E]; [congruence|lia].
  - rewrite n_fin_cons. cbn [f_fin]. lia.
  - rewrite Hna, n_fin_cons. cbn [total w_frame f_fin]. lia.
  - assert (is_dying (dec_box (with_links b None)) = false) as ->.
    { unfold is_dying. rewrite El. cbn [links with_links]. destruct (strong (dec_box (with_links b None))); reflexivity. }
    lia.
  - apply inert_ok_app with (k1 := [FAfterValue o]). exact (inv_inert _ _ HI).
Qed.

Lemma step_FInners_nil : Inv s (FInners [] :: k) -> step_post u (step pri (cfg (FInners []))).
Proof.
  intros HI. cbn [step st stack unw step_post]. split; [|reflexivity].
  apply (Inv_replace_top s (FInners []) [] k HI); intros o; reflexivity.
Qed.

(** drop(inners): the next tuple's value is destroyed, then its table *)
Lemma step_FInners_cons o v t es : Inv s (FInners ((o, v, t) :: es) :: k) ->
  step_post u (step pri (cfg (FInners ((o, v, t) :: es)))).
Proof.
  intros HI. cbn [step st stack unw step_post]. split; [|reflexivity].
  apply (Inv_replace_top s (FInners ((o, v, t) :: es)) [FDtorStart v; FTableDrop o; FInners es] k HI);
    intros y; cbn [total w_frame]; try unfold w_inner; cbn [fst snd]; try lia; reflexivity.
Qed.

Lemma step_FTableDrop o : Inv s (FTableDrop o :: k) -> step_post u (step pri (cfg (FTableDrop o))).
Proof.
  intros HI. cbn [step st stack unw step_post]. split; [|reflexivity].
  apply Inv_add_ev; [intros y; reflexivity|].
  apply (Inv_replace_top s (FTableDrop o) [] k HI); intros y; reflexivity.
Qed.

Lemma step_FRes r : Inv s (FRes r :: k) -> step_post u (step pri (cfg (FRes r))).
Proof.
  intros HI. cbn [step st stack unw step_post]. split; [|reflexivity].
  apply Inv_add_ev; [intros y; reflexivity|].
  apply (Inv_replace_top s (FRes r) [] k HI); intros y; reflexivity.
Qed.

End Frames.

(** ** phase three of drop_cycle *)

(** one member of the group loses its implicit weak *)
Lemma finish_one s x keys k : Inv s (FFinishGroup (x :: keys) :: k) ->
  exists b, getb (heap_of s) x = Ok b /\ is_dead (strong b) = true /\
    dec_weak_free (heap_of s) x = Ok (setb (heap_of s) x (dec_box b)) /\
    Inv (set_heap s (setb (heap_of s) x (dec_box b))) (FFinishGroup keys :: k).
Proof.
  intros HI. pose proof (inv_cnt _ _ HI) as HC.
  assert (Hnf : n_fin x (FFinishGroup (x :: keys) :: k) = 1 + n_fin x (FFinishGroup keys :: k)).
  { rewrite !n_fin_cons. cbn [f_fin count_nat]. rewrite Nat.eqb_refl. lia. }
  destruct (nth_error (heap_of s) x) as [b|] eqn:Hb.
  2:{ destruct (ci_range _ _ HC x Hb) as (_ & _ & _ & E & _). lia. }
  destruct (ci_fin _ _ HC x b Hb) as [Hs Hl]; [lia|].
  assert (Hg : getb (heap_of s) x = Ok b). { apply (inv_obligation_getb s _ HI x b Hb). lia. }
  pose proof (getb_ok _ _ _ Hg) as [_ Hf].
  assert (Hw : 0 < weak b). { rewrite (ci_weak _ _ HC x b Hb). lia. }
  exists b. split; [exact Hg|]. split; [rewrite Hs; reflexivity|].
  split; [apply dec_weak_free_ok; assumption|].
  destruct (dec_box_facts b Hf Hw) as (Es & Ev & El & Ew & Ef).
  apply Inv_dec_weak with (K := FFinishGroup (x :: keys) :: k) (b := b);
    [exact HI|exact Hb|exact Es|exact Ev|left; exact El|exact Ew|exact Ef| | | | | |].
  - intros y. reflexivity.
  - intros y Hy. split; [reflexivity|]. split; [reflexivity|].
    rewrite !n_fin_cons. cbn [f_fin count_nat]. destruct (Nat.eqb_spec x y) as [E|E]; [congruence|lia].
  - lia.
  - rewrite Hnf. cbn [total w_frame]. rewrite !n_after_cons. cbn [f_after]. lia.
  - rewrite (dec_box_dying b Hf Hw). exact (ci_after _ _ HC x b Hb).
  - apply (inert_replace _ _ (FFinishGroup (x :: keys)) [FFinishGroup keys] k); [exact (inv_inert _ _ HI)|].
    intros fr' [<-|[]] y. cbn [w_frame]. lia.
Qed.

(** every member is destroyed and keeps its allocation until its turn comes;
    [finish_group] cannot fault and discharges the whole obligation *)
Lemma finish_group_inv keys : forall s k, Inv s (FFinishGroup keys :: k) ->
  exists h', finish_group (heap_of s) keys = Ok h' /\ Inv (set_heap s h') k.
Proof.
  induction keys as [|x keys IH]; intros s k HI.
  - exists (heap_of s). split; [reflexivity|]. rewrite set_heap_same.
    apply (Inv_replace_top s (FFinishGroup []) [] k HI); intros o; reflexivity.
  - destruct (finish_one s x keys k HI) as (b & Hg & Hd & Hdw & HI').
    destruct (IH _ k HI') as (h' & Hfg & HI''). exists h'. split.
    + cbn [finish_group]. unfold bind. rewrite Hg, Hd, Hdw. rewrite heap_of_set_heap in Hfg. exact Hfg.
    + exact HI''.
Qed.

Lemma step_FFinishGroup pri s keys k u : Inv s (FFinishGroup keys :: k) ->
  step_post u (step pri {| st := s; stack := FFinishGroup keys :: k; unw := u |}).
Proof.
  intros HI. cbn [step st stack unw]. destruct (finish_group_inv keys s k HI) as (h' & -> & HI').
  cbn [step_post st stack unw]. split; [exact HI'|reflexivity].
Qed.

(** ** assembly *)

(** Every frame other than [Rc::drop] itself and a script action: field drop
    glue, [Weak::drop] of a field, the tails of drop_unreachable* and of
    drop_cycle, the start and the end of a value's destructor.  The step
    succeeds (no access to a released or moved-out part of an RcBox, no counter
    underflow, no abort), keeps the invariant, and leaves the unwinding flag. *)
Theorem step_frames_strong pri s fr k u :
  (forall o, fr <> FDropStrong o) -> (forall p a pc, fr <> FRunDtor p (a :: pc)) ->
  Inv s (fr :: k) ->
  match step pri {| st := s; stack := fr :: k; unw := u |} with
  | Running c' => Inv (st c') (stack c') /\ unw c' = u
  | Finished _ _ => False
  | Halted _ _ => False
  end.
Proof.
  intros Hnd Hnr HI. change (step_post u (step pri {| st := s; stack := fr :: k; unw := u |})).
  destruct fr as [o|p|p pc|ss|o|es|o|keys|r].
  - elim (Hnd o). reflexivity.
  - apply step_FDtorStart. exact HI.
  - destruct pc as [|a pc]; [apply step_FRunDtor_nil; exact HI|]. elim (Hnr p a pc). reflexivity.
  - destruct ss as [|[o|w|] ss].
    + apply step_FDropSlots_nil. exact HI.
    + apply step_FDropSlots_strong. exact HI.
    + apply step_FDropSlots_weak. exact HI.
    + apply step_FDropSlots_empty. exact HI.
  - apply step_FAfterValue. exact HI.
  - destruct es as [|[[o v] t] es]; [apply step_FInners_nil; exact HI|apply step_FInners_cons; exact HI].
  - apply step_FTableDrop. exact HI.
  - apply step_FFinishGroup. exact HI.
  - apply step_FRes. exact HI.
Qed.

Theorem step_frames pri s fr k u :
  (forall o, fr <> FDropStrong o) -> (forall p a pc, fr <> FRunDtor p (a :: pc)) ->
  Inv s (fr :: k) ->
  match step pri {| st := s; stack := fr :: k; unw := u |} with
  | Running c' => Inv (st c') (stack c') /\ unw c' = u
  | Finished _ _ => False
  | Halted _ h => h = HAbort
  end.
Proof.
  intros Hnd Hnr HI. pose proof (step_frames_strong pri s fr k u Hnd Hnr HI) as H.
  destruct (step pri {| st := s; stack := fr :: k; unw := u |}) as [c'|s' p|s' h]; [exact H|exact H|elim H].
Qed.

Print Assumptions step_frames_strong.
Print Assumptions step_frames.
