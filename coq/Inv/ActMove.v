(** * Actions that move a handle from one owner to another: storing a handle
    into a slot, taking it out again, dropping a register, decrement_strong_count.
    No counter changes (except the weak counter in [Weak::drop]); the handle
    census stays the same because every handle keeps exactly one owner. *)
From CR Require Import Base Atomic Machine LinksFacts HeapFacts Local Tokens InvDef InvLemmas ActBase ActClone.
Local Open Scope N_scope.

(** ** the general transfer lemma *)

(** [b'] is [b] up to the content of its value and its weak counter *)
Definition skel (b b' : box) : Prop :=
  strong b' = strong b /\ links b' = links b /\ (value b = None <-> value b' = None) /\
  (freed b' = true <-> weak b' = 0).

Lemma skel_live b b' : skel b b' -> live b' = live b.
Proof. intros (E & _). unfold live. rewrite E. reflexivity. Qed.

Lemma skel_btable b b' : skel b b' -> btable b' = btable b.
Proof. intros (_ & E & _). unfold btable. rewrite E. reflexivity. Qed.

Lemma skel_dying b b' : skel b b' -> is_dying b' = is_dying b.
Proof. intros (E1 & E2 & _). unfold is_dying. rewrite E1, E2. reflexivity. Qed.

(** the weights used by the invariant: an empty slot and a dangling Weak (one
    created by [Weak::new]) weigh nothing *)
Definition hweight (f : slot -> N) : Prop := f SEmpty = 0 /\ f (SWeak None) = 0.
Lemma hweight_strong o : hweight (sw_strong o). Proof. split; reflexivity. Qed.
Lemma hweight_weak o : hweight (sw_weak o). Proof. split; reflexivity. Qed.

Lemma w_held_W f s : w_held f s = W f s [].
Proof. unfold W. cbn [total]. lia. Qed.

(** Handles change owner (registers, values of boxes, frames), the strong
    counters, the tables and the lifecycle of every box stay as they are, the
    weak counter of a box moves together with the number of Weak handles to it:
    the invariant carries over.  [nodangling] and [inert_ok] of the new
    configuration are asked for with respect to the OLD heap. *)
Lemma Inv_transfer s K s' K' :
  Inv s K ->
  length (heap_of s') = length (heap_of s) ->
  (forall o b, nth_error (heap_of s) o = Some b ->
     exists b', nth_error (heap_of s') o = Some b' /\ skel b b' /\
       weak b' + W (sw_weak o) s K = weak b + W (sw_weak o) s' K') ->
  log s' = log s ->
  (forall o, W (sw_strong o) s' K' = W (sw_strong o) s K) ->
  (forall o, W (sw_weak o) s' K' <= W (sw_weak o) s K) ->
  (forall o, n_after o K' = n_after o K) ->
  (forall o, n_fin o K' = n_fin o K) ->
  (forall o, 0 < w_held (sw_strong o) s' ->
     exists b, nth_error (heap_of s) o = Some b /\ live b = true) ->
  inert_ok (heap_of s) (log s) K' ->
  Inv s' K'.
Proof.
  intros HI Hlen Hbox Hlog HWs HWw Hna Hnf Hnd' Hin'.
  assert (Hback : forall y b', nth_error (heap_of s') y = Some b' ->
     exists b, nth_error (heap_of s) y = Some b /\ skel b b' /\
       weak b' + W (sw_weak y) s K = weak b + W (sw_weak y) s' K').
  { intros y b' Hy. destruct (nth_error (heap_of s) y) as [b|] eqn:Hb.
    - destruct (Hbox y b Hb) as (b2 & Hb2 & Hsk & Hw). assert (b2 = b') as -> by congruence.
      exists b. auto.
    - apply nth_error_None in Hb. assert (Hne : nth_error (heap_of s') y <> None) by congruence.
      apply nth_error_Some in Hne. lia. }
  assert (Hnone : forall y, nth_error (heap_of s') y = None -> nth_error (heap_of s) y = None).
  { intros y Hy. apply nth_error_None. apply nth_error_None in Hy. lia. }
  assert (Hst : same_tables (heap_of s) (heap_of s')).
  { split; [exact Hlen|]. intros o b Hb. destruct (Hbox o b Hb) as (b' & Hb' & Hsk & _).
    exists b'. split; [exact Hb'|]. split; [apply skel_btable; exact Hsk|].
    rewrite (skel_live _ _ Hsk). auto. }
  assert (Hmono : heap_mono (heap_of s) (heap_of s')).
  { intros o b Hb. destruct (Hbox o b Hb) as (b' & Hb' & Hsk & _).
    exists b'. split; [exact Hb'|]. split.
    - rewrite (skel_live _ _ Hsk). auto.
    - destruct Hsk as (E & _). rewrite E. auto. }
  destruct HI as [Hshape Htbl Hcnt Hnd Hin]. destruct Hcnt as [C1 C2 C3 C4 C5 C6].
  assert (Hweak : forall y b b', nth_error (heap_of s) y = Some b -> skel b b' ->
     weak b' + W (sw_weak y) s K = weak b + W (sw_weak y) s' K' ->
     weak b' = W (sw_weak y) s' K' + liveN b' + n_after y K' + n_fin y K' + n_leak y (log s')).
  { intros y b b' Hb Hsk Hw. rewrite Hlog, Hna, Hnf. unfold liveN. rewrite (skel_live _ _ Hsk).
    pose proof (C2 y b Hb) as E. unfold liveN in E. lia. }
  split.
  - (* shape *)
    intros y b' Hy. destruct (Hback y b' Hy) as (b & Hb & Hsk & Hw).
    pose proof (Hweak y b b' Hb Hsk Hw) as Hwk.
    destruct (Hshape y b Hb) as (S1 & S2 & S3 & S4).
    pose proof (skel_live _ _ Hsk) as El. pose proof (skel_btable _ _ Hsk) as Et.
    destruct Hsk as (Es & Elk & Ev & Ef).
    unfold shape_ok. rewrite El, Et, Elk, Es. split; [|split; [|split]].
    + intros Hl. destruct (S1 Hl) as (V1 & V2 & V3). split; [|split].
      * intros E. apply Ev in E. exact (V1 E).
      * exact V2.
      * destruct (freed b') eqn:Efr; [|reflexivity]. destruct Ef as [Ef _]. specialize (Ef eq_refl).
        unfold liveN in Hwk. rewrite El, Hl in Hwk. lia.
    + intros Hl. destruct (S2 Hl) as (V1 & V2). split; [|exact V2]. apply Ev. exact V1.
    + exact S3.
    + exact Ef.
  - (* tables *)
    eapply TblInv_same_tables; [exact Hst|exact Htbl].
  - (* counters *)
    split.
    + intros y b' n Hy Hn. destruct (Hback y b' Hy) as (b & Hb & Hsk & Hw).
      rewrite HWs. apply (C1 y b n Hb). destruct Hsk as (Es & _). congruence.
    + intros y b' Hy. destruct (Hback y b' Hy) as (b & Hb & Hsk & Hw).
      apply (Hweak y b b' Hb Hsk Hw).
    + intros y b' Hy. destruct (Hback y b' Hy) as (b & Hb & Hsk & Hw).
      rewrite (skel_dying _ _ Hsk), Hlog, Hna. apply (C3 y b Hb).
    + intros y b' Hy Hp. destruct (Hback y b' Hy) as (b & Hb & Hsk & Hw).
      rewrite Hnf in Hp. destruct (C4 y b Hb Hp) as [E1 E2].
      destruct Hsk as (Es & Elk & _). split; congruence.
    + intros y Hy. apply Hnone in Hy. destruct (C5 y Hy) as (E1 & E2 & E3 & E4 & E5).
      rewrite HWs, Hna, Hnf, Hlog. specialize (HWw y). repeat split; try assumption. lia.
    + intros y b' Hy Hp. destruct (Hback y b' Hy) as (b & Hb & Hsk & Hw).
      rewrite Hlog in Hp. destruct Hsk as (Es & _). rewrite Es. apply (C6 y b Hb Hp).
  - (* no dangling handle *)
    intros y Hy. destruct (Hnd' y Hy) as (b & Hb & Hl).
    destruct (Hbox y b Hb) as (b' & Hb' & Hsk & _). exists b'. split; [exact Hb'|].
    rewrite (skel_live _ _ Hsk). exact Hl.
  - (* frames *)
    rewrite Hlog. eapply inert_ok_heap; [exact Hmono|exact Hin'].
Qed.

(** the same with all counters unchanged: only the contents of values differ *)
Definition skel_eq (b b' : box) : Prop :=
  strong b' = strong b /\ weak b' = weak b /\ links b' = links b /\ freed b' = freed b /\
  (value b = None <-> value b' = None).

Lemma Inv_move s K s' K' :
  Inv s K ->
  length (heap_of s') = length (heap_of s) ->
  (forall o b, nth_error (heap_of s) o = Some b ->
     exists b', nth_error (heap_of s') o = Some b' /\ skel_eq b b') ->
  log s' = log s ->
  (forall f, hweight f -> W f s' K' = W f s K) ->
  (forall o, n_after o K' = n_after o K) ->
  (forall o, n_fin o K' = n_fin o K) ->
  (forall o, 0 < w_held (sw_strong o) s' ->
     exists b, nth_error (heap_of s) o = Some b /\ live b = true) ->
  inert_ok (heap_of s) (log s) K' ->
  Inv s' K'.
Proof.
  intros HI Hlen Hbox Hlog HW Hna Hnf Hnd' Hin'.
  apply (Inv_transfer s K s' K'); try assumption.
  - intros o b Hb. destruct (Hbox o b Hb) as (b' & Hb' & Es & Ew & Elk & Efr & Ev).
    exists b'. split; [exact Hb'|]. split.
    + unfold skel. split; [exact Es|]. split; [exact Elk|]. split; [exact Ev|].
      rewrite Efr, Ew. destruct (inv_shape s K HI o b Hb) as (_ & _ & _ & S4). exact S4.
    + rewrite Ew, (HW (sw_weak o) (hweight_weak o)). reflexivity.
  - intros o. apply HW. apply hweight_strong.
  - intros o. rewrite (HW (sw_weak o) (hweight_weak o)). lia.
Qed.

Lemma skel_eq_refl b : skel_eq b b.
Proof. unfold skel_eq. tauto. Qed.

(** only the registers and the stack change *)
Lemma Inv_move_regs s K s' K' :
  Inv s K ->
  heap_of s' = heap_of s ->
  log s' = log s ->
  (forall f, hweight f -> W f s' K' = W f s K) ->
  (forall o, n_after o K' = n_after o K) ->
  (forall o, n_fin o K' = n_fin o K) ->
  (forall o, 0 < w_held (sw_strong o) s' ->
     exists b, nth_error (heap_of s) o = Some b /\ live b = true) ->
  inert_ok (heap_of s) (log s) K' ->
  Inv s' K'.
Proof.
  intros HI Hheap Hlog HW Hna Hnf Hnd' Hin'.
  apply (Inv_move s K s' K'); try assumption.
  - rewrite Hheap. reflexivity.
  - intros o b Hb. exists b. rewrite Hheap. split; [exact Hb|apply skel_eq_refl].
Qed.

(** rewriting the value of a box that has one *)
Lemma write_value_skel h o b p' : nth_error h o = Some b -> value b <> None ->
  length (setb h o (with_value b (Some p'))) = length h /\
  forall y c, nth_error h y = Some c ->
    exists c', nth_error (setb h o (with_value b (Some p'))) y = Some c' /\ skel_eq c c'.
Proof.
  intros Hb Hv. split; [apply upd_length|]. intros y c Hy. unfold setb. rewrite nth_error_upd.
  destruct (Nat.eqb_spec o y) as [<-|Hne].
  - assert (Hlt : (o < length h)%nat) by (apply nth_error_Some; congruence).
    apply Nat.ltb_lt in Hlt. rewrite Hlt. eexists. split; [reflexivity|].
    assert (c = b) as -> by congruence. unfold skel_eq. cbn [with_value strong weak links freed value].
    repeat split; try reflexivity; intros E; [contradiction|discriminate].
  - exists c. split; [exact Hy|apply skel_eq_refl].
Qed.

(** ** obligations and the running destructor's frame *)
Lemma n_after_ctx o self pc k : n_after o (ctx self pc k) = n_after o k.
Proof. destruct self; reflexivity. Qed.
Lemma n_fin_ctx o self pc k : n_fin o (ctx self pc k) = n_fin o k.
Proof. destruct self; reflexivity. Qed.

(** ** registers and slots carry the same handles *)
Lemma slot_of_reg_spec x sl : slot_of_reg x = Some sl ->
  x <> REmpty /\ (forall f, w_reg f x = f sl) /\
  (forall o, sl = SStrong o -> x = RStrong o).
Proof.
  destruct x as [o|w|o|p|]; cbn [slot_of_reg]; try discriminate; intros H; injection H as <-.
  - split; [discriminate|]. split; [reflexivity|]. intros o' E. injection E as ->. reflexivity.
  - split; [discriminate|]. split; [reflexivity|]. intros o' E. discriminate.
Qed.

Lemma reg_of_slot_spec sl x : reg_of_slot sl = Some x ->
  (forall f, w_reg f x = f sl).
Proof.
  destruct sl as [o|w|]; cbn [reg_of_slot]; try discriminate; intros H; injection H as <-; reflexivity.
Qed.

(** emptying a register *)
Lemma W_reg_clear f s r K : reg_get s r <> REmpty ->
  W f (set_reg s r REmpty) K + w_reg f (reg_get s r) = W f s K.
Proof.
  intros Hr. apply reg_get_some in Hr.
  assert (Hlt : (r < length (regs s))%nat) by (apply nth_error_Some; congruence).
  pose proof (W_set_reg f s r REmpty K Hlt) as H. cbn [w_reg] in H. lia.
Qed.

Lemma resolve_slot_spec s self w i ow sl : resolve_slot s self w i = Some (ow, sl) ->
  resolve_owner s self w = Some ow /\ nth_error (slots (owner_payload ow)) i = Some sl.
Proof.
  unfold resolve_slot. destruct (resolve_owner s self w) as [ow'|]; [|discriminate].
  destruct (nth_error (slots (owner_payload ow')) i) as [sl'|] eqn:Es; [|discriminate].
  intros H; injection H as <- <-. auto.
Qed.

(** ** the census when a slot of a box's value is overwritten *)
Lemma W_write_box f s o b p i sl old K :
  nth_error (heap_of s) o = Some b -> value b = Some p -> nth_error (slots p) i = Some old ->
  W f (set_heap s (setb (heap_of s) o (with_value b (Some (set_payload_slot p i sl))))) K + f old
  = W f s K + f sl.
Proof.
  intros Hb Hv Hs.
  pose proof (W_setb f s o b (with_value b (Some (set_payload_slot p i sl))) K Hb) as H1.
  rewrite (w_box_value f b p Hv) in H1.
  rewrite (w_box_value f (with_value b (Some (set_payload_slot p i sl))) (set_payload_slot p i sl) eq_refl) in H1.
  pose proof (w_payload_set_slot f p i sl old Hs) as H2. lia.
Qed.

(** ** AStore *)

(** [node.slot[k] = handle] where the slot is empty: the handle (strong or
    Weak) leaves the register and is now owned by the addressed value; no
    counter moves. *)
Theorem act_store src w i : act_preserves (AStore src w i).
Proof.
  intros s self pc k HI _. cbn [exec_act].
  destruct (slot_of_reg (reg_get s src)) as [sl|] eqn:Esl; [|apply act_invalid; exact HI].
  destruct (resolve_slot s self w i) as [[ow old]|] eqn:Ers; [|apply act_invalid; exact HI].
  destruct old as [x|x|]; try (apply act_invalid; exact HI).
  apply resolve_slot_spec in Ers as [Eo Es]. pose proof (resolve_owner_spec s self pc k HI w ow Eo) as Hspec.
  destruct (slot_of_reg_spec _ _ Esl) as (Hne & Hwr & Hstr).
  destruct ow as [o p|p]; cbn [owner_payload] in Es.
  - (* a live object through a register *)
    destruct Hspec as (r & b & -> & Hr & Hb & Hv).
    assert (Eout : write_slot (set_reg s src REmpty) self (WBox o p) i sl =
              (set_heap (set_reg s src REmpty)
                 (setb (heap_of s) o (with_value b (Some (set_payload_slot p i sl)))), self)).
    { cbn [write_slot heap_of set_reg mk]. rewrite Hb. reflexivity. }
    rewrite Eout. cbn [act_post app]. split; [tauto|].
    assert (HW : forall f K, hweight f ->
      W f (set_heap (set_reg s src REmpty)
             (setb (heap_of s) o (with_value b (Some (set_payload_slot p i sl))))) K = W f s K).
    { intros f K [Hf _].
      pose proof (W_write_box f (set_reg s src REmpty) o b p i sl SEmpty K Hb Hv Es) as H1.
      change (heap_of (set_reg s src REmpty)) with (heap_of s) in H1.
      pose proof (W_reg_clear f s src K Hne) as H2. rewrite Hwr in H2. lia. }
    destruct (write_value_skel (heap_of s) o b (set_payload_slot p i sl) Hb) as [Hlen Hsk];
      [congruence|].
    apply (Inv_move s (ctx self pc k)); try assumption; try reflexivity.
    + intros f Hf. apply HW. exact Hf.
    + intros y Hy. rewrite w_held_W, (HW _ [] (hweight_strong y)), <- w_held_W in Hy.
      apply (inv_nd s _ HI y Hy).
    + apply (inv_inert s _ HI).
  - (* the value whose destructor is running *)
    destruct Hspec as [-> ->]. cbn [write_slot act_post app ctx]. split; [split; discriminate|].
    cbn [ctx] in HI.
    assert (HW : forall f, hweight f ->
      W f (set_reg s src REmpty) (FRunDtor (set_payload_slot p i sl) pc :: k) =
      W f s (FRunDtor p pc :: k)).
    { intros f [Hf _]. rewrite !W_cons. cbn [w_frame].
      pose proof (W_reg_clear f s src k Hne) as H2. rewrite Hwr in H2.
      pose proof (w_payload_set_slot f p i sl SEmpty Es) as H3. lia. }
    apply (Inv_move_regs s (FRunDtor p pc :: k)); try assumption; try reflexivity.
    + intros y Hy. apply (inv_nd s _ HI y).
      pose proof (W_reg_clear (sw_strong y) s src [] Hne) as H2. rewrite <- !w_held_W in H2. lia.
    + destruct (inv_inert s _ HI) as [Hfr Hin]. split; [|exact Hin].
      intros y Hy. cbn [w_frame] in Hy.
      pose proof (w_payload_set_slot (sw_strong y) p i sl SEmpty Es) as H3. rewrite sw_strong_empty in H3.
      destruct (N.eq_dec (sw_strong y sl) 0) as [E0|E0].
      * apply Hfr. cbn [w_frame]. lia.
      * assert (Hsl : sl = SStrong y) by (apply sw_strong_pos; lia).
        specialize (Hstr y Hsl).
        destruct (reg_strong_live s (Some p) pc k HI y src (or_introl Hstr)) as (b & Hg & Hl).
        apply getb_ok in Hg as [Hb _]. exists b. auto.
Qed.

(** ** ATake *)

(** [mem::take(&mut node.slot[k])]: the handle leaves the slot and is now owned
    by the program.  When the slot belongs to the value being destroyed and
    holds a strong handle to an object that was destroyed with it, the handle
    would escape as a dangling one: [act_safe] excludes exactly that, so the
    handle that reaches the register targets a live object. *)
Theorem act_take w i dst : act_preserves (ATake w i dst).
Proof.
  intros s self pc k HI Hsafe. cbn [exec_act].
  destruct (resolve_slot s self w i) as [[ow sl]|] eqn:Ers; [|apply act_invalid; exact HI].
  destruct (reg_of_slot sl) as [x|] eqn:Ex; [|apply act_invalid; exact HI].
  destruct (reg_free s dst) eqn:Ef; [|apply act_invalid; exact HI].
  apply resolve_slot_spec in Ers as [Eo Es].
  pose proof (resolve_owner_spec s self pc k HI w ow Eo) as Hspec.
  pose proof (reg_of_slot_spec _ _ Ex) as Hwr.
  destruct ow as [o p|p]; cbn [owner_payload] in Es.
  - (* a live object through a register *)
    destruct Hspec as (r & b & -> & Hr & Hb & Hv).
    assert (Eout : write_slot s self (WBox o p) i SEmpty =
              (set_heap s (setb (heap_of s) o (with_value b (Some (set_payload_slot p i SEmpty)))), self)).
    { cbn [write_slot]. rewrite Hb. reflexivity. }
    rewrite Eout. cbn [act_post app]. split; [tauto|].
    assert (HW : forall f K, hweight f ->
      W f (set_reg (set_heap s (setb (heap_of s) o (with_value b (Some (set_payload_slot p i SEmpty)))))
             dst x) K = W f s K).
    { intros f K [Hf _]. rewrite W_set_reg_free by exact Ef.
      pose proof (W_write_box f s o b p i SEmpty sl K Hb Hv Es) as H1. rewrite Hwr. lia. }
    destruct (write_value_skel (heap_of s) o b (set_payload_slot p i SEmpty) Hb) as [Hlen Hsk];
      [congruence|].
    apply (Inv_move s (ctx self pc k)); try assumption; try reflexivity.
    + intros f Hf. apply HW. exact Hf.
    + intros y Hy. rewrite w_held_W, (HW _ [] (hweight_strong y)), <- w_held_W in Hy.
      apply (inv_nd s _ HI y Hy).
    + apply (inv_inert s _ HI).
  - (* the value whose destructor is running *)
    destruct Hspec as [-> ->]. cbn [write_slot act_post app ctx]. split; [split; discriminate|].
    cbn [ctx] in HI.
    pose proof (fun f => w_payload_set_slot f p i SEmpty sl Es) as Hps.
    assert (HW : forall f, hweight f ->
      W f (set_reg s dst x) (FRunDtor (set_payload_slot p i SEmpty) pc :: k) =
      W f s (FRunDtor p pc :: k)).
    { intros f [Hf _]. rewrite W_set_reg_free by exact Ef. rewrite !W_cons. cbn [w_frame].
      specialize (Hps f). rewrite Hwr. lia. }
    apply (Inv_move_regs s (FRunDtor p pc :: k)); try assumption; try reflexivity.
    + intros y Hy.
      pose proof (W_set_reg_free (sw_strong y) s dst x [] Ef) as H2. rewrite <- !w_held_W, Hwr in H2.
      destruct (N.eq_dec (sw_strong y sl) 0) as [E0|E0].
      * apply (inv_nd s _ HI y). lia.
      * assert (Hsl : sl = SStrong y) by (apply sw_strong_pos; lia). subst sl.
        cbn [act_safe href_self_dead] in Hsafe. rewrite Es in Hsafe.
        destruct (nth_error (heap_of s) y) as [b|]; [|discriminate].
        exists b. split; [reflexivity|]. destruct (live b); [reflexivity|discriminate].
    + destruct (inv_inert s _ HI) as [Hfr Hin]. split; [|exact Hin].
      intros y Hy. cbn [w_frame] in Hy. apply Hfr. cbn [w_frame].
      specialize (Hps (sw_strong y)). rewrite sw_strong_empty in Hps. lia.
Qed.

(** ** dropping a strong handle held in a register *)

(** the handle moves from the register into the [FDropStrong] frame, whose
    execution is [Rc::drop] proper *)
Lemma release_strong_reg s self pc k r o :
  Inv s (ctx self pc k) -> reg_get s r = RStrong o \/ reg_get s r = RRaw o ->
  Inv (set_reg s r REmpty) (FDropStrong o :: ctx self pc k).
Proof.
  intros HI Hr.
  assert (Hne : reg_get s r <> REmpty) by (destruct Hr as [-> | ->]; discriminate).
  assert (Hwr : forall f, w_reg f (reg_get s r) = f (SStrong o))
    by (intros f; destruct Hr as [-> | ->]; reflexivity).
  apply (Inv_move_regs s (ctx self pc k)); try assumption; try reflexivity.
  - intros f Hf. rewrite W_cons. cbn [w_frame].
    pose proof (W_reg_clear f s r (ctx self pc k) Hne) as H2. rewrite Hwr in H2. lia.
  - intros y Hy. apply (inv_nd s _ HI y).
    pose proof (W_reg_clear (sw_strong y) s r [] Hne) as H2. rewrite <- !w_held_W in H2. lia.
  - split; [|exact (inv_inert s _ HI)].
    intros y Hy. cbn [w_frame] in Hy. apply sw_strong_pos in Hy. injection Hy as <-.
    destruct (reg_strong_live s self pc k HI o r Hr) as (b & Hg & Hl).
    apply getb_ok in Hg as [Hb _]. exists b. auto.
Qed.

(** ** [Weak::drop] *)
Definition weak_dec (b : box) : box :=
  if (weak b - 1 =? 0) then with_freed (with_weak b (weak b - 1)) true
  else with_weak b (weak b - 1).

Lemma weak_drop_ok h o b : getb h o = Ok b -> 0 < weak b ->
  weak_drop h (Some o) = Ok (setb h o (weak_dec b)).
Proof.
  intros Hg Hw. unfold weak_drop, dec_weak_free, bind. rewrite Hg.
  assert ((weak b =? 0) = false) as -> by (apply N.eqb_neq; lia). reflexivity.
Qed.

Lemma weak_dec_strong b : strong (weak_dec b) = strong b.
Proof. unfold weak_dec. destruct (weak b - 1 =? 0); reflexivity. Qed.
Lemma weak_dec_links b : links (weak_dec b) = links b.
Proof. unfold weak_dec. destruct (weak b - 1 =? 0); reflexivity. Qed.
Lemma weak_dec_value b : value (weak_dec b) = value b.
Proof. unfold weak_dec. destruct (weak b - 1 =? 0); reflexivity. Qed.
Lemma weak_dec_weak b : weak (weak_dec b) = weak b - 1.
Proof. unfold weak_dec. destruct (weak b - 1 =? 0); reflexivity. Qed.
Lemma weak_dec_freed b : freed b = false -> (freed (weak_dec b) = true <-> weak (weak_dec b) = 0).
Proof.
  intros Hf. unfold weak_dec. destruct (N.eqb_spec (weak b - 1) 0) as [E|E]; cbn [freed weak with_freed with_weak].
  - tauto.
  - rewrite Hf. split; [discriminate|]. intros E'. contradiction.
Qed.

(** One Weak handle to [o] disappears from its owner, [o]'s weak counter is
    decremented and the allocation released when the counter reaches zero.
    No handle and no obligation can name the released allocation: by [ci_weak]
    every summand of its weak counter is zero.  Stated for an arbitrary new
    owner structure so that it also serves the field drop glue. *)
Lemma Inv_weak_release s K s' K' o b :
  Inv s K -> getb (heap_of s) o = Ok b ->
  heap_of s' = setb (heap_of s) o (weak_dec b) -> log s' = log s ->
  (forall f, hweight f -> W f s' K' + f (SWeak (Some o)) = W f s K) ->
  (forall y, n_after y K' = n_after y K) ->
  (forall y, n_fin y K' = n_fin y K) ->
  (forall y, 0 < w_held (sw_strong y) s' ->
     exists c, nth_error (heap_of s) y = Some c /\ live c = true) ->
  inert_ok (heap_of s) (log s) K' ->
  Inv s' K'.
Proof.
  intros HI Hg Hheap Hlog HW Hna Hnf Hnd' Hin'.
  pose proof (getb_lt _ _ _ Hg) as Hlt. apply getb_ok in Hg as [Hb Hfr].
  assert (Hwpos : 0 < weak b).
  { rewrite (ci_weak s K (inv_cnt s K HI) o b Hb).
    pose proof (HW (sw_weak o) (hweight_weak o)) as H1. rewrite sw_weak_self in H1. lia. }
  apply (Inv_transfer s K s' K'); try assumption.
  - rewrite Hheap. apply upd_length.
  - intros y c Hc. rewrite Hheap. unfold setb. rewrite nth_error_upd.
    pose proof (HW (sw_weak y) (hweight_weak y)) as H1.
    destruct (Nat.eqb_spec o y) as [<-|Hne].
    + apply Nat.ltb_lt in Hlt. rewrite Hlt. assert (c = b) as -> by congruence.
      exists (weak_dec b). split; [reflexivity|]. split.
      * unfold skel. rewrite weak_dec_strong, weak_dec_links, weak_dec_value.
        split; [reflexivity|]. split; [reflexivity|]. split; [tauto|]. apply weak_dec_freed. exact Hfr.
      * rewrite weak_dec_weak. rewrite sw_weak_self in H1. lia.
    + exists c. split; [exact Hc|]. split.
      * unfold skel. split; [reflexivity|]. split; [reflexivity|]. split; [tauto|].
        destruct (inv_shape s K HI y c Hc) as (_ & _ & _ & S4). exact S4.
      * rewrite sw_weak_other in H1 by exact Hne. lia.
  - intros y. pose proof (HW (sw_strong y) (hweight_strong y)) as H1.
    rewrite sw_strong_weak in H1. lia.
  - intros y. pose proof (HW (sw_weak y) (hweight_weak y)) as H1. lia.
Qed.

(** ** ADrop, ADecStrong *)

(** [drop(handle)]: a strong handle is handed to [Rc::drop] (the frame
    [FDropStrong]); a Weak handle is dropped on the spot ([Weak::drop]: the
    weak counter decreases, the allocation is released when it reaches zero); a
    value obtained from [try_unwrap] is destroyed (its destructor frame starts
    and owns all handles the value holds). *)
Theorem act_drop r : act_preserves (ADrop r).
Proof.
  intros s self pc k HI _. cbn [exec_act].
  destruct (reg_get s r) as [o|w|o|p|] eqn:Er; try (apply act_invalid; exact HI).
  - (* strong *)
    cbn [act_post app]. split; [tauto|]. apply release_strong_reg; auto.
  - (* Weak *)
    assert (Hne : reg_get s r <> REmpty) by (rewrite Er; discriminate).
    destruct w as [o|].
    + assert (Htok : 0 < W (sw_weak o) s (ctx self pc k)).
      { pose proof (W_reg_clear (sw_weak o) s r (ctx self pc k) Hne) as H2.
        rewrite Er in H2. cbn [w_reg] in H2. rewrite sw_weak_self in H2. lia. }
      destruct (inv_weak_token s _ HI o Htok) as (b & Hg).
      pose proof Hg as Hg'. apply getb_ok in Hg' as [Hb _].
      assert (Hwpos : 0 < weak b).
      { rewrite (ci_weak s _ (inv_cnt s _ HI) o b Hb). lia. }
      unfold lift. rewrite (weak_drop_ok _ _ _ Hg Hwpos).
      cbn [act_post app]. split; [tauto|].
      assert (HW : forall f K,
        W f (set_reg (set_heap s (setb (heap_of s) o (weak_dec b))) r REmpty) K
          + f (SWeak (Some o)) = W f s K).
      { intros f K.
        pose proof (W_reg_clear f (set_heap s (setb (heap_of s) o (weak_dec b))) r K) as H2.
        change (reg_get (set_heap s (setb (heap_of s) o (weak_dec b))) r) with (reg_get s r) in H2.
        specialize (H2 Hne). rewrite Er in H2. cbn [w_reg] in H2.
        rewrite (W_setb_same_value f s o b (weak_dec b) _ Hb (weak_dec_value b)) in H2. exact H2. }
      apply (Inv_weak_release s (ctx self pc k) _ _ o b); try assumption; try reflexivity.
      * intros f _. apply HW.
      * intros y Hy. apply (inv_nd s _ HI y).
        pose proof (HW (sw_strong y) []) as H2. rewrite sw_strong_weak in H2.
        rewrite <- !w_held_W in H2. lia.
      * exact (inv_inert s _ HI).
    + (* a dangling Weak: there is no allocation *)
      unfold lift. cbn [weak_drop act_post app]. split; [tauto|].
      change (set_reg (set_heap s (heap_of s)) r REmpty) with (set_reg s r REmpty).
      apply (Inv_move_regs s (ctx self pc k)); try assumption; try reflexivity.
      * intros f [_ Hf]. pose proof (W_reg_clear f s r (ctx self pc k) Hne) as H2.
        rewrite Er in H2. cbn [w_reg] in H2. lia.
      * intros y Hy. apply (inv_nd s _ HI y).
        pose proof (W_reg_clear (sw_strong y) s r [] Hne) as H2. rewrite <- !w_held_W in H2. lia.
      * exact (inv_inert s _ HI).
  - (* a value returned by try_unwrap *)
    assert (Hne : reg_get s r <> REmpty) by (rewrite Er; discriminate).
    cbn [act_post app]. split; [tauto|].
    apply (Inv_move_regs s (ctx self pc k)); try assumption; try reflexivity.
    + intros f _. rewrite W_cons. cbn [w_frame].
      pose proof (W_reg_clear f s r (ctx self pc k) Hne) as H2. rewrite Er in H2. cbn [w_reg] in H2. lia.
    + intros y Hy. apply (inv_nd s _ HI y).
      pose proof (W_reg_clear (sw_strong y) s r [] Hne) as H2. rewrite <- !w_held_W in H2. lia.
    + split; [|exact (inv_inert s _ HI)].
      intros y Hy. cbn [w_frame] in Hy.
      destruct (inv_nd s _ HI y) as (b & Hb & Hl); [|exists b; auto].
      pose proof (W_reg_clear (sw_strong y) s r [] Hne) as H2. rewrite Er in H2. cbn [w_reg] in H2.
      rewrite <- !w_held_W in H2. lia.
Qed.

(** [Rc::decrement_strong_count(ptr)]: the count owned by the raw pointer is
    handed to [Rc::drop], exactly as for a handle. *)
Theorem act_dec_strong r : act_preserves (ADecStrong r).
Proof.
  intros s self pc k HI _. cbn [exec_act].
  destruct (reg_get s r) as [o|w|o|p|] eqn:Er; try (apply act_invalid; exact HI).
  cbn [act_post app]. split; [tauto|]. apply release_strong_reg; auto.
Qed.

(** ** bonus: the same release lemma serves the field drop glue *)

(** dropping the fields of a destroyed value, next field a Weak handle: the step
    of [FDropSlots (SWeak (Some o) :: ss)] cannot fault and preserves the
    invariant *)
Lemma weak_slot_drop s o ss k :
  Inv s (FDropSlots (SWeak (Some o) :: ss) :: k) ->
  exists b, getb (heap_of s) o = Ok b /\
    weak_drop (heap_of s) (Some o) = Ok (setb (heap_of s) o (weak_dec b)) /\
    Inv (set_heap s (setb (heap_of s) o (weak_dec b))) (FDropSlots ss :: k).
Proof.
  intros HI.
  assert (Htok : 0 < W (sw_weak o) s (FDropSlots (SWeak (Some o) :: ss) :: k)).
  { rewrite W_cons. cbn [w_frame total]. rewrite sw_weak_self. lia. }
  destruct (inv_weak_token s _ HI o Htok) as (b & Hg).
  pose proof Hg as Hg'. apply getb_ok in Hg' as [Hb _].
  assert (Hwpos : 0 < weak b).
  { rewrite (ci_weak s _ (inv_cnt s _ HI) o b Hb). lia. }
  exists b. split; [exact Hg|]. split; [apply weak_drop_ok; assumption|].
  apply (Inv_weak_release s (FDropSlots (SWeak (Some o) :: ss) :: k) _ _ o b);
    try assumption; try reflexivity.
  - intros f _. rewrite (W_setb_same_value f s o b (weak_dec b) _ Hb (weak_dec_value b)).
    rewrite !W_cons. cbn [w_frame total]. lia.
  - intros y Hy. apply (inv_nd s _ HI y).
    rewrite w_held_W, (W_setb_same_value _ s o b (weak_dec b) _ Hb (weak_dec_value b)), <- w_held_W in Hy.
    exact Hy.
  - destruct (inv_inert s _ HI) as [Hfr Hin]. split; [|exact Hin].
    intros y Hy. apply Hfr. cbn [w_frame total] in Hy |- *. lia.
Qed.

Print Assumptions act_store.
Print Assumptions act_take.
Print Assumptions act_drop.
Print Assumptions act_dec_strong.
Print Assumptions weak_slot_drop.
