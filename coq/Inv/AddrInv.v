(** * The address layer.

    The model identifies an object by its index in the heap ([oid], never
    reused).  The library identifies it by the address of its allocation, and
    the allocator may hand out the address of a released allocation again.
    This file adds that layer: released allocations are never touched again
    ([heap_ext]), an address map that is injective on the allocations that have
    not been released stays so along every run ([addr_inj]), and everything a
    program, a destructor script, a frame or a link table can name is such an
    allocation -- so identity by address and identity by [oid] coincide.

    FINDING (see [write_slot_touches_freed] below): [heap_ext] is NOT
    unconditional for [exec_act].  [Machine.write_slot] (used by [AStore] and
    [ATake]) addresses the owner through [nth_error], not through [getb], so in
    a state where a register holds a strong handle to a released box whose
    value is still in place the box is rewritten.  Every other write of the
    model is guarded by [getb].  What is unconditional is the weaker
    [freed_mono] (released allocations stay released), and that is all the
    address layer needs.  [heap_ext] itself holds under [owners_unfreed]
    (implied by [Inv]). *)
From Coq Require Import List Arith NArith ZArith Lia.
From CR Require Import Base Atomic Machine LinksFacts HeapFacts Tokens InvDef InvLemmas
  ActBase StepInv RunInv Consequences.
Import ListNotations.

(** ** released allocations are never touched again, identities are never reused *)
Definition heap_ext (h h' : heap) : Prop :=
  length h <= length h' /\
  (forall o b, nth_error h o = Some b -> freed b = true -> nth_error h' o = Some b).

Lemma heap_ext_refl h : heap_ext h h.
Proof. split; auto. Qed.

Lemma heap_ext_trans h1 h2 h3 : heap_ext h1 h2 -> heap_ext h2 h3 -> heap_ext h1 h3.
Proof. intros [L1 H1] [L2 H2]. split; [lia|]. intros o b Hb Hf. apply H2; auto. Qed.

(** the part of [heap_ext] that holds without any hypothesis: a released
    allocation stays released (its index is never given to another object) *)
Definition freed_mono (h h' : heap) : Prop :=
  length h <= length h' /\
  (forall o b, nth_error h o = Some b -> freed b = true ->
     exists b', nth_error h' o = Some b' /\ freed b' = true).

Lemma freed_mono_refl h : freed_mono h h.
Proof. split; eauto. Qed.

Lemma freed_mono_trans h1 h2 h3 : freed_mono h1 h2 -> freed_mono h2 h3 -> freed_mono h1 h3.
Proof.
  intros [L1 H1] [L2 H2]. split; [lia|]. intros o b Hb Hf.
  destruct (H1 o b Hb Hf) as (b2 & Hb2 & Hf2). eauto.
Qed.

Lemma heap_ext_freed_mono h h' : heap_ext h h' -> freed_mono h h'.
Proof. intros [L H]. split; [exact L|]. intros o b Hb Hf. exists b. auto. Qed.

(** *** the two ways the model extends or rewrites the heap *)
Lemma heap_ext_setb h o b b' : getb h o = Ok b -> heap_ext h (setb h o b').
Proof.
  intros G. apply getb_ok in G as [Hn Hf]. split; [unfold setb; rewrite upd_length; lia|].
  intros x bx Hx Hfx. unfold setb. rewrite nth_error_upd_other; [exact Hx|].
  intros ->. congruence.
Qed.

Lemma heap_ext_app h l : heap_ext h (h ++ l).
Proof.
  split; [rewrite app_length; lia|]. intros o b Hb _.
  rewrite nth_error_app1; [exact Hb|]. apply nth_error_Some. congruence.
Qed.

(** a write that keeps the [freed] flag of the box it replaces *)
Lemma freed_mono_setb h o b b' : nth_error h o = Some b -> freed b' = freed b -> freed_mono h (setb h o b').
Proof.
  intros Hn Hf. split; [unfold setb; rewrite upd_length; lia|].
  intros x bx Hx Hfx. unfold setb. destruct (Nat.eq_dec o x) as [<-|Hne].
  - exists b'. split; [apply nth_error_upd_same; apply nth_error_Some; congruence|]. congruence.
  - exists bx. split; [|exact Hfx]. rewrite nth_error_upd_other; auto.
Qed.

Ltac ext_setb :=
  cbv zeta;
  match goal with
  | G : getb ?h ?o = Ok ?b |- heap_ext ?h (setb ?h ?o _) => exact (heap_ext_setb h o b _ G)
  end.

(** ** every heap-writing function of Atomic.v *)
Lemma inc_strong_ext h o h' : inc_strong h o = Ok h' -> heap_ext h h'.
Proof.
  unfold inc_strong, bind. destruct (getb h o) as [b|] eqn:G; [|discriminate].
  destruct (strong b) as [n|]; [|discriminate]. destruct (n =? 0)%N; [discriminate|].
  intros H; injection H as <-. ext_setb.
Qed.

Lemma inc_weak_ext h o h' : inc_weak h o = Ok h' -> heap_ext h h'.
Proof.
  unfold inc_weak, bind. destruct (getb h o) as [b|] eqn:G; [|discriminate].
  destruct (weak b =? 0)%N; [discriminate|]. intros H; injection H as <-. ext_setb.
Qed.

Lemma dec_weak_free_ext h o h' : dec_weak_free h o = Ok h' -> heap_ext h h'.
Proof.
  unfold dec_weak_free, bind. destruct (getb h o) as [b|] eqn:G; [|discriminate].
  destruct (weak b =? 0)%N; [discriminate|]. intros H; injection H as <-. ext_setb.
Qed.

Lemma weak_drop_ext h w h' : weak_drop h w = Ok h' -> heap_ext h h'.
Proof.
  destruct w as [o|]; cbn [weak_drop]; [apply dec_weak_free_ext|].
  intros H; injection H as <-. apply heap_ext_refl.
Qed.

Lemma links_insert_ext h o l h' : links_insert h o l = Ok h' -> heap_ext h h'.
Proof.
  unfold links_insert, bind. destruct (getb h o) as [b|] eqn:G; [|discriminate].
  destruct (links b) as [t|]; [|discriminate]. intros H; injection H as <-. ext_setb.
Qed.

Lemma set_links_ext h o t h' : set_links h o t = Ok h' -> heap_ext h h'.
Proof.
  unfold set_links, bind. destruct (getb h o) as [b|] eqn:G; [|discriminate].
  intros H; injection H as <-. ext_setb.
Qed.

Lemma links_remove_ext h o l n h' : links_remove h o l n = Ok h' -> heap_ext h h'.
Proof.
  unfold links_remove, bind. destruct (get_links h o) as [t|]; [|discriminate]. apply set_links_ext.
Qed.

Lemma adopt_ext h same a b h' : adopt h same a b = Ok h' -> heap_ext h h'.
Proof.
  unfold adopt, bind. destruct same; [apply links_insert_ext|].
  destruct (links_insert h a (b, Fwd)) as [h1|] eqn:E1; [|discriminate]. intros E2.
  eapply heap_ext_trans; eapply links_insert_ext; eauto.
Qed.

Lemma unadopt_ext h same a b h' : unadopt h same a b = Ok h' -> heap_ext h h'.
Proof.
  unfold unadopt, bind. destruct same; [apply links_remove_ext|].
  destruct (links_remove h a (b, Fwd) 1) as [h1|] eqn:E1; [|discriminate]. intros E2.
  eapply heap_ext_trans; eapply links_remove_ext; eauto.
Qed.

Lemma purge_loop_ext this entries : forall h h', purge_loop h this entries = Ok h' -> heap_ext h h'.
Proof.
  induction entries as [|[[x kd] n] rest IH]; intros h h' H; cbn [purge_loop] in H.
  - injection H as <-. apply heap_ext_refl.
  - destruct (Nat.eqb x this); [eauto|]. unfold bind in H.
    destruct (links_remove h x (this, Fwd) n) as [h1|] eqn:E1; [|discriminate].
    destruct (links_remove h1 x (this, Bwd) n) as [h2|] eqn:E2; [|discriminate].
    eapply heap_ext_trans; [eapply links_remove_ext; eauto|].
    eapply heap_ext_trans; [eapply links_remove_ext; eauto|]. eauto.
Qed.

Lemma purge_peers_ext h this h' : purge_peers h this = Ok h' -> heap_ext h h'.
Proof.
  unfold purge_peers, bind. destruct (get_links h this) as [t|]; [|discriminate]. apply purge_loop_ext.
Qed.

Lemma release_links_ext h o h' : release_links h o = Ok h' -> heap_ext h h'.
Proof.
  unfold release_links, bind. destruct (purge_peers h o) as [h1|] eqn:E1; [|discriminate].
  destruct (getb h1 o) as [b|] eqn:G; [|discriminate]. destruct (links b); [|discriminate].
  intros H; injection H as <-. eapply heap_ext_trans; [eapply purge_peers_ext; eauto|]. ext_setb.
Qed.

Lemma bust_one_ext h keys k c h' : bust_one h keys k c = Ok h' -> heap_ext h h'.
Proof.
  unfold bust_one, bind. destruct (getb h k) as [b|] eqn:G; [|discriminate].
  destruct (links b) as [t|]; [|discriminate]. cbv zeta. cbn [strong with_links].
  destruct (strong b) as [n|]; [|discriminate]. intros H; injection H as <-. ext_setb.
Qed.

Lemma bust_all_ext keys cyc : forall h h', bust_all h keys cyc = Ok h' -> heap_ext h h'.
Proof.
  induction cyc as [|[k c] cyc IH]; intros h h' H; cbn [bust_all] in H.
  - injection H as <-. apply heap_ext_refl.
  - unfold bind in H. destruct (bust_one h keys k c) as [h1|] eqn:E1; [|discriminate].
    eapply heap_ext_trans; [eapply bust_one_ext; eauto|]. eauto.
Qed.

Lemma gather_ext keys : forall h acc h' inn, gather h keys acc = Ok (h', inn) -> heap_ext h h'.
Proof.
  induction keys as [|k keys IH]; intros h acc h' inn H; cbn [gather] in H.
  - injection H as <- _. apply heap_ext_refl.
  - unfold bind in H. destruct (getb h k) as [b|] eqn:G; [|discriminate].
    destruct (negb (is_dead (strong b))); [eauto|]. destruct (is_uninit (strong b)); [eauto|].
    destruct (value b) as [v|]; [|discriminate]. destruct (links b) as [t|]; [|discriminate].
    cbv zeta in H. eapply heap_ext_trans; [|eapply IH; exact H]. ext_setb.
Qed.

Lemma finish_group_ext keys : forall h h', finish_group h keys = Ok h' -> heap_ext h h'.
Proof.
  induction keys as [|k keys IH]; intros h h' H; cbn [finish_group] in H.
  - injection H as <-. apply heap_ext_refl.
  - unfold bind in H. destruct (getb h k) as [b|] eqn:G; [|discriminate].
    destruct (is_dead (strong b)); [|eauto].
    destruct (dec_weak_free h k) as [h1|] eqn:E1; [|discriminate].
    eapply heap_ext_trans; [eapply dec_weak_free_ext; eauto|]. eauto.
Qed.

(** ** Machine.v *)
Lemma clone_slots_ext ss : forall h h', clone_slots h ss = Ok h' -> heap_ext h h'.
Proof.
  induction ss as [|sl ss IH]; intros h h' H; cbn [clone_slots] in H.
  - injection H as <-. apply heap_ext_refl.
  - destruct sl as [o|[o|]|]; unfold bind in H; eauto.
    + destruct (inc_strong h o) as [h1|] eqn:E1; [|discriminate].
      eapply heap_ext_trans; [eapply inc_strong_ext; eauto|]. eauto.
    + destruct (inc_weak h o) as [h1|] eqn:E1; [|discriminate].
      eapply heap_ext_trans; [eapply inc_weak_ext; eauto|]. eauto.
Qed.

Lemma start_unreachable_ext s o s1 push :
  start_unreachable s o = Ok (s1, push) -> heap_ext (heap_of s) (heap_of s1).
Proof.
  unfold start_unreachable, bind. destruct (getb (heap_of s) o) as [b|] eqn:G; [|discriminate].
  destruct (value b) as [v|]; [|discriminate]. intros H; injection H as <- _.
  cbn [heap_of set_heap mk]. ext_setb.
Qed.

Lemma drop_strong_ext pri s o s1 push :
  drop_strong pri s o = Ok (s1, push) -> heap_ext (heap_of s) (heap_of s1).
Proof.
  unfold drop_strong, bind. destruct (getb (heap_of s) o) as [b|] eqn:G; [|discriminate].
  destruct (strong b) as [n|]; [|intros H; injection H as <- _; apply heap_ext_refl].
  destruct (n =? 0)%N; [intros H; injection H as <- _; apply heap_ext_refl|].
  cbv zeta.
  assert (E1 : heap_ext (heap_of s) (setb (heap_of s) o (with_strong b (Cnt (n - 1))))) by ext_setb.
  set (h1 := setb (heap_of s) o (with_strong b (Cnt (n - 1)))) in *.
  destruct (get_links h1 o) as [t|]; [|discriminate].
  destruct t as [|e t'].
  - destruct (n - 1 =? 0)%N.
    + intros H. apply start_unreachable_ext in H. cbn [heap_of set_heap mk] in H.
      eapply heap_ext_trans; eauto.
    + intros H; injection H as <- _. exact E1.
  - destruct (n - 1 =? 0)%N.
    + destruct (purge_loop h1 o (e :: t')) as [h2|] eqn:E2; [|discriminate].
      destruct (set_links h2 o []) as [h3|] eqn:E3; [|discriminate].
      intros H. apply start_unreachable_ext in H. cbn [heap_of set_heap mk] in H.
      eapply heap_ext_trans; [exact E1|]. eapply heap_ext_trans; [eapply purge_loop_ext; eauto|].
      eapply heap_ext_trans; [eapply set_links_ext; eauto|]. exact H.
    + destruct (orphaned_cycle h1 o) as [[[oc pops] visits]|]; [|discriminate].
      destruct oc as [cyc|].
      * destruct (bust_all h1 (map fst (order_cycle pri cyc)) (order_cycle pri cyc)) as [h2|] eqn:E2; [|discriminate].
        destruct (gather h2 (map fst (order_cycle pri cyc)) []) as [[h3 inners]|] eqn:E3; [|discriminate].
        intros H; injection H as <- _. cbn [heap_of set_heap add_ev mk].
        eapply heap_ext_trans; [exact E1|]. eapply heap_ext_trans; [eapply bust_all_ext; eauto|].
        eapply gather_ext; eauto.
      * intros H; injection H as <- _. exact E1.
Qed.

(** ** the one unguarded write: [write_slot] *)

(** the heap [h'] is the heap of [s] with the value of one box rewritten, and
    that box is named by a strong handle in a register and holds a value *)
Definition value_write (s : state) (h' : heap) : Prop :=
  exists r o b v, reg_get s r = RStrong o /\ nth_error (heap_of s) o = Some b /\ value b <> None /\
    h' = setb (heap_of s) o (with_value b v).

(** strong handles in registers do not name a released allocation that still
    holds a value: the hypothesis under which [write_slot] respects [heap_ext] *)
Definition owners_unfreed (s : state) : Prop :=
  forall r o b, reg_get s r = RStrong o -> nth_error (heap_of s) o = Some b ->
    value b <> None -> freed b = false.

Lemma value_write_ext s h' : owners_unfreed s -> value_write s h' -> heap_ext (heap_of s) h'.
Proof.
  intros Ho (r & o & b & v & Hr & Hb & Hv & ->). eapply heap_ext_setb.
  apply getb_intro; [exact Hb|]. eapply Ho; eauto.
Qed.

Lemma value_write_freed_mono s h' : value_write s h' -> freed_mono (heap_of s) h'.
Proof. intros (r & o & b & v & Hr & Hb & Hv & ->). eapply freed_mono_setb; eauto. Qed.

Lemma Inv_owners_unfreed s k : Inv s k -> owners_unfreed s.
Proof.
  intros HI r o b Hr Hb _.
  destruct (reg_strong_live s None [] k HI o r (or_introl Hr)) as (b' & Hg & _).
  apply getb_ok in Hg as [Hn Hf]. congruence.
Qed.

Lemma resolve_owner_box s self w o p : resolve_owner s self w = Some (WBox o p) ->
  exists r b, reg_get s r = RStrong o /\ nth_error (heap_of s) o = Some b /\ value b = Some p.
Proof.
  unfold resolve_owner. destruct w as [r|].
  - destruct (reg_get s r) as [x| | | |] eqn:Er; try discriminate.
    destruct (nth_error (heap_of s) x) as [b|] eqn:Eb; [|discriminate].
    destruct (value b) as [q|] eqn:Ev; [|discriminate].
    intros H; injection H as <- <-. exists r, b. auto.
  - destruct self as [q|]; discriminate.
Qed.

Lemma resolve_slot_owner s self w k ow sl : resolve_slot s self w k = Some (ow, sl) ->
  resolve_owner s self w = Some ow.
Proof.
  unfold resolve_slot. destruct (resolve_owner s self w) as [ow'|]; [|discriminate].
  destruct (nth_error (slots (owner_payload ow')) k); [|discriminate]. intros H; injection H as -> _. reflexivity.
Qed.

Lemma write_slot_cases s s0 self w ow k sl s1 self1 :
  heap_of s0 = heap_of s -> resolve_owner s self w = Some ow ->
  write_slot s0 self ow k sl = (s1, self1) ->
  heap_of s1 = heap_of s \/ value_write s (heap_of s1).
Proof.
  intros Hh Ho. destruct ow as [o p|p]; cbn [write_slot].
  - destruct (resolve_owner_box s self w o p Ho) as (r & b & Hr & Hb & Hv).
    rewrite Hh, Hb. intros H; injection H as <- _. right. exists r, o, b, (Some (set_payload_slot p k sl)).
    cbn [heap_of set_heap mk]. repeat split; auto. congruence.
  - intros H; injection H as <- _. left. exact Hh.
Qed.

(** ** actions *)
Create HintDb hext.
#[local] Hint Resolve heap_ext_refl inc_strong_ext inc_weak_ext dec_weak_free_ext weak_drop_ext
  adopt_ext unadopt_ext release_links_ext clone_slots_ext heap_ext_app : hext.

Ltac act_step :=
  match goal with
  | |- (AO _ _ _ _ = AO _ _ _ _) -> _ => let H := fresh "H" in intros H; inversion H; subst; clear H
  | |- (AHalt _ = _) -> _ => discriminate
  | |- (APanicOut = _) -> _ => discriminate
  | |- (invalid _ _ = _) -> _ => unfold invalid
  | |- (lift _ _ _ _ = _) -> _ => unfold lift; cbv beta
  | |- (match ?x with _ => _ end = _) -> _ => destruct x eqn:?
  end.

Ltac act_finish :=
  cbn [heap_of set_heap set_reg add_ev mk]; left; solve [eauto with hext].

Theorem exec_new_cases s self dst sc s1 self1 r push :
  exec_new s self dst sc = AO s1 self1 r push -> heap_ext (heap_of s) (heap_of s1).
Proof.
  unfold exec_new. destruct (reg_free s dst); [|unfold invalid]; intros H; inversion H; subst.
  - cbn [heap_of set_heap set_reg mk]. apply heap_ext_app.
  - apply heap_ext_refl.
Qed.

Definition is_slot_write (a : act) : bool :=
  match a with AStore _ _ _ | ATake _ _ _ => true | _ => false end.

Lemma exec_act_cases_strong s self a s1 self1 r push :
  exec_act s self a = AO s1 self1 r push ->
  heap_ext (heap_of s) (heap_of s1) \/ (is_slot_write a = true /\ value_write s (heap_of s1)).
Proof.
  destruct a; cbn [exec_act]; cbv zeta.
  - (* ANew *) intros H. left. eapply exec_new_cases; eauto.
  - repeat act_step; act_finish.
  - repeat act_step; act_finish.
  - repeat act_step; act_finish.
  - repeat act_step; act_finish.
  - repeat act_step; act_finish.
  - repeat act_step; act_finish.
  - (* AStore *)
    destruct (slot_of_reg (reg_get s src)) as [sl|]; [|repeat act_step; act_finish].
    destruct (resolve_slot s self w k) as [[ow [x|x|]]|] eqn:Es; try (repeat act_step; act_finish).
    destruct (write_slot (set_reg s src REmpty) self ow k sl) as [s2 self2] eqn:Ew.
    intros H; inversion H; subst.
    destruct (write_slot_cases s (set_reg s src REmpty) self w ow k sl s1 self1 eq_refl
                (resolve_slot_owner _ _ _ _ _ _ Es) Ew) as [E|E]; [left; rewrite E; apply heap_ext_refl|right; split; [reflexivity|exact E]].
  - (* ATake *)
    destruct (resolve_slot s self w k) as [[ow sl]|] eqn:Es; [|repeat act_step; act_finish].
    destruct (reg_of_slot sl) as [x|]; [|repeat act_step; act_finish].
    destruct (reg_free s dst); [|repeat act_step; act_finish].
    destruct (write_slot s self ow k SEmpty) as [s2 self2] eqn:Ew.
    intros H; inversion H; subst. cbn [heap_of set_reg mk].
    destruct (write_slot_cases s s self w ow k SEmpty s2 self1 eq_refl
                (resolve_slot_owner _ _ _ _ _ _ Es) Ew) as [E|E]; [left; rewrite E; apply heap_ext_refl|right; split; [reflexivity|exact E]].
  - repeat act_step; act_finish.
  - repeat act_step; act_finish.
  - (* ATryUnwrap *)
    destruct (reg_get s r0) as [o| | | |]; try (repeat act_step; act_finish).
    destruct (reg_free s dst); [|repeat act_step; act_finish].
    destruct (getb (heap_of s) o) as [b|] eqn:G; [|discriminate].
    destruct (strong b) as [[|[p|p|]]|]; try (repeat act_step; act_finish).
    unfold lift at 1. destruct (release_links (heap_of s) o) as [h1|] eqn:E1; [|discriminate].
    cbn [heap_of set_heap mk].
    destruct (getb h1 o) as [b1|] eqn:G1; [|discriminate].
    destruct (value b1) as [p|]; [|discriminate].
    unfold lift. destruct (weak_drop _ (Some o)) as [h3|] eqn:E3; [|discriminate].
    intros H; inversion H; subst. cbn [heap_of set_heap set_reg add_ev mk]. left.
    eapply heap_ext_trans; [eapply release_links_ext; eauto|].
    eapply heap_ext_trans; [|eapply weak_drop_ext; eauto]. ext_setb.
  - repeat act_step; act_finish.
  - (* AMakeMut *)
    destruct (reg_get s r0) as [o| | | |]; try (repeat act_step; act_finish).
    destruct (getb (heap_of s) o) as [b|] eqn:G; [|discriminate].
    assert (Hclone : forall s1 self1 r push,
      match value b with
      | Some p =>
          lift s self (clone_slots (heap_of s) (cloned_slots (slots p)))
            (fun s2 : state =>
             AO (set_reg (set_heap s2 (heap_of s2 ++
                  [new_box {| pid := length (heap_of s); slots := cloned_slots (slots p); script := [] |}]))
                  r0 (RStrong (length (heap_of s)))) self RUnit [FDropStrong o])
      | None => AHalt (HFault FkValueMoved o)
      end = AO s1 self1 r push -> heap_ext (heap_of s) (heap_of s1) \/
                                  (is_slot_write (AMakeMut r0) = true /\ value_write s (heap_of s1))).
    { intros s2 self2 r2 push2. destruct (value b) as [p|]; [|discriminate]. unfold lift.
      destruct (clone_slots (heap_of s) (cloned_slots (slots p))) as [h1|] eqn:E1; [|discriminate].
      intros H; inversion H; subst. cbn [heap_of set_heap set_reg mk]. left.
      eapply heap_ext_trans; [eapply clone_slots_ext; eauto|]. apply heap_ext_app. }
    destruct (strong b) as [[|[p|p|]]|]; try (apply Hclone).
    destruct (weak b =? 0)%N; [discriminate|]. destruct (weak b =? 1)%N; [repeat act_step; act_finish|].
    destruct (value b) as [p|]; [|discriminate]. unfold lift.
    destruct (release_links _ o) as [h1|] eqn:E1; [|discriminate]. cbn [heap_of set_heap mk].
    destruct (getb h1 o) as [b1|] eqn:G1; [|discriminate].
    intros H; inversion H; subst. cbn [heap_of set_heap set_reg add_ev mk]. left.
    apply heap_ext_trans with (h2 := h1); [|ext_setb].
    eapply heap_ext_trans; [|eapply release_links_ext; exact E1].
    eapply heap_ext_trans; [|apply heap_ext_app]. ext_setb.
  - repeat act_step; act_finish.
  - repeat act_step; act_finish.
  - repeat act_step; act_finish.
  - repeat act_step; act_finish.
  - repeat act_step; act_finish.
  - repeat act_step; act_finish.
  - repeat act_step; act_finish.
  - repeat act_step; act_finish.
  - repeat act_step; act_finish.
  - repeat act_step; act_finish.
  - discriminate.
Qed.

Lemma exec_act_cases s self a s1 self1 r push :
  exec_act s self a = AO s1 self1 r push ->
  heap_ext (heap_of s) (heap_of s1) \/ value_write s (heap_of s1).
Proof. intros H. destruct (exec_act_cases_strong _ _ _ _ _ _ _ H) as [E|[_ E]]; auto. Qed.

(** *** the theorems about one action *)

(** [exec_new] is unconditional *)
Theorem exec_new_heap_ext s self dst sc s1 self1 r push :
  exec_new s self dst sc = AO s1 self1 r push -> heap_ext (heap_of s) (heap_of s1).
Proof. apply exec_new_cases. Qed.

(** ADAPTED: needs [owners_unfreed s] (see the finding at the top of the file
    and [write_slot_touches_freed]); [Inv] implies it *)
Theorem exec_act_heap_ext s self a s1 self1 r push :
  owners_unfreed s ->
  exec_act s self a = AO s1 self1 r push -> heap_ext (heap_of s) (heap_of s1).
Proof.
  intros Ho H. destruct (exec_act_cases _ _ _ _ _ _ _ H) as [E|E]; [exact E|].
  apply value_write_ext; assumption.
Qed.

Corollary exec_act_heap_ext_inv s self pc k a s1 self1 r push :
  Inv s (ctx self pc k) ->
  exec_act s self a = AO s1 self1 r push -> heap_ext (heap_of s) (heap_of s1).
Proof. intros HI. apply exec_act_heap_ext. eapply Inv_owners_unfreed; eauto. Qed.

(** without any hypothesis: released allocations stay released *)
Theorem exec_act_freed_mono s self a s1 self1 r push :
  exec_act s self a = AO s1 self1 r push -> freed_mono (heap_of s) (heap_of s1).
Proof.
  intros H. destruct (exec_act_cases _ _ _ _ _ _ _ H) as [E|E];
    [apply heap_ext_freed_mono; exact E|apply value_write_freed_mono; exact E].
Qed.

(** except for [AStore] and [ATake], [heap_ext] needs no hypothesis either *)
Theorem exec_act_heap_ext_unguarded s self a s1 self1 r push :
  is_slot_write a = false ->
  exec_act s self a = AO s1 self1 r push -> heap_ext (heap_of s) (heap_of s1).
Proof.
  intros N H. destruct (exec_act_cases_strong _ _ _ _ _ _ _ H) as [E|[E _]]; [exact E|congruence].
Qed.

(** the finding, concretely: a released box whose value is still in place, a
    strong handle to it in register 0; [ATake] rewrites the released box *)
Definition stale_box : box :=
  {| strong := Cnt 1; weak := 0; links := None; talloc := false;
     value := Some {| pid := 0; slots := [SWeak None]; script := [] |}; freed := true |}.
Definition stale_state : state := mk [stale_box] [RStrong 0; REmpty] [].

Example write_slot_touches_freed :
  exists s1, exec_act stale_state None (ATake (OReg 0) 0 1) = AO s1 None RUnit [] /\
    ~ heap_ext (heap_of stale_state) (heap_of s1) /\
    freed_mono (heap_of stale_state) (heap_of s1).
Proof.
  eexists. split; [reflexivity|]. split.
  - intros [_ H]. specialize (H 0 stale_box eq_refl eq_refl). discriminate H.
  - split; [cbn; lia|]. intros [|o] b Hb Hf; [|destruct o; discriminate].
    eexists. split; [reflexivity|reflexivity].
Qed.

(** ** machine steps *)
Lemma fold_leak_heap keys : forall s, heap_of (fold_left (fun s x => add_ev s (EvLeak x)) keys s) = heap_of s.
Proof. induction keys as [|x keys IH]; intros s; cbn [fold_left]; [reflexivity|]. rewrite IH. reflexivity. Qed.

Lemma unwind_stack_heap s k : heap_of (fst (unwind_stack s k)) = heap_of s.
Proof.
  induction k as [|f k IH]; cbn [unwind_stack]; [reflexivity|].
  destruct (unwind_stack s k) as [s1 k1]. cbn [fst] in IH.
  destruct f; cbn [fst heap_of add_ev mk]; try exact IH. rewrite fold_leak_heap. exact IH.
Qed.

Lemma step_cases pri c c' : step pri c = Running c' ->
  heap_ext (heap_of (st c)) (heap_of (st c')) \/ value_write (st c) (heap_of (st c')).
Proof.
  destruct c as [s k u]. destruct k as [|fr k]; [discriminate|].
  destruct fr as [o|p|p [|a pc]|[|[o|w|] ss]|o|[|[[o v] t] es]|o|keys|r];
    cbn [step st stack unw];
    try (intros H; injection H as <-; cbn [st heap_of add_ev mk]; left; apply heap_ext_refl).
  - destruct (drop_strong pri s o) as [[s1 push]|] eqn:E; [|discriminate].
    intros H; injection H as <-. cbn [st]. left. eapply drop_strong_ext; eauto.
  - destruct (exec_act s (Some p) a) as [s1 self r push| |] eqn:E; [|discriminate|].
    + intros H; injection H as <-. cbn [st]. eapply exec_act_cases; eauto.
    + destruct u; [discriminate|]. pose proof (unwind_stack_heap s k) as Hu.
      destruct (unwind_stack s k) as [s1 k1]. cbn [fst] in Hu.
      intros H; injection H as <-. cbn [st]. left. rewrite Hu. apply heap_ext_refl.
  - destruct (weak_drop (heap_of s) w) as [h1|] eqn:E; [|discriminate].
    intros H; injection H as <-. cbn [st heap_of set_heap mk]. left. eapply weak_drop_ext; eauto.
  - destruct (getb (heap_of s) o) as [b|] eqn:G; [|discriminate].
    destruct (links b) as [t|]; [|discriminate].
    destruct (dec_weak_free (setb (heap_of s) o (with_links b None)) o) as [h2|] eqn:E; [|discriminate].
    intros H; injection H as <-. cbn [st heap_of set_heap add_ev mk]. left.
    eapply heap_ext_trans; [|eapply dec_weak_free_ext; eauto]. ext_setb.
  - destruct (finish_group (heap_of s) keys) as [h1|] eqn:E; [|discriminate].
    intros H; injection H as <-. cbn [st heap_of set_heap mk]. left. eapply finish_group_ext; eauto.
Qed.

(** ADAPTED: needs [owners_unfreed (st c)] *)
Theorem step_heap_ext pri c c' : owners_unfreed (st c) ->
  step pri c = Running c' -> heap_ext (heap_of (st c)) (heap_of (st c')).
Proof.
  intros Ho H. destruct (step_cases _ _ _ H) as [E|E]; [exact E|apply value_write_ext; assumption].
Qed.

Corollary step_heap_ext_inv pri c c' : Inv_cfg c ->
  step pri c = Running c' -> heap_ext (heap_of (st c)) (heap_of (st c')).
Proof. intros HI. apply step_heap_ext. eapply Inv_owners_unfreed; exact HI. Qed.

Theorem step_freed_mono pri c c' :
  step pri c = Running c' -> freed_mono (heap_of (st c)) (heap_of (st c')).
Proof.
  intros H. destruct (step_cases _ _ _ H) as [E|E];
    [apply heap_ext_freed_mono; exact E|apply value_write_freed_mono; exact E].
Qed.

(** a step that does not continue leaves the state as it is *)
Lemma step_stop_state pri c :
  match step pri c with
  | Running _ => True
  | Finished s' _ => s' = st c
  | Halted s' _ => s' = st c
  end.
Proof.
  destruct c as [s k u]. destruct k as [|fr k]; [reflexivity|].
  destruct fr as [o|p|p [|a pc]|[|[o|w|] ss]|o|[|[[o v] t] es]|o|keys|r];
    cbn [step st stack unw]; try exact I.
  - destruct (drop_strong pri s o) as [[s1 push]|]; [exact I|reflexivity].
  - destruct (exec_act s (Some p) a) as [s1 self r push| |]; [exact I|reflexivity|].
    destruct u; [reflexivity|]. destruct (unwind_stack s k). exact I.
  - destruct (weak_drop (heap_of s) w); [exact I|reflexivity].
  - destruct (getb (heap_of s) o) as [b|]; [|reflexivity]. destruct (links b); [|reflexivity].
    destruct (dec_weak_free _ o); [exact I|reflexivity].
  - destruct (finish_group (heap_of s) keys); [exact I|reflexivity].
Qed.

(** ** histories of steps *)

(** ADAPTED: needs [Inv_cfg c] ([steps] carries the hypotheses under which a
    step preserves [Inv]) *)
Theorem steps_heap_ext pri c c' : Inv_cfg c ->
  steps pri c c' -> heap_ext (heap_of (st c)) (heap_of (st c')).
Proof.
  intros HI Hs. induction Hs as [c|c c' c'' Hok Hs _ IH]; [apply heap_ext_refl|].
  eapply heap_ext_trans; [eapply step_heap_ext_inv; eauto|]. apply IH.
  pose proof (step_inv pri c HI Hok) as Hg. rewrite Hs in Hg. exact Hg.
Qed.

Theorem steps_freed_mono pri c c' :
  steps pri c c' -> freed_mono (heap_of (st c)) (heap_of (st c')).
Proof.
  intros Hs. induction Hs as [c|c c' c'' Hok Hs _ IH]; [apply freed_mono_refl|].
  eapply freed_mono_trans; [eapply step_freed_mono; eauto|exact IH].
Qed.

(** ** runs *)
Definition outcome_state (x : outcome) : state :=
  match x with Running c => st c | Finished s _ => s | Halted s _ => s end.

(** the weakest form: the guard holds at every configuration the run visits *)
Fixpoint run_owners_ok (pri : list oid) (fuel : nat) (c : config) : Prop :=
  match fuel with
  | O => True
  | S f => owners_unfreed (st c) /\
           match step pri c with Running c' => run_owners_ok pri f c' | _ => True end
  end.

Theorem run_heap_ext_gen pri fuel : forall c, run_owners_ok pri fuel c ->
  heap_ext (heap_of (st c)) (heap_of (outcome_state (run pri fuel c))).
Proof.
  induction fuel as [|f IH]; intros c Hok; cbn [run run_owners_ok] in *; [apply heap_ext_refl|].
  destruct Hok as [Ho Hr]. pose proof (step_stop_state pri c) as Hst.
  destruct (step pri c) as [c'|s' b|s' h] eqn:E; cbn [outcome_state].
  - eapply heap_ext_trans; [eapply step_heap_ext; eauto|]. apply IH. exact Hr.
  - subst s'. apply heap_ext_refl.
  - subst s'. apply heap_ext_refl.
Qed.

Lemma run_ok_owners pri fuel : forall c, Inv_cfg c -> run_ok pri fuel c = true -> run_owners_ok pri fuel c.
Proof.
  induction fuel as [|f IH]; intros c HI Hok; cbn [run_ok run_owners_ok] in *; [exact I|].
  apply andb_true_iff in Hok as [Hs Hr]. split; [eapply Inv_owners_unfreed; exact HI|].
  pose proof (step_inv pri c HI (step_ok_hyp c Hs)) as Hg.
  destruct (step pri c) as [c'|s' b|s' h]; auto.
Qed.

(** ADAPTED: needs [Inv] at the start and the run's hypotheses [run_ok] *)
Theorem run_heap_ext pri fuel c : Inv_cfg c -> run_ok pri fuel c = true ->
  heap_ext (heap_of (st c)) (heap_of (outcome_state (run pri fuel c))).
Proof. intros HI Hok. apply run_heap_ext_gen. apply run_ok_owners; assumption. Qed.

Theorem run_freed_mono pri fuel : forall c,
  freed_mono (heap_of (st c)) (heap_of (outcome_state (run pri fuel c))).
Proof.
  induction fuel as [|f IH]; intros c; cbn [run]; [apply freed_mono_refl|].
  pose proof (step_stop_state pri c) as Hst.
  destruct (step pri c) as [c'|s' b|s' h] eqn:E; cbn [outcome_state].
  - eapply freed_mono_trans; [eapply step_freed_mono; eauto|]. apply IH.
  - subst s'. apply freed_mono_refl.
  - subst s'. apply freed_mono_refl.
Qed.

(** ** calls *)
Lemma exec_op_state pri fuel s o :
  fst (exec_op pri fuel s o) =
  match op_start s o with
  | AO s1 _ _ push => outcome_state (run pri fuel {| st := s1; stack := push; unw := false |})
  | _ => s
  end.
Proof.
  unfold exec_op.
  change (match o with OAct a => exec_act s None a | ONewS dst sc => exec_new s None dst sc end) with (op_start s o).
  destruct (op_start s o) as [s1 self1 r push|h|]; [|reflexivity|reflexivity].
  destruct (run pri fuel {| st := s1; stack := push; unw := false |}) as [c'|s' [|]|s' h]; reflexivity.
Qed.

Lemma op_start_cases s o s1 self1 r push : op_start s o = AO s1 self1 r push ->
  heap_ext (heap_of s) (heap_of s1) \/ value_write s (heap_of s1).
Proof.
  destruct o as [a|dst sc]; cbn [op_start]; [apply exec_act_cases|].
  intros H. left. eapply exec_new_cases; eauto.
Qed.

(** ADAPTED: needs [Inv] at the call boundary and the call's hypotheses [op_ok] *)
Theorem exec_op_heap_ext pri fuel s o : Inv s [] -> op_ok pri fuel s o = true ->
  heap_ext (heap_of s) (heap_of (fst (exec_op pri fuel s o))).
Proof.
  intros HI Hok. rewrite exec_op_state. pose proof (op_start_inv s o HI) as Hst.
  unfold op_ok in Hok. destruct (op_start s o) as [s1 self1 r push|h|] eqn:E; try apply heap_ext_refl.
  eapply heap_ext_trans.
  - destruct (op_start_cases _ _ _ _ _ _ E) as [X|X]; [exact X|].
    apply value_write_ext; [eapply Inv_owners_unfreed; exact HI|exact X].
  - apply (run_heap_ext pri fuel {| st := s1; stack := push; unw := false |}); assumption.
Qed.

Theorem exec_op_freed_mono pri fuel s o :
  freed_mono (heap_of s) (heap_of (fst (exec_op pri fuel s o))).
Proof.
  rewrite exec_op_state. destruct (op_start s o) as [s1 self1 r push|h|] eqn:E; try apply freed_mono_refl.
  eapply freed_mono_trans.
  - destruct (op_start_cases _ _ _ _ _ _ E) as [X|X];
      [apply heap_ext_freed_mono; exact X|apply value_write_freed_mono; exact X].
  - apply (run_freed_mono pri fuel {| st := s1; stack := push; unw := false |}).
Qed.

(** ** histories *)

(** ADAPTED: needs [Inv] at the start and the history's hypotheses [hist_ok] *)
Theorem run_history_heap_ext fuel h : forall s, Inv s [] -> hist_ok fuel s h = true ->
  heap_ext (heap_of s) (heap_of (fst (run_history fuel s h))).
Proof.
  induction h as [|[o pri] h IH]; intros s HI Hok; cbn [run_history hist_ok] in *; [apply heap_ext_refl|].
  apply andb_true_iff in Hok as [Hop Hrest].
  pose proof (exec_op_heap_ext pri fuel s o HI Hop) as He.
  pose proof (exec_op_inv pri fuel s o HI Hop) as Hg.
  destruct (exec_op pri fuel s o) as [s1 r]. cbn [op_goal fst snd] in *.
  destruct r as [res| |e|]; cbn [fst]; try exact He.
  - specialize (IH s1 Hg Hrest). destruct (run_history fuel s1 h) as [s2 rs]. cbn [fst] in *.
    eapply heap_ext_trans; eauto.
  - specialize (IH s1 Hg Hrest). destruct (run_history fuel s1 h) as [s2 rs]. cbn [fst] in *.
    eapply heap_ext_trans; eauto.
Qed.

Theorem run_history_freed_mono fuel h : forall s,
  freed_mono (heap_of s) (heap_of (fst (run_history fuel s h))).
Proof.
  induction h as [|[o pri] h IH]; intros s; cbn [run_history]; [apply freed_mono_refl|].
  pose proof (exec_op_freed_mono pri fuel s o) as He.
  destruct (exec_op pri fuel s o) as [s1 r]. cbn [fst] in He.
  destruct r as [res| |e|]; cbn [fst]; try exact He.
  - specialize (IH s1). destruct (run_history fuel s1 h) as [s2 rs]. cbn [fst] in *.
    eapply freed_mono_trans; eauto.
  - specialize (IH s1). destruct (run_history fuel s1 h) as [s2 rs]. cbn [fst] in *.
    eapply freed_mono_trans; eauto.
Qed.

(** * The address layer *)
Definition amap := oid -> Z.
Definition SENTINEL : Z := 18446744073709551615%Z.   (* usize::MAX, the address of a dangling Weak::new() *)

(** addresses of allocations that have not been released are pairwise distinct
    and are not the sentinel *)
Definition addr_inj (h : heap) (am : amap) : Prop :=
  (forall o1 o2 b1 b2, nth_error h o1 = Some b1 -> nth_error h o2 = Some b2 ->
     freed b1 = false -> freed b2 = false -> am o1 = am o2 -> o1 = o2) /\
  (forall o b, nth_error h o = Some b -> freed b = false -> am o <> SENTINEL).

(** the allocator's contract: old objects keep their address; the address given
    to a new allocation is not the address of any allocation that has not been
    released (it MAY be the address of a released one) *)
Definition alloc_ok (h h' : heap) (am am' : amap) : Prop :=
  (forall o, o < length h -> am' o = am o) /\
  (forall n o b, length h <= n < length h' -> nth_error h' o = Some b -> freed b = false ->
     o <> n -> am' o <> am' n) /\
  (forall n, length h <= n < length h' -> am' n <> SENTINEL).

(** an allocation of [h'] that has not been released and already existed in [h]
    had not been released in [h] *)
Lemma freed_mono_back h h' o b' : freed_mono h h' -> o < length h ->
  nth_error h' o = Some b' -> freed b' = false ->
  exists b, nth_error h o = Some b /\ freed b = false.
Proof.
  intros [_ Hm] Hlt Hb' Hf'. destruct (nth_error h o) as [b|] eqn:Hb.
  - exists b. split; [reflexivity|]. destruct (freed b) eqn:Hf; [|reflexivity].
    destruct (Hm o b Hb Hf) as (b2 & Hb2 & Hf2). congruence.
  - apply nth_error_None in Hb. lia.
Qed.

(** stronger than asked: [freed_mono] (which needs no invariant) is enough *)
Theorem addr_inj_mono h h' am am' : freed_mono h h' -> alloc_ok h h' am am' -> addr_inj h am -> addr_inj h' am'.
Proof.
  intros Hm (Aold & Anew & Asent) [Hinj Hsent]. split.
  - intros o1 o2 b1 b2 Hb1 Hb2 Hf1 Hf2 Heq.
    assert (L1 : o1 < length h') by (apply nth_error_Some; congruence).
    assert (L2 : o2 < length h') by (apply nth_error_Some; congruence).
    destruct (Nat.eq_dec o1 o2) as [E|Hne]; [exact E|exfalso].
    destruct (Nat.lt_ge_cases o1 (length h)) as [Lo1|Lo1].
    + destruct (Nat.lt_ge_cases o2 (length h)) as [Lo2|Lo2].
      * destruct (freed_mono_back h h' o1 b1 Hm Lo1 Hb1 Hf1) as (c1 & Hc1 & Hg1).
        destruct (freed_mono_back h h' o2 b2 Hm Lo2 Hb2 Hf2) as (c2 & Hc2 & Hg2).
        rewrite (Aold o1 Lo1), (Aold o2 Lo2) in Heq. apply Hne. eapply Hinj; eauto.
      * apply (Anew o2 o1 b1 (conj Lo2 L2) Hb1 Hf1 Hne). exact Heq.
    + apply (Anew o1 o2 b2 (conj Lo1 L1) Hb2 Hf2); [congruence|]. symmetry. exact Heq.
  - intros o b Hb Hf.
    assert (L : o < length h') by (apply nth_error_Some; congruence).
    destruct (Nat.lt_ge_cases o (length h)) as [Lo|Lo].
    + destruct (freed_mono_back h h' o b Hm Lo Hb Hf) as (c & Hc & Hg).
      rewrite (Aold o Lo). eapply Hsent; eauto.
    + apply Asent. lia.
Qed.

Theorem addr_inj_ext h h' am am' : heap_ext h h' -> alloc_ok h h' am am' -> addr_inj h am -> addr_inj h' am'.
Proof. intros He. apply addr_inj_mono. apply heap_ext_freed_mono. exact He. Qed.

Lemma addr_inj_init am : addr_inj [] am.
Proof. split; intros [|o]; intros; discriminate. Qed.

(** ** runs with addresses *)
Inductive asteps (pri : list oid) : config * amap -> config * amap -> Prop :=
| asteps_refl c am : asteps pri (c, am) (c, am)
| asteps_step c am c1 am1 c2 am2 :
    step pri c = Running c1 -> alloc_ok (heap_of (st c)) (heap_of (st c1)) am am1 ->
    asteps pri (c1, am1) (c2, am2) -> asteps pri (c, am) (c2, am2).

Lemma asteps_addr_inj_pair pri x y : asteps pri x y ->
  addr_inj (heap_of (st (fst x))) (snd x) -> addr_inj (heap_of (st (fst y))) (snd y).
Proof.
  induction 1 as [c am|c am c1 am1 c2 am2 Hs Ha _ IH]; cbn [fst snd] in *; [auto|].
  intros HA. apply IH. eapply addr_inj_mono; [eapply step_freed_mono; exact Hs|exact Ha|exact HA].
Qed.

(** exactly as stated: no invariant and no discipline is needed *)
Theorem asteps_addr_inj pri c am c' am' :
  asteps pri (c, am) (c', am') -> addr_inj (heap_of (st c)) am -> addr_inj (heap_of (st c')) am'.
Proof. intros H. exact (asteps_addr_inj_pair pri (c, am) (c', am') H). Qed.

(** the same for whole calls and histories: the allocator is consulted at the
    end (any contract-respecting assignment of addresses to the new objects) *)
Theorem exec_op_addr_inj pri fuel s o am am' :
  alloc_ok (heap_of s) (heap_of (fst (exec_op pri fuel s o))) am am' ->
  addr_inj (heap_of s) am -> addr_inj (heap_of (fst (exec_op pri fuel s o))) am'.
Proof. apply addr_inj_mono. apply exec_op_freed_mono. Qed.

Theorem run_history_addr_inj fuel h s am am' :
  alloc_ok (heap_of s) (heap_of (fst (run_history fuel s h))) am am' ->
  addr_inj (heap_of s) am -> addr_inj (heap_of (fst (run_history fuel s h))) am'.
Proof. apply addr_inj_mono. apply run_history_freed_mono. Qed.

(** ** identity is exact for everything a program or a destructor script can name *)
Lemma addr_inj_getb h am o1 o2 b1 b2 : addr_inj h am ->
  getb h o1 = Ok b1 -> getb h o2 = Ok b2 -> (am o1 = am o2 <-> o1 = o2).
Proof.
  intros [Hinj _] G1 G2. apply getb_ok in G1 as [N1 F1]. apply getb_ok in G2 as [N2 F2].
  split; [eapply Hinj; eauto|intros ->; reflexivity].
Qed.

Lemma addr_inj_getb_sentinel h am o b : addr_inj h am -> getb h o = Ok b -> am o <> SENTINEL.
Proof. intros [_ Hs] G. apply getb_ok in G as [N F]. eapply Hs; eauto. Qed.

Theorem strong_target_allocated s self pc k hr o l : Inv s (ctx self pc k) ->
  resolve_strong s self hr = Some (o, l) -> exists b, getb (heap_of s) o = Ok b.
Proof. intros HI Hr. destruct (resolve_strong_ok s self pc k HI hr o l Hr) as (b & Hg & _). eauto. Qed.

Theorem ptr_eq_exact s self pc k am h1 h2 o1 l1 o2 l2 :
  Inv s (ctx self pc k) -> addr_inj (heap_of s) am ->
  resolve_strong s self h1 = Some (o1, l1) -> resolve_strong s self h2 = Some (o2, l2) ->
  (am o1 = am o2 <-> o1 = o2).
Proof.
  intros HI HA R1 R2.
  destruct (strong_target_allocated s self pc k h1 o1 l1 HI R1) as (b1 & G1).
  destruct (strong_target_allocated s self pc k h2 o2 l2 HI R2) as (b2 & G2).
  eapply addr_inj_getb; eauto.
Qed.

(** the model's [APtrEq], which compares ids, returns what comparing addresses returns *)
Theorem act_ptr_eq_by_address s self pc k am h1 h2 o1 l1 o2 l2 :
  Inv s (ctx self pc k) -> addr_inj (heap_of s) am ->
  resolve_strong s self h1 = Some (o1, l1) -> resolve_strong s self h2 = Some (o2, l2) ->
  exec_act s self (APtrEq h1 h2) = AO s self (RBool (Z.eqb (am o1) (am o2))) [].
Proof.
  intros HI HA R1 R2. pose proof (ptr_eq_exact s self pc k am h1 h2 o1 l1 o2 l2 HI HA R1 R2) as Hiff.
  cbn [exec_act]. rewrite R1, R2. f_equal. f_equal.
  destruct (Nat.eqb_spec o1 o2) as [E|E], (Z.eqb_spec (am o1) (am o2)) as [E'|E']; try reflexivity.
  - elim E'. apply Hiff. exact E.
  - elim E. apply Hiff. exact E'.
Qed.

Theorem weak_ptr_eq_exact s self pc k am w1 w2 x1 x2 :
  Inv s (ctx self pc k) -> addr_inj (heap_of s) am ->
  resolve_weak s self w1 = Some x1 -> resolve_weak s self w2 = Some x2 ->
  let a x := match x with Some o => am o | None => SENTINEL end in
  (a x1 = a x2 <-> x1 = x2).
Proof.
  intros HI HA R1 R2 a. subst a. cbv beta.
  destruct x1 as [o1|], x2 as [o2|].
  - destruct (resolve_weak_ok s self pc k HI w1 o1 R1) as (b1 & G1).
    destruct (resolve_weak_ok s self pc k HI w2 o2 R2) as (b2 & G2).
    pose proof (addr_inj_getb _ am o1 o2 b1 b2 HA G1 G2) as Hiff. split.
    + intros E. f_equal. apply Hiff. exact E.
    + intros E. injection E as ->. reflexivity.
  - destruct (resolve_weak_ok s self pc k HI w1 o1 R1) as (b1 & G1).
    pose proof (addr_inj_getb_sentinel _ am o1 b1 HA G1). split; [intros E; contradiction|discriminate].
  - destruct (resolve_weak_ok s self pc k HI w2 o2 R2) as (b2 & G2).
    pose proof (addr_inj_getb_sentinel _ am o2 b2 HA G2). split; [intros E; symmetry in E; contradiction|discriminate].
  - split; reflexivity.
Qed.

(** a Weak and a strong handle to the same object have the same address
    ([Weak::as_ptr] / [Rc::as_ptr]), and different objects different ones *)
Theorem weak_strong_ptr_eq_exact s self pc k am hr wr o1 l1 o2 :
  Inv s (ctx self pc k) -> addr_inj (heap_of s) am ->
  resolve_strong s self hr = Some (o1, l1) -> resolve_weak s self wr = Some (Some o2) ->
  (am o1 = am o2 <-> o1 = o2).
Proof.
  intros HI HA R1 R2.
  destruct (strong_target_allocated s self pc k hr o1 l1 HI R1) as (b1 & G1).
  destruct (resolve_weak_ok s self pc k HI wr o2 R2) as (b2 & G2).
  eapply addr_inj_getb; eauto.
Qed.

(** also for handles owned by the frame on top of the stack (the handle being dropped) *)
Theorem frame_token_allocated s fr k o : Inv s (fr :: k) -> (0 < w_frame (sw_strong o) fr)%N ->
  exists b, nth_error (heap_of s) o = Some b /\ freed b = false.
Proof.
  intros HI Ho. destruct (inv_top_token s fr k o HI Ho) as (b & Hg & _).
  exists b. apply getb_ok. exact Hg.
Qed.

Theorem frame_ptr_eq_exact s fr k am o1 o2 : Inv s (fr :: k) -> addr_inj (heap_of s) am ->
  (0 < w_frame (sw_strong o1) fr)%N -> (0 < w_frame (sw_strong o2) fr)%N ->
  (am o1 = am o2 <-> o1 = o2).
Proof.
  intros HI [Hinj _] H1 H2.
  destruct (frame_token_allocated s fr k o1 HI H1) as (b1 & N1 & F1).
  destruct (frame_token_allocated s fr k o2 HI H2) as (b2 & N2 & F2).
  split; [eapply Hinj; eauto|intros ->; reflexivity].
Qed.

(** [Rc::drop] names its own allocation *)
Corollary drop_frame_allocated s o k : Inv s (FDropStrong o :: k) ->
  exists b, nth_error (heap_of s) o = Some b /\ freed b = false.
Proof.
  intros HI. apply (frame_token_allocated s (FDropStrong o) k o HI).
  cbn [w_frame]. rewrite sw_strong_self. lia.
Qed.

(** ** link-table keys *)

(** every record of every table names an allocation that has not been released *)
Theorem table_key_allocated s k o b t o1 k1 n1 :
  Inv s k -> nth_error (heap_of s) o = Some b -> links b = Some t -> In ((o1, k1), n1) t ->
  exists b1, nth_error (heap_of s) o1 = Some b1 /\ freed b1 = false /\ live b1 = true.
Proof.
  intros HI Hb Hl Hin. pose proof (inv_tbl s k HI) as [Twf _ Tnames _].
  assert (Hpos : (0 < lget (heap_of s) o (o1, k1))%N).
  { unfold lget. rewrite Hb. unfold btable. rewrite Hl. apply tbl_get_in_pos.
    - specialize (Twf o b Hb). unfold box_wf, btable in Twf. rewrite Hl in Twf. exact Twf.
    - unfold keys. change (o1, k1) with (fst ((o1, k1), n1)). apply in_map. exact Hin. }
  destruct (Tnames o o1 k1 Hpos) as (b1 & Hb1 & Hl1). exists b1. split; [exact Hb1|]. split; [|exact Hl1].
  destruct (inv_shape s k HI o1 b1 Hb1) as (S1 & _). apply S1. exact Hl1.
Qed.

(** ... so the address-keyed tables of the implementation and the id-keyed
    tables of the model have the same key equality *)
Theorem table_keys_distinct_addresses s k am o b t o1 k1 n1 o2 k2 n2 :
  Inv s k -> addr_inj (heap_of s) am -> nth_error (heap_of s) o = Some b -> links b = Some t ->
  In ((o1, k1), n1) t -> In ((o2, k2), n2) t -> (am o1 = am o2 <-> o1 = o2).
Proof.
  intros HI [Hinj _] Hb Hl H1 H2.
  destruct (table_key_allocated s k o b t o1 k1 n1 HI Hb Hl H1) as (b1 & N1 & F1 & _).
  destruct (table_key_allocated s k o b t o2 k2 n2 HI Hb Hl H2) as (b2 & N2 & F2 & _).
  split; [eapply Hinj; eauto|intros ->; reflexivity].
Qed.

(** keys of different tables too, and a key against the owner of a table
    (the [Nat.eqb x this] test of the purge loop is [ptr::eq] on addresses) *)
Theorem table_key_vs_owner s k am o b t o1 k1 n1 :
  Inv s k -> addr_inj (heap_of s) am -> nth_error (heap_of s) o = Some b -> links b = Some t ->
  In ((o1, k1), n1) t -> freed b = false -> (am o1 = am o <-> o1 = o).
Proof.
  intros HI [Hinj _] Hb Hl H1 Hf.
  destruct (table_key_allocated s k o b t o1 k1 n1 HI Hb Hl H1) as (b1 & N1 & F1 & _).
  split; [eapply Hinj; eauto|intros ->; reflexivity].
Qed.

(** ** a released allocation's address may be reused, and identity by address
    then FAILS for stale ids: the hypothesis "not freed" cannot be dropped *)
Definition gone_box : box :=
  {| strong := Uninit; weak := 0; links := None; talloc := false; value := None; freed := true |}.
Definition fresh_box : box := new_box {| pid := 1; slots := empty_slots; script := [] |}.

Example reuse_is_possible :
  exists h am, addr_inj h am /\ exists o1 o2, o1 <> o2 /\ am o1 = am o2 /\ o1 < length h /\ o2 < length h.
Proof.
  exists [gone_box; fresh_box], (fun _ => 4096%Z). split.
  - split.
    + intros [|[|o1]] [|[|o2]] b1 b2 H1 H2 F1 F2 _; cbn in H1, H2; try reflexivity;
        try (injection H1 as <-; cbn in F1; discriminate F1);
        try (injection H2 as <-; cbn in F2; discriminate F2);
        try (destruct o1; discriminate H1); try (destruct o2; discriminate H2).
    + intros o b _ _. discriminate.
  - exists 0, 1. cbn. repeat split; lia.
Qed.

(** the allocator's contract permits exactly this: the new allocation gets the
    address of the released one *)
Example reuse_by_allocator :
  exists h h' am am', heap_ext h h' /\ alloc_ok h h' am am' /\ addr_inj h am /\ addr_inj h' am' /\
    am' 0 = am' 1 /\ length h' = 2.
Proof.
  exists [gone_box], [gone_box; fresh_box], (fun _ => 4096%Z), (fun _ => 4096%Z).
  assert (HA : addr_inj [gone_box] (fun _ => 4096%Z)).
  { split.
    - intros [|o1] [|o2] b1 b2 H1 H2 F1 F2 _; cbn in H1, H2; try reflexivity;
        try (injection H1 as <-; cbn in F1; discriminate F1);
        try (injection H2 as <-; cbn in F2; discriminate F2);
        destruct o1; discriminate H1.
    - intros o b _ _. discriminate. }
  assert (HE : heap_ext [gone_box] [gone_box; fresh_box]) by (apply (heap_ext_app [gone_box] [fresh_box])).
  assert (HK : alloc_ok [gone_box] [gone_box; fresh_box] (fun _ => 4096%Z) (fun _ => 4096%Z)).
  { split; [reflexivity|]. split.
    - intros n o b Hn Hb Hf Hne. cbn in Hn. assert (n = 1) as -> by lia.
      destruct o as [|[|o]]; cbn in Hb; [injection Hb as <-; cbn in Hf; discriminate Hf|congruence|destruct o; discriminate Hb].
    - intros n _. discriminate. }
  split; [exact HE|]. split; [exact HK|]. split; [exact HA|].
  split; [exact (addr_inj_ext _ _ _ _ HE HK HA)|]. split; reflexivity.
Qed.

Print Assumptions exec_act_heap_ext.
Print Assumptions exec_act_freed_mono.
Print Assumptions exec_new_heap_ext.
Print Assumptions step_heap_ext.
Print Assumptions step_freed_mono.
Print Assumptions steps_heap_ext.
Print Assumptions run_heap_ext.
Print Assumptions run_freed_mono.
Print Assumptions exec_op_heap_ext.
Print Assumptions exec_op_freed_mono.
Print Assumptions run_history_heap_ext.
Print Assumptions run_history_freed_mono.
Print Assumptions write_slot_touches_freed.
Print Assumptions addr_inj_ext.
Print Assumptions addr_inj_mono.
Print Assumptions asteps_addr_inj.
Print Assumptions run_history_addr_inj.
Print Assumptions ptr_eq_exact.
Print Assumptions act_ptr_eq_by_address.
Print Assumptions weak_ptr_eq_exact.
Print Assumptions weak_strong_ptr_eq_exact.
Print Assumptions frame_token_allocated.
Print Assumptions frame_ptr_eq_exact.
Print Assumptions table_keys_distinct_addresses.
Print Assumptions table_key_vs_owner.
Print Assumptions reuse_is_possible.
Print Assumptions reuse_by_allocator.
