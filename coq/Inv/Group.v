(** * [Rc::drop]: the collection of an orphaned group.

    The heart of C01: when the orphan test passes on a disciplined heap, every
    strong handle to a member of the traced set is owned by the value of a
    member, so no handle held by the program, by a value outside the set or by
    a pending frame targets a destroyed object. *)
From Coq Require Import Permutation.
From CR Require Import Base Atomic Machine LinksFacts HeapFacts TraceFacts TraceTotal Local
  Tokens InvDef InvLemmas ActBase ActClone GroupOps DropDec.
Local Open Scope N_scope.

Section GroupCase.
Variables (s : state) (k : list frame) (o : oid) (pri : list oid).
Hypothesis HI : Inv s k.
Hypothesis Hd : disc (heap_of s).
Variables (cyc : omap) (pops visits : N).
Hypothesis Hoc : orphaned_cycle (heap_of s) o = Ok (Some cyc, pops, visits).

Let HH : HeapInv (heap_of s) := Inv_HeapInv s k HI.
Let Hwf : heap_wf (heap_of s) := ti_wf _ (hi_tbl _ HH).

(** the traced set, as a list without duplicates *)
Lemma group_trace :
  exists R, NoDup R /\ (forall y, In y R <-> reach (heap_of s) o y) /\
    (forall y, own_get cyc y = sumN (map (fun x => cntF (tbl_of (heap_of s) x) y) R)) /\
    (forall y, In y (map fst cyc) <-> exists x, In x R /\ linked (heap_of s) x y) /\
    NoDup (map fst cyc) /\ cyc <> [] /\ has_external (heap_of s) cyc = Ok false.
Proof.
  destruct (orphaned_cycle_some _ _ _ _ _ Hoc) as (Hcr & Hne & Hext).
  destruct (cycle_refs_spec _ _ _ _ _ Hcr) as (R & H1 & H2 & H3 & H4 & H5 & _ & _).
  exists R. auto 10.
Qed.

(** every key of the result is a live object whose counter does not exceed
    the count the trace attributes to the group *)
Lemma key_facts R :
  (forall y, In y (map fst cyc) <-> exists x, In x R /\ linked (heap_of s) x y) ->
  NoDup (map fst cyc) -> has_external (heap_of s) cyc = Ok false ->
  forall y c, In (y, c) cyc ->
    exists b m, nth_error (heap_of s) y = Some b /\ live b = true /\ strong b = Cnt m /\
      0 < m /\ m <= c /\ c = own_get cyc y.
Proof.
  intros Hkeys Hnd Hext y c Hin.
  destruct (has_external_false _ _ Hext y c Hin) as (b & Hg & Hsgt).
  destruct (sgt_false _ _ Hsgt) as (m & Hs & Hle). apply getb_ok in Hg as [Hb _].
  assert (Hk : In y (map fst cyc)) by (apply in_map_iff; exists (y, c); auto).
  apply Hkeys in Hk as (x & _ & Hl). destruct (hi_linked_live _ HH x y Hl) as (b' & Hb' & Hl').
  assert (b' = b) as -> by congruence. exists b, m. repeat split; auto.
  - destruct (live_true b Hl') as (m' & Hs' & Hm'). congruence.
  - symmetry. apply own_get_in; assumption.
Qed.

Lemma keys_in_R R :
  (forall y, In y R <-> reach (heap_of s) o y) ->
  (forall y, own_get cyc y = sumN (map (fun x => cntF (tbl_of (heap_of s) x) y) R)) ->
  (forall y, In y (map fst cyc) <-> exists x, In x R /\ linked (heap_of s) x y) ->
  NoDup (map fst cyc) -> has_external (heap_of s) cyc = Ok false ->
  forall y, In y (map fst cyc) -> In y R.
Proof.
  intros HR Hsum Hkeys Hnd Hext y Hy. apply in_map_iff in Hy as ([y' c] & E & Hin). cbn [fst] in E. subst y'.
  destruct (key_facts R Hkeys Hnd Hext y c Hin) as (b & m & _ & _ & _ & Hm & Hle & Hc).
  assert (Hpos : 0 < sumN (map (fun x => cntF (tbl_of (heap_of s) x) y) R)) by (rewrite <- Hsum; lia).
  destruct (sumN_pos_ex _ _ Hpos) as (x & Hx & Hcx). rewrite (cntF_lget _ _ _ Hwf) in Hcx.
  apply HR. apply reach_step with (x := x); [apply HR; exact Hx|].
  unfold edge. apply (fwd_target_lget _ _ _ Hwf). exact Hcx.
Qed.

Lemma R_in_keys R :
  (forall y, In y R <-> reach (heap_of s) o y) ->
  (forall y, own_get cyc y = sumN (map (fun x => cntF (tbl_of (heap_of s) x) y) R)) ->
  (forall y, In y (map fst cyc) <-> exists x, In x R /\ linked (heap_of s) x y) ->
  NoDup (map fst cyc) -> cyc <> [] -> has_external (heap_of s) cyc = Ok false ->
  forall y, In y R -> In y (map fst cyc).
Proof.
  intros HR Hsum Hkeys Hnd Hne Hext y Hy. apply HR in Hy.
  assert (Ho : In o (map fst cyc)).
  { destruct cyc as [|[y0 c0] rest] eqn:Ec; [congruence|]. rewrite <- Ec in *.
    assert (H0 : In y0 (map fst cyc)) by (rewrite Ec; left; reflexivity).
    pose proof (keys_in_R R HR Hsum Hkeys Hnd Hext y0 H0) as Hr0. apply HR in Hr0.
    destruct (Nat.eq_dec y0 o) as [->|Hne0]; [exact H0|].
    destruct (reach_first_edge _ _ _ Hr0 Hne0) as (z & Hz).
    apply Hkeys. exists z. split.
    - apply HR. apply reach_step with (x := o); [apply reach_refl|exact Hz].
    - apply (hi_edge_back _ HH). exact Hz. }
  inversion Hy as [|x y' Hrx Hxy]; subst; [exact Ho|].
  apply Hkeys. exists x. split; [apply HR; exact Hrx|left; exact Hxy].
Qed.

End GroupCase.

Lemma n_leak_two o e1 e2 l : e_leak o e1 = 0 -> e_leak o e2 = 0 -> n_leak o (e1 :: e2 :: l) = n_leak o l.
Proof. intros H1 H2. rewrite !n_leak_cons, H1, H2. reflexivity. Qed.

Lemma live_gone b : live (gone b) = false.
Proof. reflexivity. Qed.

Lemma w_box_gone f b : w_box f (gone b) = 0.
Proof. reflexivity. Qed.

(** ** the group teardown preserves the invariant *)
Theorem group_inv s k o pri cyc pops visits :
  Inv s k -> (forall x, reach (heap_of s) o x -> disc_at (heap_of s) x) ->
  orphaned_cycle (heap_of s) o = Ok (Some cyc, pops, visits) ->
  let cyc' := order_cycle pri cyc in
  let keys := map fst cyc' in
  exists h2 h3 inners,
    bust_all (heap_of s) keys cyc' = Ok h2 /\ gather h2 keys [] = Ok (h3, inners) /\
    group_heap (heap_of s) h3 keys /\
    (forall y, In y keys <-> reach (heap_of s) o y) /\
    Inv (add_ev (set_heap (add_ev s (EvTrace o pops visits)) h3) (EvGroup keys))
        (FInners inners :: FFinishGroup keys :: k).
Proof.
  intros HI Hd Hoc cyc' keys.
  pose proof (Inv_HeapInv s k HI) as HH. pose proof (ti_wf _ (hi_tbl _ HH)) as Hwf.
  destruct (group_trace s o cyc pops visits Hoc) as (R & HndR & HR & Hsum & Hkeys & HndK & Hne & Hext).
  pose proof (keys_in_R s k o HI cyc R HR Hsum Hkeys HndK Hext) as HKR.
  pose proof (R_in_keys s k o HI cyc pops visits Hoc R HR Hsum Hkeys HndK Hne Hext) as HRK.
  destruct (order_cycle_spec pri cyc HndK) as (Hnd' & Hmem & Hcnt'). fold cyc' in Hnd', Hmem, Hcnt'. fold keys in Hnd', Hmem.
  assert (HkeysR : forall y, In y R <-> In y keys).
  { intros y. rewrite Hmem. split; [apply HRK|apply HKR]. }
  (* facts about every member *)
  assert (Hmemb : forall y, In y keys -> exists b m p t, nth_error (heap_of s) y = Some b /\ live b = true /\
            strong b = Cnt m /\ 0 < m /\ m <= own_get cyc y /\ value b = Some p /\ links b = Some t /\ freed b = false).
  { intros y Hy. apply Hmem in Hy. apply in_map_iff in Hy as ([y' c] & E & Hin). cbn [fst] in E. subst y'.
    destruct (key_facts s k HI cyc R Hkeys HndK Hext y c Hin) as (b & m & Hb & Hl & Hs & Hm & Hle & Hc).
    destruct (hi_shape _ HH y b Hb) as (S1 & _). destruct (S1 Hl) as (Hv & Hlk & Hf).
    destruct (value b) as [p|] eqn:Ev; [|congruence]. destruct (links b) as [t|] eqn:El; [|congruence].
    exists b, m, p, t. subst c. repeat split; auto. }
  (* the three phases *)
  destruct (teardown_spec (heap_of s) keys cyc' Hnd' eq_refl) as (h2 & h3 & inners & Hbust & Hgather & Hgh & Hf2 & Hcons).
  { intros y c Hin. assert (Hy : In y keys) by (apply in_map_iff; exists (y, c); auto).
    destruct (Hmemb y Hy) as (b & m & p & t & Hb & Hl & Hs & Hm & Hle & Hv & Hlk & Hf).
    exists b, t, p, m. rewrite (Hcnt' y c Hin). repeat split; auto. }
  exists h2, h3, inners. split; [exact Hbust|]. split; [exact Hgather|]. split; [exact Hgh|].
  split; [intros y; rewrite <- HkeysR; apply HR|].
  destruct Hgh as [Hlen3 Hnth3].
  assert (Hmemb_dec : forall y, memb y keys = true <-> In y keys) by (intros y; apply memb_In).
  (* the key inequality: the group's counters are covered by the handles inside its values *)
  assert (Hcover : forall y b m, In y keys -> nth_error (heap_of s) y = Some b -> strong b = Cnt m ->
            m <= total (w_inner (sw_strong y)) inners).
  { intros y b m Hy Hb Hs. destruct (Hmemb y Hy) as (b0 & m0 & p & t & Hb0 & _ & Hs0 & _ & Hle & _).
    assert (b0 = b) as -> by congruence. assert (m0 = m) as -> by congruence.
    rewrite (total_inner_sum (sw_strong y) keys inners (heap_of s) Hf2).
    rewrite Hsum in Hle. rewrite (sumN_nodup_same _ R keys HndR Hnd' HkeysR) in Hle.
    eapply N.le_trans; [exact Hle|]. apply sumN_le_pointwise. intros x Hx.
    destruct (Hmemb x Hx) as (bx & mx & px & tx & Hbx & _ & _ & _ & _ & Hvx & _).
    rewrite Hbx, (w_box_value _ _ _ Hvx), (cntF_lget _ _ _ Hwf). unfold w_payload.
    apply (Hd x (proj1 (HR x) (proj2 (HkeysR x) Hx)) bx px Hbx Hvx). }
  (* hence nobody else owns a handle to a member *)
  assert (Hnone : forall y, In y keys ->
            total (w_reg (sw_strong y)) (regs s) = 0 /\ total (w_box (sw_strong y)) h3 = 0 /\
            total (w_frame (sw_strong y)) k = 0).
  { intros y Hy. destruct (Hmemb y Hy) as (b & m & p & t & Hb & _ & Hs & _).
    pose proof (Hcover y b m Hy Hb Hs) as Hc. pose proof (ci_strong s k (inv_cnt s k HI) y b m Hb Hs) as HW.
    unfold W, w_held in HW. pose proof (Hcons (sw_strong y)) as Hcs. lia. }
  set (s' := add_ev (set_heap (add_ev s (EvTrace o pops visits)) h3) (EvGroup keys)).
  set (K' := FInners inners :: FFinishGroup keys :: k).
  assert (HW' : forall f, W f s' K' = W f s k).
  { intros f. unfold W, w_held, s', K'. cbn [regs heap_of add_ev set_heap mk total w_frame]. rewrite (Hcons f). lia. }
  assert (Hheld' : forall f, w_held f s' + total (w_inner f) inners = w_held f s).
  { intros f. unfold w_held, s'. cbn [regs heap_of add_ev set_heap mk]. rewrite (Hcons f). lia. }
  assert (Hleak' : forall y, n_leak y (log s') = n_leak y (log s)).
  { intros y. unfold s'. cbn [log add_ev set_heap mk]. apply n_leak_two; reflexivity. }
  assert (Hafter' : forall y, n_after y K' = n_after y k) by (intros y; reflexivity).
  assert (Hfin' : forall y, n_fin y K' = count_nat y keys + n_fin y k).
  { intros y. unfold K'. rewrite !n_fin_cons. cbn [f_fin]. lia. }
  assert (Hbox3 : forall y b3, nth_error h3 y = Some b3 ->
            exists b, nth_error (heap_of s) y = Some b /\
              ((In y keys /\ b3 = gone b) \/ (~ In y keys /\ b3 = b))).
  { intros y b3 H3. rewrite Hnth3 in H3. destruct (nth_error (heap_of s) y) as [b|] eqn:Hb; [|discriminate].
    exists b. split; [reflexivity|]. destruct (memb y keys) eqn:Em.
    - apply Hmemb_dec in Em. injection H3 as <-. left. auto.
    - injection H3 as <-. right. split; [|reflexivity]. intros Hin. apply Hmemb_dec in Hin. congruence. }
  assert (Hlget3 : forall a l, lget h3 a l = if memb a keys then 0 else lget (heap_of s) a l).
  { intros a l. unfold lget. rewrite Hnth3. destruct (nth_error (heap_of s) a) as [b|] eqn:Hb.
    - destruct (memb a keys); reflexivity.
    - destruct (memb a keys); reflexivity. }
  (* no table outside the group names a member *)
  assert (Hout : forall a x kd, ~ In a keys -> In x keys -> lget (heap_of s) a (x, kd) = 0).
  { intros a x kd Ha Hx. destruct (N.eq_dec (lget (heap_of s) a (x, kd)) 0) as [E|E]; [exact E|exfalso].
    assert (Hp : 0 < lget (heap_of s) a (x, kd)) by lia. apply Ha. destruct kd.
    - (* a adopted x: x's table has a backward record for a *)
      rewrite (ti_sym _ (hi_tbl _ HH)) in Hp. apply Hmem. apply Hkeys. exists x. split; [apply HkeysR; exact Hx|].
      right. apply (bwd_target_lget _ _ _ Hwf). exact Hp.
    - (* x adopted a: a is a forward target of a member *)
      rewrite <- (ti_sym _ (hi_tbl _ HH)) in Hp. apply HkeysR. apply HR.
      apply reach_step with (x := x); [apply HR; apply HkeysR; exact Hx|].
      unfold edge. apply (fwd_target_lget _ _ _ Hwf). exact Hp.
    - rewrite (ti_loop _ (hi_tbl _ HH) a x Hp) in Hx. exact Hx. }
  destruct HI as [Hshape Htbl Hcnt Hnd Hin]. split.
  - (* shape *)
    intros y b3 H3. unfold s' in H3. cbn [heap_of add_ev set_heap mk] in H3.
    destruct (Hbox3 y b3 H3) as (b & Hb & [[Hy ->]|[Hy ->]]); [|apply (Hshape y b Hb)].
    destruct (Hshape y b Hb) as (S1 & S2 & S3 & S4). unfold shape_ok. rewrite live_gone.
    repeat split; try discriminate; try reflexivity; apply S4.
  - (* tables *)
    unfold s'. cbn [heap_of add_ev set_heap mk]. split.
    + intros y b3 H3. destruct (Hbox3 y b3 H3) as (b & Hb & [[Hy ->]|[Hy ->]]); [apply tbl_wf_nil|apply (Hwf y b Hb)].
    + intros a b. rewrite !Hlget3. destruct (memb a keys) eqn:Ea, (memb b keys) eqn:Eb; try reflexivity.
      * symmetry. apply Hout; [|apply Hmemb_dec; exact Ea]. intros Hc. apply Hmemb_dec in Hc. congruence.
      * apply Hout; [|apply Hmemb_dec; exact Eb]. intros Hc. apply Hmemb_dec in Hc. congruence.
      * apply (ti_sym _ Htbl).
    + intros a x kd Hp. rewrite Hlget3 in Hp. destruct (memb a keys) eqn:Ea; [lia|].
      assert (Ha : ~ In a keys) by (intros Hc; apply Hmemb_dec in Hc; congruence).
      destruct (ti_names _ Htbl a x kd Hp) as (bx & Hbx & Hlx). exists bx. split; [|exact Hlx].
      rewrite Hnth3, Hbx. destruct (memb x keys) eqn:Ex; [|reflexivity].
      apply Hmemb_dec in Ex. rewrite (Hout a x kd Ha Ex) in Hp. lia.
    + intros a x Hp. rewrite Hlget3 in Hp. destruct (memb a keys); [lia|]. apply (ti_loop _ Htbl a x Hp).
  - (* counters *)
    destruct Hcnt as [C1 C2 C3 C4 C5 C6]. split.
    + intros y b3 m H3 Hm. rewrite HW'. unfold s' in H3. cbn [heap_of add_ev set_heap mk] in H3.
      destruct (Hbox3 y b3 H3) as (b & Hb & [[Hy ->]|[Hy ->]]); [discriminate|]. apply (C1 y b m Hb Hm).
    + intros y b3 H3. rewrite HW', Hleak', Hafter', Hfin'. unfold s' in H3. cbn [heap_of add_ev set_heap mk] in H3.
      destruct (Hbox3 y b3 H3) as (b & Hb & [[Hy ->]|[Hy ->]]).
      * destruct (Hmemb y Hy) as (b0 & m & p & t & Hb0 & Hl & _). assert (b0 = b) as -> by congruence.
        rewrite (count_nat_nodup y keys Hnd' Hy). pose proof (C2 y b Hb) as E.
        unfold liveN in *. rewrite Hl in E. rewrite live_gone. cbn [gone weak with_links with_value with_strong]. lia.
      * rewrite (count_nat_notin y keys Hy). rewrite (C2 y b Hb). lia.
    + intros y b3 H3. rewrite Hleak', Hafter'. unfold s' in H3. cbn [heap_of add_ev set_heap mk] in H3.
      destruct (Hbox3 y b3 H3) as (b & Hb & [[Hy ->]|[Hy ->]]); [|apply (C3 y b Hb)].
      destruct (Hmemb y Hy) as (b0 & m & p & t & Hb0 & Hl & Hs & _). assert (b0 = b) as -> by congruence.
      pose proof (C3 y b Hb) as E. unfold is_dying in E. rewrite Hs in E. exact E.
    + intros y b3 H3 Hp. rewrite Hfin' in Hp. unfold s' in H3. cbn [heap_of add_ev set_heap mk] in H3.
      destruct (Hbox3 y b3 H3) as (b & Hb & [[Hy ->]|[Hy ->]]); [split; reflexivity|].
      rewrite (count_nat_notin y keys Hy) in Hp. apply (C4 y b Hb). lia.
    + intros y H3. rewrite !HW', Hleak', Hafter', Hfin'. unfold s' in H3. cbn [heap_of add_ev set_heap mk] in H3.
      assert (Hy0 : nth_error (heap_of s) y = None).
      { rewrite Hnth3 in H3. destruct (nth_error (heap_of s) y); [destruct (memb y keys); discriminate|reflexivity]. }
      destruct (C5 y Hy0) as (E1 & E2 & E3 & E4 & E5).
      assert (Hy : ~ In y keys).
      { intros Hc. destruct (Hmemb y Hc) as (b & _ & _ & _ & Hb & _). congruence. }
      rewrite (count_nat_notin y keys Hy). repeat split; try assumption; lia.
    + intros y b3 H3 Hp. rewrite Hleak' in Hp. unfold s' in H3. cbn [heap_of add_ev set_heap mk] in H3.
      destruct (Hbox3 y b3 H3) as (b & Hb & [[Hy ->]|[Hy ->]]); [reflexivity|apply (C6 y b Hb Hp)].
  - (* C01: no handle of the program or of a surviving value targets a member *)
    intros y Hy. pose proof (Hheld' (sw_strong y)) as Hh.
    assert (Hny : ~ In y keys).
    { intros Hc. destruct (Hnone y Hc) as (N1 & N2 & _). unfold w_held, s' in Hy.
      cbn [regs heap_of add_ev set_heap mk] in Hy. lia. }
    destruct (Hnd y) as (b & Hb & Hl); [lia|]. exists b. split; [|exact Hl].
    unfold s'. cbn [heap_of add_ev set_heap mk]. rewrite Hnth3, Hb.
    destruct (memb y keys) eqn:E; [apply Hmemb_dec in E; contradiction|reflexivity].
  - (* frames *)
    unfold s', K'. cbn [heap_of log add_ev set_heap mk]. rewrite inert_ok_cons. split; [|rewrite inert_ok_cons; split].
    + (* the members' values: handles to members are inert, the others were held by values in boxes *)
      intros y Hy. cbn [w_frame] in Hy. destruct (in_dec Nat.eq_dec y keys) as [Hk|Hk].
      * destruct (Hmemb y Hk) as (b & m & p & t & Hb & _). exists (gone b). split.
        { rewrite Hnth3, Hb. apply Hmemb_dec in Hk. rewrite Hk. reflexivity. }
        right. split; [reflexivity|]. rewrite n_fin_cons. cbn [f_fin]. rewrite (count_nat_nodup y keys Hnd' Hk). lia.
      * pose proof (Hheld' (sw_strong y)) as Hh. destruct (Hnd y) as (b & Hb & Hl); [lia|].
        exists b. split; [|left; exact Hl]. rewrite Hnth3, Hb.
        destruct (memb y keys) eqn:E; [apply Hmemb_dec in E; contradiction|reflexivity].
    + intros y Hy. cbn [w_frame] in Hy. lia.
    + (* the rest of the stack owns no handle to a member, so nothing changes for it *)
      assert (Hgen : forall k0, (forall y, In y keys -> total (w_frame (sw_strong y)) k0 = 0) ->
                inert_ok (heap_of s) (log s) k0 ->
                inert_ok h3 (EvGroup keys :: EvTrace o pops visits :: log s) k0).
      { induction k0 as [|fr k0 IH]; intros Hz Hi; [exact I|]. rewrite inert_ok_cons in Hi. destruct Hi as [Hf Hi].
        rewrite inert_ok_cons. split.
        - intros y Hy. assert (Hny : ~ In y keys).
          { intros Hc. specialize (Hz y Hc). cbn [total] in Hz. lia. }
          destruct (Hf y Hy) as (b & Hb & Hc). exists b. split.
          + rewrite Hnth3, Hb. destruct (memb y keys) eqn:E; [apply Hmemb_dec in E; contradiction|reflexivity].
          + destruct Hc as [Hl|[Hu Hp]]; [left; exact Hl|right]. split; [exact Hu|].
            rewrite n_leak_two by reflexivity. exact Hp.
        - apply IH; [|exact Hi]. intros y Hc. specialize (Hz y Hc). cbn [total] in Hz. lia. }
      apply Hgen; [|exact Hin]. intros y Hc. apply (Hnone y Hc).
Qed.
