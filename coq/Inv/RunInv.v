(** * [Inv] along runs, calls and histories. *)
From CR Require Import Base Atomic Machine LinksFacts HeapFacts Local
  Tokens InvDef InvLemmas ActBase ActHandles StepInv.
Local Open Scope N_scope.

(** ** the initial state *)
Lemma total_repeat_empty f n : w_reg f REmpty = 0 -> total (w_reg f) (repeat REmpty n) = 0.
Proof. intros H. apply total_repeat. exact H. Qed.

Theorem Inv_init : Inv init_state [].
Proof.
  assert (HW : forall f, W f init_state [] = 0).
  { intros f. unfold W, w_held, init_state. cbn [regs heap_of mk total]. rewrite total_repeat by reflexivity. reflexivity. }
  split.
  - intros o b H. destruct o; discriminate.
  - split.
    + intros o b H. destruct o; discriminate.
    + intros a b. unfold lget, init_state. cbn [heap_of mk]. destruct a, b; reflexivity.
    + intros a x kd H. unfold lget, init_state in H. cbn [heap_of mk] in H. destruct a; cbn in H; lia.
    + intros a x H. unfold lget, init_state in H. cbn [heap_of mk] in H. destruct a; cbn in H; lia.
  - split.
    + intros o b n H. destruct o; discriminate.
    + intros o b H. destruct o; discriminate.
    + intros o b H. destruct o; discriminate.
    + intros o b H. destruct o; discriminate.
    + intros o _. rewrite !HW. repeat split; reflexivity.
    + intros o b H. destruct o; discriminate.
  - intros o H. unfold w_held, init_state in H. cbn [regs heap_of mk total] in H.
    rewrite total_repeat in H by reflexivity. lia.
  - exact I.
Qed.

(** ** runs *)

(** the hypotheses, checked along the run *)
Fixpoint run_ok (pri : list oid) (fuel : nat) (c : config) : bool :=
  match fuel with
  | O => true
  | S f =>
      step_ok c &&
      match step pri c with
      | Running c' => run_ok pri f c'
      | _ => true
      end
  end.

Definition run_goal (out : outcome) : Prop :=
  match out with
  | Running c' => Inv_cfg c'
  | Finished s' _ => Inv s' []
  | Halted _ h => h = HAbort
  end.

Theorem run_inv pri fuel : forall c, Inv_cfg c -> run_ok pri fuel c = true -> run_goal (run pri fuel c).
Proof.
  induction fuel as [|f IH]; intros c HI Hok; cbn [run run_ok] in *; [exact HI|].
  apply andb_true_iff in Hok as [Hs Hr]. pose proof (step_inv pri c HI (step_ok_hyp c Hs)) as Hg.
  destruct (step pri c) as [c'|s' b|s' h]; cbn [step_goal] in Hg.
  - apply IH; assumption.
  - destruct Hg as [Hk ->]. unfold Inv_cfg in HI. rewrite Hk in HI. exact HI.
  - exact Hg.
Qed.

(** every configuration a run passes through *)
Inductive steps (pri : list oid) : config -> config -> Prop :=
| steps_refl c : steps pri c c
| steps_step c c' c'' : step_hyp c -> step pri c = Running c' -> steps pri c' c'' -> steps pri c c''.

Theorem steps_inv pri c c' : steps pri c c' -> Inv_cfg c -> Inv_cfg c'.
Proof.
  induction 1 as [c|c c' c'' Hok Hs _ IH]; intros HI; [exact HI|].
  apply IH. pose proof (step_inv pri c HI Hok) as Hg. rewrite Hs in Hg. exact Hg.
Qed.

(** no step of such a run touches released or moved-out memory *)
Theorem steps_no_fault pri c c' s' h : steps pri c c' -> Inv_cfg c -> step_hyp c' ->
  step pri c' = Halted s' h -> h = HAbort.
Proof.
  intros Hst HI Hok Hs. pose proof (step_inv pri c' (steps_inv pri c c' Hst HI) Hok) as Hg.
  rewrite Hs in Hg. exact Hg.
Qed.

(** ** calls *)
Definition op_start (s : state) (o : op) : aout :=
  match o with
  | OAct a => exec_act s None a
  | ONewS dst sc => exec_new s None dst sc
  end.

Theorem op_start_inv s o : Inv s [] ->
  match op_start s o with
  | AO s1 _ _ push => Inv s1 push
  | AHalt h => h = HAbort
  | APanicOut => True
  end.
Proof.
  intros HI. destruct o as [a|dst sc]; cbn [op_start].
  - pose proof (act_inv a s None [] [] HI eq_refl) as H.
    destruct (exec_act s None a) as [s1 self1 r push|h|]; cbn [act_post] in H; auto.
    destruct H as [Hs H]. destruct self1; cbn [ctx] in H; rewrite ?app_nil_r in H; [|exact H].
    destruct Hs as [Hs _]. specialize (Hs eq_refl). discriminate.
  - pose proof (exec_new_inv s None [] [] dst sc HI) as H.
    destruct (exec_new s None dst sc) as [s1 self1 r push|h|]; cbn [act_post] in H; auto.
    destruct H as [Hs H]. destruct self1; cbn [ctx] in H; rewrite ?app_nil_r in H; [|exact H].
    destruct Hs as [Hs _]. specialize (Hs eq_refl). discriminate.
Qed.

(** the hypotheses of one call *)
Definition op_ok (pri : list oid) (fuel : nat) (s : state) (o : op) : bool :=
  match op_start s o with
  | AO s1 _ _ push => run_ok pri fuel {| st := s1; stack := push; unw := false |}
  | _ => true
  end.

Definition op_goal (r : state * op_outcome) : Prop :=
  match snd r with
  | ODone _ | OPanicked => Inv (fst r) []
  | OHalt h => h = HAbort
  | OFuel => True
  end.

Theorem exec_op_inv pri fuel s o : Inv s [] -> op_ok pri fuel s o = true -> op_goal (exec_op pri fuel s o).
Proof.
  intros HI Hok. pose proof (op_start_inv s o HI) as Hst. unfold op_ok in Hok. unfold exec_op.
  change (match o with OAct a => exec_act s None a | ONewS dst sc => exec_new s None dst sc end) with (op_start s o).
  destruct (op_start s o) as [s1 self1 r push|h|]; cbn [op_goal fst snd]; auto.
  pose proof (run_inv pri fuel {| st := s1; stack := push; unw := false |} Hst Hok) as Hr.
  destruct (run pri fuel {| st := s1; stack := push; unw := false |}) as [c'|s' [|]|s' h];
    cbn [run_goal op_goal fst snd] in *; auto.
Qed.

(** ** histories *)
Fixpoint hist_ok (fuel : nat) (s : state) (h : list (op * list oid)) : bool :=
  match h with
  | [] => true
  | (o, pri) :: h' =>
      op_ok pri fuel s o &&
      (let '(s1, r) := exec_op pri fuel s o in
       match r with
       | OHalt _ | OFuel => true
       | _ => hist_ok fuel s1 h'
       end)
  end.

Definition completed (r : op_outcome) : bool :=
  match r with ODone _ | OPanicked => true | _ => false end.

(** a disciplined history never faults — each call returns, panics, aborts the
    process or runs out of the given fuel — and the invariant holds at every
    call boundary *)
Theorem run_history_inv fuel h : forall s, Inv s [] -> hist_ok fuel s h = true ->
  Forall (fun r => match r with OHalt e => e = HAbort | _ => True end) (snd (run_history fuel s h)) /\
  (forallb completed (snd (run_history fuel s h)) = true -> Inv (fst (run_history fuel s h)) []).
Proof.
  induction h as [|[o pri] h IH]; intros s HI Hok; cbn [run_history hist_ok] in *.
  - split; [constructor|intros _; exact HI].
  - apply andb_true_iff in Hok as [Hop Hrest]. pose proof (exec_op_inv pri fuel s o HI Hop) as Hg.
    destruct (exec_op pri fuel s o) as [s1 r] eqn:E. cbn [op_goal fst snd] in Hg.
    destruct r as [res| |e|]; cbn [fst snd].
    + specialize (IH s1 Hg Hrest). destruct (run_history fuel s1 h) as [s2 rs]. cbn [fst snd] in *.
      destruct IH as [IH1 IH2]. split; [constructor; [exact I|exact IH1]|]. cbn [forallb completed andb]. exact IH2.
    + specialize (IH s1 Hg Hrest). destruct (run_history fuel s1 h) as [s2 rs]. cbn [fst snd] in *.
      destruct IH as [IH1 IH2]. split; [constructor; [exact I|exact IH1]|]. cbn [forallb completed andb]. exact IH2.
    + split; [constructor; [exact Hg|constructor]|]. cbn. discriminate.
    + split; [constructor; [exact I|constructor]|]. cbn. discriminate.
Qed.

Corollary run_history_from_init fuel h : hist_ok fuel init_state h = true ->
  Forall (fun r => match r with OHalt e => e = HAbort | _ => True end) (snd (run_history fuel init_state h)) /\
  (forallb completed (snd (run_history fuel init_state h)) = true -> Inv (fst (run_history fuel init_state h)) []).
Proof. apply run_history_inv. exact Inv_init. Qed.
