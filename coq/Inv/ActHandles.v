(** * Handle-creating and observing actions preserve [Inv]:
    upgrade, increment_strong_count, downgrade, Weak::clone, Weak::new, Rc::new,
    into_raw / from_raw, ptr_eq, the four counter getters, deref, get_mut, panic. *)
From CR Require Import Base Atomic Machine LinksFacts HeapFacts Local Tokens InvDef InvLemmas ActBase ActClone.
Local Open Scope N_scope.

(** ** general tools *)

(** an action that returns a result and changes nothing *)
Lemma act_observe s self pc k r : Inv s (ctx self pc k) -> act_post self pc k (AO s self r []).
Proof. intros HI. cbn [act_post app]. split; [tauto|exact HI]. Qed.

(** an allocation that has not been released still has a positive weak counter *)
Lemma getb_weak_pos s K o b : Inv s K -> getb (heap_of s) o = Ok b -> 0 < weak b.
Proof.
  intros HI Hg. apply getb_ok in Hg as [Hb Hf].
  destruct (inv_shape s K HI o b Hb) as (_ & _ & _ & [_ S4]).
  destruct (N.eq_dec (weak b) 0) as [E|E]; [|lia]. rewrite (S4 E) in Hf. discriminate.
Qed.

Lemma getb_weak_nz s K o b : Inv s K -> getb (heap_of s) o = Ok b -> (weak b =? 0) = false.
Proof. intros HI Hg. apply N.eqb_neq. pose proof (getb_weak_pos s K o b HI Hg). lia. Qed.

(** [Inv] looks at the registers only through the census *)
Lemma Inv_same_census s s' K :
  heap_of s' = heap_of s -> log s' = log s ->
  (forall o, w_held (sw_strong o) s' = w_held (sw_strong o) s) ->
  (forall o, w_held (sw_weak o) s' = w_held (sw_weak o) s) ->
  Inv s K -> Inv s' K.
Proof.
  intros Hh Hl Hs Hw [Hshape Htbl [C1 C2 C3 C4 C5 C6] Hnd Hin].
  assert (HWs : forall o, W (sw_strong o) s' K = W (sw_strong o) s K) by (intros o; unfold W; rewrite Hs; reflexivity).
  assert (HWw : forall o, W (sw_weak o) s' K = W (sw_weak o) s K) by (intros o; unfold W; rewrite Hw; reflexivity).
  split.
  - rewrite Hh. exact Hshape.
  - rewrite Hh. exact Htbl.
  - split; rewrite ?Hh, ?Hl.
    + intros o b n. rewrite HWs. apply C1.
    + intros o b. rewrite HWw. apply C2.
    + exact C3.
    + exact C4.
    + intros o Ho. rewrite HWs, HWw. apply C5. exact Ho.
    + exact C6.
  - intros o Ho. rewrite Hs in Ho. rewrite Hh. apply Hnd. exact Ho.
  - rewrite Hh, Hl. exact Hin.
Qed.

Lemma w_held_set_reg f s r x : (r < length (regs s))%nat ->
  w_held f (set_reg s r x) + w_reg f (reg_get s r) = w_held f s + w_reg f x.
Proof. intros Hr. pose proof (W_set_reg f s r x [] Hr) as H. unfold W in H. cbn [total] in H. lia. Qed.

(** overwriting a register with something that weighs the same *)
Lemma Inv_set_reg_same s K r x : (r < length (regs s))%nat ->
  (forall o, w_reg (sw_strong o) x = w_reg (sw_strong o) (reg_get s r)) ->
  (forall o, w_reg (sw_weak o) x = w_reg (sw_weak o) (reg_get s r)) ->
  Inv s K -> Inv (set_reg s r x) K.
Proof.
  intros Hr Hs Hw. apply Inv_same_census; try reflexivity.
  - intros o. pose proof (w_held_set_reg (sw_strong o) s r x Hr) as H. rewrite Hs in H. lia.
  - intros o. pose proof (w_held_set_reg (sw_weak o) s r x Hr) as H. rewrite Hw in H. lia.
Qed.

Lemma reg_free_lt s r : reg_free s r = true -> (r < length (regs s))%nat.
Proof. intros H. apply reg_free_spec in H. apply nth_error_Some. congruence. Qed.

Lemma reg_free_get s r : reg_free s r = true -> reg_get s r = REmpty.
Proof. intros H. apply reg_free_spec in H. apply reg_get_nth_error. exact H. Qed.

Lemma reg_get_lt s r : reg_get s r <> REmpty -> (r < length (regs s))%nat.
Proof. intros H. apply reg_get_some in H. apply nth_error_Some. congruence. Qed.

(** a dangling Weak (Weak::new) weighs nothing *)
Lemma Inv_set_reg_weak_none s K dst : reg_free s dst = true -> Inv s K ->
  Inv (set_reg s dst (RWeak None)) K.
Proof.
  intros Hf. apply Inv_set_reg_same.
  - apply reg_free_lt. exact Hf.
  - intros o. rewrite (reg_free_get s dst Hf). reflexivity.
  - intros o. rewrite (reg_free_get s dst Hf). reflexivity.
Qed.

(** one more Weak handle to [o], in a free register: the weak counter grows by
    one; the object itself may already have been destroyed *)
Lemma Inv_weak_bump s K o b dst :
  Inv s K -> nth_error (heap_of s) o = Some b -> reg_free s dst = true -> 0 < weak b ->
  Inv (set_reg (set_heap s (setb (heap_of s) o (with_weak b (weak b + 1)))) dst (RWeak (Some o))) K.
Proof.
  intros HI Hb Hfree Hwpos.
  remember (with_weak b (weak b + 1)) as b' eqn:Eb'.
  assert (Hst : strong b' = strong b) by (subst b'; reflexivity).
  assert (Hlk : links b' = links b) by (subst b'; reflexivity).
  assert (Hva : value b' = value b) by (subst b'; reflexivity).
  assert (Hfr : freed b' = freed b) by (subst b'; reflexivity).
  assert (Hwk : weak b' = weak b + 1) by (subst b'; reflexivity).
  clear Eb'.
  assert (Hlive : live b' = live b) by (unfold live; rewrite Hst; reflexivity).
  assert (Hdy : is_dying b' = is_dying b) by (unfold is_dying; rewrite Hst, Hlk; reflexivity).
  assert (Hbt : btable b' = btable b) by (unfold btable; rewrite Hlk; reflexivity).
  assert (Hlt : (o < length (heap_of s))%nat) by (apply nth_error_Some; congruence).
  assert (Hnth : forall y, nth_error (setb (heap_of s) o b') y = if Nat.eqb o y then Some b' else nth_error (heap_of s) y).
  { intros y. unfold setb. rewrite nth_error_upd. apply Nat.ltb_lt in Hlt. rewrite Hlt. reflexivity. }
  assert (HW : forall f, W f (set_reg (set_heap s (setb (heap_of s) o b')) dst (RWeak (Some o))) K
                         = W f s K + f (SWeak (Some o))).
  { intros f. rewrite W_set_reg_free by exact Hfree.
    rewrite (W_setb_same_value f s o b b' K Hb Hva). reflexivity. }
  assert (Hheld : forall f, w_held f (set_reg (set_heap s (setb (heap_of s) o b')) dst (RWeak (Some o)))
                            = w_held f s + f (SWeak (Some o))).
  { intros f. generalize (HW f). unfold W. intros H2. lia. }
  destruct HI as [Hshape Htbl Hcnt Hnd Hin]. split.
  - (* shape *)
    intros y by' Hy. cbn [heap_of set_reg set_heap mk] in Hy. rewrite Hnth in Hy.
    destruct (Nat.eqb_spec o y) as [<-|Hne]; [|apply (Hshape y by' Hy)].
    injection Hy as <-. destruct (Hshape o b Hb) as (S1 & S2 & S3 & S4).
    unfold shape_ok. rewrite Hlive, Hva, Hlk, Hfr, Hbt, Hst, Hwk. repeat split.
    + apply S1; assumption. + apply S1; assumption. + apply S1; assumption.
    + apply S2; assumption. + apply S2; assumption.
    + exact S3.
    + intros E. apply S4 in E. lia.
    + intros E. lia.
  - (* tables *)
    cbn [heap_of set_reg set_heap mk]. eapply TblInv_same_tables; [|exact Htbl].
    apply same_tables_setb with (b := b); auto. rewrite Hlive. auto.
  - (* counters *)
    destruct Hcnt as [C1 C2 C3 C4 C5 C6]. split; cbn [heap_of set_reg set_heap mk log].
    + intros y by' m Hy Hm. rewrite HW, sw_strong_weak, N.add_0_r. rewrite Hnth in Hy.
      destruct (Nat.eqb_spec o y) as [<-|Hne]; [|apply (C1 y by' m Hy Hm)].
      injection Hy as <-. rewrite Hst in Hm. apply (C1 o b m Hb Hm).
    + intros y by' Hy. rewrite HW. rewrite Hnth in Hy.
      destruct (Nat.eqb_spec o y) as [<-|Hne].
      * injection Hy as <-. rewrite Hwk, (C2 o b Hb), sw_weak_self. unfold liveN. rewrite Hlive. lia.
      * rewrite (C2 y by' Hy). rewrite sw_weak_other by exact Hne. lia.
    + intros y by' Hy. rewrite Hnth in Hy. destruct (Nat.eqb_spec o y) as [<-|Hne]; [|apply (C3 y by' Hy)].
      injection Hy as <-. rewrite Hdy. apply (C3 o b Hb).
    + intros y by' Hy Hp. rewrite Hnth in Hy. destruct (Nat.eqb_spec o y) as [<-|Hne]; [|apply (C4 y by' Hy Hp)].
      injection Hy as <-. rewrite Hst, Hlk. apply (C4 o b Hb Hp).
    + intros y Hy. rewrite !HW. assert (Hy' : nth_error (heap_of s) y = None).
      { apply nth_error_None. apply nth_error_None in Hy. unfold setb in Hy. rewrite upd_length in Hy. exact Hy. }
      destruct (C5 y Hy') as (E1 & E2 & E3 & E4 & E5).
      assert (Hyo : o <> y) by (intros ->; congruence).
      rewrite sw_strong_weak, sw_weak_other by exact Hyo. repeat split; try lia; assumption.
    + intros y by' Hy Hp. rewrite Hnth in Hy. destruct (Nat.eqb_spec o y) as [<-|Hne]; [|apply (C6 y by' Hy Hp)].
      injection Hy as <-. rewrite Hst. apply (C6 o b Hb Hp).
  - (* no dangling handle *)
    intros y Hy. rewrite Hheld, sw_strong_weak, N.add_0_r in Hy. cbn [heap_of set_reg set_heap mk]. rewrite Hnth.
    destruct (Hnd y Hy) as (b0 & Hb0 & Hl0).
    destruct (Nat.eqb_spec o y) as [<-|Hne].
    + exists b'. split; [reflexivity|]. assert (b0 = b) as -> by congruence. rewrite Hlive. exact Hl0.
    + exists b0. auto.
  - (* frames *)
    cbn [heap_of set_reg set_heap mk log]. eapply inert_ok_heap; [|exact Hin].
    apply heap_mono_setb with (b := b); auto.
    + rewrite Hlive. auto.
    + rewrite Hst. auto.
Qed.

(** the step shared by downgrade and Weak::clone *)
Lemma weak_into_reg s self pc k o b dst :
  Inv s (ctx self pc k) -> getb (heap_of s) o = Ok b -> reg_free s dst = true ->
  act_post self pc k
    (lift s self (inc_weak (heap_of s) o) (fun s1 => AO (set_reg s1 dst (RWeak (Some o))) self RUnit [])).
Proof.
  intros HI Hg Hf. unfold lift, inc_weak, bind. rewrite Hg.
  rewrite (getb_weak_nz s _ o b HI Hg).
  cbn [act_post app]. split; [tauto|]. apply Inv_weak_bump; auto.
  - apply getb_ok in Hg as [Hb _]. exact Hb.
  - eapply getb_weak_pos; eauto.
Qed.

(** ** the handle-creating actions *)

(** [Weak::upgrade]: [None] for a dangling Weak or a dead target (nothing
    changes), otherwise one more strong handle and the strong counter + 1;
    never touches a released allocation. *)
Theorem act_upgrade wr dst : act_preserves (AUpgrade wr dst).
Proof.
  intros s self pc k HI _. cbn [exec_act].
  destruct (resolve_weak s self wr) as [w|] eqn:Er; [|apply act_invalid; exact HI].
  destruct (reg_free s dst) eqn:Ef; [|apply act_invalid; exact HI].
  destruct w as [o|]; [|apply act_observe; exact HI].
  destruct (resolve_weak_ok s self pc k HI wr o Er) as (b & Hg). rewrite Hg.
  destruct (is_dead (strong b)) eqn:Hd; [apply act_observe; exact HI|].
  destruct (strong b) as [n|] eqn:Hs; [|discriminate]. cbn [is_dead] in Hd. apply N.eqb_neq in Hd.
  unfold lift. rewrite (inc_strong_live _ _ _ _ Hg Hs Hd).
  cbn [act_post app]. split; [tauto|]. apply clone_into_reg; auto. lia.
Qed.

(** [Rc::increment_strong_count] on a raw pointer obtained from [into_raw]:
    the pointer owns a strong count, so the object is live; one more owned
    count appears. *)
Theorem act_inc_strong r dst : act_preserves (AIncStrong r dst).
Proof.
  intros s self pc k HI _. cbn [exec_act].
  destruct (reg_get s r) as [|?|o|?|] eqn:Er; try (apply act_invalid; exact HI).
  destruct (reg_free s dst) eqn:Ef; [|apply act_invalid; exact HI].
  destruct (reg_strong_live s self pc k HI o r (or_intror Er)) as (b & Hg & Hl).
  destruct (live_true b Hl) as (n & Hs & Hn). unfold lift.
  rewrite (inc_strong_live _ _ _ _ Hg Hs) by lia.
  cbn [act_post app]. split; [tauto|]. apply clone_into_reg; auto.
Qed.

(** [Rc::downgrade]: one more Weak handle, weak counter + 1; also through a
    handle of the value being destroyed (the allocation is still there). *)
Theorem act_downgrade hr dst : act_preserves (ADowngrade hr dst).
Proof.
  intros s self pc k HI _. cbn [exec_act].
  destruct (resolve_strong s self hr) as [[o l]|] eqn:Er; [|apply act_invalid; exact HI].
  destruct (reg_free s dst) eqn:Ef; [|apply act_invalid; exact HI].
  destruct (resolve_strong_ok s self pc k HI hr o l Er) as (b & Hg & _).
  eapply weak_into_reg; eauto.
Qed.

(** [Weak::clone]: a dangling Weak is copied; otherwise weak counter + 1, even
    when the object is long gone (the source handle keeps the allocation). *)
Theorem act_clone_weak wr dst : act_preserves (ACloneWeak wr dst).
Proof.
  intros s self pc k HI _. cbn [exec_act].
  destruct (resolve_weak s self wr) as [w|] eqn:Er; [|apply act_invalid; exact HI].
  destruct (reg_free s dst) eqn:Ef; [|apply act_invalid; exact HI].
  destruct w as [o|].
  - destruct (resolve_weak_ok s self pc k HI wr o Er) as (b & Hg).
    eapply weak_into_reg; eauto.
  - cbn [act_post app]. split; [tauto|]. apply Inv_set_reg_weak_none; assumption.
Qed.

(** [Weak::new]: a handle to nothing. *)
Theorem act_weak_new dst : act_preserves (AWeakNew dst).
Proof.
  intros s self pc k HI _. cbn [exec_act].
  destruct (reg_free s dst) eqn:Ef; [|apply act_invalid; exact HI].
  cbn [act_post app]. split; [tauto|]. apply Inv_set_reg_weak_none; assumption.
Qed.

(** [Rc::into_raw] / [Rc::from_raw]: the strong count changes owner, nothing
    else happens. *)
Theorem act_into_raw r : act_preserves (AIntoRaw r).
Proof.
  intros s self pc k HI _. cbn [exec_act].
  destruct (reg_get s r) as [o|?|?|?|] eqn:Er; try (apply act_invalid; exact HI).
  cbn [act_post app]. split; [tauto|]. apply Inv_set_reg_same; [| | |exact HI].
  - apply reg_get_lt. rewrite Er. discriminate.
  - intros y. rewrite Er. reflexivity.
  - intros y. rewrite Er. reflexivity.
Qed.

Theorem act_from_raw r : act_preserves (AFromRaw r).
Proof.
  intros s self pc k HI _. cbn [exec_act].
  destruct (reg_get s r) as [?|?|o|?|] eqn:Er; try (apply act_invalid; exact HI).
  cbn [act_post app]. split; [tauto|]. apply Inv_set_reg_same; [| | |exact HI].
  - apply reg_get_lt. rewrite Er. discriminate.
  - intros y. rewrite Er. reflexivity.
  - intros y. rewrite Er. reflexivity.
Qed.

(** ** observers: no memory fault, nothing changes *)

(** [Rc::ptr_eq] reads no memory at all. *)
Theorem act_ptr_eq h1 h2 : act_preserves (APtrEq h1 h2).
Proof.
  intros s self pc k HI _. cbn [exec_act].
  destruct (resolve_strong s self h1) as [[a l1]|]; [|apply act_invalid; exact HI].
  destruct (resolve_strong s self h2) as [[b l2]|]; [|apply act_invalid; exact HI].
  apply act_observe; exact HI.
Qed.

(** [Rc::strong_count] reads a counter of an allocation that is still there. *)
Theorem act_strong_count hr : act_preserves (AStrongCount hr).
Proof.
  intros s self pc k HI _. cbn [exec_act].
  destruct (resolve_strong s self hr) as [[o l]|] eqn:Er; [|apply act_invalid; exact HI].
  destruct (resolve_strong_ok s self pc k HI hr o l Er) as (b & Hg & _). rewrite Hg.
  apply act_observe; exact HI.
Qed.

(** [Rc::weak_count]: [weak - 1] never underflows. *)
Theorem act_weak_count hr : act_preserves (AWeakCount hr).
Proof.
  intros s self pc k HI _. cbn [exec_act].
  destruct (resolve_strong s self hr) as [[o l]|] eqn:Er; [|apply act_invalid; exact HI].
  destruct (resolve_strong_ok s self pc k HI hr o l Er) as (b & Hg & _). rewrite Hg.
  rewrite (getb_weak_nz s _ o b HI Hg). apply act_observe; exact HI.
Qed.

(** [Weak::strong_count]: the Weak handle keeps the allocation readable. *)
Theorem act_wstrong_count wr : act_preserves (AWStrongCount wr).
Proof.
  intros s self pc k HI _. cbn [exec_act].
  destruct (resolve_weak s self wr) as [[o|]|] eqn:Er;
    [|apply act_observe; exact HI|apply act_invalid; exact HI].
  destruct (resolve_weak_ok s self pc k HI wr o Er) as (b & Hg). rewrite Hg.
  apply act_observe; exact HI.
Qed.

(** [Weak::weak_count]: likewise, and [weak - 1] never underflows. *)
Theorem act_wweak_count wr : act_preserves (AWWeakCount wr).
Proof.
  intros s self pc k HI _. cbn [exec_act].
  destruct (resolve_weak s self wr) as [[o|]|] eqn:Er;
    [|apply act_observe; exact HI|apply act_invalid; exact HI].
  destruct (resolve_weak_ok s self pc k HI wr o Er) as (b & Hg). rewrite Hg.
  destruct (strong b) as [n|]; [|apply act_observe; exact HI].
  destruct (0 <? n); [|apply act_observe; exact HI].
  rewrite (getb_weak_nz s _ o b HI Hg). apply act_observe; exact HI.
Qed.

(** [Deref]: the value is present.  The only handles to a destroyed object a
    script can name are those in the slots of the value being destroyed, and
    [act_safe] excludes dereferencing those (C01's precondition). *)
Theorem act_deref hr : act_preserves (ADeref hr).
Proof.
  intros s self pc k HI Hsafe. cbn [exec_act].
  destruct (resolve_strong s self hr) as [[o l]|] eqn:Er; [|apply act_invalid; exact HI].
  destruct (resolve_strong_ok s self pc k HI hr o l Er) as (b & Hg & Hc). rewrite Hg.
  destruct Hc as [Hl|(_ & p & Eself & Hdead)].
  - pose proof Hg as Hg'. apply getb_ok in Hg' as [Hb _].
    destruct (inv_shape s _ HI o b Hb) as (S1 & _). destruct (S1 Hl) as (Hv & _).
    destruct (value b) as [q|]; [|congruence]. apply act_observe; exact HI.
  - subst self. cbn [act_safe] in Hsafe. rewrite Hdead in Hsafe. discriminate.
Qed.

(** [Rc::get_mut]: reads both counters of a live object. *)
Theorem act_get_mut r : act_preserves (AGetMut r).
Proof.
  intros s self pc k HI _. cbn [exec_act].
  destruct (reg_get s r) as [o|?|?|?|] eqn:Er; try (apply act_invalid; exact HI).
  destruct (reg_strong_live s self pc k HI o r (or_introl Er)) as (b & Hg & _). rewrite Hg.
  rewrite (getb_weak_nz s _ o b HI Hg). apply act_observe; exact HI.
Qed.

(** a panicking script action: the machine unwinds (handled by the step lemma) *)
Theorem act_panic : act_preserves APanic.
Proof. intros s self pc k HI _. cbn [exec_act act_post]. exact I. Qed.

(** ** allocation *)

Lemma nth_error_snoc_cases {A} (l : list A) x y a : nth_error (l ++ [x]) y = Some a ->
  nth_error l y = Some a \/ (y = length l /\ a = x).
Proof.
  intros H. destruct (Nat.lt_ge_cases y (length l)) as [Hlt|Hge].
  - left. rewrite nth_error_app1 in H by exact Hlt. exact H.
  - right. rewrite nth_error_app2 in H by exact Hge.
    destruct (y - length l)%nat as [|m] eqn:E; cbn in H.
    + injection H as <-. split; [lia|reflexivity].
    + destruct m; discriminate.
Qed.

Lemma nth_error_snoc_old {A} (l : list A) x y a : nth_error l y = Some a -> nth_error (l ++ [x]) y = Some a.
Proof. intros H. rewrite nth_error_app1; [exact H|]. apply nth_error_Some. congruence. Qed.

Lemma nth_error_snoc_none {A} (l : list A) x y : nth_error (l ++ [x]) y = None ->
  nth_error l y = None /\ y <> length l.
Proof.
  intros H. apply nth_error_None in H. rewrite app_length in H. cbn [length] in H.
  split; [apply nth_error_None|]; lia.
Qed.

(** a fresh box records no adoption *)
Lemma lget_snoc h b a l : btable b = [] -> lget (h ++ [b]) a l = lget h a l.
Proof.
  intros Hb. unfold lget. destruct (nth_error h a) as [ba|] eqn:Ea.
  - rewrite (nth_error_snoc_old h b a ba Ea). reflexivity.
  - destruct (nth_error (h ++ [b]) a) as [ba|] eqn:Ea'; [|reflexivity].
    apply nth_error_snoc_cases in Ea' as [Ea'|[_ ->]]; [congruence|]. rewrite Hb. reflexivity.
Qed.

Lemma TblInv_snoc h b : btable b = [] -> TblInv h -> TblInv (h ++ [b]).
Proof.
  intros Hb [Hwf Hsym Hnm Hlp]. split.
  - intros o bo Ho. apply nth_error_snoc_cases in Ho as [Ho|[_ ->]]; [apply (Hwf o bo Ho)|].
    unfold box_wf. rewrite Hb. apply tbl_wf_nil.
  - intros x y. rewrite !lget_snoc by exact Hb. apply Hsym.
  - intros a x kd Hp. rewrite lget_snoc in Hp by exact Hb.
    destruct (Hnm a x kd Hp) as (bx & Hbx & Hl). exists bx. split; [|exact Hl].
    apply nth_error_snoc_old. exact Hbx.
  - intros a x Hp. rewrite lget_snoc in Hp by exact Hb. apply Hlp. exact Hp.
Qed.

(** [Rc::new]: a fresh allocation with one strong handle in a free register.
    Nothing referred to the new index before ([ci_range]): no handle, no
    obligation, no leaked obligation. *)
Lemma Inv_alloc s K dst p :
  Inv s K -> reg_free s dst = true ->
  (forall f, f SEmpty = 0 -> w_payload f p = 0) ->
  Inv (set_reg (set_heap s (heap_of s ++ [new_box p])) dst (RStrong (length (heap_of s)))) K.
Proof.
  intros HI Hfree Hp.
  assert (Hfree' : reg_free (set_heap s (heap_of s ++ [new_box p])) dst = true) by exact Hfree.
  assert (HW : forall f, f SEmpty = 0 ->
     W f (set_reg (set_heap s (heap_of s ++ [new_box p])) dst (RStrong (length (heap_of s)))) K
     = W f s K + f (SStrong (length (heap_of s)))).
  { intros f Hf. rewrite W_set_reg_free by exact Hfree'. rewrite W_alloc.
    rewrite (w_box_value f (new_box p) p eq_refl), (Hp f Hf). cbn [w_reg]. lia. }
  assert (Hheld : forall f, f SEmpty = 0 ->
     w_held f (set_reg (set_heap s (heap_of s ++ [new_box p])) dst (RStrong (length (heap_of s))))
     = w_held f s + f (SStrong (length (heap_of s)))).
  { intros f Hf. generalize (HW f Hf). unfold W. intros H2. lia. }
  assert (Hbt : btable (new_box p) = []) by reflexivity.
  assert (Hlv : live (new_box p) = true) by reflexivity.
  destruct HI as [Hshape Htbl Hcnt Hnd Hin].
  assert (Hnone : nth_error (heap_of s) (length (heap_of s)) = None) by (apply nth_error_None; lia).
  destruct (ci_range s K Hcnt _ Hnone) as (F1 & F2 & F3 & F4 & Hleak).
  split.
  - (* shape *)
    intros y by' Hy. cbn [heap_of set_reg set_heap mk] in Hy.
    apply nth_error_snoc_cases in Hy as [Hy|[_ ->]]; [apply (Hshape y by' Hy)|].
    unfold shape_ok. rewrite Hlv, Hbt. cbn [new_box value links freed strong weak].
    repeat split; try discriminate; try lia.
  - (* tables *)
    cbn [heap_of set_reg set_heap mk]. apply TblInv_snoc; assumption.
  - (* counters *)
    destruct Hcnt as [C1 C2 C3 C4 C5 C6]. split; cbn [heap_of set_reg set_heap mk log].
    + intros y by' m Hy Hm. rewrite HW by reflexivity.
      apply nth_error_snoc_cases in Hy as [Hy|[-> ->]].
      * assert (Hne : length (heap_of s) <> y).
        { intros <-. congruence. }
        rewrite sw_strong_other by exact Hne. rewrite N.add_0_r. apply (C1 y by' m Hy Hm).
      * cbn [new_box strong] in Hm. injection Hm as <-. rewrite F1, sw_strong_self. reflexivity.
    + intros y by' Hy. rewrite HW by reflexivity. rewrite sw_weak_strong, N.add_0_r.
      apply nth_error_snoc_cases in Hy as [Hy|[-> ->]]; [apply (C2 y by' Hy)|].
      unfold liveN. rewrite Hlv, F2, F3, F4, Hleak. reflexivity.
    + intros y by' Hy. apply nth_error_snoc_cases in Hy as [Hy|[-> ->]]; [apply (C3 y by' Hy)|].
      cbn [is_dying new_box strong]. exact F3.
    + intros y by' Hy Hpos. apply nth_error_snoc_cases in Hy as [Hy|[-> ->]]; [apply (C4 y by' Hy Hpos)|].
      lia.
    + intros y Hy. apply nth_error_snoc_none in Hy as [Hy Hne].
      rewrite !HW by reflexivity. destruct (C5 y Hy) as (E1 & E2 & E3 & E4 & E5).
      rewrite sw_weak_strong, sw_strong_other by (intros E; apply Hne; symmetry; exact E).
      repeat split; try lia; assumption.
    + intros y by' Hy Hpos. apply nth_error_snoc_cases in Hy as [Hy|[-> ->]]; [apply (C6 y by' Hy Hpos)|].
      lia.
  - (* no dangling handle *)
    intros y Hy. rewrite Hheld in Hy by reflexivity. cbn [heap_of set_reg set_heap mk].
    destruct (Nat.eq_dec (length (heap_of s)) y) as [<-|Hne].
    + exists (new_box p). split; [apply nth_error_app_new|exact Hlv].
    + rewrite sw_strong_other in Hy by exact Hne. rewrite N.add_0_r in Hy.
      destruct (Hnd y Hy) as (b0 & Hb0 & Hl0). exists b0. split; [|exact Hl0].
      apply nth_error_snoc_old. exact Hb0.
  - (* frames *)
    cbn [heap_of set_reg set_heap mk log]. eapply inert_ok_heap; [|exact Hin]. apply heap_mono_app.
Qed.

(** [Rc::new] with a destructor script: one live object, strong = 1, weak = 1
    (the implicit weak), no adoptions, one handle in [dst]. *)
Theorem exec_new_inv s self pc k dst sc :
  Inv s (ctx self pc k) -> act_post self pc k (exec_new s self dst sc).
Proof.
  intros HI. unfold exec_new.
  destruct (reg_free s dst) eqn:Ef; [|apply act_invalid; exact HI].
  cbn [act_post app]. split; [tauto|]. apply Inv_alloc; auto.
  intros f Hf. apply w_payload_empty. exact Hf.
Qed.

(** [Rc::new] as a script or top-level action *)
Theorem act_new dst : act_preserves (ANew dst).
Proof. intros s self pc k HI _. cbn [exec_act]. apply exec_new_inv; assumption. Qed.

Print Assumptions act_upgrade.
Print Assumptions act_clone_weak.
Print Assumptions act_deref.
Print Assumptions exec_new_inv.
