(** * Script and top-level actions: the statement every per-action lemma
    proves, and what a resolved handle reference tells us under [Inv]. *)
From CR Require Import Base Atomic Machine LinksFacts HeapFacts Tokens InvDef InvLemmas.
Local Open Scope N_scope.

(** the stack as an action sees it: a script runs on top of its own destructor
    frame, a top-level call directly on the rest *)
Definition ctx (self : option payload) (pc : list act) (k : list frame) : list frame :=
  match self with Some p => FRunDtor p pc :: k | None => k end.

Definition act_post (self : option payload) (pc : list act) (k : list frame) (out : aout) : Prop :=
  match out with
  | AO s1 self1 r push =>
      (self = None <-> self1 = None) /\ Inv s1 (push ++ ctx self1 pc k)
  | AHalt h => h = HAbort
  | APanicOut => True
  end.

(** the goal for an action [a] *)
Definition act_preserves (a : act) : Prop :=
  forall s self pc k, Inv s (ctx self pc k) -> act_safe s self a = true ->
    act_post self pc k (exec_act s self a).

Lemma nth_error_total_le {A} (f : A -> N) l i a : nth_error l i = Some a -> f a <= total f l.
Proof. intros H. apply total_in_le. eapply nth_error_In. exact H. Qed.

Lemma w_box_value f b p : value b = Some p -> w_box f b = w_payload f p.
Proof. unfold w_box. intros ->. reflexivity. Qed.

Lemma ctx_weight f self pc pc' k : total (w_frame f) (ctx self pc k) = total (w_frame f) (ctx self pc' k).
Proof. destruct self; reflexivity. Qed.

(** the remaining script of the running destructor does not matter *)
Lemma Inv_ctx_pc s self pc pc' k : Inv s (ctx self pc k) -> Inv s (ctx self pc' k).
Proof.
  destruct self as [p|]; [|tauto]. intros [H1 H2 [C1 C2 C3 C4 C5 C6] H4 H5].
  split; [exact H1|exact H2| |exact H4|exact H5].
  split; [exact C1|exact C2|exact C3|exact C4|exact C5|exact C6].
Qed.

Section Resolve.
Variables (s : state) (self : option payload) (pc : list act) (k : list frame).
Hypothesis HI : Inv s (ctx self pc k).

Lemma reg_token o r : reg_get s r = RStrong o \/ reg_get s r = RRaw o -> 0 < w_held (sw_strong o) s.
Proof.
  intros Hr. assert (Hn : nth_error (regs s) r = Some (reg_get s r)).
  { apply reg_get_some. destruct Hr as [-> | ->]; discriminate. }
  pose proof (nth_error_total_le (w_reg (sw_strong o)) _ _ _ Hn) as Hle.
  unfold w_held. destruct Hr as [E|E]; rewrite E in Hle; cbn [w_reg] in Hle; rewrite sw_strong_self in Hle; lia.
Qed.

(** a strong handle in a register targets a live object *)
Lemma reg_strong_live o r : reg_get s r = RStrong o \/ reg_get s r = RRaw o ->
  exists b, getb (heap_of s) o = Ok b /\ live b = true.
Proof. intros Hr. eapply inv_held_live; [exact HI|]. eapply reg_token; eauto. Qed.

Lemma resolve_owner_spec w ow : resolve_owner s self w = Some ow ->
  match ow with
  | WSelf p => self = Some p /\ w = OSelf
  | WBox o p => exists r b, w = OReg r /\ reg_get s r = RStrong o /\
                  nth_error (heap_of s) o = Some b /\ value b = Some p
  end.
Proof.
  unfold resolve_owner. destruct w as [r|].
  - destruct (reg_get s r) as [o| | | |] eqn:Er; try discriminate.
    destruct (nth_error (heap_of s) o) as [b|] eqn:Eb; [|discriminate].
    destruct (value b) as [p|] eqn:Ev; [|discriminate].
    intros H; injection H as <-. exists r, b. auto.
  - destruct self as [p|]; [|discriminate]. intros H; injection H as <-. auto.
Qed.

Lemma slot_token_held o o' b p i : nth_error (heap_of s) o' = Some b -> value b = Some p ->
  nth_error (slots p) i = Some (SStrong o) -> 0 < w_held (sw_strong o) s.
Proof.
  intros Hb Hv Hs. unfold w_held.
  pose proof (nth_error_total_le (w_box (sw_strong o)) _ _ _ Hb) as H1.
  rewrite (w_box_value _ _ _ Hv) in H1.
  pose proof (nth_error_total_le (sw_strong o) _ _ _ Hs) as H2. rewrite sw_strong_self in H2.
  unfold w_payload in H1. lia.
Qed.

Lemma self_token o p i : nth_error (slots p) i = Some (SStrong o) ->
  0 < w_frame (sw_strong o) (FRunDtor p pc).
Proof.
  intros Hs. cbn [w_frame]. unfold w_payload.
  pose proof (nth_error_total_le (sw_strong o) _ _ _ Hs) as H2. rewrite sw_strong_self in H2. lia.
Qed.

(** a resolved strong handle reference names an allocation that has not been
    released; its object is live unless the reference goes through the dying
    value's own slots *)
Lemma resolve_strong_ok hr o l : resolve_strong s self hr = Some (o, l) ->
  exists b, getb (heap_of s) o = Ok b /\
    (live b = true \/
     (strong b = Uninit /\ exists p, self = Some p /\ href_self_dead s p hr = true)).
Proof.
  unfold resolve_strong. destruct hr as [r|w i].
  - destruct (reg_get s r) as [x| | | |] eqn:Er; try discriminate. intros H; injection H as -> _.
    destruct (reg_strong_live o r (or_introl Er)) as (b & Hb & Hl). exists b. auto.
  - unfold resolve_slot. destruct (resolve_owner s self w) as [ow|] eqn:Eo; [|discriminate].
    destruct (nth_error (slots (owner_payload ow)) i) as [sl|] eqn:Es; [|discriminate].
    destruct sl as [x| |]; try discriminate. intros H; injection H as -> _.
    apply resolve_owner_spec in Eo. destruct ow as [o' p|p]; cbn [owner_payload] in Es.
    + destruct Eo as (r & b' & -> & Hr & Hb' & Hv).
      destruct (inv_held_live s _ HI o (slot_token_held o o' b' p i Hb' Hv Es)) as (b & Hb & Hl).
      exists b. auto.
    + destruct Eo as [Eself ->]. pose proof HI as HI'. rewrite Eself in HI'. cbn [ctx] in HI'.
      destruct (inv_top_token s _ k o HI' (self_token o p i Es)) as (b & Hb & Hc).
      exists b. split; [exact Hb|]. destruct Hc as [Hl|Hu]; [left; exact Hl|right].
      split; [exact Hu|]. exists p. split; [exact Eself|]. cbn [href_self_dead]. rewrite Es.
      apply getb_ok in Hb as [Hn _]. rewrite Hn. rewrite (live_uninit b Hu). reflexivity.
Qed.

(** a resolved Weak handle reference keeps its allocation *)
Lemma weak_slot_token o sl : sl = SWeak (Some o) -> sw_weak o sl = 1.
Proof. intros ->. apply sw_weak_self. Qed.

Lemma resolve_weak_ok hr o : resolve_weak s self hr = Some (Some o) ->
  exists b, getb (heap_of s) o = Ok b.
Proof.
  intros H. eapply inv_weak_token; [exact HI|]. unfold W, w_held.
  unfold resolve_weak in H. destruct hr as [r|w i].
  - destruct (reg_get s r) as [|x| | |] eqn:Er; try discriminate. injection H as ->.
    assert (Hn : nth_error (regs s) r = Some (RWeak (Some o))).
    { rewrite <- Er. apply reg_get_some. rewrite Er. discriminate. }
    pose proof (nth_error_total_le (w_reg (sw_weak o)) _ _ _ Hn) as Hle.
    cbn [w_reg] in Hle. rewrite sw_weak_self in Hle. lia.
  - unfold resolve_slot in H. destruct (resolve_owner s self w) as [ow|] eqn:Eo; [|discriminate].
    destruct (nth_error (slots (owner_payload ow)) i) as [sl|] eqn:Es; [|discriminate].
    destruct sl as [|x|]; try discriminate. injection H as ->.
    apply resolve_owner_spec in Eo. destruct ow as [o' p|p]; cbn [owner_payload] in Es.
    + destruct Eo as (r & b' & -> & Hr & Hb' & Hv).
      pose proof (nth_error_total_le (w_box (sw_weak o)) _ _ _ Hb') as H1.
      rewrite (w_box_value _ _ _ Hv) in H1. unfold w_payload in H1.
      pose proof (nth_error_total_le (sw_weak o) _ _ _ Es) as H2. rewrite sw_weak_self in H2. lia.
    + destruct Eo as [Eself ->]. rewrite Eself. cbn [ctx total w_frame]. unfold w_payload.
      pose proof (nth_error_total_le (sw_weak o) _ _ _ Es) as H2. rewrite sw_weak_self in H2. lia.
Qed.

End Resolve.
