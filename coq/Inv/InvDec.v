(** * The checker [invb] decides the invariant [Inv]; [discb] decides [disc]
    on well-formed heaps. *)
From CR Require Import Base Atomic Machine LinksFacts HeapFacts Tokens InvDef StepInv Recorded.
Local Open Scope N_scope.

(** ** generic *)
Lemma Nall_spec n f : Nall n f = true <-> forall i, (i < n)%nat -> f i = true.
Proof.
  unfold Nall. rewrite forallb_forall. split.
  - intros H i Hi. apply H. apply in_seq. lia.
  - intros H i Hi. apply in_seq in Hi. apply H. lia.
Qed.

Lemma forallb_nth {A} (f : A -> bool) l :
  forallb f l = true <-> forall i a, nth_error l i = Some a -> f a = true.
Proof.
  rewrite forallb_forall. split.
  - intros H i a Ha. apply H. eapply nth_error_In; eauto.
  - intros H a Ha. destruct (In_nth_error _ _ Ha) as (i & Hi). eauto.
Qed.

Lemma nth_lt {A} (l : list A) i a : nth_error l i = Some a -> (i < length l)%nat.
Proof. intros H. apply nth_error_Some. congruence. Qed.

(** ** clause 1: lifecycle *)
Lemma shape_okb_spec b : shape_okb b = true <-> shape_ok b.
Proof.
  destruct b as [st w lk ta v fr]. unfold shape_okb, shape_ok, live, btable.
  cbn [strong weak links value freed].
  destruct (N.eqb_spec w 0) as [Hw|Hw];
  destruct st as [[|p]|], v as [pl|], lk as [[|e t]|], fr; cbn;
    (split; [intros H; try discriminate H; repeat split; intros; try congruence; try discriminate; try lia
            | intros (H1 & H2 & H3 & H4); try reflexivity; exfalso;
              try (destruct H1 as (? & ? & ?); [reflexivity|]; congruence);
              try (destruct H2 as (? & ?); [reflexivity|]; congruence);
              try (specialize (H3 eq_refl); congruence);
              try (destruct H4 as [H4 H5]; first [specialize (H4 eq_refl); lia | specialize (H5 Hw); congruence])]).
Qed.

Lemma shape_all_spec h :
  forallb shape_okb h = true <-> forall o b, nth_error h o = Some b -> shape_ok b.
Proof.
  rewrite forallb_nth. split; intros H o b Hb; apply shape_okb_spec; eauto.
Qed.

(** ** clause 2: tables *)
Lemma existsb_link x l : existsb (link_eqb x) l = true <-> In x l.
Proof.
  rewrite existsb_exists. split.
  - intros (y & Hy & E). apply link_eqb_eq in E. subst; auto.
  - intros H. exists x. split; auto. apply link_eqb_refl.
Qed.

Lemma nodupb_spec l : nodupb l = true <-> NoDup l.
Proof.
  induction l as [|x l IH]; cbn [nodupb].
  - split; auto. constructor.
  - rewrite andb_true_iff, negb_true_iff, IH. split.
    + intros [H1 H2]. constructor; auto. intros Hin. apply existsb_link in Hin. congruence.
    + intros H. inversion H; subst. split; auto.
      destruct (existsb (link_eqb x) l) eqn:E; auto. apply existsb_link in E. contradiction.
Qed.

Lemma tbl_wfb_spec t : tbl_wfb t = true <-> tbl_wf t.
Proof.
  unfold tbl_wfb, tbl_wf, keys. rewrite andb_true_iff, nodupb_spec, forallb_forall, Forall_forall.
  split; intros [H1 H2]; split; auto; intros e He; specialize (H2 e He);
    [apply N.ltb_lt in H2|apply N.ltb_lt]; auto.
Qed.

Lemma heap_wfb_spec h : forallb (fun b => tbl_wfb (btable b)) h = true <-> heap_wf h.
Proof.
  rewrite forallb_nth. unfold heap_wf, box_wf.
  split; intros H o b Hb; apply tbl_wfb_spec; eauto.
Qed.

Definition entry_okb (h : heap) (a : oid) (e : link * N) : bool :=
  match nth_error h (fst (fst e)) with Some bx => live bx | None => false end &&
  match snd (fst e) with Loop => Nat.eqb (fst (fst e)) a | _ => true end.

Definition namesb (h : heap) : bool :=
  Nall (length h) (fun a =>
     match nth_error h a with
     | Some ba => forallb (entry_okb h a) (btable ba)
     | None => true end).

Definition symb (h : heap) : bool :=
  Nall (length h) (fun a => Nall (length h) (fun b =>
     lget h a (b, Fwd) =? lget h b (a, Bwd))).

Lemma tblinvb_split h :
  tblinvb h = forallb (fun b => tbl_wfb (btable b)) h && symb h && namesb h.
Proof. reflexivity. Qed.

Lemma namesb_spec h :
  namesb h = true <->
  forall a ba, nth_error h a = Some ba -> forallb (entry_okb h a) (btable ba) = true.
Proof.
  unfold namesb. rewrite Nall_spec. split.
  - intros H a ba Ha. specialize (H a (nth_lt _ _ _ Ha)). cbv beta in H. rewrite Ha in H. exact H.
  - intros H a Hlt. destruct (nth_error h a) as [ba|] eqn:Ha; auto.
Qed.

Lemma namesb_sound h : namesb h = true ->
  names_live h /\ (forall a x, 0 < lget h a (x, Loop) -> x = a).
Proof.
  rewrite namesb_spec. intros H. split.
  - intros a x kd Hpos. unfold lget in Hpos.
    destruct (nth_error h a) as [ba|] eqn:Ha; cbv beta iota in Hpos; [|lia].
    apply tbl_get_In in Hpos. specialize (H a ba Ha). rewrite forallb_forall in H.
    specialize (H _ Hpos). unfold entry_okb in H. cbn [fst snd] in H.
    apply andb_true_iff in H as [H _].
    destruct (nth_error h x) as [bx|]; [exists bx; auto|discriminate].
  - intros a x Hpos. unfold lget in Hpos.
    destruct (nth_error h a) as [ba|] eqn:Ha; cbv beta iota in Hpos; [|lia].
    apply tbl_get_In in Hpos. specialize (H a ba Ha). rewrite forallb_forall in H.
    specialize (H _ Hpos). unfold entry_okb in H. cbn [fst snd] in H.
    apply andb_true_iff in H as [_ H]. apply Nat.eqb_eq in H. exact H.
Qed.

Lemma namesb_complete h : heap_wf h -> names_live h ->
  (forall a x, 0 < lget h a (x, Loop) -> x = a) -> namesb h = true.
Proof.
  intros Hwf Hn Hl. apply namesb_spec. intros a ba Ha. apply forallb_forall.
  intros [[x kd] c] He.
  assert (Hpos : 0 < lget h a (x, kd)).
  { unfold lget. rewrite Ha. apply tbl_get_in_pos; [exact (Hwf a ba Ha)|].
    unfold keys. apply in_map_iff. exists (x, kd, c). auto. }
  unfold entry_okb. cbn [fst snd]. destruct (Hn a x kd Hpos) as (bx & -> & ->).
  cbn [andb]. destruct kd; auto. apply Nat.eqb_eq. apply Hl. exact Hpos.
Qed.

Lemma lget_out_l h a l : nth_error h a = None -> lget h a l = 0.
Proof. unfold lget. intros ->. reflexivity. Qed.

Lemma lget_out_r h a x kd : names_live h -> nth_error h x = None -> lget h a (x, kd) = 0.
Proof.
  intros Hn Hx. destruct (N.eq_dec (lget h a (x, kd)) 0) as [E|E]; auto.
  destruct (Hn a x kd) as (bx & Hbx & _); [apply N.neq_0_lt_0; exact E|congruence].
Qed.

Lemma symb_sound h : names_live h -> symb h = true -> symmetric h.
Proof.
  intros Hn H a b. unfold symb in H. rewrite Nall_spec in H.
  destruct (lt_dec a (length h)) as [Ha|Ha]; [destruct (lt_dec b (length h)) as [Hb|Hb]|].
  - specialize (H a Ha). cbv beta in H. rewrite Nall_spec in H. specialize (H b Hb).
    apply N.eqb_eq in H. exact H.
  - assert (nth_error h b = None) by (apply nth_error_None; lia).
    transitivity 0; [apply lget_out_r|symmetry; apply lget_out_l]; auto.
  - assert (nth_error h a = None) by (apply nth_error_None; lia).
    transitivity 0; [apply lget_out_l|symmetry; apply lget_out_r]; auto.
Qed.

Lemma symb_complete h : symmetric h -> symb h = true.
Proof.
  intros H. unfold symb. apply Nall_spec. intros a _. apply Nall_spec. intros b _.
  apply N.eqb_eq. apply H.
Qed.

Lemma tblinvb_sound h : tblinvb h = true -> TblInv h.
Proof.
  rewrite tblinvb_split, !andb_true_iff. intros [[H1 H2] H3].
  apply namesb_sound in H3 as [Hn Hl]. constructor; auto.
  - apply heap_wfb_spec; exact H1.
  - apply symb_sound; auto.
Qed.

Lemma tblinvb_complete h : TblInv h -> tblinvb h = true.
Proof.
  intros [Hwf Hs Hn Hl]. rewrite tblinvb_split, !andb_true_iff. repeat split.
  - apply heap_wfb_spec; exact Hwf.
  - apply symb_complete; exact Hs.
  - apply namesb_complete; auto.
Qed.

(** ** clause 3: counters of existing boxes *)
Definition cnt_okb (s : state) (k : list frame) (o : oid) (b : box) : bool :=
  (match strong b with Cnt n => n =? W (sw_strong o) s k | Uninit => true end) &&
  (weak b =? W (sw_weak o) s k + liveN b + n_after o k + n_fin o k + n_leak o (log s)) &&
  (if is_dying b then n_after o k + n_leak o (log s) =? 1 else n_after o k =? 0) &&
  (if 0 <? n_fin o k then
     match strong b, links b with Uninit, None => true | _, _ => false end else true) &&
  (if 0 <? n_leak o (log s) then is_uninit (strong b) else true).

Definition cnt_ok (s : state) (k : list frame) (o : oid) (b : box) : Prop :=
  (forall n, strong b = Cnt n -> n = W (sw_strong o) s k) /\
  weak b = W (sw_weak o) s k + liveN b + n_after o k + n_fin o k + n_leak o (log s) /\
  (if is_dying b then n_after o k + n_leak o (log s) = 1 else n_after o k = 0) /\
  (0 < n_fin o k -> strong b = Uninit /\ links b = None) /\
  (0 < n_leak o (log s) -> strong b = Uninit).

Lemma countinvb_spec s k :
  countinvb s k = true <->
  forall o b, nth_error (heap_of s) o = Some b -> cnt_okb s k o b = true.
Proof.
  unfold countinvb. rewrite Nall_spec. split.
  - intros H o b Hb. specialize (H o (nth_lt _ _ _ Hb)). cbv beta in H. rewrite Hb in H. exact H.
  - intros H o Hlt. destruct (nth_error (heap_of s) o) as [b|] eqn:Hb; auto. apply (H o b Hb).
Qed.

Lemma cnt_okb_spec s k o b : cnt_okb s k o b = true <-> cnt_ok s k o b.
Proof.
  unfold cnt_okb, cnt_ok. rewrite !andb_true_iff.
  assert (E1 : match strong b with Cnt n => n =? W (sw_strong o) s k | Uninit => true end = true <->
               forall n, strong b = Cnt n -> n = W (sw_strong o) s k).
  { destruct (strong b) as [n|]; split; intros H.
    - intros m E. injection E as <-. apply N.eqb_eq; exact H.
    - apply N.eqb_eq. apply H. reflexivity.
    - intros m E. discriminate E.
    - reflexivity. }
  assert (E3 : (if is_dying b then n_after o k + n_leak o (log s) =? 1 else n_after o k =? 0) = true <->
               (if is_dying b then n_after o k + n_leak o (log s) = 1 else n_after o k = 0)).
  { destruct (is_dying b); apply N.eqb_eq. }
  assert (E4 : (if 0 <? n_fin o k then
                  match strong b, links b with Uninit, None => true | _, _ => false end else true) = true <->
               (0 < n_fin o k -> strong b = Uninit /\ links b = None)).
  { destruct (N.ltb_spec 0 (n_fin o k)) as [H|H].
    - destruct (strong b), (links b); split; intros H'; try discriminate H'; auto;
        destruct (H' H); discriminate.
    - split; auto. intros _ H'. lia. }
  assert (E5 : (if 0 <? n_leak o (log s) then is_uninit (strong b) else true) = true <->
               (0 < n_leak o (log s) -> strong b = Uninit)).
  { destruct (N.ltb_spec 0 (n_leak o (log s))) as [H|H].
    - destruct (strong b); cbn [is_uninit]; split; intros H'; try discriminate H'; auto.
    - split; auto. intros _ H'. lia. }
  rewrite E1, E3, E4, E5, N.eqb_eq. tauto.
Qed.

(** ** clause 4: every oid that is mentioned exists *)
Lemma total_zero_fm {A} (g : A -> N) (oids : A -> list oid) (o : oid) l :
  (forall a, ~ In o (oids a) -> g a = 0) -> ~ In o (flat_map oids l) -> total g l = 0.
Proof.
  intros H Hn. apply total_zero. intros a Ha. apply H. intros Hin. apply Hn.
  apply in_flat_map. eauto.
Qed.

Lemma total_pos_fm {A} (g : A -> N) (oids : A -> list oid) (o : oid) l :
  (forall a, In o (oids a) -> 0 < g a) -> In o (flat_map oids l) -> 0 < total g l.
Proof.
  intros H Hin. apply in_flat_map in Hin as (a & Ha & Ho).
  pose proof (total_in_le g l a Ha). specialize (H a Ho). lia.
Qed.

(** a slot weight that vanishes on slots not mentioning [o] *)
Definition vanishes (o : oid) (f : slot -> N) : Prop :=
  forall sl, ~ In o (slot_oids sl) -> f sl = 0.

Lemma sw_strong_vanishes o : vanishes o (sw_strong o).
Proof.
  intros [x|[x|]|]; cbn [slot_oids sw_strong In]; auto. intros H.
  destruct (Nat.eqb_spec x o); auto. tauto.
Qed.

Lemma sw_weak_vanishes o : vanishes o (sw_weak o).
Proof.
  intros [x|[x|]|]; cbn [slot_oids sw_weak In]; auto. intros H.
  destruct (Nat.eqb_spec x o); auto. tauto.
Qed.

Section Vanish.
  Variables (o : oid) (f : slot -> N).
  Hypothesis Hf : vanishes o f.

  Lemma v_slots ss : ~ In o (flat_map slot_oids ss) -> total f ss = 0.
  Proof. apply total_zero_fm. exact Hf. Qed.

  Lemma v_payload p : ~ In o (payload_oids p) -> w_payload f p = 0.
  Proof. apply v_slots. Qed.

  Lemma v_reg r : ~ In o (reg_oids r) -> w_reg f r = 0.
  Proof.
    destruct r as [x|[x|]|x|p|]; cbn [reg_oids w_reg]; intros H; auto;
      try (apply Hf; exact H). apply v_payload. exact H.
  Qed.

  Lemma v_box b :
    ~ In o (match value b with Some p => payload_oids p | None => [] end) -> w_box f b = 0.
  Proof. unfold w_box. destruct (value b); auto. apply v_payload. Qed.

  Lemma v_frame fr : ~ In o (frame_oids fr) -> w_frame f fr = 0.
  Proof.
    destruct fr; cbn [frame_oids w_frame]; intros H; auto;
      try (apply Hf; exact H); try (apply v_payload; exact H); try (apply v_slots; exact H).
    revert H. apply total_zero_fm. intros e. apply v_payload.
  Qed.

  Lemma v_W s k : ~ In o (all_oids s k) -> W f s k = 0.
  Proof.
    unfold all_oids, W, w_held. rewrite !in_app_iff. intros H.
    rewrite (total_zero_fm (w_reg f) reg_oids o),
      (total_zero_fm (w_box f)
         (fun b => match value b with Some p => payload_oids p | None => [] end) o (heap_of s)),
      (total_zero_fm (w_frame f) frame_oids o); try tauto; auto using v_reg, v_box, v_frame.
  Qed.
End Vanish.

Lemma count_nat_zero o l : ~ In o l -> count_nat o l = 0.
Proof.
  induction l as [|x l IH]; cbn [count_nat In]; intros H; auto.
  destruct (Nat.eqb_spec x o); [tauto|]. rewrite IH; tauto.
Qed.

Lemma count_nat_pos o l : In o l -> 0 < count_nat o l.
Proof.
  induction l as [|x l IH]; cbn [count_nat In]; intros H; [tauto|].
  destruct (Nat.eqb_spec x o); [lia|]. destruct H; [congruence|]. specialize (IH H). lia.
Qed.

(** an oid that nothing mentions has no handle and no obligation *)
Lemma unmentioned_zero s k o : ~ In o (all_oids s k) ->
  W (sw_strong o) s k = 0 /\ W (sw_weak o) s k = 0 /\ n_after o k = 0 /\ n_fin o k = 0 /\
  n_leak o (log s) = 0.
Proof.
  intros H. split; [|split]; [apply (v_W o); auto using sw_strong_vanishes
                            |apply (v_W o); auto using sw_weak_vanishes|].
  unfold all_oids in H. rewrite !in_app_iff in H. repeat split.
  - apply (total_zero_fm _ frame_oids o); [|tauto].
    intros [] Hn; cbn [f_after frame_oids In] in *; auto.
    destruct (Nat.eqb_spec o0 o); auto. tauto.
  - apply (total_zero_fm _ frame_oids o); [|tauto].
    intros [] Hn; cbn [f_fin frame_oids In] in *; auto. apply count_nat_zero; exact Hn.
  - apply (total_zero_fm _ (fun e => match e with EvLeak o => [o] | _ => [] end) o); [|tauto].
    intros [] Hn; cbn [e_leak In] in *; auto.
    destruct (Nat.eqb_spec o0 o); auto. tauto.
Qed.

(** conversely, an oid that is mentioned has a handle or an obligation *)
Definition sw_any (o : oid) (sl : slot) : N := sw_strong o sl + sw_weak o sl.

Lemma total_add {A} (f g : A -> N) l : total (fun a => f a + g a) l = total f l + total g l.
Proof. induction l as [|a l IH]; cbn [total]; [reflexivity|]. rewrite IH. lia. Qed.

Lemma slot_pos o sl : In o (slot_oids sl) -> 0 < sw_any o sl.
Proof.
  unfold sw_any. destruct sl as [x|[x|]|]; cbn [slot_oids sw_strong sw_weak In]; try tauto;
    intros [->|[]]; rewrite Nat.eqb_refl; lia.
Qed.

Lemma slots_pos o ss : In o (flat_map slot_oids ss) ->
  0 < total (sw_strong o) ss + total (sw_weak o) ss.
Proof.
  intros H. rewrite <- total_add. revert H. apply total_pos_fm. apply slot_pos.
Qed.

Lemma payload_pos o p : In o (payload_oids p) ->
  0 < w_payload (sw_strong o) p + w_payload (sw_weak o) p.
Proof. apply slots_pos. Qed.

Lemma reg_pos o r : In o (reg_oids r) -> 0 < w_reg (sw_strong o) r + w_reg (sw_weak o) r.
Proof.
  destruct r as [x|[x|]|x|p|]; cbn [reg_oids w_reg].
  - apply (slot_pos o (SStrong x)).
  - apply (slot_pos o (SWeak (Some x))).
  - intros [].
  - apply (slot_pos o (SStrong x)).
  - apply payload_pos.
  - intros [].
Qed.

Lemma box_pos o b :
  In o (match value b with Some p => payload_oids p | None => [] end) ->
  0 < w_box (sw_strong o) b + w_box (sw_weak o) b.
Proof. unfold w_box. destruct (value b); [apply payload_pos|intros []]. Qed.

Lemma frame_pos o fr : In o (frame_oids fr) ->
  0 < w_frame (sw_strong o) fr + w_frame (sw_weak o) fr + f_after o fr + f_fin o fr.
Proof.
  destruct fr; cbn [frame_oids w_frame f_after f_fin In]; try tauto; intros H.
  - destruct H as [->|[]]. cbn [sw_strong]. rewrite Nat.eqb_refl. lia.
  - apply payload_pos in H. lia.
  - apply payload_pos in H. lia.
  - apply slots_pos in H. lia.
  - destruct H as [->|[]]. rewrite Nat.eqb_refl. lia.
  - assert (0 < total (fun e => w_inner (sw_strong o) e + w_inner (sw_weak o) e) es).
    { revert H. apply total_pos_fm. intros e. apply payload_pos. }
    rewrite total_add in H0. lia.
  - apply count_nat_pos in H. lia.
Qed.

Lemma mentioned_pos s k o : In o (all_oids s k) ->
  0 < W (sw_strong o) s k + W (sw_weak o) s k + n_after o k + n_fin o k + n_leak o (log s).
Proof.
  unfold all_oids, W, w_held, n_after, n_fin, n_leak. rewrite !in_app_iff.
  intros [H|[H|[H|H]]].
  - assert (0 < total (fun r => w_reg (sw_strong o) r + w_reg (sw_weak o) r) (regs s)).
    { revert H. apply total_pos_fm. apply reg_pos. }
    rewrite total_add in H0. lia.
  - assert (0 < total (fun b => w_box (sw_strong o) b + w_box (sw_weak o) b) (heap_of s)).
    { revert H. apply total_pos_fm. apply box_pos. }
    rewrite total_add in H0. lia.
  - assert (0 < total (fun fr => w_frame (sw_strong o) fr + w_frame (sw_weak o) fr
                                 + f_after o fr + f_fin o fr) k).
    { revert H. apply total_pos_fm. apply frame_pos. }
    rewrite !total_add in H0. lia.
  - assert (0 < total (e_leak o) (log s)); [|lia].
    revert H. apply total_pos_fm. intros [] Hin; cbn [In e_leak] in *; try tauto.
    destruct Hin as [->|[]]. rewrite Nat.eqb_refl. lia.
Qed.

(** in particular: a positive weight means the oid is mentioned *)
Lemma W_pos_mentioned s k o :
  0 < W (sw_strong o) s k \/ 0 < W (sw_weak o) s k -> In o (all_oids s k).
Proof.
  intros H. destruct (in_dec Nat.eq_dec o (all_oids s k)) as [Hin|Hn]; auto.
  destruct (unmentioned_zero s k o Hn) as (E1 & E2 & _). lia.
Qed.

Definition range_ok (s : state) (k : list frame) : Prop :=
  forall o, nth_error (heap_of s) o = None ->
    W (sw_strong o) s k = 0 /\ W (sw_weak o) s k = 0 /\ n_after o k = 0 /\ n_fin o k = 0 /\
    n_leak o (log s) = 0.

Lemma rangeb_spec s k : rangeb s k = true <-> range_ok s k.
Proof.
  unfold rangeb, range_ok. rewrite forallb_forall. split.
  - intros H o Ho. apply unmentioned_zero. intros Hin. specialize (H o Hin).
    apply Nat.ltb_lt in H. apply nth_error_None in Ho. lia.
  - intros H o Hin. apply Nat.ltb_lt. destruct (nth_error (heap_of s) o) as [b|] eqn:Hb.
    + eapply nth_lt; eauto.
    + pose proof (mentioned_pos s k o Hin). destruct (H o Hb) as (E1 & E2 & E3 & E4 & E5). lia.
Qed.

Lemma countinv_iff s k :
  CountInv s k <->
  (forall o b, nth_error (heap_of s) o = Some b -> cnt_ok s k o b) /\ range_ok s k.
Proof.
  split.
  - intros [H1 H2 H3 H4 H5 H6]. split; [|exact H5]. intros o b Hb. unfold cnt_ok. split; [|split; [|split; [|split]]].
    + intros n E. eapply H1; eauto.
    + eapply H2; eauto.
    + apply (H3 o b Hb).
    + apply (H4 o b Hb).
    + apply (H6 o b Hb).
  - intros [H R]. constructor; try exact R; intros o b; intros; destruct (H o b) as (C1 & C2 & C3 & C4 & C5); auto.
Qed.

(** ** clause 5: no dangling handle (out-of-range oids are excluded by clause 4) *)
Lemma nodanglingb_sound s k : range_ok s k -> nodanglingb s = true -> nodangling s.
Proof.
  intros R H o Hpos. unfold nodanglingb in H. rewrite Nall_spec in H.
  destruct (nth_error (heap_of s) o) as [b|] eqn:Hb.
  - specialize (H o (nth_lt _ _ _ Hb)). cbv beta in H. rewrite Hb in H.
    apply N.ltb_lt in Hpos. rewrite Hpos in H. exists b. auto.
  - destruct (R o Hb) as (E & _). unfold W in E. lia.
Qed.

Lemma nodanglingb_complete s : nodangling s -> nodanglingb s = true.
Proof.
  intros H. apply Nall_spec. intros o _.
  destruct (N.ltb_spec 0 (w_held (sw_strong o) s)) as [Hp|Hp]; [|reflexivity].
  destruct (H o Hp) as (b & -> & ->). reflexivity.
Qed.

(** ** clause 6: handles owned by frames *)
Lemma inert_okb_sound h lg k :
  (forall o f, In f k -> 0 < w_frame (sw_strong o) f -> (o < length h)%nat) ->
  inert_okb h lg k = true -> inert_ok h lg k.
Proof.
  induction k as [|f k IH]; cbn [inert_okb inert_ok]; intros R H; [exact I|].
  apply andb_true_iff in H as [H1 H2]. split; [|apply IH; [|exact H2]].
  - intros o Hpos. rewrite Nall_spec in H1.
    specialize (H1 o (R o f (or_introl eq_refl) Hpos)). cbv beta in H1.
    apply N.ltb_lt in Hpos. rewrite Hpos in H1.
    destruct (nth_error h o) as [b|]; [|discriminate]. exists b. split; [reflexivity|].
    apply orb_true_iff in H1 as [H1|H1]; [left; exact H1|right].
    apply andb_true_iff in H1 as [U P]. apply N.ltb_lt in P.
    destruct (strong b); [discriminate|]. auto.
  - intros o f' Hin. apply R. right. exact Hin.
Qed.

Lemma inert_okb_complete h lg k : inert_ok h lg k -> inert_okb h lg k = true.
Proof.
  induction k as [|f k IH]; cbn [inert_okb inert_ok]; [reflexivity|].
  intros [H1 H2]. apply andb_true_iff. split; [|apply IH; exact H2].
  apply Nall_spec. intros o _.
  destruct (N.ltb_spec 0 (w_frame (sw_strong o) f)) as [Hp|Hp]; [|reflexivity].
  destruct (H1 o Hp) as (b & -> & [L|[U P]]).
  - rewrite L. reflexivity.
  - rewrite U. cbn [is_uninit]. apply N.ltb_lt in P. rewrite P. apply orb_true_r.
Qed.

Lemma range_frames s k : range_ok s k ->
  forall o f, In f k -> 0 < w_frame (sw_strong o) f -> (o < length (heap_of s))%nat.
Proof.
  intros R o f Hin Hpos. destruct (nth_error (heap_of s) o) as [b|] eqn:Hb.
  - eapply nth_lt; eauto.
  - destruct (R o Hb) as (E & _). unfold W in E.
    pose proof (total_in_le (w_frame (sw_strong o)) k f Hin). lia.
Qed.

(** ** the checker decides the invariant *)
Lemma invb_zero s k :
  invb s k = 0%nat <->
  forallb shape_okb (heap_of s) = true /\ tblinvb (heap_of s) = true /\
  countinvb s k = true /\ rangeb s k = true /\ nodanglingb s = true /\
  inert_okb (heap_of s) (log s) k = true.
Proof.
  unfold invb.
  destruct (forallb shape_okb (heap_of s)), (tblinvb (heap_of s)), (countinvb s k),
    (rangeb s k), (nodanglingb s), (inert_okb (heap_of s) (log s) k); cbn [negb];
    split; try discriminate; intuition discriminate.
Qed.

Theorem invb_sound s k : invb s k = 0%nat -> Inv s k.
Proof.
  rewrite invb_zero. intros (H1 & H2 & H3 & H4 & H5 & H6).
  apply rangeb_spec in H4. constructor.
  - apply shape_all_spec; exact H1.
  - apply tblinvb_sound; exact H2.
  - apply countinv_iff. split; [|exact H4].
    intros o b Hb. apply cnt_okb_spec. revert o b Hb. apply countinvb_spec. exact H3.
  - apply (nodanglingb_sound s k); assumption.
  - apply inert_okb_sound; [apply range_frames; exact H4|exact H6].
Qed.

Theorem invb_complete s k : Inv s k -> invb s k = 0%nat.
Proof.
  intros [H1 H2 H3 H4 H5]. apply countinv_iff in H3 as [H3 R]. apply invb_zero.
  split; [|split; [|split; [|split; [|split]]]].
  - apply shape_all_spec; exact H1.
  - apply tblinvb_complete; exact H2.
  - apply countinvb_spec. intros o b Hb. apply cnt_okb_spec. exact (H3 o b Hb).
  - apply rangeb_spec; exact R.
  - apply nodanglingb_complete; exact H4.
  - apply inert_okb_complete; exact H5.
Qed.

Corollary invb_iff s k : invb s k = 0%nat <-> Inv s k.
Proof. split; [apply invb_sound|apply invb_complete]. Qed.

Corollary Inv_dec s k : {Inv s k} + {~ Inv s k}.
Proof.
  destruct (Nat.eq_dec (invb s k) 0) as [E|E].
  - left. apply invb_sound; exact E.
  - right. intros H. apply E. apply invb_complete; exact H.
Defined.

(** ** the discipline predicate *)

(** [discb] reads the table entries, [disc] reads [tbl_get]: they agree when an
    entry cannot be shadowed by an earlier entry under the same key *)
Definition keys_nodup (h : heap) : Prop :=
  forall o b, nth_error h o = Some b -> NoDup (keys (btable b)).

Lemma heap_wf_keys_nodup h : heap_wf h -> keys_nodup h.
Proof. intros H o b Hb. exact (proj1 (H o b Hb)). Qed.

Lemma disc_discb_nodup h : keys_nodup h -> disc h -> discb h = true.
Proof.
  intros Hnd H. unfold discb. apply forallb_nth. intros a b Hb.
  destruct (value b) as [p|] eqn:Hv; [|reflexivity].
  apply forallb_forall. intros [[y kd] c] He. destruct kd; try reflexivity.
  apply N.leb_le. pose proof (H a b p Hb Hv y) as E. unfold lget in E. rewrite Hb in E.
  rewrite (tbl_get_entry _ _ _ (Hnd a b Hb) He) in E. exact E.
Qed.

Lemma disc_discb h : heap_wf h -> disc h -> discb h = true.
Proof. intros Hwf. apply disc_discb_nodup. apply heap_wf_keys_nodup; exact Hwf. Qed.

Theorem discb_iff h : heap_wf h -> (discb h = true <-> disc h).
Proof. intros Hwf. split; [apply discb_disc|apply disc_discb; exact Hwf]. Qed.

Corollary disc_dec h : heap_wf h -> {disc h} + {~ disc h}.
Proof.
  intros Hwf. destruct (discb h) eqn:E.
  - left. apply discb_disc; exact E.
  - right. intros H. apply (disc_discb h Hwf) in H. congruence.
Defined.

(** the hypothesis cannot be dropped: a shadowed entry is read by [discb] but
    not by [disc] *)
Definition shadow_heap : heap :=
  [ {| strong := Cnt 1; weak := 1; links := Some [((0%nat, Fwd), 0); ((0%nat, Fwd), 5)];
       talloc := true; value := Some {| pid := 0; slots := []; script := [] |};
       freed := false |} ].

Example shadow_separates : disc shadow_heap /\ discb shadow_heap = false.
Proof.
  split; [|reflexivity]. intros a b p Hb Hv y.
  destruct a as [|a]; [|destruct a; discriminate Hb].
  injection Hb as <-. injection Hv as <-. unfold lget. cbn [nth_error shadow_heap btable links tbl_get].
  unfold link_eqb. cbn [fst snd kind_eqb]. rewrite andb_true_r.
  destruct (Nat.eqb y 0); cbn [slots total]; lia.
Qed.

(** ** the checker at work: a two-object cycle *)
Definition cyc_hist : list (op * list oid) :=
  [ (ONewS 0 [], []); (ONewS 1 [], []);
    (OAct (AClone (HReg 0) 2), []); (OAct (AStore 2 (OReg 1) 0), []);
    (OAct (AAdopt (HReg 1) (HSlot (OReg 1) 0)), []);
    (OAct (AClone (HReg 1) 3), []); (OAct (AStore 3 (OReg 0) 0), []);
    (OAct (AAdopt (HReg 0) (HSlot (OReg 0) 0)), []);
    (OAct (ADrop 0), []) ].

Definition cyc_state : state := fst (run_history 100 init_state cyc_hist).

(** the reachable state satisfies the invariant, by computation *)
Example cyc_invb : invb cyc_state [] = 0%nat.
Proof. vm_compute. reflexivity. Qed.

Example cyc_Inv : Inv cyc_state [].
Proof. apply invb_sound. vm_compute. reflexivity. Qed.

(** and so does every configuration of the teardown of the cycle (the last
    outside handle is dropped; 25 steps cover the whole run) *)
Definition cyc_teardown (n : nat) : nat :=
  match run [] n {| st := set_reg cyc_state 1 REmpty; stack := [FDropStrong 1%nat]; unw := false |} with
  | Running c => invb (st c) (stack c)
  | Finished s _ => invb s []
  | Halted _ _ => 99%nat
  end.

Example cyc_teardown_invb : forallb (fun n => Nat.eqb (cyc_teardown n) 0) (seq 0 25) = true.
Proof. vm_compute. reflexivity. Qed.

(** corrupted states are rejected with the number of the violated clause:
    a handle to an allocation that never existed (clause 4), a forged handle
    to an existing one (clause 3), a forgotten handle (clause 3) *)
Example corrupt_range : invb (set_reg cyc_state 5 (RStrong 7%nat)) [] = 4%nat.
Proof. vm_compute. reflexivity. Qed.

Example corrupt_forged : invb (set_reg cyc_state 5 (RStrong 0%nat)) [] = 3%nat.
Proof. vm_compute. reflexivity. Qed.

Example corrupt_forgotten : invb (set_reg cyc_state 1 REmpty) [] = 3%nat.
Proof. vm_compute. reflexivity. Qed.

Example corrupt_not_Inv : ~ Inv (set_reg cyc_state 5 (RStrong 7%nat)) [].
Proof. intros H. apply invb_complete in H. vm_compute in H. discriminate H. Qed.

Print Assumptions invb_sound.
Print Assumptions invb_complete.
Print Assumptions Inv_dec.
Print Assumptions discb_iff.
