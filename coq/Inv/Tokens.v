(** * Tokens: who owns the strong and Weak handles of a configuration.

    Every handle has exactly one owner: a register, a slot of a value that is
    still inside its box, a value returned by try_unwrap, or a frame of the
    machine stack (DESIGN Appendix B.2).  The number of handles of a given
    kind to a given allocation is computed by summing a slot weight over all
    owners. *)
From CR Require Import Base Atomic Machine.
Local Open Scope N_scope.

Fixpoint total {A} (f : A -> N) (l : list A) : N :=
  match l with [] => 0 | a :: l' => f a + total f l' end.

Lemma total_app {A} (f : A -> N) l1 l2 : total f (l1 ++ l2) = total f l1 + total f l2.
Proof. induction l1 as [|a l1 IH]; cbn [app total]; [reflexivity|]. rewrite IH. lia. Qed.

Lemma total_upd {A} (f : A -> N) l i a x :
  nth_error l i = Some a -> total f (upd l i x) + f a = total f l + f x.
Proof.
  revert i; induction l as [|b l IH]; intros [|i] H; cbn in H; try discriminate.
  - injection H as ->. cbn [upd total]. lia.
  - cbn [upd total]. specialize (IH i H). lia.
Qed.

Lemma upd_none {A} (l : list A) i x :
  nth_error l i = None -> upd l i x = l.
Proof.
  revert i; induction l as [|b l IH]; intros [|i] H; cbn in *; try discriminate; auto.
  rewrite IH; auto.
Qed.

Lemma total_ext {A} (f g : A -> N) l : (forall a, In a l -> f a = g a) -> total f l = total g l.
Proof.
  induction l as [|a l IH]; intros H; cbn [total]; [reflexivity|].
  rewrite (H a (or_introl eq_refl)), IH; [reflexivity|]. intros b Hb. apply H. now right.
Qed.

Lemma total_zero {A} (f : A -> N) l : (forall a, In a l -> f a = 0) -> total f l = 0.
Proof.
  induction l as [|a l IH]; intros H; cbn [total]; [reflexivity|].
  rewrite (H a (or_introl eq_refl)), IH; [reflexivity|]. intros b Hb. apply H. now right.
Qed.

Lemma total_pos_ex {A} (f : A -> N) l : 0 < total f l -> exists a, In a l /\ 0 < f a.
Proof.
  induction l as [|a l IH]; cbn [total]; intros H; [lia|].
  destruct (N.eq_dec (f a) 0) as [E|E].
  - destruct IH as (b & Hb & Hp); [lia|]. exists b. split; [now right|exact Hp].
  - exists a. split; [now left|lia].
Qed.

Lemma total_in_le {A} (f : A -> N) l a : In a l -> f a <= total f l.
Proof.
  induction l as [|b l IH]; intros H; [destruct H|].
  destruct H as [->|H]; cbn [total]; [lia|]. specialize (IH H). lia.
Qed.

Lemma total_repeat {A} (f : A -> N) a n : f a = 0 -> total f (repeat a n) = 0.
Proof. intros H. induction n as [|n IH]; cbn [repeat total]; [reflexivity|]. rewrite H, IH. reflexivity. Qed.

(** ** slot weights *)
Definition sw_strong (o : oid) (sl : slot) : N :=
  match sl with SStrong x => if Nat.eqb x o then 1 else 0 | _ => 0 end.
Definition sw_weak (o : oid) (sl : slot) : N :=
  match sl with SWeak (Some x) => if Nat.eqb x o then 1 else 0 | _ => 0 end.

Definition w_payload (f : slot -> N) (p : payload) : N := total f (slots p).

Definition w_reg (f : slot -> N) (r : reg) : N :=
  match r with
  | RStrong o => f (SStrong o)
  | RRaw o => f (SStrong o)
  | RWeak w => f (SWeak w)
  | RLoose p => w_payload f p
  | REmpty => 0
  end.

Definition w_box (f : slot -> N) (b : box) : N :=
  match value b with Some p => w_payload f p | None => 0 end.

Definition w_inner (f : slot -> N) (e : inner) : N := w_payload f (snd (fst e)).

Definition w_frame (f : slot -> N) (fr : frame) : N :=
  match fr with
  | FDropStrong o => f (SStrong o)
  | FDtorStart p => w_payload f p
  | FRunDtor p _ => w_payload f p
  | FDropSlots ss => total f ss
  | FInners es => total (w_inner f) es
  | _ => 0
  end.

(** handles owned by the program (registers) and by values inside boxes *)
Definition w_held (f : slot -> N) (s : state) : N :=
  total (w_reg f) (regs s) + total (w_box f) (heap_of s).

Definition W (f : slot -> N) (s : state) (k : list frame) : N :=
  w_held f s + total (w_frame f) k.

(** ** finish obligations *)
Fixpoint count_nat (o : nat) (l : list nat) : N :=
  match l with [] => 0 | x :: l' => (if Nat.eqb x o then 1 else 0) + count_nat o l' end.

Definition f_after (o : oid) (fr : frame) : N :=
  match fr with FAfterValue x => if Nat.eqb x o then 1 else 0 | _ => 0 end.
Definition f_fin (o : oid) (fr : frame) : N :=
  match fr with FFinishGroup keys => count_nat o keys | _ => 0 end.
Definition e_leak (o : oid) (e : event) : N :=
  match e with EvLeak x => if Nat.eqb x o then 1 else 0 | _ => 0 end.

Definition n_after (o : oid) (k : list frame) : N := total (f_after o) k.
Definition n_fin (o : oid) (k : list frame) : N := total (f_fin o) k.
Definition n_leak (o : oid) (l : list event) : N := total (e_leak o) l.

Definition live (b : box) : bool :=
  match strong b with Cnt n => (0 <? n) | Uninit => false end.
Definition liveN (b : box) : N := if live b then 1 else 0.
