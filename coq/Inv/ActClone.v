(** * Actions that create one more handle to an existing allocation:
    clone, upgrade, increment_strong_count, downgrade, Weak::clone. *)
From CR Require Import Base Atomic Machine LinksFacts HeapFacts Local Tokens InvDef InvLemmas ActBase.
Local Open Scope N_scope.

(** tables untouched, liveness preserved: the table invariant carries over *)
Definition same_tables (h h' : heap) : Prop :=
  length h' = length h /\
  forall o b, nth_error h o = Some b ->
    exists b', nth_error h' o = Some b' /\ btable b' = btable b /\ (live b = true -> live b' = true).

Lemma same_tables_lget h h' o l : same_tables h h' -> lget h' o l = lget h o l.
Proof.
  intros [Hlen Hst]. unfold lget. destruct (nth_error h o) as [b|] eqn:Hb.
  - destruct (Hst o b Hb) as (b' & -> & -> & _). reflexivity.
  - assert (nth_error h' o = None) as ->; [|reflexivity].
    apply nth_error_None. apply nth_error_None in Hb. lia.
Qed.

Lemma TblInv_same_tables h h' : same_tables h h' -> TblInv h -> TblInv h'.
Proof.
  intros Hst [Hwf Hsym Hnm Hlp]. pose proof Hst as [Hlen Hbx]. split.
  - intros o b' Hb'. destruct (nth_error h o) as [b|] eqn:Hb.
    + destruct (Hbx o b Hb) as (b2 & Hb2 & Ht & _). assert (b2 = b') as -> by congruence.
      unfold box_wf. rewrite Ht. apply (Hwf o b Hb).
    + apply nth_error_None in Hb. assert (nth_error h' o <> None) by congruence.
      apply nth_error_Some in H. lia.
  - intros a b. rewrite !(same_tables_lget h h') by exact Hst. apply Hsym.
  - intros a x kd Hp. rewrite (same_tables_lget h h') in Hp by exact Hst.
    destruct (Hnm a x kd Hp) as (bx & Hbx' & Hl). destruct (Hbx x bx Hbx') as (b2 & Hb2 & _ & Hl2).
    exists b2. auto.
  - intros a x Hp. rewrite (same_tables_lget h h') in Hp by exact Hst. apply Hlp. exact Hp.
Qed.

Lemma same_tables_setb h o b b' : nth_error h o = Some b -> btable b' = btable b ->
  (live b = true -> live b' = true) -> same_tables h (setb h o b').
Proof.
  intros Hb Ht Hl. split; [apply upd_length|]. intros x bx Hx. unfold setb. rewrite nth_error_upd.
  destruct (Nat.eqb_spec o x) as [<-|Hne].
  - assert (Hlt : (o < length h)%nat) by (apply nth_error_Some; congruence).
    apply Nat.ltb_lt in Hlt. rewrite Hlt. exists b'. assert (bx = b) as -> by congruence. auto.
  - exists bx. auto.
Qed.

(** [b'] is [b] with its two counters changed *)
Definition bumped (b b' : box) : Prop :=
  links b' = links b /\ talloc b' = talloc b /\ value b' = value b /\ freed b' = freed b.

(** a new handle [x] to [o] appears in the free register [dst] while [o]'s
    counters grow by exactly the weight of [x] *)
Lemma Inv_bump s K o b b' dst x n :
  Inv s K -> nth_error (heap_of s) o = Some b -> bumped b b' ->
  reg_free s dst = true ->
  strong b = Cnt n ->
  strong b' = Cnt (n + w_reg (sw_strong o) x) ->
  weak b' = weak b + w_reg (sw_weak o) x ->
  (0 < w_reg (sw_strong o) x -> 0 < n) ->
  (0 < w_reg (sw_weak o) x -> 0 < weak b) ->
  (forall o', o' <> o -> w_reg (sw_strong o') x = 0 /\ w_reg (sw_weak o') x = 0) ->
  Inv (set_reg (set_heap s (setb (heap_of s) o b')) dst x) K.
Proof.
  intros HI Hb (Hlk & Hta & Hva & Hfr) Hfree Hs Hs' Hw' Hpos Hwpos Hoth.
  assert (Hlive : live b = true -> live b' = true).
  { unfold live. rewrite Hs, Hs'. intros H. apply N.ltb_lt in H. apply N.ltb_lt. lia. }
  assert (Hlive' : live b' = live b \/ (live b = false /\ 0 < w_reg (sw_strong o) x)).
  { unfold live. rewrite Hs, Hs'. destruct (N.ltb_spec 0 n) as [Hn|Hn].
    - left. apply N.ltb_lt. lia.
    - destruct (N.eq_dec (w_reg (sw_strong o) x) 0) as [E|E].
      + left. rewrite E. apply N.ltb_ge. lia.
      + right. split; [reflexivity|lia]. }
  assert (Hlive_eq : live b' = live b).
  { destruct Hlive' as [E|[E1 E2]]; [exact E|]. specialize (Hpos E2).
    unfold live in E1. rewrite Hs in E1. apply N.ltb_ge in E1. lia. }
  assert (Hbt : btable b' = btable b) by (unfold btable; rewrite Hlk; reflexivity).
  assert (Hlen : length (setb (heap_of s) o b') = length (heap_of s)) by apply upd_length.
  assert (Hlt : (o < length (heap_of s))%nat) by (apply nth_error_Some; congruence).
  assert (Hnth : forall y, nth_error (setb (heap_of s) o b') y = if Nat.eqb o y then Some b' else nth_error (heap_of s) y).
  { intros y. unfold setb. rewrite nth_error_upd. apply Nat.ltb_lt in Hlt. rewrite Hlt. reflexivity. }
  (* the census *)
  assert (HW : forall f, W f (set_reg (set_heap s (setb (heap_of s) o b')) dst x) K = W f s K + w_reg f x).
  { intros f. rewrite W_set_reg_free by exact Hfree.
    rewrite (W_setb_same_value f s o b b' K Hb Hva). reflexivity. }
  assert (Hheld : forall f, w_held f (set_reg (set_heap s (setb (heap_of s) o b')) dst x) = w_held f s + w_reg f x).
  { intros f. generalize (HW f). unfold W. intros H2. lia. }
  destruct HI as [Hshape Htbl Hcnt Hnd Hin]. split.
  - (* shape *)
    intros y by' Hy. cbn [heap_of set_reg set_heap mk] in Hy. rewrite Hnth in Hy.
    destruct (Nat.eqb_spec o y) as [<-|Hne]; [|apply (Hshape y by' Hy)].
    injection Hy as <-. destruct (Hshape o b Hb) as (S1 & S2 & S3 & S4).
    unfold shape_ok. rewrite Hlive_eq, Hva, Hlk, Hfr, Hbt. repeat split.
    + apply S1; assumption. + apply S1; assumption. + apply S1; assumption.
    + apply S2; assumption. + apply S2; assumption.
    + intros E. rewrite Hs' in E. injection E as E. apply S3. rewrite Hs. f_equal. lia.
    + intros E. apply S4 in E. destruct (N.eq_dec (w_reg (sw_weak o) x) 0) as [E0|E0]; [lia|].
      assert (0 < weak b) by (apply Hwpos; lia). lia.
    + intros E. apply S4. lia.
  - (* tables *)
    cbn [heap_of set_reg set_heap mk]. eapply TblInv_same_tables; [|exact Htbl].
    apply same_tables_setb with (b := b); auto.
  - (* counters *)
    destruct Hcnt as [C1 C2 C3 C4 C5 C6]. split; cbn [heap_of set_reg set_heap mk log].
    + intros y by' m Hy Hm. rewrite HW. rewrite Hnth in Hy.
      destruct (Nat.eqb_spec o y) as [<-|Hne].
      * injection Hy as <-. rewrite Hs' in Hm. injection Hm as <-. rewrite (C1 o b n Hb Hs). reflexivity.
      * rewrite (C1 y by' m Hy Hm). destruct (Hoth y (not_eq_sym Hne)) as [-> _]. lia.
    + intros y by' Hy. rewrite HW. rewrite Hnth in Hy.
      destruct (Nat.eqb_spec o y) as [<-|Hne].
      * injection Hy as <-. rewrite Hw', (C2 o b Hb). unfold liveN. rewrite Hlive_eq. lia.
      * rewrite (C2 y by' Hy). destruct (Hoth y (not_eq_sym Hne)) as [_ ->]. lia.
    + intros y by' Hy. rewrite Hnth in Hy. destruct (Nat.eqb_spec o y) as [<-|Hne]; [|apply (C3 y by' Hy)].
      injection Hy as <-. specialize (C3 o b Hb).
      assert (is_dying b' = is_dying b) as -> by (unfold is_dying; rewrite Hs, Hs'; reflexivity). exact C3.
    + intros y by' Hy Hp. rewrite Hnth in Hy. destruct (Nat.eqb_spec o y) as [<-|Hne]; [|apply (C4 y by' Hy Hp)].
      injection Hy as <-. destruct (C4 o b Hb Hp) as [E _]. congruence.
    + intros y Hy. rewrite !HW. assert (Hy' : nth_error (heap_of s) y = None).
      { apply nth_error_None. apply nth_error_None in Hy. lia. }
      destruct (C5 y Hy') as (E1 & E2 & E3 & E4 & E5).
      assert (y <> o) by (intros ->; congruence). destruct (Hoth y H) as [-> ->].
      repeat split; try lia; assumption.
    + intros y by' Hy Hp. rewrite Hnth in Hy. destruct (Nat.eqb_spec o y) as [<-|Hne]; [|apply (C6 y by' Hy Hp)].
      pose proof (C6 o b Hb Hp) as E. congruence.
  - (* no dangling handle *)
    intros y Hy. rewrite Hheld in Hy. cbn [heap_of set_reg set_heap mk]. rewrite Hnth.
    destruct (Nat.eqb_spec o y) as [<-|Hne].
    + exists b'. split; [reflexivity|]. destruct (N.eq_dec (w_reg (sw_strong o) x) 0) as [E|E].
      * rewrite E in Hy. destruct (Hnd o) as (b0 & Hb0 & Hl0); [lia|]. assert (b0 = b) as -> by congruence. auto.
      * unfold live. rewrite Hs'. apply N.ltb_lt. lia.
    + destruct (Hoth y (not_eq_sym Hne)) as [E _]. rewrite E in Hy. apply Hnd. lia.
  - (* frames *)
    cbn [heap_of set_reg set_heap mk log]. eapply inert_ok_heap; [|exact Hin].
    apply heap_mono_setb with (b := b); auto. intros E. congruence.
Qed.

(** ** the actions *)
Lemma act_invalid s self pc k : Inv s (ctx self pc k) -> act_post self pc k (invalid s self).
Proof. intros HI. unfold invalid. cbn [act_post app]. split; [tauto|exact HI]. Qed.

Lemma bumped_strong b sc : bumped b (with_strong b sc).
Proof. unfold bumped. cbn. auto. Qed.
Lemma bumped_weak b w : bumped b (with_weak b w).
Proof. unfold bumped. cbn. auto. Qed.

Lemma w_reg_strong_self o : w_reg (sw_strong o) (RStrong o) = 1.
Proof. cbn [w_reg]. apply sw_strong_self. Qed.

(** cloning a handle: one more strong handle, in a register *)
Lemma clone_into_reg s K o b n dst x :
  Inv s K -> getb (heap_of s) o = Ok b -> strong b = Cnt n -> 0 < n -> reg_free s dst = true ->
  x = RStrong o \/ x = RRaw o ->
  Inv (set_reg (set_heap s (setb (heap_of s) o (with_strong b (Cnt (n + 1))))) dst x) K.
Proof.
  intros HI Hg Hs Hn Hf Hx. apply getb_ok in Hg as [Hb _].
  assert (Hws : w_reg (sw_strong o) x = 1) by (destruct Hx as [-> | ->]; cbn [w_reg]; apply sw_strong_self).
  assert (Hww : forall y, w_reg (sw_weak y) x = 0) by (intros y; destruct Hx as [-> | ->]; reflexivity).
  eapply Inv_bump with (b := b) (n := n); eauto using bumped_strong.
  - cbn [strong with_strong]. rewrite Hws. reflexivity.
  - cbn [weak with_strong]. rewrite Hww. lia.
  - rewrite Hww. lia.
  - intros y Hy. split; [|apply Hww]. destruct Hx as [-> | ->]; cbn [w_reg]; apply sw_strong_other; congruence.
Qed.

Theorem act_clone hr dst : act_preserves (AClone hr dst).
Proof.
  intros s self pc k HI _. cbn [exec_act].
  destruct (resolve_strong s self hr) as [[o l]|] eqn:Er; [|apply act_invalid; exact HI].
  destruct (reg_free s dst) eqn:Ef; [|apply act_invalid; exact HI].
  destruct (resolve_strong_ok s self pc k HI hr o l Er) as (b & Hg & Hc). unfold lift.
  destruct Hc as [Hl|[Hu _]].
  - destruct (live_true b Hl) as (n & Hs & Hn).
    rewrite (inc_strong_live _ _ _ _ Hg Hs) by lia.
    cbn [act_post app]. split; [tauto|]. apply clone_into_reg; auto.
  - rewrite (inc_strong_dead _ _ _ Hg) by (rewrite Hu; reflexivity). reflexivity.
Qed.
