(** * Tools for proving that steps preserve [Inv]: how the handle census [W]
    and the obligation counters react to updates of registers, heap and stack. *)
From CR Require Import Base Atomic Machine LinksFacts HeapFacts Tokens InvDef.
Local Open Scope N_scope.

(** ** state updates *)
Lemma heap_of_set_heap s h : heap_of (set_heap s h) = h. Proof. reflexivity. Qed.
Lemma regs_set_heap s h : regs (set_heap s h) = regs s. Proof. reflexivity. Qed.
Lemma log_set_heap s h : log (set_heap s h) = log s. Proof. reflexivity. Qed.
Lemma heap_of_set_reg s r x : heap_of (set_reg s r x) = heap_of s. Proof. reflexivity. Qed.
Lemma regs_set_reg s r x : regs (set_reg s r x) = upd (regs s) r x. Proof. reflexivity. Qed.
Lemma log_set_reg s r x : log (set_reg s r x) = log s. Proof. reflexivity. Qed.
Lemma heap_of_add_ev s e : heap_of (add_ev s e) = heap_of s. Proof. reflexivity. Qed.
Lemma regs_add_ev s e : regs (add_ev s e) = regs s. Proof. reflexivity. Qed.
Lemma log_add_ev s e : log (add_ev s e) = e :: log s. Proof. reflexivity. Qed.

Lemma reg_get_nth_error s r x : nth_error (regs s) r = Some x -> reg_get s r = x.
Proof. unfold reg_get. intros H. apply nth_error_nth. exact H. Qed.

Lemma reg_get_none s r : nth_error (regs s) r = None -> reg_get s r = REmpty.
Proof. unfold reg_get. intros H. apply nth_overflow. apply nth_error_None. exact H. Qed.

(** a register that holds something is inside the register file *)
Lemma reg_get_some s r : reg_get s r <> REmpty -> nth_error (regs s) r = Some (reg_get s r).
Proof.
  intros H. destruct (nth_error (regs s) r) as [x|] eqn:E.
  - rewrite (reg_get_nth_error _ _ _ E). reflexivity.
  - elim H. apply reg_get_none. exact E.
Qed.

Lemma reg_free_spec s r : reg_free s r = true ->
  nth_error (regs s) r = Some REmpty.
Proof.
  unfold reg_free. rewrite andb_true_iff, Nat.ltb_lt. intros [Hl He].
  destruct (nth_error (regs s) r) as [x|] eqn:E.
  - rewrite (reg_get_nth_error _ _ _ E) in He. destruct x; try discriminate. reflexivity.
  - apply nth_error_None in E. lia.
Qed.

(** ** the census under updates *)
Section Census.
Variable f : slot -> N.

Lemma W_add_ev s e k : W f (add_ev s e) k = W f s k.
Proof. reflexivity. Qed.

(** writing a register: the old content leaves, the new one arrives *)
Lemma W_set_reg s r x k : (r < length (regs s))%nat ->
  W f (set_reg s r x) k + w_reg f (reg_get s r) = W f s k + w_reg f x.
Proof.
  intros Hr. destruct (nth_error (regs s) r) as [y|] eqn:E.
  - rewrite (reg_get_nth_error _ _ _ E). unfold W, w_held. cbn [regs heap_of set_reg mk].
    pose proof (total_upd (w_reg f) _ _ _ x E). lia.
  - apply nth_error_None in E. lia.
Qed.

Lemma W_set_reg_free s r x k : reg_free s r = true ->
  W f (set_reg s r x) k = W f s k + w_reg f x.
Proof.
  intros Hf. apply reg_free_spec in Hf.
  assert (Hr : (r < length (regs s))%nat) by (apply nth_error_Some; congruence).
  pose proof (W_set_reg s r x k Hr). rewrite (reg_get_nth_error _ _ _ Hf) in H. cbn [w_reg] in H. lia.
Qed.

(** replacing a box *)
Lemma W_setb s o b b' k : nth_error (heap_of s) o = Some b ->
  W f (set_heap s (setb (heap_of s) o b')) k + w_box f b = W f s k + w_box f b'.
Proof.
  intros E. unfold W, w_held, setb. cbn [regs heap_of set_heap mk].
  pose proof (total_upd (w_box f) _ _ _ b' E). lia.
Qed.

Lemma W_setb_same_value s o b b' k : nth_error (heap_of s) o = Some b -> value b' = value b ->
  W f (set_heap s (setb (heap_of s) o b')) k = W f s k.
Proof.
  intros E Hv. pose proof (W_setb s o b b' k E). unfold w_box in H. rewrite Hv in H. lia.
Qed.

(** a new allocation *)
Lemma W_alloc s b k : W f (set_heap s (heap_of s ++ [b])) k = W f s k + w_box f b.
Proof.
  unfold W, w_held. cbn [regs heap_of set_heap mk]. rewrite total_app. cbn [total]. lia.
Qed.

Lemma W_stack s k1 k2 : W f s (k1 ++ k2) + w_held f s = W f s k1 + W f s k2.
Proof. unfold W. rewrite total_app. lia. Qed.

Lemma W_cons s fr k : W f s (fr :: k) = W f s k + w_frame f fr.
Proof. unfold W. cbn [total]. lia. Qed.

End Census.

(** the only weights a fresh payload carries are those of its slots *)
Lemma w_payload_empty f pid sc : f SEmpty = 0 ->
  w_payload f {| pid := pid; slots := empty_slots; script := sc |} = 0.
Proof. intros H. unfold w_payload, empty_slots. cbn [slots]. apply total_repeat. exact H. Qed.

Lemma sw_strong_empty o : sw_strong o SEmpty = 0. Proof. reflexivity. Qed.
Lemma sw_weak_empty o : sw_weak o SEmpty = 0. Proof. reflexivity. Qed.
Lemma sw_strong_weak o w : sw_strong o (SWeak w) = 0. Proof. reflexivity. Qed.
Lemma sw_weak_strong o x : sw_weak o (SStrong x) = 0. Proof. reflexivity. Qed.
Lemma sw_strong_self o : sw_strong o (SStrong o) = 1.
Proof. cbn. rewrite Nat.eqb_refl. reflexivity. Qed.
Lemma sw_strong_other o x : x <> o -> sw_strong o (SStrong x) = 0.
Proof. intros H. cbn. apply Nat.eqb_neq in H. rewrite H. reflexivity. Qed.
Lemma sw_weak_self o : sw_weak o (SWeak (Some o)) = 1.
Proof. cbn. rewrite Nat.eqb_refl. reflexivity. Qed.
Lemma sw_weak_other o x : x <> o -> sw_weak o (SWeak (Some x)) = 0.
Proof. intros H. cbn. apply Nat.eqb_neq in H. rewrite H. reflexivity. Qed.
Lemma sw_strong_pos o sl : 0 < sw_strong o sl -> sl = SStrong o.
Proof.
  destruct sl as [x|w|]; cbn; try lia. destruct (Nat.eqb_spec x o) as [->|]; [reflexivity|lia].
Qed.
Lemma sw_weak_pos o sl : 0 < sw_weak o sl -> sl = SWeak (Some o).
Proof.
  destruct sl as [x|[x|]|]; cbn; try lia. destruct (Nat.eqb_spec x o) as [->|]; [reflexivity|lia].
Qed.

(** slots as arrays *)
Lemma w_payload_set_slot f p i sl old : nth_error (slots p) i = Some old ->
  w_payload f (set_payload_slot p i sl) + f old = w_payload f p + f sl.
Proof. intros E. unfold w_payload, set_payload_slot. cbn [slots]. apply total_upd. exact E. Qed.

(** ** obligations *)
Lemma n_after_cons o fr k : n_after o (fr :: k) = f_after o fr + n_after o k.
Proof. reflexivity. Qed.
Lemma n_fin_cons o fr k : n_fin o (fr :: k) = f_fin o fr + n_fin o k.
Proof. reflexivity. Qed.
Lemma n_after_app o k1 k2 : n_after o (k1 ++ k2) = n_after o k1 + n_after o k2.
Proof. apply total_app. Qed.
Lemma n_fin_app o k1 k2 : n_fin o (k1 ++ k2) = n_fin o k1 + n_fin o k2.
Proof. apply total_app. Qed.
Lemma n_leak_cons o e l : n_leak o (e :: l) = e_leak o e + n_leak o l.
Proof. reflexivity. Qed.

(** a frame that owns nothing and promises nothing *)
Definition weightless (fr : frame) : Prop :=
  match fr with
  | FTableDrop _ | FRes _ | FDropSlots [] | FInners [] => True
  | _ => False
  end.

Lemma weightless_w f fr : weightless fr -> w_frame f fr = 0.
Proof. destruct fr as [| | | [|]| |[|]| | |]; cbn; tauto. Qed.
Lemma weightless_after o fr : weightless fr -> f_after o fr = 0.
Proof. destruct fr as [| | | [|]| |[|]| | |]; cbn; tauto. Qed.
Lemma weightless_fin o fr : weightless fr -> f_fin o fr = 0.
Proof. destruct fr as [| | | [|]| |[|]| | |]; cbn; tauto. Qed.

(** ** [inert_ok] *)
Definition frame_ok (h : heap) (lg : list event) (fr : frame) (below : list frame) : Prop :=
  forall o, 0 < w_frame (sw_strong o) fr ->
    exists b, nth_error h o = Some b /\
      (live b = true \/ (strong b = Uninit /\ 0 < n_fin o below + n_leak o lg)).

Lemma inert_ok_cons h lg fr k : inert_ok h lg (fr :: k) <-> frame_ok h lg fr k /\ inert_ok h lg k.
Proof. reflexivity. Qed.

Lemma inert_ok_app h lg k1 k2 : inert_ok h lg (k1 ++ k2) -> inert_ok h lg k2.
Proof. induction k1 as [|fr k1 IH]; cbn [app]; [tauto|]. intros [_ H]. apply IH. exact H. Qed.

Lemma frame_ok_weightless h lg fr below : weightless fr -> frame_ok h lg fr below.
Proof. intros Hw o Ho. rewrite (weightless_w _ _ Hw) in Ho. lia. Qed.

(** two stacks that promise the same below a frame *)
Lemma frame_ok_below h lg fr k k' : (forall o, n_fin o k <= n_fin o k') ->
  frame_ok h lg fr k -> frame_ok h lg fr k'.
Proof.
  intros Hle H o Ho. destruct (H o Ho) as (b & Hb & [Hl|[Hu Hp]]); exists b; split; auto.
  right. split; auto. specialize (Hle o). lia.
Qed.

(** a frame may be split or merged as long as it owns the same handles *)
Lemma frame_ok_weight h lg fr fr' k :
  (forall o, w_frame (sw_strong o) fr' <= w_frame (sw_strong o) fr) ->
  frame_ok h lg fr k -> frame_ok h lg fr' k.
Proof. intros Hle H o Ho. apply H. specialize (Hle o). lia. Qed.

(** more leak events never hurt *)
Lemma frame_ok_log h lg lg' fr k : (forall o, n_leak o lg <= n_leak o lg') ->
  frame_ok h lg fr k -> frame_ok h lg' fr k.
Proof.
  intros Hle H o Ho. destruct (H o Ho) as (b & Hb & [Hl|[Hu Hp]]); exists b; split; auto.
  right. split; auto. specialize (Hle o). lia.
Qed.

Lemma inert_ok_log h lg lg' k : (forall o, n_leak o lg <= n_leak o lg') ->
  inert_ok h lg k -> inert_ok h lg' k.
Proof.
  intros Hle. induction k as [|fr k IH]; cbn [inert_ok]; [tauto|].
  intros [H1 H2]. split; [|apply IH; exact H2].
  apply (frame_ok_log h lg lg' fr k Hle). exact H1.
Qed.

(** the heap may change as long as live boxes stay live and destroyed ones stay
    destroyed *)
Definition heap_mono (h h' : heap) : Prop :=
  forall o b, nth_error h o = Some b ->
    exists b', nth_error h' o = Some b' /\
      (live b = true -> live b' = true) /\ (strong b = Uninit -> strong b' = Uninit).

Lemma frame_ok_heap h h' lg fr k : heap_mono h h' -> frame_ok h lg fr k -> frame_ok h' lg fr k.
Proof.
  intros Hm H o Ho. destruct (H o Ho) as (b & Hb & Hc).
  destruct (Hm o b Hb) as (b' & Hb' & Hl & Hu). exists b'. split; [exact Hb'|].
  destruct Hc as [Hc|[Hc Hp]]; [left; auto | right; auto].
Qed.

Lemma inert_ok_heap h h' lg k : heap_mono h h' -> inert_ok h lg k -> inert_ok h' lg k.
Proof.
  intros Hm. induction k as [|fr k IH]; cbn [inert_ok]; [tauto|].
  intros [H1 H2]. split; [|apply IH; exact H2]. exact (frame_ok_heap h h' lg fr k Hm H1).
Qed.

Lemma heap_mono_refl h : heap_mono h h.
Proof. intros o b Hb. exists b. auto. Qed.

Lemma heap_mono_setb h o b b' : nth_error h o = Some b ->
  (live b = true -> live b' = true) -> (strong b = Uninit -> strong b' = Uninit) ->
  heap_mono h (setb h o b').
Proof.
  intros Hb Hl Hu x bx Hx. unfold setb. rewrite nth_error_upd.
  destruct (Nat.eqb_spec o x) as [<-|Hne].
  - assert (o < length h)%nat by (apply nth_error_Some; congruence).
    apply Nat.ltb_lt in H. rewrite H. exists b'. assert (bx = b) as -> by congruence. auto.
  - exists bx. auto.
Qed.

Lemma heap_mono_app h b : heap_mono h (h ++ [b]).
Proof.
  intros x bx Hx. exists bx. split; [|auto].
  rewrite nth_error_app1; [exact Hx|]. apply nth_error_Some. congruence.
Qed.

Lemma heap_mono_trans h1 h2 h3 : heap_mono h1 h2 -> heap_mono h2 h3 -> heap_mono h1 h3.
Proof.
  intros H12 H23 o b Hb. destruct (H12 o b Hb) as (b2 & Hb2 & Hl2 & Hu2).
  destruct (H23 o b2 Hb2) as (b3 & Hb3 & Hl3 & Hu3). exists b3. auto.
Qed.

(** ** liveness *)
Lemma live_cnt b n : strong b = Cnt n -> live b = (0 <? n).
Proof. unfold live. intros ->. reflexivity. Qed.
Lemma live_uninit b : strong b = Uninit -> live b = false.
Proof. unfold live. intros ->. reflexivity. Qed.
Lemma live_true b : live b = true -> exists n, strong b = Cnt n /\ 0 < n.
Proof. unfold live. destruct (strong b) as [n|]; [|discriminate]. intros H. exists n. split; auto. apply N.ltb_lt. exact H. Qed.
Lemma live_not_dead b : live b = true -> is_dead (strong b) = false.
Proof. intros H. destruct (live_true b H) as (n & -> & Hn). cbn. apply N.eqb_neq. lia. Qed.
Lemma dead_not_live b : is_dead (strong b) = true -> live b = false.
Proof.
  unfold live. destruct (strong b) as [n|]; cbn; [|reflexivity]. intros H. apply N.eqb_eq in H. subst. reflexivity.
Qed.
Lemma not_live_dead b : live b = false -> is_dead (strong b) = true.
Proof.
  unfold live. destruct (strong b) as [n|]; cbn; [|reflexivity]. intros H. apply N.ltb_ge in H. apply N.eqb_eq. lia.
Qed.

(** ** consequences of [Inv] used everywhere *)
Section Consequences.
Variables (s : state) (k : list frame).
Hypothesis HI : Inv s k.

Lemma inv_box_shape o b : nth_error (heap_of s) o = Some b -> shape_ok b.
Proof. apply (inv_shape s k HI). Qed.

(** an allocation with a positive weak counter has not been released *)
Lemma inv_not_freed o b : nth_error (heap_of s) o = Some b -> 0 < weak b -> getb (heap_of s) o = Ok b.
Proof.
  intros Hb Hw. apply getb_intro; [exact Hb|]. destruct (inv_box_shape o b Hb) as (_ & _ & _ & Hf).
  destruct (freed b); [|reflexivity]. destruct Hf as [Hf _]. specialize (Hf eq_refl). lia.
Qed.

Lemma inv_live_getb o b : nth_error (heap_of s) o = Some b -> live b = true -> getb (heap_of s) o = Ok b.
Proof.
  intros Hb Hl. apply getb_intro; [exact Hb|]. destruct (inv_box_shape o b Hb) as (H1 & _). apply H1. exact Hl.
Qed.

(** whoever owns a Weak handle to [o] keeps [o]'s allocation *)
Lemma inv_weak_token o : 0 < W (sw_weak o) s k -> exists b, getb (heap_of s) o = Ok b.
Proof.
  intros Hw. destruct (nth_error (heap_of s) o) as [b|] eqn:Hb.
  - exists b. apply inv_not_freed; [exact Hb|]. rewrite (ci_weak s k (inv_cnt s k HI) o b Hb). lia.
  - destruct (ci_range s k (inv_cnt s k HI) o Hb) as (_ & H0 & _). lia.
Qed.

(** a handle held by the program or by a value inside a box *)
Lemma inv_held_live o : 0 < w_held (sw_strong o) s ->
  exists b, getb (heap_of s) o = Ok b /\ live b = true.
Proof.
  intros H. destruct (inv_nd s k HI o H) as (b & Hb & Hl). exists b. split; [|exact Hl].
  apply inv_live_getb; assumption.
Qed.

(** a pending obligation keeps the allocation *)
Lemma inv_obligation_getb o b : nth_error (heap_of s) o = Some b ->
  0 < n_after o k + n_fin o k + n_leak o (log s) -> getb (heap_of s) o = Ok b.
Proof.
  intros Hb Hp. apply inv_not_freed; [exact Hb|]. rewrite (ci_weak s k (inv_cnt s k HI) o b Hb). lia.
Qed.

End Consequences.

(** a handle owned by the top frame *)
Lemma inv_top_token s fr k o : Inv s (fr :: k) -> 0 < w_frame (sw_strong o) fr ->
  exists b, getb (heap_of s) o = Ok b /\ (live b = true \/ strong b = Uninit).
Proof.
  intros HI Ho. destruct (inv_inert s _ HI) as [Hf _]. destruct (Hf o Ho) as (b & Hb & Hc).
  exists b. destruct Hc as [Hl|[Hu Hp]].
  - split; [|left; exact Hl]. eapply inv_live_getb; eauto.
  - split; [|right; exact Hu]. eapply inv_obligation_getb; eauto. rewrite n_fin_cons. lia.
Qed.
