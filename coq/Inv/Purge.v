(** * A dying object purges itself from its peers.

    [purge_loop h this entries] is the loop of drop_unreachable_with_adoptions
    and release_links (drop.rs): for every entry of [this]'s own table naming
    another box [x] it removes the entry's count from [x]'s records
    [(this, Fwd)] and [(this, Bwd)].  This file characterises the loop by its
    effect on recorded counts ([lget]) and shows that afterwards, once the
    dying object's own table is cleared or moved out, the table invariant holds
    again without any record naming the dying object. *)
From CR Require Import Base Atomic Machine LinksFacts HeapFacts Tokens InvDef.
Local Open Scope N_scope.

(** ** vocabulary *)

(** every live box still has its table and has not been released (a
    consequence of [shape_ok] for every box; taken as an explicit premise) *)
Definition live_has_table (h : heap) : Prop :=
  forall y bY, nth_error h y = Some bY -> live bY = true ->
    links bY <> None /\ freed bY = false.

(** the kinds of record the loop removes *)
Definition is_fb (k : kind) : bool :=
  match k with Fwd | Bwd => true | Loop => false end.

(** [l] is a forward or backward record naming [o], held by another box [a] *)
Definition names_o (o a : oid) (l : link) : bool :=
  negb (Nat.eqb a o) && Nat.eqb (fst l) o && is_fb (snd l).

(** the sum of the counts of all entries (of any kind) naming [x] *)
Fixpoint sumx (t : table) (x : oid) : N :=
  match t with
  | [] => 0
  | ((y, _), n) :: t' => (if Nat.eqb y x then n else 0) + sumx t' x
  end.

Lemma tbl_get_le_sumx t x kd : tbl_get t (x, kd) <= sumx t x.
Proof.
  induction t as [|[[y kd'] n] t IH]; cbn [tbl_get sumx]; [lia|].
  unfold link_eqb; cbn [fst snd].
  destruct (Nat.eqb_spec x y) as [->|Hne].
  - rewrite Nat.eqb_refl. cbn [andb]. destruct (kind_eqb kd kd'); lia.
  - cbn [andb]. assert (Nat.eqb y x = false) as -> by (apply Nat.eqb_neq; congruence). lia.
Qed.

(** every peer named by the entries still to be processed can be accessed and
    has its table *)
Definition peers_ok (h : heap) (o : oid) (entries : table) : Prop :=
  forall x kd n, In ((x, kd), n) entries -> x <> o ->
    exists bx, getb h x = Ok bx /\ links bx <> None.

Lemma peers_ok_same h h' o entries :
  heap_same_but_links h h' -> peers_ok h o entries -> peers_ok h' o entries.
Proof.
  intros [_ Hs] Hp x kd n Hin Hne.
  destruct (Hp x kd n Hin Hne) as (bx & G & Lk). apply getb_ok in G as [Gn Gf].
  destruct (Hs x bx Gn) as (b' & Hb' & _ & _ & _ & S4 & S5).
  exists b'. split.
  - apply getb_intro; [exact Hb'|congruence].
  - intros HN. apply Lk. apply S5. exact HN.
Qed.

Lemma peers_ok_tail h o e rest : peers_ok h o (e :: rest) -> peers_ok h o rest.
Proof. intros Hp x kd n Hin. apply (Hp x kd n). right; exact Hin. Qed.

Lemma links_remove_ok h x l n bx :
  getb h x = Ok bx -> links bx <> None -> exists h', links_remove h x l n = Ok h'.
Proof.
  intros G Lk. unfold links_remove, get_links, set_links, bind. rewrite G.
  destruct (links bx) as [t|] eqn:E; [|congruence]. eexists; reflexivity.
Qed.

(** ** the loop, over any suffix of the table *)
Lemma purge_loop_spec o entries : forall h,
  heap_wf h -> peers_ok h o entries ->
  exists h2, purge_loop h o entries = Ok h2 /\ heap_same_but_links h h2 /\ heap_wf h2 /\
    forall a l, lget h2 a l =
      if names_o o a l then lget h a l - sumx entries a else lget h a l.
Proof.
  induction entries as [|[[x kd] n] rest IH]; intros h Hwf Hp.
  - exists h. cbn [purge_loop sumx]. split; [reflexivity|].
    split; [apply heap_same_but_links_refl|]. split; [exact Hwf|].
    intros a l. destruct (names_o o a l); [|reflexivity]. lia.
  - cbn [purge_loop]. destruct (Nat.eqb_spec x o) as [->|Hne].
    + destruct (IH h Hwf (peers_ok_tail _ _ _ _ Hp)) as (h2 & E & S & W & L).
      exists h2. split; [exact E|]. split; [exact S|]. split; [exact W|].
      intros a l. rewrite L. unfold names_o.
      destruct (Nat.eqb_spec a o) as [->|Hao]; cbn [negb andb]; [reflexivity|].
      cbn [sumx]. assert (Nat.eqb o a = false) as -> by (apply Nat.eqb_neq; congruence).
      rewrite N.add_0_l. reflexivity.
    + destruct (Hp x kd n (or_introl eq_refl) Hne) as (bx & G & Lk).
      destruct (links_remove_ok h x (o, Fwd) n bx G Lk) as (h1 & E1).
      destruct (links_remove_spec _ _ _ _ _ Hwf E1) as (L1 & S1 & W1).
      pose proof (peers_ok_same _ _ _ _ S1 Hp) as Hp1.
      destruct (Hp1 x kd n (or_introl eq_refl) Hne) as (bx1 & G1 & Lk1).
      destruct (links_remove_ok h1 x (o, Bwd) n bx1 G1 Lk1) as (h1' & E2).
      destruct (links_remove_spec _ _ _ _ _ W1 E2) as (L2 & S2 & W2).
      pose proof (peers_ok_same _ _ _ _ S2 Hp1) as Hp2.
      destruct (IH h1' W2 (peers_ok_tail _ _ _ _ Hp2)) as (h2 & E & S & W & L).
      exists h2. unfold bind. rewrite E1, E2. split; [exact E|].
      split; [eapply heap_same_but_links_trans; [exact S1|];
              eapply heap_same_but_links_trans; [exact S2|exact S]|].
      split; [exact W|].
      intros a [y k]. rewrite L, L2, !L1. unfold names_o, link_eqb. cbn [fst snd sumx].
      rewrite (Nat.eqb_sym x a).
      destruct (Nat.eqb_spec a o) as [->|Hao]; cbn [negb andb].
      * assert (Nat.eqb o x = false) as -> by (apply Nat.eqb_neq; congruence). reflexivity.
      * destruct (Nat.eqb_spec a x) as [->|Hax]; cbn [andb].
        -- rewrite Nat.eqb_refl. cbn [andb].
           destruct (Nat.eqb_spec y o) as [->|Hyo]; cbn [andb]; [|reflexivity].
           destruct k; cbn [kind_eqb is_fb]; rewrite ?Nat.eqb_refl; cbn [andb]; lia.
        -- rewrite N.add_0_l. reflexivity.
Qed.

Lemma lget_own h o b t l :
  nth_error h o = Some b -> links b = Some t -> lget h o l = tbl_get t l.
Proof. intros Hb Lk. unfold lget, btable. rewrite Hb, Lk. reflexivity. Qed.

(** ** 1 and 2: the whole loop over the dying object's own table

    drop.rs: the loop of drop_unreachable_with_adoptions / release_links never
    faults, touches nothing but tables, and removes from every other box exactly
    its forward and backward records naming the dying object; every other
    record of every box keeps its count.  (They reach 0 because, by symmetry,
    the peer's record equals one entry of the dying object's table naming that
    peer, and the loop subtracts every such entry from both records.) *)
Theorem purge_effect h o b t :
  heap_wf h -> symmetric h -> getb h o = Ok b -> links b = Some t -> peers_ok h o t ->
  exists h2, purge_loop h o t = Ok h2 /\ heap_same_but_links h h2 /\ heap_wf h2 /\
    forall a l, lget h2 a l = if names_o o a l then 0 else lget h a l.
Proof.
  intros Hwf Hsym G Lk Hp. apply getb_ok in G as [Gn Gf].
  destruct (purge_loop_spec o t h Hwf Hp) as (h2 & E & S & W & L).
  exists h2. split; [exact E|]. split; [exact S|]. split; [exact W|].
  intros a [y k]. rewrite L. destruct (names_o o a (y, k)) eqn:Nm; [|reflexivity].
  unfold names_o in Nm. cbn [fst snd] in Nm.
  apply andb_true_iff in Nm as [Nm Nk]. apply andb_true_iff in Nm as [Na Ny].
  apply Nat.eqb_eq in Ny; subst y.
  destruct k; [| |discriminate].
  - rewrite (Hsym a o), (lget_own h o b t _ Gn Lk).
    pose proof (tbl_get_le_sumx t a Bwd) as Hle. lia.
  - rewrite <- (Hsym o a), (lget_own h o b t _ Gn Lk).
    pose proof (tbl_get_le_sumx t a Fwd) as Hle. lia.
Qed.

(** under the table invariant every peer named by [o]'s table is live, hence
    accessible and in possession of its table *)
Lemma TblInv_peers_ok h o b t :
  TblInv h -> live_has_table h -> nth_error h o = Some b -> links b = Some t ->
  peers_ok h o t.
Proof.
  intros [Hwf _ Hnm] Hlt Gn Lk x kd n Hin _.
  assert (Ht : tbl_wf t).
  { specialize (Hwf o b Gn). unfold box_wf, btable in Hwf. rewrite Lk in Hwf. exact Hwf. }
  assert (Hpos : 0 < lget h o (x, kd)).
  { rewrite (lget_own h o b t _ Gn Lk). apply tbl_get_in_pos; [exact Ht|].
    unfold keys. change (x, kd) with (fst ((x, kd), n)). apply in_map. exact Hin. }
  destruct (Hnm o x kd Hpos) as (bx & Hbx & Hl). destruct (Hlt x bx Hbx Hl) as [HL HF].
  exists bx. split; [apply getb_intro; assumption | exact HL].
Qed.

(** the form asked for: exact effect, stated with the explicit condition *)
Theorem purge_loop_effect h o b t :
  TblInv h -> live_has_table h -> getb h o = Ok b -> links b = Some t ->
  exists h2, purge_loop h o t = Ok h2 /\ heap_same_but_links h h2 /\ heap_wf h2 /\
    forall a l, lget h2 a l =
      if negb (Nat.eqb a o) && Nat.eqb (fst l) o && is_fb (snd l) then 0 else lget h a l.
Proof.
  intros HT Hlt G Lk. pose proof (proj1 (getb_ok _ _ _ G)) as Gn.
  apply (purge_effect h o b t (ti_wf _ HT) (ti_sym _ HT) G Lk).
  eapply TblInv_peers_ok; eassumption.
Qed.

(** ** clearing the dying object's own table

    [cleared h2 h3 o]: [h3] is [h2] with box [o] replaced by a box whose table
    is empty ([Some []]) or moved out ([None]); all other boxes as in [h2]. *)
Definition cleared (h2 h3 : heap) (o : oid) : Prop :=
  length h3 = length h2 /\
  (exists b3, nth_error h3 o = Some b3 /\ btable b3 = []) /\
  forall a, a <> o -> nth_error h3 a = nth_error h2 a.

Lemma cleared_lget h2 h3 o a l :
  cleared h2 h3 o -> lget h3 a l = if Nat.eqb a o then 0 else lget h2 a l.
Proof.
  intros (_ & (b3 & Hb3 & Ht) & Hoth). unfold lget.
  destruct (Nat.eqb_spec a o) as [->|Hne].
  - rewrite Hb3, Ht. reflexivity.
  - rewrite (Hoth a Hne). reflexivity.
Qed.

Lemma cleared_setb h2 o b3 :
  (o < length h2)%nat -> btable b3 = [] -> cleared h2 (setb h2 o b3) o.
Proof.
  intros Hlt Ht. unfold setb. split; [apply upd_length|]. split.
  - exists b3. split; [apply nth_error_upd_same; exact Hlt | exact Ht].
  - intros a Hne. apply nth_error_upd_other. congruence.
Qed.

(** [*links.borrow_mut() = Links::new()] *)
Lemma cleared_set_links h2 o h3 : set_links h2 o [] = Ok h3 -> cleared h2 h3 o.
Proof.
  unfold set_links, bind. destruct (getb h2 o) as [b|] eqn:G; [|discriminate].
  intros H; injection H as <-. apply cleared_setb; [eapply getb_lt; exact G | reflexivity].
Qed.

(** [ManuallyDrop::take(&mut links)] *)
Lemma cleared_move_out h2 o b : getb h2 o = Ok b -> cleared h2 (setb h2 o (with_links b None)) o.
Proof. intros G. apply cleared_setb; [eapply getb_lt; exact G | reflexivity]. Qed.

Section PurgeCleared.
  Variables (h : heap) (o : oid) (b : box) (t : table) (h2 h3 : heap).
  Hypothesis Hwf : heap_wf h.
  Hypothesis Hsym : symmetric h.
  Hypothesis G : getb h o = Ok b.
  Hypothesis Lk : links b = Some t.
  Hypothesis Hp : peers_ok h o t.
  Hypothesis E : purge_loop h o t = Ok h2.
  Hypothesis Hc : cleared h2 h3 o.

  (** the recorded counts after the purge and the clearing: the dying object
      has no record, no other box has a forward or backward record naming it,
      everything else is as before *)
  Lemma purge_cleared_lget a l :
    lget h3 a l = if Nat.eqb a o || names_o o a l then 0 else lget h a l.
  Proof.
    destruct (purge_effect h o b t Hwf Hsym G Lk Hp) as (h2' & E' & _ & _ & L).
    rewrite E in E'. injection E' as <-.
    rewrite (cleared_lget h2 h3 o a l Hc). destruct (Nat.eqb a o); cbn [orb]; [reflexivity|].
    apply L.
  Qed.

  Lemma purge_cleared_wf : heap_wf h3.
  Proof.
    destruct (purge_effect h o b t Hwf Hsym G Lk Hp) as (h2' & E' & _ & W & _).
    rewrite E in E'. injection E' as <-.
    destruct Hc as (_ & (b3 & Hb3 & Ht) & Hoth). intros a ba Ha.
    destruct (Nat.eq_dec a o) as [->|Hne].
    - assert (ba = b3) as -> by congruence. unfold box_wf. rewrite Ht. apply tbl_wf_nil.
    - rewrite (Hoth a Hne) in Ha. apply (W a ba Ha).
  Qed.

  Lemma purge_cleared_sym : symmetric h3.
  Proof.
    intros a c. rewrite !purge_cleared_lget. unfold names_o. cbn [fst snd is_fb].
    destruct (Nat.eqb_spec a o) as [->|Ha], (Nat.eqb_spec c o) as [->|Hc'];
      rewrite ?Nat.eqb_refl; cbn [negb andb orb]; try reflexivity.
    apply Hsym.
  Qed.

  (** whatever is still recorded does not involve the dying object (except
      possibly a Loop record naming it in another box, see [no_foreign_loop])
      and has its old count *)
  Lemma purge_cleared_pos a x kd :
    0 < lget h3 a (x, kd) ->
    a <> o /\ (x = o -> kd = Loop) /\ lget h3 a (x, kd) = lget h a (x, kd).
  Proof.
    rewrite purge_cleared_lget. unfold names_o. cbn [fst snd].
    destruct (Nat.eqb_spec a o) as [->|Ha]; cbn [negb andb orb]; [lia|].
    destruct (Nat.eqb_spec x o) as [->|Hx]; cbn [andb].
    - destruct kd; cbn [is_fb]; try lia. intros _. auto.
    - intros _. split; [exact Ha|]. split; [contradiction|reflexivity].
  Qed.

  (** records not involving the dying object are unchanged *)
  Lemma purge_cleared_other a x kd :
    a <> o -> x <> o -> lget h3 a (x, kd) = lget h a (x, kd).
  Proof.
    intros Ha Hx. rewrite purge_cleared_lget. unfold names_o. cbn [fst snd].
    apply Nat.eqb_neq in Ha, Hx. rewrite Ha, Hx. reflexivity.
  Qed.

  (** no record grows *)
  Lemma purge_cleared_le a l : lget h3 a l <= lget h a l.
  Proof.
    rewrite purge_cleared_lget. destruct (Nat.eqb a o || names_o o a l); lia.
  Qed.
End PurgeCleared.

(** ** Loop records

    The loop removes only the Fwd and Bwd records naming the dying object.  A
    Loop record [(o, Loop)] in ANOTHER box would survive it.  Such a record is
    never created (adopt inserts [(b, Loop)] only into [b]'s own table), but
    [TblInv] does not say so; the statements that need it take it as the
    explicit premise [no_foreign_loop h o], which follows from the global
    property [loops_own]. *)
Definition no_foreign_loop (h : heap) (o : oid) : Prop :=
  forall a, a <> o -> lget h a (o, Loop) = 0.

Definition loops_own (h : heap) : Prop :=
  forall a x, 0 < lget h a (x, Loop) -> x = a.

Lemma loops_own_no_foreign h o : loops_own h -> no_foreign_loop h o.
Proof.
  intros Hl a Hne. destruct (N.eq_dec (lget h a (o, Loop)) 0) as [E0|E0]; [exact E0|].
  exfalso. apply Hne. symmetry. apply Hl. lia.
Qed.

(** [loops_own] survives the purge and the clearing (no record grows) *)
Lemma purge_cleared_loops_own h o b t h2 h3 :
  heap_wf h -> symmetric h -> getb h o = Ok b -> links b = Some t -> peers_ok h o t ->
  purge_loop h o t = Ok h2 -> cleared h2 h3 o -> loops_own h -> loops_own h3.
Proof.
  intros Hwf Hsym G Lk Hp E Hc Hl a x Hpos. apply Hl.
  pose proof (purge_cleared_le h o b t h2 h3 Hwf Hsym G Lk Hp E Hc a (x, Loop)) as Hle. lia.
Qed.

(** ** 3: the table invariant after the purge, the dying object forgotten

    drop.rs, drop_unreachable_with_adoptions / release_links: once the loop has
    run and the object's own registry is emptied or moved out, the registries
    of all objects are again well formed and mutually consistent, and every
    remaining record names an object other than the dying one that was live
    before; so the table invariant holds no matter whether the dying object
    still counts as live. *)
Theorem purge_tblinv h o b t h2 :
  TblInv h -> live_has_table h -> no_foreign_loop h o ->
  getb h o = Ok b -> links b = Some t -> purge_loop h o t = Ok h2 ->
  forall h3, cleared h2 h3 o ->
    heap_wf h3 /\ symmetric h3 /\
    (forall a x kd, 0 < lget h3 a (x, kd) ->
       x <> o /\ exists bx, nth_error h x = Some bx /\ live bx = true).
Proof.
  intros HT Hlt Hnl G Lk E h3 Hc. pose proof (proj1 (getb_ok _ _ _ G)) as Gn.
  pose proof (TblInv_peers_ok h o b t HT Hlt Gn Lk) as Hp.
  pose proof (ti_wf _ HT) as Hwf. pose proof (ti_sym _ HT) as Hsym.
  split; [exact (purge_cleared_wf h o b t h2 h3 Hwf Hsym G Lk Hp E Hc)|].
  split; [exact (purge_cleared_sym h o b t h2 h3 Hwf Hsym G Lk Hp E Hc)|].
  intros a x kd Hpos.
  destruct (purge_cleared_pos h o b t h2 h3 Hwf Hsym G Lk Hp E Hc a x kd Hpos) as (Ha & Hx & Heq).
  split.
  - intros ->. specialize (Hx eq_refl); subst kd. rewrite Heq, (Hnl a Ha) in Hpos. lia.
  - apply (ti_names _ HT a x kd). rewrite <- Heq. exact Hpos.
Qed.

(** the same without the premise on Loop records: the only records that may
    still name the dying object are Loop records of other boxes *)
Theorem purge_tblinv_weak h o b t h2 :
  TblInv h -> live_has_table h ->
  getb h o = Ok b -> links b = Some t -> purge_loop h o t = Ok h2 ->
  forall h3, cleared h2 h3 o ->
    heap_wf h3 /\ symmetric h3 /\
    (forall a x kd, 0 < lget h3 a (x, kd) ->
       a <> o /\ (x = o -> kd = Loop) /\ lget h3 a (x, kd) = lget h a (x, kd) /\
       exists bx, nth_error h x = Some bx /\ live bx = true) /\
    (forall a x kd, a <> o -> x <> o -> lget h3 a (x, kd) = lget h a (x, kd)).
Proof.
  intros HT Hlt G Lk E h3 Hc. pose proof (proj1 (getb_ok _ _ _ G)) as Gn.
  pose proof (TblInv_peers_ok h o b t HT Hlt Gn Lk) as Hp.
  pose proof (ti_wf _ HT) as Hwf. pose proof (ti_sym _ HT) as Hsym.
  split; [exact (purge_cleared_wf h o b t h2 h3 Hwf Hsym G Lk Hp E Hc)|].
  split; [exact (purge_cleared_sym h o b t h2 h3 Hwf Hsym G Lk Hp E Hc)|].
  split; [|exact (purge_cleared_other h o b t h2 h3 Hwf Hsym G Lk Hp E Hc)].
  intros a x kd Hpos.
  destruct (purge_cleared_pos h o b t h2 h3 Hwf Hsym G Lk Hp E Hc a x kd Hpos) as (Ha & Hx & Heq).
  split; [exact Ha|]. split; [exact Hx|]. split; [exact Heq|].
  apply (ti_names _ HT a x kd). rewrite <- Heq. exact Hpos.
Qed.

(** the form promised in item 2: with the premise on Loop records, a record
    that is still present involves the dying object on neither side *)
Theorem purge_cleared_pos_strict h o b t h2 h3 :
  TblInv h -> live_has_table h -> no_foreign_loop h o ->
  getb h o = Ok b -> links b = Some t -> purge_loop h o t = Ok h2 -> cleared h2 h3 o ->
  (forall a x kd, 0 < lget h3 a (x, kd) ->
     a <> o /\ x <> o /\ lget h3 a (x, kd) = lget h a (x, kd)) /\
  (forall a x kd, a <> o -> x <> o -> lget h3 a (x, kd) = lget h a (x, kd)).
Proof.
  intros HT Hlt Hnl G Lk E Hc.
  destruct (purge_tblinv_weak h o b t h2 HT Hlt G Lk E h3 Hc) as (_ & _ & Hpos & Hoth).
  split; [|exact Hoth]. intros a x kd H0.
  destruct (Hpos a x kd H0) as (Ha & Hx & Heq & _). split; [exact Ha|]. split; [|exact Heq].
  intros ->. specialize (Hx eq_refl); subst kd. rewrite Heq, (Hnl a Ha) in H0. lia.
Qed.

(** ** nothing but tables is touched (including the [talloc] flag) *)
Definition kept (b b' : box) : Prop :=
  strong b' = strong b /\ weak b' = weak b /\ value b' = value b /\
  freed b' = freed b /\ talloc b' = talloc b.

Definition heap_kept (h h' : heap) : Prop :=
  length h' = length h /\
  forall a ba, nth_error h a = Some ba -> exists ba', nth_error h' a = Some ba' /\ kept ba ba'.

Lemma kept_refl b : kept b b.
Proof. unfold kept; tauto. Qed.

Lemma heap_kept_refl h : heap_kept h h.
Proof. split; [reflexivity|]. intros a ba Ha. exists ba. split; [exact Ha|apply kept_refl]. Qed.

Lemma heap_kept_trans h1 h2 h3 : heap_kept h1 h2 -> heap_kept h2 h3 -> heap_kept h1 h3.
Proof.
  intros [L1 H1] [L2 H2]. split; [congruence|]. intros a ba Ha.
  destruct (H1 a ba Ha) as (b2 & Hb2 & K2). destruct (H2 a b2 Hb2) as (b3 & Hb3 & K3).
  exists b3. split; [exact Hb3|]. unfold kept in *.
  destruct K2 as (A1 & A2 & A3 & A4 & A5), K3 as (B1 & B2 & B3 & B4 & B5).
  repeat split; congruence.
Qed.

Lemma heap_kept_setb h o b b' :
  nth_error h o = Some b -> kept b b' -> heap_kept h (setb h o b').
Proof.
  intros Hb K. split; [apply upd_length|]. intros a ba Ha. unfold setb. rewrite nth_error_upd.
  destruct (Nat.eqb_spec o a) as [<-|Hne].
  - assert (Hlt : (o < length h)%nat) by (apply nth_error_Some; congruence).
    apply Nat.ltb_lt in Hlt. rewrite Hlt. exists b'. split; [reflexivity|].
    assert (ba = b) as -> by congruence. exact K.
  - exists ba. split; [exact Ha|apply kept_refl].
Qed.

Lemma set_links_kept h o t h' : set_links h o t = Ok h' -> heap_kept h h'.
Proof.
  unfold set_links, bind. destruct (getb h o) as [b|] eqn:G; [|discriminate].
  intros H; injection H as <-. apply getb_ok in G as [Gn _].
  apply (heap_kept_setb h o b _ Gn). unfold kept; cbn. tauto.
Qed.

Lemma links_remove_kept h o l n h' : links_remove h o l n = Ok h' -> heap_kept h h'.
Proof.
  unfold links_remove, bind. destruct (get_links h o) as [t|]; [|discriminate].
  apply set_links_kept.
Qed.

Lemma purge_loop_kept o entries : forall h h2,
  purge_loop h o entries = Ok h2 -> heap_kept h h2.
Proof.
  induction entries as [|[[x kd] n] rest IH]; intros h h2; cbn [purge_loop].
  - intros H; injection H as <-. apply heap_kept_refl.
  - destruct (Nat.eqb x o); [apply IH|]. unfold bind.
    destruct (links_remove h x (o, Fwd) n) as [h1|] eqn:E1; [|discriminate].
    destruct (links_remove h1 x (o, Bwd) n) as [h1'|] eqn:E2; [|discriminate].
    intros E. eapply heap_kept_trans; [eapply links_remove_kept; exact E1|].
    eapply heap_kept_trans; [eapply links_remove_kept; exact E2|]. apply IH. exact E.
Qed.

(** ** 4: [release_links] (drop.rs; used by try_unwrap and make_mut)

    purge the peers, then move the table out.  It never faults; afterwards the
    registries are well formed and symmetric, no record names [o] and every
    record names an object that was live; the counters, value, released flag
    and table-storage flag of every box are untouched, the tables of the other
    boxes are still in place, and [o]'s table is gone. *)
Theorem release_links_core h o b t :
  heap_wf h -> symmetric h -> getb h o = Ok b -> links b = Some t -> peers_ok h o t ->
  exists h2 b2,
    purge_loop h o t = Ok h2 /\ getb h2 o = Ok b2 /\ kept b b2 /\
    release_links h o = Ok (setb h2 o (with_links b2 None)) /\
    cleared h2 (setb h2 o (with_links b2 None)) o /\
    heap_same_but_links h h2 /\
    heap_kept h (setb h2 o (with_links b2 None)).
Proof.
  intros Hwf Hsym G Lk Hp.
  destruct (purge_effect h o b t Hwf Hsym G Lk Hp) as (h2 & E & S & W & L).
  pose proof (purge_loop_kept o t h h2 E) as [Klen K].
  pose proof (getb_ok _ _ _ G) as [Gn Gf].
  destruct (K o b Gn) as (b2 & Hb2 & Kb).
  assert (G2 : getb h2 o = Ok b2).
  { apply getb_intro; [exact Hb2|]. destruct Kb as (_ & _ & _ & Kf & _). congruence. }
  assert (Lk2 : links b2 <> None).
  { destruct S as [_ S]. destruct (S o b Gn) as (b2' & Hb2' & _ & _ & _ & _ & Siff).
    assert (b2' = b2) as -> by congruence. intros HN. apply Siff in HN. congruence. }
  exists h2, b2. split; [exact E|]. split; [exact G2|]. split; [exact Kb|]. split.
  - unfold release_links, purge_peers, get_links. rewrite G. cbn [bind]. rewrite Lk. cbn [bind].
    rewrite E. cbn [bind]. rewrite G2. cbn [bind].
    destruct (links b2) as [t2|]; [reflexivity|congruence].
  - split; [apply cleared_move_out; exact G2|]. split; [exact S|].
    eapply heap_kept_trans; [split; [exact Klen|exact K]|].
    apply (heap_kept_setb h2 o b2 _ Hb2). unfold kept; cbn. tauto.
Qed.

Theorem release_links_spec h o b t :
  TblInv h -> live_has_table h -> no_foreign_loop h o ->
  getb h o = Ok b -> links b = Some t ->
  exists h3, release_links h o = Ok h3 /\
    heap_wf h3 /\ symmetric h3 /\
    (forall a x kd, 0 < lget h3 a (x, kd) ->
       x <> o /\ exists bx, nth_error h x = Some bx /\ live bx = true) /\
    (forall a l, lget h3 a l = if Nat.eqb a o || names_o o a l then 0 else lget h a l) /\
    heap_kept h h3 /\
    (exists b3, nth_error h3 o = Some b3 /\ links b3 = None) /\
    (forall a ba ba', a <> o -> nth_error h a = Some ba -> nth_error h3 a = Some ba' ->
       (links ba = None <-> links ba' = None)).
Proof.
  intros HT Hlt Hnl G Lk. pose proof (proj1 (getb_ok _ _ _ G)) as Gn.
  pose proof (TblInv_peers_ok h o b t HT Hlt Gn Lk) as Hp.
  pose proof (ti_wf _ HT) as Hwf. pose proof (ti_sym _ HT) as Hsym.
  destruct (release_links_core h o b t Hwf Hsym G Lk Hp)
    as (h2 & b2 & E & G2 & Kb & ER & Hc & S & K).
  exists (setb h2 o (with_links b2 None)). split; [exact ER|].
  destruct (purge_tblinv h o b t h2 HT Hlt Hnl G Lk E _ Hc) as (W3 & S3 & N3).
  split; [exact W3|]. split; [exact S3|]. split; [exact N3|].
  split; [intros a l; apply (purge_cleared_lget h o b t h2 _ Hwf Hsym G Lk Hp E Hc)|].
  split; [exact K|]. split.
  - exists (with_links b2 None). split; [|reflexivity].
    unfold setb. apply nth_error_upd_same. eapply getb_lt; exact G2.
  - intros a ba ba' Hne Ha Ha'. unfold setb in Ha'. rewrite nth_error_upd_other in Ha' by congruence.
    destruct S as [_ S]. destruct (S a ba Ha) as (bb & Hbb & _ & _ & _ & _ & Siff).
    assert (bb = ba') as -> by congruence. exact Siff.
Qed.

(** ** the purge inside [Rc::drop] (drop_unreachable_with_adoptions)

    There the loop runs after the strong counter of [o] has been set to 0:
    the heap is [setb h o b1] where [b1] is [o]'s box with the same table.  The
    table invariant of the heap BEFORE the decrement is what is available. *)
Lemma retable_core h o b b1 t :
  TblInv h -> live_has_table h -> getb h o = Ok b -> links b = Some t ->
  links b1 = Some t -> freed b1 = false ->
  heap_wf (setb h o b1) /\ symmetric (setb h o b1) /\ peers_ok (setb h o b1) o t /\
  getb (setb h o b1) o = Ok b1 /\ (forall a l, lget (setb h o b1) a l = lget h a l).
Proof.
  intros HT Hlt G Lk Lk1 Hf1. pose proof (getb_ok _ _ _ G) as [Gn Gf].
  pose proof (getb_lt _ _ _ G) as Hlen.
  assert (HL : forall a l, lget (setb h o b1) a l = lget h a l).
  { intros a l. unfold lget, setb. rewrite nth_error_upd.
    destruct (Nat.eqb_spec o a) as [<-|Hne]; [|reflexivity].
    apply Nat.ltb_lt in Hlen. rewrite Hlen, Gn. unfold btable. rewrite Lk, Lk1. reflexivity. }
  split; [|split; [|split; [|split; [|exact HL]]]].
  - intros a ba. unfold setb. rewrite nth_error_upd.
    destruct (Nat.eqb_spec o a) as [<-|Hne]; [|apply (ti_wf _ HT)].
    destruct (Nat.ltb o (length h)); [|discriminate]. intros H; injection H as <-.
    pose proof (ti_wf _ HT o b Gn) as Hb. unfold box_wf, btable in *. rewrite Lk in Hb.
    rewrite Lk1. exact Hb.
  - intros a c. rewrite !HL. apply (ti_sym _ HT).
  - intros x kd n Hin Hne.
    destruct (TblInv_peers_ok h o b t HT Hlt Gn Lk x kd n Hin Hne) as (bx & Gx & Lx).
    exists bx. split; [|exact Lx]. unfold getb, setb in *.
    rewrite nth_error_upd_other by congruence. exact Gx.
  - apply getb_intro; [|exact Hf1]. unfold setb. apply nth_error_upd_same. exact Hlen.
Qed.

Theorem purge_dying_tblinv h o b b1 t :
  TblInv h -> live_has_table h -> no_foreign_loop h o ->
  getb h o = Ok b -> links b = Some t -> links b1 = Some t -> freed b1 = false ->
  exists h2 h3,
    purge_loop (setb h o b1) o t = Ok h2 /\ set_links h2 o [] = Ok h3 /\
    heap_wf h3 /\ symmetric h3 /\
    (forall a x kd, 0 < lget h3 a (x, kd) ->
       a <> o /\ x <> o /\ lget h3 a (x, kd) = lget h a (x, kd) /\
       exists bx, nth_error h x = Some bx /\ live bx = true) /\
    (forall a l, lget h3 a l = if Nat.eqb a o || names_o o a l then 0 else lget h a l) /\
    heap_kept (setb h o b1) h3 /\
    (exists b3, nth_error h3 o = Some b3 /\ links b3 = Some [] /\ kept b1 b3) /\
    (forall a ba ba', a <> o -> nth_error h a = Some ba -> nth_error h3 a = Some ba' ->
       (links ba = None <-> links ba' = None)).
Proof.
  intros HT Hlt Hnl G Lk Lk1 Hf1.
  destruct (retable_core h o b b1 t HT Hlt G Lk Lk1 Hf1) as (Hwf & Hsym & Hp & G1 & HL).
  destruct (purge_effect _ o b1 t Hwf Hsym G1 Lk1 Hp) as (h2 & E & S & W & L).
  pose proof (purge_loop_kept o t _ h2 E) as K.
  pose proof (getb_ok _ _ _ G1) as [Gn1 _].
  destruct K as [Klen K]. destruct (K o b1 Gn1) as (b2 & Hb2 & Kb).
  assert (G2 : getb h2 o = Ok b2).
  { apply getb_intro; [exact Hb2|]. destruct Kb as (_ & _ & _ & Kf & _). congruence. }
  exists h2, (setb h2 o (with_links b2 (Some []))).
  split; [exact E|]. split; [unfold set_links; rewrite G2; reflexivity|].
  assert (Hc : cleared h2 (setb h2 o (with_links b2 (Some []))) o).
  { apply cleared_setb; [eapply getb_lt; exact G2|reflexivity]. }
  split; [exact (purge_cleared_wf _ o b1 t h2 _ Hwf Hsym G1 Lk1 Hp E Hc)|].
  split; [exact (purge_cleared_sym _ o b1 t h2 _ Hwf Hsym G1 Lk1 Hp E Hc)|].
  assert (HL3 : forall a l, lget (setb h2 o (with_links b2 (Some []))) a l =
                  if Nat.eqb a o || names_o o a l then 0 else lget h a l).
  { intros a l. rewrite (purge_cleared_lget _ o b1 t h2 _ Hwf Hsym G1 Lk1 Hp E Hc), HL. reflexivity. }
  split.
  - intros a x kd Hpos.
    destruct (purge_cleared_pos _ o b1 t h2 _ Hwf Hsym G1 Lk1 Hp E Hc a x kd Hpos) as (Ha & Hx & Heq).
    rewrite HL in Heq. split; [exact Ha|].
    assert (Hxo : x <> o).
    { intros ->. specialize (Hx eq_refl); subst kd. rewrite Heq, (Hnl a Ha) in Hpos. lia. }
    split; [exact Hxo|]. split; [exact Heq|].
    apply (ti_names _ HT a x kd). rewrite <- Heq. exact Hpos.
  - split; [exact HL3|]. split; [|split].
    + eapply heap_kept_trans; [split; [exact Klen|exact K]|].
      apply (heap_kept_setb h2 o b2 _ Hb2). unfold kept; cbn. tauto.
    + exists (with_links b2 (Some [])). split; [|split; [reflexivity|]].
      * unfold setb. apply nth_error_upd_same. eapply getb_lt; exact G2.
      * unfold kept in *; cbn. exact Kb.
    + intros a ba ba' Hne Ha Ha'. unfold setb in Ha'.
      rewrite nth_error_upd_other in Ha' by congruence.
      destruct S as [_ S].
      assert (Ha1 : nth_error (setb h o b1) a = Some ba).
      { unfold setb. rewrite nth_error_upd_other by congruence. exact Ha. }
      destruct (S a ba Ha1) as (bb & Hbb & _ & _ & _ & _ & Siff).
      assert (bb = ba') as -> by congruence. exact Siff.
Qed.

(** ** the table invariant itself, for the two callers *)
Lemma kept_live b b' : kept b b' -> live b' = live b.
Proof. intros (Ks & _). unfold live. rewrite Ks. reflexivity. Qed.

(** [live_has_table] is what [shape_ok] says about live boxes *)
Lemma shape_live_has_table h :
  (forall o b, nth_error h o = Some b -> shape_ok b) -> live_has_table h.
Proof.
  intros Hs y bY Hy Hl. destruct (Hs y bY Hy) as (H1 & _).
  destruct (H1 Hl) as (_ & HL & HF). split; assumption.
Qed.

(** try_unwrap / make_mut: after [release_links] the table invariant holds
    whatever becomes of [o]'s strong counter afterwards: no record names [o] *)
Corollary release_links_TblInv h o b t h3 :
  TblInv h -> live_has_table h -> no_foreign_loop h o ->
  getb h o = Ok b -> links b = Some t -> release_links h o = Ok h3 ->
  TblInv h3 /\ (forall a kd, lget h3 a (o, kd) = 0) /\ (forall l, lget h3 o l = 0).
Proof.
  intros HT Hlt Hnl G Lk ER.
  destruct (release_links_spec h o b t HT Hlt Hnl G Lk)
    as (h3' & ER' & W3 & S3 & N3 & L3 & [Klen K] & _ & _).
  rewrite ER in ER'. injection ER' as <-. split; [|split].
  - split; [exact W3|exact S3| |].
    + intros a x kd Hpos.
      destruct (N3 a x kd Hpos) as (_ & bx & Hbx & Hl).
      destruct (K x bx Hbx) as (bx' & Hbx' & Kx). exists bx'. split; [exact Hbx'|].
      rewrite (kept_live _ _ Kx). exact Hl.
    + intros a x Hpos. apply (ti_loop h HT). rewrite L3 in Hpos.
      destruct (Nat.eqb a o || names_o o a (x, Loop)); [lia|exact Hpos].
  - intros a kd. destruct (N.eq_dec (lget h3 a (o, kd)) 0) as [E0|E0]; [exact E0|].
    exfalso. destruct (N3 a o kd) as [Hx _]; [lia|]. apply Hx; reflexivity.
  - intros l. rewrite L3, Nat.eqb_refl. reflexivity.
Qed.

(** Rc::drop, drop_unreachable_with_adoptions: the same after the loop and
    [*links.borrow_mut() = Links::new()], although [o] is no longer live *)
Corollary purge_dying_TblInv h o b b1 t h2 h3 :
  TblInv h -> live_has_table h -> no_foreign_loop h o ->
  getb h o = Ok b -> links b = Some t -> links b1 = Some t -> freed b1 = false ->
  purge_loop (setb h o b1) o t = Ok h2 -> set_links h2 o [] = Ok h3 ->
  TblInv h3 /\ (forall a kd, lget h3 a (o, kd) = 0) /\ (forall l, lget h3 o l = 0).
Proof.
  intros HT Hlt Hnl G Lk Lk1 Hf1 E E3.
  destruct (purge_dying_tblinv h o b b1 t HT Hlt Hnl G Lk Lk1 Hf1)
    as (h2' & h3' & E' & E3' & W3 & S3 & N3 & L3 & [Klen K] & _ & _).
  rewrite E in E'. injection E' as <-. rewrite E3 in E3'. injection E3' as <-.
  split; [|split].
  - split; [exact W3|exact S3| |].
    + intros a x kd Hpos.
      destruct (N3 a x kd Hpos) as (_ & Hxo & _ & bx & Hbx & Hl).
      assert (Hbx1 : nth_error (setb h o b1) x = Some bx).
      { unfold setb. rewrite nth_error_upd_other by congruence. exact Hbx. }
      destruct (K x bx Hbx1) as (bx' & Hbx' & Kx). exists bx'. split; [exact Hbx'|].
      rewrite (kept_live _ _ Kx). exact Hl.
    + intros a x Hpos. apply (ti_loop h HT). rewrite L3 in Hpos.
      destruct (Nat.eqb a o || names_o o a (x, Loop)); [lia|exact Hpos].
  - intros a kd. destruct (N.eq_dec (lget h3 a (o, kd)) 0) as [E0|E0]; [exact E0|].
    exfalso. destruct (N3 a o kd) as (_ & Hx & _); [lia|]. apply Hx; reflexivity.
  - intros l. rewrite L3, Nat.eqb_refl. reflexivity.
Qed.

(** The premise [no_foreign_loop] follows from [ti_loop]: Loopback records are
    self records (this clause was added to [TblInv] after this file showed, by a
    two-box counterexample, that the purge statement is false without it). *)
Lemma TblInv_no_foreign_loop h o : TblInv h -> no_foreign_loop h o.
Proof.
  intros HT a Ha. destruct (N.eq_dec (lget h a (o, Loop)) 0) as [E|E]; [exact E|].
  exfalso. apply Ha. symmetry. apply (ti_loop h HT a o). lia.
Qed.


