(** * The frame property of the recorded adoption graph (the ledger reading of
    C08): a record between two objects changes only by [adopt], by [unadopt],
    or because one of its two ends is destroyed.  No other step of the machine
    touches any record between two objects that are both still alive
    afterwards. *)
From CR Require Import Base Atomic Machine LinksFacts HeapFacts TraceFacts TraceTotal Local
  Tokens InvDef InvLemmas ActBase ActClone ActHandles ActAdopt ActMove StepFrames StepPanic
  Purge GroupOps DropDec Group ActConsume DropLast StepInv RunInv.
Local Open Scope N_scope.

(** ** vocabulary *)

(** the object [o] exists and has not been destroyed *)
Definition alive_box (h : heap) (o : oid) : Prop :=
  exists b, nth_error h o = Some b /\ live b = true.

(** records between survivors are unchanged; objects created in between have
    an index [>= length h] and are exempt (see [fresh_no_record]) *)
Definition records_kept (h h' : heap) : Prop :=
  forall a x kd, alive_box h' a -> alive_box h' x ->
    (a < length h)%nat -> (x < length h)%nat ->
    lget h' a (x, kd) = lget h a (x, kd).

(** a destroyed object is never revived: [usize::MAX] and [0] are final *)
Definition dead_stays (h h' : heap) : Prop :=
  forall o b, nth_error h o = Some b -> live b = false ->
    exists b', nth_error h' o = Some b' /\ live b' = false.

(** what one step of the machine (other than adopt / unadopt) does to the
    tables: allocations are never removed, the dead stay dead, records between
    survivors are kept *)
Definition no_growth (h h' : heap) : Prop :=
  forall a l, (a < length h)%nat -> lget h' a l <= lget h a l.

Definition fresh_empty (h h' : heap) : Prop :=
  forall o l, (length h <= o)%nat -> lget h' o l = 0.

Definition ledger_frame (h h' : heap) : Prop :=
  (length h <= length h')%nat /\ dead_stays h h' /\ records_kept h h' /\
  no_growth h h' /\ fresh_empty h h'.

(** the workhorse: every box keeps, apart from the objects in [D], its records
    about objects outside [D]; nothing dead becomes live *)
Definition frame_but (D : oid -> Prop) (h h' : heap) : Prop :=
  (length h <= length h')%nat /\
  (forall a b, nth_error h a = Some b ->
    exists b', nth_error h' a = Some b' /\ (live b = false -> live b' = false) /\
      (forall l, tbl_get (btable b') l <= tbl_get (btable b) l) /\
      (~ D a -> forall x kd, ~ D x -> tbl_get (btable b') (x, kd) = tbl_get (btable b) (x, kd))) /\
  fresh_empty h h'.

(** no table changes at all *)
Definition quiet (h h' : heap) : Prop :=
  (length h <= length h')%nat /\
  (forall a b, nth_error h a = Some b ->
    exists b', nth_error h' a = Some b' /\ btable b' = btable b /\ (live b = false -> live b' = false)) /\
  fresh_empty h h'.

Lemma lget_out h o l : (length h <= o)%nat -> lget h o l = 0.
Proof. intros H. unfold lget. apply nth_error_None in H. rewrite H. reflexivity. Qed.

Lemma quiet_refl h : quiet h h.
Proof.
  split; [lia|]. split; [intros a b Hb; exists b; auto|]. intros o l Ho. apply lget_out. exact Ho.
Qed.

Lemma quiet_lget h h' a l : quiet h h' -> (a < length h)%nat -> lget h' a l = lget h a l.
Proof.
  intros (_ & H & _) Hlt. destruct (nth_error h a) as [b|] eqn:Hb.
  2:{ apply nth_error_None in Hb. lia. }
  destruct (H a b Hb) as (b' & Hb' & T & _). unfold lget. rewrite Hb', Hb, T. reflexivity.
Qed.

Lemma quiet_trans h1 h2 h3 : quiet h1 h2 -> quiet h2 h3 -> quiet h1 h3.
Proof.
  intros (L1 & H1 & F1) (L2 & H2 & F2). split; [lia|]. split.
  - intros a b Hb.
    destruct (H1 a b Hb) as (b2 & Hb2 & T2 & D2). destruct (H2 a b2 Hb2) as (b3 & Hb3 & T3 & D3).
    exists b3. split; [exact Hb3|]. split; [congruence|auto].
  - intros o l Ho. destruct (Nat.lt_ge_cases o (length h2)) as [Hlt|Hge].
    + rewrite (quiet_lget h2 h3 o l (conj L2 (conj H2 F2)) Hlt). apply F1. exact Ho.
    + apply F2. exact Hge.
Qed.

Lemma quiet_frame_but D h h' : quiet h h' -> frame_but D h h'.
Proof.
  intros (L & H & F). split; [exact L|]. split; [|exact F].
  intros a b Hb. destruct (H a b Hb) as (b' & Hb' & T & Dd).
  exists b'. split; [exact Hb'|]. split; [exact Dd|]. rewrite T. split; [intros l; lia|].
  intros _ x kd _. reflexivity.
Qed.

Lemma frame_but_le D h h' a l : frame_but D h h' -> (a < length h)%nat -> lget h' a l <= lget h a l.
Proof.
  intros (_ & H & _) Hlt. destruct (nth_error h a) as [b|] eqn:Hb.
  2:{ apply nth_error_None in Hb. lia. }
  destruct (H a b Hb) as (b' & Hb' & _ & Le & _). unfold lget. rewrite Hb', Hb. apply Le.
Qed.

Lemma frame_but_trans D h1 h2 h3 : frame_but D h1 h2 -> frame_but D h2 h3 -> frame_but D h1 h3.
Proof.
  intros (L1 & H1 & F1) (L2 & H2 & F2). split; [lia|]. split.
  - intros a b Hb.
    destruct (H1 a b Hb) as (b2 & Hb2 & D2 & Le2 & T2). destruct (H2 a b2 Hb2) as (b3 & Hb3 & D3 & Le3 & T3).
    exists b3. split; [exact Hb3|]. split; [auto|]. split.
    + intros l. specialize (Le2 l). specialize (Le3 l). lia.
    + intros Ha x kd Hx. rewrite (T3 Ha x kd Hx). apply (T2 Ha x kd Hx).
  - intros o l Ho. destruct (Nat.lt_ge_cases o (length h2)) as [Hlt|Hge].
    + pose proof (frame_but_le D h2 h3 o l (conj L2 (conj H2 F2)) Hlt) as Hle.
      rewrite (F1 o l Ho) in Hle. lia.
    + apply F2. exact Hge.
Qed.

Lemma frame_but_weaken (D D' : oid -> Prop) h h' :
  (forall o, D o -> D' o) -> frame_but D h h' -> frame_but D' h h'.
Proof.
  intros Hsub (L & H & F). split; [exact L|]. split; [|exact F].
  intros a b Hb. destruct (H a b Hb) as (b' & Hb' & Dd & Le & T).
  exists b'. split; [exact Hb'|]. split; [exact Dd|]. split; [exact Le|]. intros Ha x kd Hx. apply T; auto.
Qed.

Lemma frame_but_dead_stays D h h' : frame_but D h h' -> dead_stays h h'.
Proof.
  intros (_ & H & _) o b Hb Hl. destruct (H o b Hb) as (b' & Hb' & Dd & _). exists b'. auto.
Qed.

(** the objects in [D] are gone afterwards: records between survivors are kept *)
Lemma frame_but_records D h h' :
  frame_but D h h' -> (forall o, D o -> ~ alive_box h' o) -> records_kept h h'.
Proof.
  intros (_ & H & _) HD a x kd Ha Hx Hla _.
  destruct (nth_error h a) as [b|] eqn:Hb.
  2:{ apply nth_error_None in Hb. lia. }
  destruct (H a b Hb) as (b' & Hb' & _ & _ & T). unfold lget. rewrite Hb', Hb. apply T.
  - intros Hc. exact (HD a Hc Ha).
  - intros Hc. exact (HD x Hc Hx).
Qed.

Lemma frame_but_ledger D h h' :
  frame_but D h h' -> (forall o, D o -> ~ alive_box h' o) -> ledger_frame h h'.
Proof.
  intros HF HD. split; [exact (proj1 HF)|]. split; [eapply frame_but_dead_stays; exact HF|].
  split; [eapply frame_but_records; eassumption|]. split.
  - intros a l Hlt. eapply frame_but_le; eassumption.
  - exact (proj2 (proj2 HF)).
Qed.

Definition nobody (o : oid) : Prop := False.

Lemma quiet_ledger h h' : quiet h h' -> ledger_frame h h'.
Proof.
  intros HQ. apply (frame_but_ledger nobody); [apply quiet_frame_but; exact HQ|].
  intros o [].
Qed.

(** ** [ledger_frame] composes *)
Lemma alive_back h h' o : dead_stays h h' -> (o < length h)%nat -> alive_box h' o -> alive_box h o.
Proof.
  intros Hd Hlt (b' & Hb' & Hl'). destruct (nth_error h o) as [b|] eqn:Hb.
  2:{ apply nth_error_None in Hb. lia. }
  exists b. split; [exact Hb|]. destruct (live b) eqn:El; [reflexivity|].
  destruct (Hd o b Hb El) as (b2 & Hb2 & Hl2). congruence.
Qed.

Lemma ledger_frame_refl h : ledger_frame h h.
Proof. apply quiet_ledger. apply quiet_refl. Qed.

Lemma ledger_frame_trans h1 h2 h3 : ledger_frame h1 h2 -> ledger_frame h2 h3 -> ledger_frame h1 h3.
Proof.
  intros (L1 & D1 & R1 & G1 & F1) (L2 & D2 & R2 & G2 & F2). split; [lia|]. split; [|split; [|split]].
  - intros o b Hb Hl. destruct (D1 o b Hb Hl) as (b2 & Hb2 & Hl2). apply (D2 o b2 Hb2 Hl2).
  - intros a x kd Ha Hx Hla Hlx.
    assert (Hla2 : (a < length h2)%nat) by lia. assert (Hlx2 : (x < length h2)%nat) by lia.
    rewrite (R2 a x kd Ha Hx Hla2 Hlx2). apply R1; auto; eapply alive_back; eauto.
  - intros a l Hlt. assert (Hlt2 : (a < length h2)%nat) by lia.
    specialize (G1 a l Hlt). specialize (G2 a l Hlt2). lia.
  - intros o l Ho. destruct (Nat.lt_ge_cases o (length h2)) as [Hlt|Hge].
    + specialize (G2 o l Hlt). rewrite (F1 o l Ho) in G2. lia.
    + apply F2. exact Hge.
Qed.

(** ** elementary heap updates *)
Lemma quiet_setb h o b' :
  (forall b, nth_error h o = Some b -> btable b' = btable b /\ (live b = false -> live b' = false)) ->
  quiet h (setb h o b').
Proof.
  intros Hb'. split; [unfold setb; rewrite upd_length; lia|]. split.
  - intros a b Ha. unfold setb. rewrite nth_error_upd.
    destruct (Nat.eqb_spec o a) as [->|Hne].
    + assert (Hlt : (a < length h)%nat) by (apply nth_error_Some; congruence).
      apply Nat.ltb_lt in Hlt. rewrite Hlt. exists b'. split; [reflexivity|]. apply Hb'. exact Ha.
    + exists b. auto.
  - intros a l Ha. apply lget_out. unfold setb. rewrite upd_length. exact Ha.
Qed.

Lemma quiet_snoc h b : btable b = [] -> quiet h (h ++ [b]).
Proof.
  intros Ht. split; [rewrite app_length; lia|]. split.
  - intros a ba Ha. exists ba. split; [|auto].
    rewrite nth_error_app1; [exact Ha|]. apply nth_error_Some. congruence.
  - intros o l Ho. rewrite (lget_snoc h b o l Ht). apply lget_out. exact Ho.
Qed.

Lemma getb_nth h o b : getb h o = Ok b -> nth_error h o = Some b.
Proof. intros H. apply getb_ok in H. tauto. Qed.

Lemma quiet_setb_getb h o b b' : getb h o = Ok b ->
  btable b' = btable b -> (live b = false -> live b' = false) -> quiet h (setb h o b').
Proof.
  intros G T L. apply quiet_setb. intros b0 Hb0. apply getb_nth in G.
  assert (b0 = b) as -> by congruence. auto.
Qed.

Lemma inc_strong_quiet h o h' : inc_strong h o = Ok h' -> quiet h h'.
Proof.
  unfold inc_strong, bind. destruct (getb h o) as [b|] eqn:G; [|discriminate].
  destruct (strong b) as [n|] eqn:Es; [|discriminate].
  destruct (N.eqb_spec n 0) as [->|Hn]; [discriminate|]. intros H; injection H as <-.
  eapply quiet_setb_getb; [exact G|reflexivity|].
  unfold live. rewrite Es. cbn [strong with_strong]. intros H. apply N.ltb_ge in H. lia.
Qed.

Lemma inc_weak_quiet h o h' : inc_weak h o = Ok h' -> quiet h h'.
Proof.
  unfold inc_weak, bind. destruct (getb h o) as [b|] eqn:G; [|discriminate].
  destruct (weak b =? 0); [discriminate|]. intros H; injection H as <-.
  eapply quiet_setb_getb; [exact G|reflexivity|auto].
Qed.

Lemma dec_weak_free_quiet h o h' : dec_weak_free h o = Ok h' -> quiet h h'.
Proof.
  unfold dec_weak_free, bind. destruct (getb h o) as [b|] eqn:G; [|discriminate].
  destruct (weak b =? 0); [discriminate|]. intros H; injection H as <-.
  eapply quiet_setb_getb; [exact G| |]; destruct (weak b - 1 =? 0); auto.
Qed.

Lemma weak_drop_quiet h w h' : weak_drop h w = Ok h' -> quiet h h'.
Proof.
  destruct w as [o|]; cbn [weak_drop]; [apply dec_weak_free_quiet|].
  intros H; injection H as <-. apply quiet_refl.
Qed.

Lemma clone_slots_quiet ss : forall h h', clone_slots h ss = Ok h' -> quiet h h'.
Proof.
  induction ss as [|sl ss IH]; intros h h'; cbn [clone_slots].
  - intros H; injection H as <-. apply quiet_refl.
  - destruct sl as [o|[o|]|]; unfold bind.
    + destruct (inc_strong h o) as [h1|] eqn:E; [|discriminate]. intros H.
      eapply quiet_trans; [eapply inc_strong_quiet; exact E|apply IH; exact H].
    + destruct (inc_weak h o) as [h1|] eqn:E; [|discriminate]. intros H.
      eapply quiet_trans; [eapply inc_weak_quiet; exact E|apply IH; exact H].
    + apply IH.
    + apply IH.
Qed.

Lemma write_slot_quiet s self ow i sl :
  quiet (heap_of s) (heap_of (fst (write_slot s self ow i sl))).
Proof.
  unfold write_slot. destruct ow as [o p|p]; cbn [fst]; [|apply quiet_refl].
  destruct (nth_error (heap_of s) o) as [b|] eqn:Hb; cbn [fst]; [|apply quiet_refl].
  cbn [heap_of set_heap mk]. apply quiet_setb. intros b0 Hb0. assert (b0 = b) as -> by congruence.
  split; [reflexivity|auto].
Qed.

Lemma finish_group_quiet keys : forall h h', finish_group h keys = Ok h' -> quiet h h'.
Proof.
  induction keys as [|x keys IH]; intros h h'; cbn [finish_group].
  - intros H; injection H as <-. apply quiet_refl.
  - unfold bind. destruct (getb h x) as [b|]; [|discriminate].
    destruct (is_dead (strong b)); [|apply IH].
    destruct (dec_weak_free h x) as [h1|] eqn:E; [|discriminate]. intros H.
    eapply quiet_trans; [eapply dec_weak_free_quiet; exact E|apply IH; exact H].
Qed.

(** ** actions that touch no table at all

    Everything except adopt, unadopt, try_unwrap and make_mut: counters,
    values, registers and the log change, every table stays as it is. *)
Definition plain_act (a : act) : Prop :=
  match a with
  | AAdopt _ _ | AUnadopt _ _ | ATryUnwrap _ _ | AMakeMut _ => False
  | _ => True
  end.

Ltac brk H :=
  repeat match type of H with
  | context [match ?x with _ => _ end] => destruct x eqn:?; try discriminate H
  end.

Ltac quiet_done :=
  cbn [heap_of set_reg set_heap add_ev mk];
  first [ apply quiet_refl
        | apply quiet_snoc; reflexivity
        | eapply inc_strong_quiet; eassumption
        | eapply inc_weak_quiet; eassumption
        | eapply weak_drop_quiet; eassumption
        | match goal with
          | E : write_slot ?s0 ?sf ?ow ?i ?sl = (?s1, _) |- _ =>
              let Q := fresh "Q" in
              pose proof (write_slot_quiet s0 sf ow i sl) as Q; rewrite E in Q;
              cbn [fst heap_of set_reg set_heap add_ev mk] in Q; exact Q
          end ].

Lemma act_quiet a s self s1 self1 r push :
  plain_act a -> exec_act s self a = AO s1 self1 r push -> quiet (heap_of s) (heap_of s1).
Proof.
  intros Hp H. destruct a; cbn [plain_act] in Hp; try contradiction;
    cbn [exec_act] in H; unfold exec_new, lift, invalid in H; brk H; try discriminate H;
    injection H as <- _ _ _; quiet_done.
Qed.

(** ** the purge: only records involving the dying object change *)
Definition only (o : oid) : oid -> Prop := fun y => y = o.

Lemma hsl_frame_but D h h' : heap_same_but_links h h' ->
  (forall a l, lget h' a l <= lget h a l) ->
  (forall a x kd, ~ D a -> ~ D x -> lget h' a (x, kd) = lget h a (x, kd)) -> frame_but D h h'.
Proof.
  intros [Hlen Hs] HLe HL. split; [lia|]. split.
  - intros a b Hb.
    destruct (Hs a b Hb) as (b' & Hb' & Ss & _). exists b'. split; [exact Hb'|]. split; [|split].
    + unfold live. rewrite Ss. auto.
    + intros l. specialize (HLe a l). unfold lget in HLe. rewrite Hb', Hb in HLe. exact HLe.
    + intros Ha x kd Hx. specialize (HL a x kd Ha Hx). unfold lget in HL. rewrite Hb', Hb in HL. exact HL.
  - intros o l Ho. apply lget_out. lia.
Qed.

Lemma frame_but_setb_D (D : oid -> Prop) h o b b' : D o -> nth_error h o = Some b ->
  (live b = false -> live b' = false) -> (forall l, tbl_get (btable b') l <= tbl_get (btable b) l) ->
  frame_but D h (setb h o b').
Proof.
  intros HD Hb Hl Hle. split; [unfold setb; rewrite upd_length; lia|]. split.
  - intros a ba Ha.
    unfold setb. rewrite nth_error_upd. destruct (Nat.eqb_spec o a) as [<-|Hne].
    + assert (Hlt : (o < length h)%nat) by (apply nth_error_Some; congruence).
      apply Nat.ltb_lt in Hlt. rewrite Hlt. exists b'. split; [reflexivity|].
      assert (ba = b) as -> by congruence. split; [exact Hl|]. split; [exact Hle|]. intros Hc. contradiction.
    + exists ba. split; [exact Ha|]. split; [auto|]. split; [intros l; lia|auto].
  - intros a l Ha. apply lget_out. unfold setb. rewrite upd_length. exact Ha.
Qed.

Lemma tbl_get_nil_le (t : table) l : tbl_get [] l <= tbl_get t l.
Proof. cbn [tbl_get]. lia. Qed.

Lemma purge_loop_frame o entries : forall h h2,
  heap_wf h -> purge_loop h o entries = Ok h2 ->
  heap_wf h2 /\ heap_same_but_links h h2 /\
  (forall a l, lget h2 a l <= lget h a l) /\
  forall a x kd, x <> o -> lget h2 a (x, kd) = lget h a (x, kd).
Proof.
  induction entries as [|[[y kd0] n] rest IH]; intros h h2 Hwf; cbn [purge_loop].
  - intros H; injection H as <-. split; [exact Hwf|]. split; [apply heap_same_but_links_refl|].
    split; [intros a l; lia|reflexivity].
  - destruct (Nat.eqb y o); [apply IH; exact Hwf|]. unfold bind.
    destruct (links_remove h y (o, Fwd) n) as [h1|] eqn:E1; [|discriminate].
    destruct (links_remove h1 y (o, Bwd) n) as [h1'|] eqn:E2; [|discriminate]. intros E.
    destruct (links_remove_spec _ _ _ _ _ Hwf E1) as (L1 & S1 & W1).
    destruct (links_remove_spec _ _ _ _ _ W1 E2) as (L2 & S2 & W2).
    destruct (links_remove_le _ _ _ _ _ Hwf E1) as (Le1 & _).
    destruct (links_remove_le _ _ _ _ _ W1 E2) as (Le2 & _).
    destruct (IH h1' h2 W2 E) as (W & S & Le & L). split; [exact W|]. split; [|split].
    + eapply heap_same_but_links_trans; [exact S1|]. eapply heap_same_but_links_trans; [exact S2|exact S].
    + intros a l. specialize (Le a l). specialize (Le1 a l). specialize (Le2 a l). lia.
    + intros a x kd Hx. rewrite (L a x kd Hx).
      assert (F1 : link_eqb (x, kd) (o, Fwd) = false) by (apply link_eqb_neq; congruence).
      assert (F2 : link_eqb (x, kd) (o, Bwd) = false) by (apply link_eqb_neq; congruence).
      rewrite L2, F2, andb_false_r, L1, F1, andb_false_r. reflexivity.
Qed.

Lemma purge_loop_frame_but o entries h h2 :
  heap_wf h -> purge_loop h o entries = Ok h2 -> frame_but (only o) h h2.
Proof.
  intros Hwf E. destruct (purge_loop_frame o entries h h2 Hwf E) as (_ & S & Le & L).
  apply hsl_frame_but; [exact S|exact Le|]. intros a x kd _ Hx. apply L. exact Hx.
Qed.

(** [release_links] (try_unwrap, make_mut): the peers forget [o], [o]'s own
    table is moved out; every record not involving [o] is untouched *)
Lemma release_links_frame h o h3 :
  heap_wf h -> release_links h o = Ok h3 -> frame_but (only o) h h3.
Proof.
  intros Hwf. unfold release_links, purge_peers, bind.
  destruct (get_links h o) as [t|]; [|discriminate].
  destruct (purge_loop h o t) as [h1|] eqn:E; [|discriminate].
  destruct (getb h1 o) as [b1|] eqn:G1; [|discriminate].
  destruct (links b1) as [t1|]; [|discriminate]. intros H; injection H as <-.
  eapply frame_but_trans; [eapply purge_loop_frame_but; eassumption|].
  eapply frame_but_setb_D; [reflexivity|apply getb_nth; exact G1|auto|intros l; apply tbl_get_nil_le].
Qed.

Lemma dead_not_alive h h' o b :
  dead_stays h h' -> nth_error h o = Some b -> live b = false -> ~ alive_box h' o.
Proof.
  intros Hd Hb Hl (b' & Hb' & Hl'). destruct (Hd o b Hb Hl) as (b2 & Hb2 & Hl2). congruence.
Qed.

Lemma quiet_dead_stays h h' : quiet h h' -> dead_stays h h'.
Proof. intros HQ. apply (frame_but_dead_stays nobody). apply quiet_frame_but. exact HQ. Qed.

Lemma only_not_alive h o b : nth_error h o = Some b -> live b = false ->
  forall y, only o y -> ~ alive_box h y.
Proof. intros Hb Hl y -> (b' & Hb' & Hl'). congruence. Qed.

Lemma heap_wf_setb h o b' : heap_wf h ->
  (forall b, nth_error h o = Some b -> btable b' = btable b) -> heap_wf (setb h o b').
Proof.
  intros Hwf Hb' a ba. unfold setb. rewrite nth_error_upd.
  destruct (Nat.eqb_spec o a) as [<-|Hne]; [|apply Hwf].
  destruct (nth_error h o) as [b|] eqn:Hb.
  - destruct (Nat.ltb o (length h)); [|discriminate]. intros H; injection H as <-.
    unfold box_wf. rewrite (Hb' b eq_refl). apply (Hwf o b Hb).
  - apply nth_error_None in Hb. apply Nat.ltb_ge in Hb. rewrite Hb. discriminate.
Qed.

Lemma heap_wf_snoc h b : heap_wf h -> btable b = [] -> heap_wf (h ++ [b]).
Proof.
  intros Hwf Hb a ba Ha. destruct (nth_error_snoc_cases _ _ _ _ Ha) as [H|[_ ->]].
  - apply (Hwf a ba H).
  - unfold box_wf. rewrite Hb. apply tbl_wf_nil.
Qed.

(** ** try_unwrap and make_mut

    rc.rs, [Rc::try_unwrap] on the last handle and the stealing branch of
    [Rc::make_mut]: the object gives up its allocation's value; its peers
    forget it ([release_links]) and it is not alive afterwards.  Records that
    do not involve it are untouched. *)
Lemma try_unwrap_frame r dst s self s1 self1 res push :
  heap_wf (heap_of s) -> exec_act s self (ATryUnwrap r dst) = AO s1 self1 res push ->
  ledger_frame (heap_of s) (heap_of s1).
Proof.
  intros Hwf H. cbn [exec_act] in H. unfold invalid in H.
  destruct (reg_get s r) as [o|w|o|p|]; try (injection H as <- _ _ _; apply ledger_frame_refl).
  destruct (reg_free s dst); [|injection H as <- _ _ _; apply ledger_frame_refl].
  destruct (getb (heap_of s) o) as [b|] eqn:G; [|discriminate].
  destruct (strong b) as [[|[q|q|]]|]; try (injection H as <- _ _ _; apply ledger_frame_refl).
  unfold lift in H. destruct (release_links (heap_of s) o) as [h3|] eqn:ER; [|discriminate].
  cbn [heap_of set_heap mk] in H.
  destruct (getb h3 o) as [b1|] eqn:G1; [|discriminate].
  destruct (value b1) as [p|]; [|discriminate].
  destruct (weak_drop (setb h3 o (with_strong (with_value b1 None) (Cnt 0))) (Some o)) as [h4|] eqn:EW; [|discriminate].
  injection H as <- _ _ _. cbn [heap_of set_reg set_heap add_ev mk].
  apply (frame_but_ledger (only o)).
  - eapply frame_but_trans; [eapply release_links_frame; eassumption|].
    eapply frame_but_trans; [|apply quiet_frame_but; eapply weak_drop_quiet; exact EW].
    eapply frame_but_setb_D; [reflexivity|apply getb_nth; exact G1|reflexivity|intros l; apply N.le_refl].
  - intros y ->. eapply dead_not_alive; [eapply quiet_dead_stays; eapply weak_drop_quiet; exact EW| |].
    + unfold setb. apply nth_error_upd_same. eapply getb_lt; exact G1.
    + reflexivity.
Qed.

Lemma make_mut_frame r s self s1 self1 res push :
  heap_wf (heap_of s) -> exec_act s self (AMakeMut r) = AO s1 self1 res push ->
  ledger_frame (heap_of s) (heap_of s1).
Proof.
  intros Hwf H. cbn [exec_act] in H. unfold invalid in H.
  destruct (reg_get s r) as [o|w|o|p|]; try (injection H as <- _ _ _; apply ledger_frame_refl).
  destruct (getb (heap_of s) o) as [b|] eqn:G; [|discriminate].
  destruct (strong b) as [[|[q|q|]]|] eqn:Es.
  4:{ (* the unique handle *)
    destruct (weak b =? 0); [discriminate|].
    destruct (weak b =? 1); [injection H as <- _ _ _; apply ledger_frame_refl|].
    destruct (value b) as [p|] eqn:Ev; [|discriminate]. unfold lift in H.
    match type of H with context [release_links ?hh o] => set (h1 := hh) in * end.
    destruct (release_links h1 o) as [h3|] eqn:ER; [|discriminate].
    cbn [heap_of set_heap mk] in H. destruct (getb h3 o) as [b1|] eqn:G1; [|discriminate].
    injection H as <- _ _ _. cbn [heap_of set_reg set_heap add_ev mk].
    assert (Q1 : quiet (heap_of s) h1).
    { unfold h1. eapply quiet_trans; [|apply quiet_snoc; reflexivity].
      eapply quiet_setb_getb; [exact G|reflexivity|auto]. }
    assert (W1 : heap_wf h1).
    { unfold h1. apply heap_wf_snoc; [|reflexivity]. apply heap_wf_setb; [exact Hwf|].
      intros b0 Hb0. apply getb_nth in G. assert (b0 = b) as -> by congruence. reflexivity. }
    apply (frame_but_ledger (only o)).
    - eapply frame_but_trans; [apply quiet_frame_but; exact Q1|].
      eapply frame_but_trans; [eapply release_links_frame; eassumption|].
      eapply frame_but_setb_D; [reflexivity|apply getb_nth; exact G1|reflexivity|intros l; apply N.le_refl].
    - eapply only_not_alive; [unfold setb; apply nth_error_upd_same; eapply getb_lt; exact G1|reflexivity]. }
  all: destruct (value b) as [p|]; [|discriminate]; unfold lift in H;
    destruct (clone_slots (heap_of s) (cloned_slots (slots p))) as [hc|] eqn:EC; [|discriminate];
    injection H as <- _ _ _; cbn [heap_of set_reg set_heap add_ev mk];
    apply quiet_ledger; (eapply quiet_trans; [eapply clone_slots_quiet; exact EC|apply quiet_snoc; reflexivity]).
Qed.

Definition ledger_act (a : act) : Prop :=
  match a with AAdopt _ _ | AUnadopt _ _ => False | _ => True end.

(** Every action other than adopt and unadopt: whatever it does to counters,
    values and handles, it leaves every record between two objects that are
    alive afterwards exactly as it was, it revives nothing and removes no
    allocation. *)
Theorem act_ledger a s self s1 self1 r push :
  ledger_act a -> heap_wf (heap_of s) -> exec_act s self a = AO s1 self1 r push ->
  ledger_frame (heap_of s) (heap_of s1).
Proof.
  intros Ha Hwf H.
  destruct a; cbn [ledger_act] in Ha; try contradiction;
    try (apply quiet_ledger; eapply act_quiet; [|exact H]; exact I).
  - eapply try_unwrap_frame; eassumption.
  - eapply make_mut_frame; eassumption.
Qed.

(** CORE GOAL 1.  Rust reading: no method of [Rc]/[Weak] other than
    [adopt_unchecked] and [unadopt] changes the adoption bookkeeping between
    two objects that survive the call. *)
Theorem act_records a s self pc k s1 self1 r push :
  (forall h1 h2, a <> AAdopt h1 h2) -> (forall h1 h2, a <> AUnadopt h1 h2) ->
  Inv s (ctx self pc k) -> act_safe s self a = true ->
  exec_act s self a = AO s1 self1 r push ->
  records_kept (heap_of s) (heap_of s1).
Proof.
  intros N1 N2 HI _ H.
  assert (Ha : ledger_act a).
  { destruct a; cbn [ledger_act]; try exact I; [eapply N1|eapply N2]; reflexivity. }
  apply (act_ledger a s self s1 self1 r push Ha (ti_wf _ (inv_tbl _ _ HI)) H).
Qed.

(** ** [Rc::drop] *)
Lemma start_unreachable_frame s o s1 push :
  start_unreachable s o = Ok (s1, push) ->
  quiet (heap_of s) (heap_of s1) /\ exists b', nth_error (heap_of s1) o = Some b' /\ live b' = false.
Proof.
  unfold start_unreachable, bind. destruct (getb (heap_of s) o) as [b|] eqn:G; [|discriminate].
  destruct (value b) as [v|]; [|discriminate]. intros H; injection H as <- _.
  cbn [heap_of set_heap mk]. split.
  - eapply quiet_setb_getb; [exact G|reflexivity|reflexivity].
  - eexists. split; [unfold setb; apply nth_error_upd_same; eapply getb_lt; exact G|reflexivity].
Qed.

Definition member (keys : list oid) : oid -> Prop := fun y => In y keys.

(** the members of a collected group are destroyed, every other box is left
    exactly as it was *)
Lemma group_heap_frame h h3 keys : group_heap h h3 keys ->
  frame_but (member keys) h h3 /\ forall y, member keys y -> ~ alive_box h3 y.
Proof.
  intros [Hlen Hn]. split.
  - split; [lia|]. split.
    + intros a b Hb. rewrite Hn, Hb. destruct (memb a keys) eqn:E.
      * exists (gone b). split; [reflexivity|]. split; [reflexivity|]. split; [intros l; apply tbl_get_nil_le|].
        intros Hc. elim Hc. apply memb_In. exact E.
      * exists b. split; [reflexivity|]. split; [auto|]. split; [intros l; lia|auto].
    + intros o l Ho. apply lget_out. lia.
  - intros y Hy (b' & Hb' & Hl'). rewrite Hn in Hb'. apply memb_In in Hy.
    destruct (nth_error h y) as [b|]; [|discriminate]. rewrite Hy in Hb'. injection Hb' as <-.
    discriminate.
Qed.

(** [Rc::drop] of one strong handle: a handle to an already destroyed object
    and the plain decrement change no table; when the last handle goes, the
    object is destroyed and only records involving it disappear; when an
    orphaned group is collected, every member is destroyed and no table of a
    non-member changes. *)
Theorem drop_ledger pri s o k s1 push :
  Inv s (FDropStrong o :: k) -> traced_disc (heap_of s) o ->
  drop_strong pri s o = Ok (s1, push) -> ledger_frame (heap_of s) (heap_of s1).
Proof.
  intros HI Hd H. pose proof (ti_wf _ (inv_tbl _ _ HI)) as Hwf.
  unfold drop_strong, bind in H.
  destruct (getb (heap_of s) o) as [b|] eqn:G; [|discriminate].
  destruct (strong b) as [n|] eqn:Es; [|injection H as <- _; apply ledger_frame_refl].
  destruct (N.eqb_spec n 0) as [->|Hn]; [injection H as <- _; apply ledger_frame_refl|].
  pose proof (getb_ok _ _ _ G) as [Hb Hfr].
  assert (Q1 : quiet (heap_of s) (setb (heap_of s) o (with_strong b (Cnt (n - 1))))).
  { eapply quiet_setb_getb; [exact G|reflexivity|]. unfold live. rewrite Es.
    intros Hl. apply N.ltb_ge in Hl. lia. }
  assert (W1 : heap_wf (setb (heap_of s) o (with_strong b (Cnt (n - 1))))).
  { apply heap_wf_setb; [exact Hwf|]. intros b0 Hb0. assert (b0 = b) as -> by congruence. reflexivity. }
  destruct (get_links (setb (heap_of s) o (with_strong b (Cnt (n - 1)))) o) as [t|] eqn:GL; [|discriminate].
  destruct t as [|e t'].
  { (* no recorded adoption *)
    destruct (n - 1 =? 0).
    - apply start_unreachable_frame in H as [Q2 _]. cbn [heap_of set_heap mk] in Q2.
      apply quiet_ledger. eapply quiet_trans; eassumption.
    - injection H as <- _. cbn [heap_of set_heap mk]. apply quiet_ledger. exact Q1. }
  destruct (N.eqb_spec (n - 1) 0) as [E0|E0].
  { (* the last handle: drop_unreachable_with_adoptions *)
    destruct (purge_loop (setb (heap_of s) o (with_strong b (Cnt (n - 1)))) o (e :: t')) as [h2|] eqn:EP; [|discriminate].
    destruct (set_links h2 o []) as [h3|] eqn:ES; [|discriminate].
    apply start_unreachable_frame in H as [Q3 (b' & Hb' & Hl')]. cbn [heap_of set_heap mk] in Q3.
    apply (frame_but_ledger (only o)).
    - eapply frame_but_trans; [apply quiet_frame_but; exact Q1|].
      eapply frame_but_trans; [eapply purge_loop_frame_but; eassumption|].
      eapply frame_but_trans; [|apply quiet_frame_but; exact Q3].
      unfold set_links, bind in ES. destruct (getb h2 o) as [b2|] eqn:G2; [|discriminate].
      injection ES as <-.
      eapply frame_but_setb_D; [reflexivity|apply getb_nth; exact G2|auto|intros l; apply tbl_get_nil_le].
    - eapply only_not_alive; eassumption. }
  (* other handles remain: the orphan test *)
  destruct (orphaned_cycle (setb (heap_of s) o (with_strong b (Cnt (n - 1)))) o) as [[[oc pops] visits]|] eqn:Eoc; [|discriminate].
  destruct oc as [cyc|].
  2:{ injection H as <- _. cbn [heap_of set_heap add_ev mk]. apply quiet_ledger. exact Q1. }
  assert (Hn2 : 1 < n) by lia.
  pose proof (dec_strong_inv s o k b n HI Hb Es Hn2) as HI1.
  assert (Hst1 : same_tables (heap_of s) (setb (heap_of s) o (with_strong b (Cnt (n - 1))))).
  { apply same_tables_setb with (b := b); auto.
    intros _. unfold live. cbn [strong with_strong]. apply N.ltb_lt. lia. }
  assert (Hd1 : traced_disc (setb (heap_of s) o (with_strong b (Cnt (n - 1)))) o).
  { intros x Hx. eapply disc_at_same; [exact Hst1| |apply Hd; eapply reach_same; eauto].
    intros y b' Hy. unfold setb in Hy. rewrite nth_error_upd in Hy.
    destruct (Nat.eqb_spec o y) as [<-|Hne].
    + destruct (Nat.ltb o (length (heap_of s))); [|discriminate]. injection Hy as <-. exists b. auto.
    + exists b'. auto. }
  destruct (group_inv (set_heap s (setb (heap_of s) o (with_strong b (Cnt (n - 1))))) k o pri cyc pops visits HI1 Hd1 Eoc)
    as (h2 & h3 & inners & Eb & Egt & Hgh & _ & _).
  cbn [heap_of set_heap mk] in Eb, Hgh. rewrite Eb, Egt in H. injection H as <- _.
  cbn [heap_of set_heap add_ev mk].
  destruct (group_heap_frame _ _ _ Hgh) as [HF HD].
  apply (frame_but_ledger (member (map fst (order_cycle pri cyc)))); [|exact HD].
  eapply frame_but_trans; [apply quiet_frame_but; exact Q1|exact HF].
Qed.

(** CORE GOAL 2.  Rust reading: dropping an [Rc] changes the adoption
    bookkeeping only for the objects it destroys. *)
Theorem drop_records pri s o k s1 push :
  Inv s (FDropStrong o :: k) -> traced_disc (heap_of s) o ->
  drop_strong pri s o = Ok (s1, push) -> records_kept (heap_of s) (heap_of s1).
Proof. intros HI Hd H. apply (drop_ledger pri s o k s1 push HI Hd H). Qed.

(** ** one step of the machine *)

(** the step about to be taken is not a script's adopt / unadopt *)
Definition ledger_cfg (c : config) : Prop :=
  match stack c with
  | FRunDtor _ (a :: _) :: _ => ledger_act a
  | _ => True
  end.

(** the rest of drop_unreachable*: the table that is moved out and dropped
    after the destructor is the empty table of an object that is not alive *)
Lemma after_value_quiet s o k b h2 :
  Inv s (FAfterValue o :: k) -> getb (heap_of s) o = Ok b ->
  dec_weak_free (setb (heap_of s) o (with_links b None)) o = Ok h2 ->
  quiet (heap_of s) h2.
Proof.
  intros HI G E. pose proof (getb_ok _ _ _ G) as [Hb _].
  pose proof (ci_after _ _ (inv_cnt _ _ HI) o b Hb) as Ha.
  assert (Hdy : is_dying b = true).
  { destruct (is_dying b); [reflexivity|]. rewrite n_after_cons in Ha. cbn [f_after] in Ha.
    rewrite Nat.eqb_refl in Ha. lia. }
  assert (Hl : live b = false).
  { unfold is_dying in Hdy. unfold live. destruct (strong b); [discriminate|reflexivity]. }
  destruct (inv_shape _ _ HI o b Hb) as (_ & S2 & _). destruct (S2 Hl) as [_ Ht].
  eapply quiet_trans; [|eapply dec_weak_free_quiet; exact E].
  eapply quiet_setb_getb; [exact G| |auto]. rewrite Ht. reflexivity.
Qed.

(** Every step of the machine other than a script's adopt / unadopt — library
    drop logic, destructor bookkeeping, every other method, unwinding —
    leaves the records between surviving objects alone. *)
Theorem step_ledger pri c c' :
  Inv_cfg c -> step_hyp c -> ledger_cfg c -> step pri c = Running c' ->
  ledger_frame (heap_of (st c)) (heap_of (st c')).
Proof.
  destruct c as [s k u]. unfold Inv_cfg, step_hyp, ledger_cfg. cbn [st stack unw].
  intros HI Hok Hq H. destruct k as [|fr k]; [discriminate|].
  destruct fr as [o|p|p pc|ss|o|es|o|keys|r]; cbn [step st stack unw] in H.
  - destruct (drop_strong pri s o) as [[s1 push]|] eqn:E; [|discriminate].
    injection H as <-. cbn [st]. eapply drop_ledger; eassumption.
  - injection H as <-. apply ledger_frame_refl.
  - destruct pc as [|a pc]; [injection H as <-; apply ledger_frame_refl|].
    destruct (exec_act s (Some p) a) as [s1 self1 r push|e|] eqn:E; [|discriminate|].
    + injection H as <-. cbn [st].
      eapply act_ledger; [exact Hq|exact (ti_wf _ (inv_tbl _ _ HI))|exact E].
    + destruct u; [discriminate|]. pose proof (unwind_heap s k) as Hu.
      destruct (unwind_stack s k) as [s1 k1]. injection H as <-. cbn [st fst] in *. rewrite Hu.
      apply ledger_frame_refl.
  - destruct ss as [|[o|w|] ss]; try (injection H as <-; apply ledger_frame_refl).
    destruct (weak_drop (heap_of s) w) as [h1|] eqn:E; [|discriminate]. injection H as <-.
    cbn [st heap_of set_heap mk]. apply quiet_ledger. eapply weak_drop_quiet; exact E.
  - destruct (getb (heap_of s) o) as [b|] eqn:G; [|discriminate].
    destruct (links b) as [t|]; [|discriminate].
    destruct (dec_weak_free (setb (heap_of s) o (with_links b None)) o) as [h2|] eqn:E; [|discriminate].
    injection H as <-. cbn [st heap_of set_heap add_ev mk]. apply quiet_ledger.
    eapply after_value_quiet; eassumption.
  - destruct es as [|[[o v] t] es]; injection H as <-; apply ledger_frame_refl.
  - injection H as <-. apply ledger_frame_refl.
  - destruct (finish_group (heap_of s) keys) as [h1|] eqn:E; [|discriminate]. injection H as <-.
    cbn [st heap_of set_heap mk]. apply quiet_ledger. eapply finish_group_quiet; exact E.
  - injection H as <-. apply ledger_frame_refl.
Qed.

(** CORE GOAL 3 *)
Theorem step_records pri c c' :
  Inv_cfg c -> step_hyp c -> step pri c = Running c' ->
  (forall p h1 h2 pc k, stack c <> FRunDtor p (AAdopt h1 h2 :: pc) :: k) ->
  (forall p h1 h2 pc k, stack c <> FRunDtor p (AUnadopt h1 h2 :: pc) :: k) ->
  records_kept (heap_of (st c)) (heap_of (st c')).
Proof.
  intros HI Hok H N1 N2. apply (step_ledger pri c c' HI Hok); [|exact H].
  unfold ledger_cfg. destruct (stack c) as [|[o|p|p [|a pc]|ss|o|es|o|keys|r] k]; try exact I.
  destruct a; cbn [ledger_act]; try exact I; [eapply N1|eapply N2]; reflexivity.
Qed.

(** ** adopt / unadopt themselves: nothing but tables changes *)
Lemma adopt_hsl h same a b h' : adopt h same a b = Ok h' -> heap_same_but_links h h'.
Proof.
  unfold adopt, bind. destruct same.
  - intros H. apply links_insert_spec in H. tauto.
  - destruct (links_insert h a (b, Fwd)) as [h1|] eqn:E1; [|discriminate]. intros E2.
    apply links_insert_spec in E1 as [_ S1]. apply links_insert_spec in E2 as [_ S2].
    eapply heap_same_but_links_trans; eassumption.
Qed.

Lemma unadopt_hsl h same a b h' : heap_wf h -> unadopt h same a b = Ok h' -> heap_same_but_links h h'.
Proof. intros Hwf H. destruct (unadopt_le h same a b h' Hwf H) as (_ & S & _). exact S. Qed.

(** allocations are never removed and the dead stay dead *)
Definition lives_frame (h h' : heap) : Prop := (length h <= length h')%nat /\ dead_stays h h'.

Lemma lives_frame_refl h : lives_frame h h.
Proof. split; [lia|]. intros o b Hb Hl. exists b. auto. Qed.

Lemma lives_frame_trans h1 h2 h3 : lives_frame h1 h2 -> lives_frame h2 h3 -> lives_frame h1 h3.
Proof.
  intros [L1 D1] [L2 D2]. split; [lia|]. intros o b Hb Hl.
  destruct (D1 o b Hb Hl) as (b2 & Hb2 & Hl2). apply (D2 o b2 Hb2 Hl2).
Qed.

Lemma ledger_lives h h' : ledger_frame h h' -> lives_frame h h'.
Proof. intros (L & D & _). split; assumption. Qed.

Lemma hsl_lives h h' : heap_same_but_links h h' -> lives_frame h h'.
Proof.
  intros [Hlen Hs]. split; [lia|]. intros o b Hb Hl. destruct (Hs o b Hb) as (b' & Hb' & Ss & _).
  exists b'. split; [exact Hb'|]. unfold live in *. rewrite Ss. exact Hl.
Qed.

Lemma adopt_act_hsl a s self s1 self1 r push :
  ~ ledger_act a -> heap_wf (heap_of s) -> exec_act s self a = AO s1 self1 r push ->
  heap_same_but_links (heap_of s) (heap_of s1).
Proof.
  intros Ha Hwf H. destruct a; cbn [ledger_act] in Ha; try (elim Ha; exact I);
    cbn [exec_act] in H; unfold invalid, lift in H;
    destruct (resolve_strong s self h1) as [[a l1]|]; try (injection H as <- _ _ _; apply heap_same_but_links_refl);
    destruct (resolve_strong s self h2) as [[b l2]|]; try (injection H as <- _ _ _; apply heap_same_but_links_refl).
  - destruct (adopt (heap_of s) (hloc_eqb l1 l2) a b) as [h'|] eqn:E; [|discriminate].
    injection H as <- _ _ _. cbn [heap_of set_heap mk]. eapply adopt_hsl; exact E.
  - destruct (unadopt (heap_of s) (hloc_eqb l1 l2) a b) as [h'|] eqn:E; [|discriminate].
    injection H as <- _ _ _. cbn [heap_of set_heap mk]. eapply unadopt_hsl; eassumption.
Qed.

Lemma ledger_act_dec a : ledger_act a \/ ~ ledger_act a.
Proof. destruct a; cbn [ledger_act]; tauto. Qed.

(** A destroyed object is never revived and no allocation disappears, whatever
    the step (adopt and unadopt included). *)
Theorem step_lives pri c c' :
  Inv_cfg c -> step_hyp c -> step pri c = Running c' ->
  lives_frame (heap_of (st c)) (heap_of (st c')).
Proof.
  intros HI Hok H.
  assert (Hc : ledger_cfg c \/ exists p a pc k, stack c = FRunDtor p (a :: pc) :: k /\ ~ ledger_act a).
  { unfold ledger_cfg. destruct (stack c) as [|[o|p|p [|a pc]|ss|o|es|o|keys|r] k]; auto.
    destruct (ledger_act_dec a) as [Ha|Ha]; [left; exact Ha|right]. exists p, a, pc, k. auto. }
  destruct Hc as [Hc|(p & a & pc & k & Hk & Ha)].
  - apply ledger_lives. eapply step_ledger; eassumption.
  - destruct c as [s k0 u]. cbn [stack] in Hk. subst k0. unfold Inv_cfg in HI. cbn [st stack] in *.
    cbn [step st stack unw] in H.
    destruct (exec_act s (Some p) a) as [s1 self1 r push|e|] eqn:E.
    + injection H as <-. cbn [st]. apply hsl_lives.
      eapply adopt_act_hsl; [exact Ha|exact (ti_wf _ (inv_tbl _ _ HI))|exact E].
    + discriminate.
    + destruct a; cbn [ledger_act] in Ha; try (elim Ha; exact I); cbn [exec_act] in E; unfold invalid, lift in E;
        destruct (resolve_strong s (Some p) h1) as [[x l1]|]; try discriminate;
        destruct (resolve_strong s (Some p) h2) as [[y l2]|]; try discriminate.
      * destruct (adopt (heap_of s) (hloc_eqb l1 l2) x y); discriminate.
      * destruct (unadopt (heap_of s) (hloc_eqb l1 l2) x y); discriminate.
Qed.

Theorem steps_lives pri c c' :
  steps pri c c' -> Inv_cfg c -> lives_frame (heap_of (st c)) (heap_of (st c')).
Proof.
  induction 1 as [c|c c' c'' Hok Hs Hst IH]; intros HI; [apply lives_frame_refl|].
  eapply lives_frame_trans; [eapply step_lives; eassumption|]. apply IH.
  pose proof (step_inv pri c HI Hok) as Hg. rewrite Hs in Hg. exact Hg.
Qed.

(** an object that is alive at the end of a run was alive all along *)
Corollary steps_alive_back pri c c' o :
  steps pri c c' -> Inv_cfg c -> (o < length (heap_of (st c)))%nat ->
  alive_box (heap_of (st c')) o -> alive_box (heap_of (st c)) o.
Proof.
  intros Hst HI Hlt Ha. destruct (steps_lives pri c c' Hst HI) as [_ Hd].
  eapply alive_back; eassumption.
Qed.

(** ** runs without adopt / unadopt *)
Inductive lsteps (pri : list oid) : config -> config -> Prop :=
| lsteps_refl c : lsteps pri c c
| lsteps_step c c' c'' :
    step_hyp c -> ledger_cfg c -> step pri c = Running c' -> lsteps pri c' c'' -> lsteps pri c c''.

Lemma lsteps_steps pri c c' : lsteps pri c c' -> steps pri c c'.
Proof.
  induction 1 as [c|c c' c'' Hok Hq Hs _ IH]; [apply steps_refl|].
  eapply steps_step; eassumption.
Qed.

(** CORE GOAL 4.  Along a run in which no destructor script executes adopt or
    unadopt, the records between any two objects that are alive at the end
    are the same at the end as at the beginning; moreover no record grew, the
    objects created on the way have no record, and nothing was revived. *)
Theorem lsteps_ledger pri c c' :
  lsteps pri c c' -> Inv_cfg c -> ledger_frame (heap_of (st c)) (heap_of (st c')).
Proof.
  induction 1 as [c|c c' c'' Hok Hq Hs Hst IH]; intros HI; [apply ledger_frame_refl|].
  eapply ledger_frame_trans; [eapply step_ledger; eassumption|]. apply IH.
  pose proof (step_inv pri c HI Hok) as Hg. rewrite Hs in Hg. exact Hg.
Qed.

Corollary lsteps_records pri c c' :
  lsteps pri c c' -> Inv_cfg c -> records_kept (heap_of (st c)) (heap_of (st c')).
Proof. intros Hst HI. apply (lsteps_ledger pri c c' Hst HI). Qed.

(** ** the same for [run], for whole calls, with executable side conditions *)
Definition ledger_actb (a : act) : bool :=
  match a with AAdopt _ _ | AUnadopt _ _ => false | _ => true end.

Lemma ledger_actb_true a : ledger_actb a = true -> ledger_act a.
Proof. destruct a; cbn; intros H; try exact I; discriminate. Qed.

Definition ledger_cfgb (c : config) : bool :=
  match stack c with
  | FRunDtor _ (a :: _) :: _ => ledger_actb a
  | _ => true
  end.

Lemma ledger_cfgb_true c : ledger_cfgb c = true -> ledger_cfg c.
Proof.
  unfold ledger_cfgb, ledger_cfg. destruct (stack c) as [|[o|p|p [|a pc]|ss|o|es|o|keys|r] k]; auto.
  apply ledger_actb_true.
Qed.

(** no destructor script executes adopt / unadopt during the run *)
Fixpoint run_ledger (pri : list oid) (fuel : nat) (c : config) : bool :=
  match fuel with
  | O => true
  | S f =>
      ledger_cfgb c &&
      match step pri c with
      | Running c' => run_ledger pri f c'
      | _ => true
      end
  end.

Definition out_state (out : outcome) : state :=
  match out with Running c => st c | Finished s _ => s | Halted s _ => s end.

Lemma step_stop_state pri c :
  match step pri c with Running _ => True | Finished s _ => s = st c | Halted s _ => s = st c end.
Proof.
  destruct c as [s k u]. destruct k as [|fr k]; [reflexivity|].
  destruct fr as [o|p|p [|a pc]|[|[o|w|] ss]|o|[|[[o v] t] es]|o|keys|r]; cbn [step st stack unw]; try exact I.
  - destruct (drop_strong pri s o) as [[s1 push]|]; [exact I|reflexivity].
  - destruct (exec_act s (Some p) a); [exact I|reflexivity|].
    destruct u; [reflexivity|]. destruct (unwind_stack s k); exact I.
  - destruct (weak_drop (heap_of s) w); [exact I|reflexivity].
  - destruct (getb (heap_of s) o) as [b|]; [|reflexivity]. destruct (links b); [|reflexivity].
    destruct (dec_weak_free (setb (heap_of s) o (with_links b None)) o); [exact I|reflexivity].
  - destruct (finish_group (heap_of s) keys); [exact I|reflexivity].
Qed.

Theorem run_ledger_frame pri fuel : forall c,
  Inv_cfg c -> run_ok pri fuel c = true -> run_ledger pri fuel c = true ->
  ledger_frame (heap_of (st c)) (heap_of (out_state (run pri fuel c))).
Proof.
  induction fuel as [|f IH]; intros c HI Hok Hq; cbn [run run_ok run_ledger] in *; [apply ledger_frame_refl|].
  apply andb_true_iff in Hok as [Hs Hr]. apply andb_true_iff in Hq as [Hq Hqr].
  pose proof (step_ok_hyp c Hs) as Hhyp. pose proof (step_inv pri c HI Hhyp) as Hg.
  pose proof (step_stop_state pri c) as Hst.
  destruct (step pri c) as [c'|s' b|s' e] eqn:E; cbn [out_state step_goal] in *.
  - eapply ledger_frame_trans; [eapply step_ledger; [exact HI|exact Hhyp|apply ledger_cfgb_true; exact Hq|exact E]|].
    apply IH; assumption.
  - subst s'. apply ledger_frame_refl.
  - subst s'. apply ledger_frame_refl.
Qed.

Lemma exec_new_quiet s self dst sc s1 self1 r push :
  exec_new s self dst sc = AO s1 self1 r push -> quiet (heap_of s) (heap_of s1).
Proof.
  unfold exec_new, invalid. destruct (reg_free s dst); intros H; injection H as <- _ _ _.
  - cbn [heap_of set_reg set_heap mk]. apply quiet_snoc. reflexivity.
  - apply quiet_refl.
Qed.

(** the call is not adopt / unadopt and no destructor it runs executes one *)
Definition op_ledgerb (pri : list oid) (fuel : nat) (s : state) (o : op) : bool :=
  match o with OAct a => ledger_actb a | ONewS _ _ => true end &&
  match op_start s o with
  | AO s1 _ _ push => run_ledger pri fuel {| st := s1; stack := push; unw := false |}
  | _ => true
  end.

(** A whole call (with every destructor it triggers) that is neither adopt
    nor unadopt and in which no destructor adopts or unadopts: the adoption
    records between the objects that survive the call are exactly what they
    were before the call. *)
Theorem exec_op_ledger pri fuel s o :
  Inv s [] -> op_ok pri fuel s o = true -> op_ledgerb pri fuel s o = true ->
  ledger_frame (heap_of s) (heap_of (fst (exec_op pri fuel s o))).
Proof.
  intros HI Hok Hq. pose proof (op_start_inv s o HI) as Hst. unfold op_ok in Hok. unfold op_ledgerb in Hq.
  apply andb_true_iff in Hq as [Hqa Hqr]. unfold exec_op.
  change (match o with OAct a => exec_act s None a | ONewS dst sc => exec_new s None dst sc end) with (op_start s o).
  destruct (op_start s o) as [s1 self1 r push|e|] eqn:E; cbn [fst]; try apply ledger_frame_refl.
  assert (F1 : ledger_frame (heap_of s) (heap_of s1)).
  { destruct o as [a|dst sc]; cbn [op_start] in E.
    - eapply act_ledger; [apply ledger_actb_true; exact Hqa|exact (ti_wf _ (inv_tbl _ _ HI))|exact E].
    - apply quiet_ledger. eapply exec_new_quiet; exact E. }
  pose proof (run_ledger_frame pri fuel {| st := s1; stack := push; unw := false |} Hst Hok Hqr) as F2.
  cbn [st] in F2.
  assert (Efst : fst (match run pri fuel {| st := s1; stack := push; unw := false |} with
                      | Finished s2 false => (s2, ODone r)
                      | Finished s2 true => (s2, OPanicked)
                      | Halted s2 e => (s2, OHalt e)
                      | Running c => (st c, OFuel)
                      end) = out_state (run pri fuel {| st := s1; stack := push; unw := false |})).
  { destruct (run pri fuel {| st := s1; stack := push; unw := false |}) as [c'|s' [|]|s' e]; reflexivity. }
  rewrite Efst. eapply ledger_frame_trans; eassumption.
Qed.

(** a history in which no call and no destructor adopts or unadopts *)
Fixpoint hist_ledger (fuel : nat) (s : state) (h : list (op * list oid)) : bool :=
  match h with
  | [] => true
  | (o, pri) :: h' =>
      op_ledgerb pri fuel s o &&
      (let '(s1, r) := exec_op pri fuel s o in
       match r with
       | OHalt _ | OFuel => true
       | _ => hist_ledger fuel s1 h'
       end)
  end.

(** Between two adopt / unadopt calls, however many other calls are made and
    whatever they destroy, the adoption records between the objects that are
    still alive do not change. *)
Theorem run_history_ledger fuel h : forall s,
  Inv s [] -> hist_ok fuel s h = true -> hist_ledger fuel s h = true ->
  ledger_frame (heap_of s) (heap_of (fst (run_history fuel s h))).
Proof.
  induction h as [|[o pri] h IH]; intros s HI Hok Hq; cbn [run_history hist_ok hist_ledger] in *.
  - apply ledger_frame_refl.
  - apply andb_true_iff in Hok as [Hop Hrest]. apply andb_true_iff in Hq as [Hqo Hqrest].
    pose proof (exec_op_inv pri fuel s o HI Hop) as Hg.
    pose proof (exec_op_ledger pri fuel s o HI Hop Hqo) as F1.
    destruct (exec_op pri fuel s o) as [s1 r] eqn:E. cbn [op_goal fst snd] in *.
    destruct r as [res| |e|]; cbn [fst snd] in *.
    + specialize (IH s1 Hg Hrest Hqrest). destruct (run_history fuel s1 h) as [s2 rs]. cbn [fst] in *.
      eapply ledger_frame_trans; eassumption.
    + specialize (IH s1 Hg Hrest Hqrest). destruct (run_history fuel s1 h) as [s2 rs]. cbn [fst] in *.
      eapply ledger_frame_trans; eassumption.
    + exact F1.
    + exact F1.
Qed.

(** ** STRETCH 5a: the exact effect of adopt / unadopt on the ledger *)
Lemma pair_test_false (o a : oid) (l l0 : link) :
  ~ (o = a /\ l = l0) -> Nat.eqb o a && link_eqb l l0 = false.
Proof.
  intros H. destruct (Nat.eqb_spec o a) as [->|Hne]; [|reflexivity]. cbn [andb].
  apply link_eqb_neq. intros ->. apply H. auto.
Qed.

(** [Rc::adopt_unchecked(this, other)] through two distinct handles, [this]
    pointing to [a] and [other] to [b]: the owner's forward record of the
    target and the target's backward record of the owner grow by one; every
    other record of every object is unchanged; nothing but tables changes. *)
Theorem act_adopt_ledger s self h1 h2 a b l1 l2 s1 self1 r push :
  resolve_strong s self h1 = Some (a, l1) -> resolve_strong s self h2 = Some (b, l2) ->
  hloc_eqb l1 l2 = false ->
  exec_act s self (AAdopt h1 h2) = AO s1 self1 r push ->
  lget (heap_of s1) a (b, Fwd) = lget (heap_of s) a (b, Fwd) + 1 /\
  lget (heap_of s1) b (a, Bwd) = lget (heap_of s) b (a, Bwd) + 1 /\
  (forall o l, ~ (o = a /\ l = (b, Fwd)) -> ~ (o = b /\ l = (a, Bwd)) ->
     lget (heap_of s1) o l = lget (heap_of s) o l) /\
  heap_same_but_links (heap_of s) (heap_of s1).
Proof.
  intros E1 E2 Hne H. cbn [exec_act] in H. rewrite E1, E2, Hne in H. unfold lift in H.
  destruct (adopt (heap_of s) false a b) as [h'|] eqn:E; [|discriminate].
  injection H as <- _ _ _. cbn [heap_of set_heap mk].
  destruct (adopt_counts _ _ _ _ E) as [C1 C2]. destruct (adopt_spec _ _ _ _ E) as [S P].
  split; [exact C1|]. split; [exact C2|]. split; [|exact P].
  intros o l N1 N2. rewrite S, (pair_test_false _ _ _ _ N1), (pair_test_false _ _ _ _ N2). lia.
Qed.

(** the same through one and the same handle object ([ptr::eq(this, other)]):
    one Loopback self record more, nothing else *)
Theorem act_adopt_self_ledger s self h1 h2 a b l1 l2 s1 self1 r push :
  resolve_strong s self h1 = Some (a, l1) -> resolve_strong s self h2 = Some (b, l2) ->
  hloc_eqb l1 l2 = true ->
  exec_act s self (AAdopt h1 h2) = AO s1 self1 r push ->
  b = a /\
  lget (heap_of s1) a (a, Loop) = lget (heap_of s) a (a, Loop) + 1 /\
  (forall o l, ~ (o = a /\ l = (a, Loop)) -> lget (heap_of s1) o l = lget (heap_of s) o l) /\
  heap_same_but_links (heap_of s) (heap_of s1).
Proof.
  intros E1 E2 Heq H. pose proof (same_handle_same_target s self h1 h2 a b l1 l2 E1 E2 Heq) as <-.
  cbn [exec_act] in H. rewrite E1, E2, Heq in H. unfold lift in H.
  destruct (adopt (heap_of s) true a a) as [h'|] eqn:E; [|discriminate].
  injection H as <- _ _ _. cbn [heap_of set_heap mk].
  destruct (adopt_same_handle_spec _ _ _ E) as [S P].
  split; [reflexivity|]. split; [|split; [|exact P]].
  - rewrite S, Nat.eqb_refl, link_eqb_refl. reflexivity.
  - intros o l N1. rewrite S, (pair_test_false _ _ _ _ N1). lia.
Qed.

(** [Rc::unadopt(this, other)] through distinct handles: the two records of
    the pair lose one (saturating at zero: a no-op when there is none), every
    other record of every object is unchanged. *)
Theorem act_unadopt_ledger s self pc k h1 h2 a b l1 l2 s1 self1 r push :
  Inv s (ctx self pc k) ->
  resolve_strong s self h1 = Some (a, l1) -> resolve_strong s self h2 = Some (b, l2) ->
  hloc_eqb l1 l2 = false ->
  exec_act s self (AUnadopt h1 h2) = AO s1 self1 r push ->
  lget (heap_of s1) a (b, Fwd) = lget (heap_of s) a (b, Fwd) - 1 /\
  lget (heap_of s1) b (a, Bwd) = lget (heap_of s) b (a, Bwd) - 1 /\
  (forall o l, ~ (o = a /\ l = (b, Fwd)) -> ~ (o = b /\ l = (a, Bwd)) ->
     lget (heap_of s1) o l = lget (heap_of s) o l) /\
  heap_same_but_links (heap_of s) (heap_of s1).
Proof.
  intros HI E1 E2 Hne H. pose proof (ti_wf _ (inv_tbl _ _ HI)) as Hwf.
  cbn [exec_act] in H. rewrite E1, E2, Hne in H. unfold lift in H.
  destruct (unadopt (heap_of s) false a b) as [h'|] eqn:E; [|discriminate].
  injection H as <- _ _ _. cbn [heap_of set_heap mk].
  destruct (unadopt_counts _ _ _ _ Hwf E) as [C1 C2]. destruct (unadopt_spec _ _ _ _ Hwf E) as (S & P & _).
  split; [exact C1|]. split; [exact C2|]. split; [|exact P].
  intros o l N1 N2. rewrite S, (pair_test_false _ _ _ _ N2), (pair_test_false _ _ _ _ N1). reflexivity.
Qed.

Theorem act_unadopt_self_ledger s self pc k h1 h2 a b l1 l2 s1 self1 r push :
  Inv s (ctx self pc k) ->
  resolve_strong s self h1 = Some (a, l1) -> resolve_strong s self h2 = Some (b, l2) ->
  hloc_eqb l1 l2 = true ->
  exec_act s self (AUnadopt h1 h2) = AO s1 self1 r push ->
  b = a /\
  lget (heap_of s1) a (a, Loop) = lget (heap_of s) a (a, Loop) - 1 /\
  (forall o l, ~ (o = a /\ l = (a, Loop)) -> lget (heap_of s1) o l = lget (heap_of s) o l) /\
  heap_same_but_links (heap_of s) (heap_of s1).
Proof.
  intros HI E1 E2 Heq H. pose proof (ti_wf _ (inv_tbl _ _ HI)) as Hwf.
  pose proof (same_handle_same_target s self h1 h2 a b l1 l2 E1 E2 Heq) as <-.
  cbn [exec_act] in H. rewrite E1, E2, Heq in H. unfold lift in H.
  destruct (unadopt (heap_of s) true a a) as [h'|] eqn:E; [|discriminate].
  injection H as <- _ _ _. cbn [heap_of set_heap mk]. unfold unadopt in E.
  destruct (links_remove_spec _ _ _ _ _ Hwf E) as (S & P & _).
  split; [reflexivity|]. split; [|split; [|exact P]].
  - rewrite S, Nat.eqb_refl, link_eqb_refl. reflexivity.
  - intros o l N1. rewrite S, (pair_test_false _ _ _ _ N1). reflexivity.
Qed.

(** ** STRETCH 5b: a fresh object has no record and nobody records it *)
Lemma empty_unrecorded h o : TblInv h -> (forall l, lget h o l = 0) -> forall a kd, lget h a (o, kd) = 0.
Proof.
  intros HT Hz a kd. destruct kd.
  - rewrite (ti_sym _ HT a o). apply Hz.
  - rewrite <- (ti_sym _ HT o a). apply Hz.
  - destruct (N.eq_dec (lget h a (o, Loop)) 0) as [E|E]; [exact E|].
    assert (Hp : 0 < lget h a (o, Loop)) by lia.
    pose proof (ti_loop _ HT a o Hp) as ->. apply Hz.
Qed.

(** an index that has not been allocated yet appears in no table *)
Theorem fresh_no_record h o : TblInv h -> (length h <= o)%nat ->
  (forall l, lget h o l = 0) /\ (forall a kd, lget h a (o, kd) = 0).
Proof.
  intros HT Ho. assert (Hz : forall l, lget h o l = 0) by (intros l; apply lget_out; exact Ho).
  split; [exact Hz|]. apply empty_unrecorded; assumption.
Qed.

(** an object created by a step ([Rc::new], [Rc::make_mut]) starts with an
    empty table and nobody has a record of it *)
Theorem step_created_no_record pri c c' o :
  Inv_cfg c -> step_hyp c -> step pri c = Running c' -> (length (heap_of (st c)) <= o)%nat ->
  (forall l, lget (heap_of (st c')) o l = 0) /\ (forall a kd, lget (heap_of (st c')) a (o, kd) = 0).
Proof.
  intros HI Hok H Ho.
  assert (HI' : Inv_cfg c') by (pose proof (step_inv pri c HI Hok) as Hg; rewrite H in Hg; exact Hg).
  assert (Hz : forall l, lget (heap_of (st c')) o l = 0).
  { assert (Hc : ledger_cfg c \/ exists p a pc k, stack c = FRunDtor p (a :: pc) :: k /\ ~ ledger_act a).
    { unfold ledger_cfg. destruct (stack c) as [|[o0|p|p [|a pc]|ss|o0|es|o0|keys|r] k]; auto.
      destruct (ledger_act_dec a) as [Ha|Ha]; [left; exact Ha|right]. exists p, a, pc, k. auto. }
    destruct Hc as [Hc|(p & a & pc & k & Hk & Ha)].
    - destruct (step_ledger pri c c' HI Hok Hc H) as (_ & _ & _ & _ & F). intros l. apply F. exact Ho.
    - destruct c as [s k0 u]. cbn [stack] in Hk. subst k0. unfold Inv_cfg in HI. cbn [st stack] in *.
      cbn [step st stack unw] in H.
      destruct (exec_act s (Some p) a) as [s1 self1 r push|e|] eqn:E.
      + injection H as <-. cbn [st] in *.
        pose proof (adopt_act_hsl a s (Some p) s1 self1 r push Ha (ti_wf _ (inv_tbl _ _ HI)) E) as [Hlen _].
        intros l. apply lget_out. lia.
      + discriminate.
      + destruct a; cbn [ledger_act] in Ha; try (elim Ha; exact I); cbn [exec_act] in E; unfold invalid, lift in E;
          destruct (resolve_strong s (Some p) h1) as [[x l1]|]; try discriminate;
          destruct (resolve_strong s (Some p) h2) as [[y l2]|]; try discriminate.
        * destruct (adopt (heap_of s) (hloc_eqb l1 l2) x y); discriminate.
        * destruct (unadopt (heap_of s) (hloc_eqb l1 l2) x y); discriminate. }
  split; [exact Hz|]. apply empty_unrecorded; [|exact Hz]. exact (inv_tbl _ _ HI').
Qed.

(** the same for every object created during a run without adopt / unadopt *)
Corollary lsteps_created_no_record pri c c' o :
  lsteps pri c c' -> Inv_cfg c -> (length (heap_of (st c)) <= o)%nat ->
  (forall l, lget (heap_of (st c')) o l = 0) /\ (forall a kd, lget (heap_of (st c')) a (o, kd) = 0).
Proof.
  intros Hst HI Ho. destruct (lsteps_ledger pri c c' Hst HI) as (_ & _ & _ & _ & F).
  assert (Hz : forall l, lget (heap_of (st c')) o l = 0) by (intros l; apply F; exact Ho).
  split; [exact Hz|]. apply empty_unrecorded; [|exact Hz].
  exact (inv_tbl _ _ (steps_inv pri c c' (lsteps_steps pri c c' Hst) HI)).
Qed.

Print Assumptions act_records.
Print Assumptions drop_records.
Print Assumptions step_records.
Print Assumptions lsteps_ledger.
Print Assumptions steps_lives.
Print Assumptions run_ledger_frame.
Print Assumptions exec_op_ledger.
Print Assumptions run_history_ledger.
Print Assumptions act_adopt_ledger.
Print Assumptions act_adopt_self_ledger.
Print Assumptions act_unadopt_ledger.
Print Assumptions act_unadopt_self_ledger.
Print Assumptions step_created_no_record.
Print Assumptions lsteps_created_no_record.
