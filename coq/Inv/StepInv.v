(** * Every step of the machine preserves [Inv] and never faults, as long as
    the history is disciplined (C01's precondition, checked when library drop
    logic starts) and destructor scripts do not use destroyed objects other
    than by cloning, dropping, upgrading or counting (C10's precondition). *)
From CR Require Import Base Atomic Machine LinksFacts HeapFacts TraceFacts TraceTotal Local
  Tokens InvDef InvLemmas ActBase ActClone ActHandles ActAdopt ActMove StepFrames StepPanic
  GroupOps DropDec Group ActConsume DropLast.
Local Open Scope N_scope.

(** ** the executable hypotheses imply the propositional ones *)
Lemma tbl_get_In t l : 0 < tbl_get t l -> In (l, tbl_get t l) t.
Proof.
  induction t as [|[l' c] t IH]; cbn [tbl_get]; intros H; [lia|].
  destruct (link_eqb l l') eqn:E.
  - apply link_eqb_eq in E. subst. left. reflexivity.
  - right. apply IH. exact H.
Qed.

Lemma discb_disc h : discb h = true -> disc h.
Proof.
  intros H a b p Hb Hv y. unfold discb in H. rewrite forallb_forall in H.
  specialize (H b (nth_error_In _ _ Hb)). rewrite Hv in H. rewrite forallb_forall in H.
  unfold lget. rewrite Hb. destruct (N.eq_dec (tbl_get (btable b) (y, Fwd)) 0) as [E|E]; [lia|].
  assert (Hin : In ((y, Fwd), tbl_get (btable b) (y, Fwd)) (btable b)) by (apply tbl_get_In; lia).
  specialize (H _ Hin). cbn in H. apply N.leb_le in H. exact H.
Qed.

(** the precondition only looks at tables and values *)
Lemma disc_at_same h h' a : same_tables h h' ->
  (forall o b', nth_error h' o = Some b' -> exists b, nth_error h o = Some b /\ value b' = value b) ->
  disc_at h a -> disc_at h' a.
Proof.
  intros Hst Hv Hd b' p Hb' Hp y. rewrite (same_tables_lget h h' a _ Hst).
  destruct (Hv a b' Hb') as (b & Hb & E). apply (Hd b p Hb). congruence.
Qed.

Lemma tbl_of_same h h' x : same_tables h h' -> tbl_of h' x = tbl_of h x.
Proof.
  intros [Hlen Hst]. unfold tbl_of. destruct (nth_error h x) as [b|] eqn:Hb.
  - destruct (Hst x b Hb) as (b' & -> & -> & _). reflexivity.
  - assert (nth_error h' x = None) as ->; [|reflexivity].
    apply nth_error_None. apply nth_error_None in Hb. lia.
Qed.

Lemma reach_same h h' a y : same_tables h h' -> reach h' a y -> reach h a y.
Proof.
  intros Hst. induction 1 as [|x y Hr IH He]; [apply reach_refl|].
  apply reach_step with (x := x); [exact IH|]. unfold edge in *. rewrite <- (tbl_of_same h h' x Hst). exact He.
Qed.

(** the precondition of a drop, in its weakest form: only the objects the
    reachability trace visits need to be disciplined *)
Definition traced_disc (h : heap) (o : oid) : Prop := forall x, reach h o x -> disc_at h x.

Lemma disc_traced h o : disc h -> traced_disc h o.
Proof. intros H x _. apply H. Qed.

(** ** a weightless frame may be inserted anywhere *)
Lemma inert_ok_insert h lg fr k1 k2 : weightless fr ->
  inert_ok h lg (k1 ++ k2) -> inert_ok h lg (k1 ++ fr :: k2).
Proof.
  intros Hw. induction k1 as [|f k1 IH]; cbn [app].
  - intros H. rewrite inert_ok_cons. split; [apply frame_ok_weightless; exact Hw|exact H].
  - rewrite !inert_ok_cons. intros [Hf Hi]. split; [|apply IH; exact Hi].
    eapply frame_ok_below; [|exact Hf]. intros o. rewrite !n_fin_app, n_fin_cons, (weightless_fin o fr Hw). lia.
Qed.

Lemma Inv_insert_weightless s fr k1 k2 : weightless fr -> Inv s (k1 ++ k2) -> Inv s (k1 ++ fr :: k2).
Proof.
  intros Hw [Hshape Htbl [C1 C2 C3 C4 C5 C6] Hnd Hin].
  assert (HW : forall f, W f s (k1 ++ fr :: k2) = W f s (k1 ++ k2)).
  { intros f. unfold W. rewrite !total_app. cbn [total]. rewrite (weightless_w f fr Hw). lia. }
  assert (HA : forall o, n_after o (k1 ++ fr :: k2) = n_after o (k1 ++ k2)).
  { intros o. rewrite !n_after_app, n_after_cons, (weightless_after o fr Hw). lia. }
  assert (HF : forall o, n_fin o (k1 ++ fr :: k2) = n_fin o (k1 ++ k2)).
  { intros o. rewrite !n_fin_app, n_fin_cons, (weightless_fin o fr Hw). lia. }
  split; [exact Hshape|exact Htbl| |exact Hnd|apply inert_ok_insert; assumption].
  split.
  - intros o b n Hb Hs. rewrite HW. apply (C1 o b n Hb Hs).
  - intros o b Hb. rewrite HW, HA, HF. apply (C2 o b Hb).
  - intros o b Hb. rewrite HA. apply (C3 o b Hb).
  - intros o b Hb Hp. rewrite HF in Hp. apply (C4 o b Hb Hp).
  - intros o Hb. rewrite !HW, HA, HF. apply (C5 o Hb).
  - exact C6.
Qed.

(** ** all actions *)
Theorem act_inv a : act_preserves a.
Proof.
  destruct a.
  - apply act_new. - apply act_clone. - apply act_drop. - apply act_downgrade. - apply act_upgrade.
  - apply act_clone_weak. - apply act_weak_new. - apply act_store. - apply act_take.
  - apply act_adopt. - apply act_unadopt. - apply act_try_unwrap. - apply act_get_mut.
  - apply act_make_mut. - apply act_into_raw. - apply act_from_raw. - apply act_inc_strong.
  - apply act_dec_strong. - apply act_ptr_eq. - apply act_strong_count. - apply act_weak_count.
  - apply act_wstrong_count. - apply act_wweak_count. - apply act_deref. - apply act_panic.
Qed.

(** ** [Rc::drop] *)
Theorem drop_strong_inv pri s o k :
  Inv s (FDropStrong o :: k) -> traced_disc (heap_of s) o ->
  exists s1 push, drop_strong pri s o = Ok (s1, push) /\ Inv s1 (push ++ k).
Proof.
  intros HI Hd.
  destruct (inv_top_token s (FDropStrong o) k o HI) as (b & Hg & Hc).
  { cbn [w_frame]. rewrite sw_strong_self. lia. }
  destruct Hc as [Hl|Hu].
  2:{ destruct (drop_dead_inv pri s o k b HI Hg) as [E HI']; [rewrite Hu; reflexivity|].
      exists s, []. split; [exact E|exact HI']. }
  destruct (live_true b Hl) as (n & Hs & Hn).
  destruct (N.eq_dec n 1) as [->|Hn1].
  { destruct (drop_last_inv pri s o k b HI Hg Hs) as (s1 & v & E & _ & HI').
    exists s1, [FDtorStart v; FAfterValue o]. split; [exact E|exact HI']. }
  assert (Hn2 : 1 < n) by lia.
  pose proof (getb_ok _ _ _ Hg) as [Hb Hfr].
  pose proof (dec_strong_inv s o k b n HI Hb Hs Hn2) as HI1.
  set (h1 := setb (heap_of s) o (with_strong b (Cnt (n - 1)))) in *.
  destruct (inv_shape s _ HI o b Hb) as (S1 & _). destruct (S1 Hl) as (Hv & Hlk & _).
  destruct (links b) as [t|] eqn:El; [|congruence].
  assert (Hgl : get_links h1 o = Ok t).
  { unfold h1. rewrite (get_links_setb_strong _ _ _ _ Hg), El. reflexivity. }
  unfold drop_strong, bind. rewrite Hg, Hs.
  assert ((n =? 0) = false) as -> by (apply N.eqb_neq; lia).
  fold h1. rewrite Hgl.
  assert ((n - 1 =? 0) = false) as -> by (apply N.eqb_neq; lia).
  destruct t as [|e t'].
  { exists (set_heap s h1), []. split; [reflexivity|exact HI1]. }
  (* the trace *)
  pose proof (Inv_HeapInv _ _ HI1) as HH1. cbn [heap_of set_heap mk] in HH1.
  assert (Hht : has_table h1 o).
  { assert (Hlt : (o < length (heap_of s))%nat) by (apply nth_error_Some; congruence).
    exists (with_strong b (Cnt (n - 1))), (e :: t'). split; [|exact El].
    apply getb_intro; [unfold h1; apply nth_error_upd_same; exact Hlt|exact Hfr]. }
  destruct (orphaned_cycle_total h1 o Hht (hi_closed_fwd h1 HH1) (hi_closed_bwd h1 HH1)) as (oc & pops & visits & Eoc).
  rewrite Eoc. destruct oc as [cyc|].
  2:{ exists (add_ev (set_heap s h1) (EvTrace o pops visits)), []. split; [reflexivity|].
      apply Inv_add_ev; [reflexivity|exact HI1]. }
  assert (Hst1 : same_tables (heap_of s) h1).
  { unfold h1. apply same_tables_setb with (b := b); auto.
    intros _. unfold live. cbn [strong with_strong]. apply N.ltb_lt. lia. }
  assert (Hd1 : traced_disc h1 o).
  { intros x Hx. eapply disc_at_same; [exact Hst1| |apply Hd; eapply reach_same; eauto].
    intros y b' Hy. unfold h1, setb in Hy. rewrite nth_error_upd in Hy.
    destruct (Nat.eqb_spec o y) as [<-|Hne].
    + destruct (Nat.ltb o (length (heap_of s))); [|discriminate]. injection Hy as <-. exists b. auto.
    + exists b'. auto. }
  destruct (group_inv (set_heap s h1) k o pri cyc pops visits HI1 Hd1 Eoc) as (h2 & h3 & inners & Eb & Egt & _ & _ & HI3).
  cbn [heap_of set_heap mk] in Eb. rewrite Eb, Egt.
  eexists _, _. split; [reflexivity|]. exact HI3.
Qed.

(** ** one step *)
Definition Inv_cfg (c : config) : Prop := Inv (st c) (stack c).

Definition step_goal (c : config) (out : outcome) : Prop :=
  match out with
  | Running c' => Inv_cfg c'
  | Finished s' _ => stack c = [] /\ s' = st c
  | Halted _ h => h = HAbort
  end.

Lemma step_other pri s fr k u :
  (forall o, fr <> FDropStrong o) -> (forall p a pc, fr <> FRunDtor p (a :: pc)) ->
  Inv s (fr :: k) ->
  step_goal {| st := s; stack := fr :: k; unw := u |} (step pri {| st := s; stack := fr :: k; unw := u |}).
Proof.
  intros H1 H2 HI. pose proof (step_frames_strong pri s fr k u H1 H2 HI) as H.
  destruct (step pri {| st := s; stack := fr :: k; unw := u |}) as [c'|s' b|s' h]; cbn [step_goal]; try contradiction.
  destruct H as [H _]. exact H.
Qed.

(** what the hypotheses ask of one step, as a proposition: [step_ok] (the
    global, executable form) implies it *)
Definition step_hyp (c : config) : Prop :=
  match stack c with
  | FDropStrong o :: _ => traced_disc (heap_of (st c)) o
  | FRunDtor p (a :: _) :: _ => act_safe (st c) (Some p) a = true
  | _ => True
  end.

Lemma step_ok_hyp c : step_ok c = true -> step_hyp c.
Proof.
  unfold step_ok, step_hyp. destruct (stack c) as [|[o|p|p [|a pc]|ss|o|es|o|keys|r] k]; auto.
  intros H. apply disc_traced. apply discb_disc. exact H.
Qed.

Theorem step_inv pri c :
  Inv_cfg c -> step_hyp c -> step_goal c (step pri c).
Proof.
  destruct c as [s k u]. unfold Inv_cfg, step_hyp. cbn [st stack unw]. intros HI Hok.
  destruct k as [|fr k]; [cbn; auto|].
  destruct fr as [o|p|p pc|ss|o|es|o|keys|r]; try (apply step_other; [discriminate|discriminate|exact HI]).
  - (* Rc::drop *)
    destruct (drop_strong_inv pri s o k HI Hok) as (s1 & push & E & HI1).
    cbn [step st stack unw]. rewrite E. exact HI1.
  - destruct pc as [|a pc]; [apply step_other; [discriminate|discriminate|exact HI]|].
    (* a script action *)
    pose proof (act_inv a s (Some p) pc k (Inv_ctx_pc s (Some p) (a :: pc) pc k HI) Hok) as Hpost.
    cbn [step st stack unw]. destruct (exec_act s (Some p) a) as [s1 self1 r push|h|].
    + cbn [act_post] in Hpost. destruct Hpost as [Hself HI1]. destruct self1 as [p1|].
      * cbn [ctx] in HI1. unfold step_goal, Inv_cfg. cbn [st stack].
        apply Inv_insert_weightless with (fr := FRes r); [exact I|exact HI1].
      * destruct Hself as [_ Hs']. specialize (Hs' eq_refl). discriminate.
    + exact Hpost.
    + destruct u; [reflexivity|].
      pose proof (unwind_inv s p (a :: pc) k HI) as Hu. destruct (unwind_stack s k) as [s1 k1]. exact Hu.
Qed.
