(** * PidInv: every value is destroyed at most once, and a box holds the value
    it was created with.

    Every payload carries the identifier [pid] of the box it was created in.
    Payloads are never duplicated: they move between a box, a loose register
    (after [try_unwrap]) and frames of the machine stack.  The invariant
    [PidInv] records that the identifiers of the values whose destructor has
    not started yet ("pending") are pairwise distinct and distinct from the
    identifiers already logged by [EvDtor].  It is independent of the global
    invariant [Inv] and holds for EVERY run of the machine, disciplined or
    not (C01, C02). *)
From Coq Require Import Permutation.
From CR Require Import Base Atomic Machine HeapFacts Tokens.

(** ** generic list helpers *)
Lemma NoDup_app_r {A} (g l : list A) : NoDup (g ++ l) -> NoDup l.
Proof.
  induction g as [|a g IH]; cbn [app]; intros H; [exact H|].
  inversion H as [|? ? _ H']; subst. apply IH; exact H'.
Qed.

Lemma NoDup_drop_mid {A} (a g l : list A) : NoDup ((a ++ g) ++ l) -> NoDup (a ++ l).
Proof.
  intros H. apply (NoDup_app_r g). eapply Permutation_NoDup; [|exact H].
  rewrite <- app_assoc. apply Permutation_app_swap_app.
Qed.

Lemma map_upd {A B} (f : A -> B) l i x : map f (upd l i x) = upd (map f l) i (f x).
Proof.
  revert i; induction l as [|a l IH]; intros [|i]; cbn [upd map]; try reflexivity.
  rewrite IH. reflexivity.
Qed.

Lemma upd_nth_same {A} (l : list A) i x d : nth i l d = x -> upd l i x = l.
Proof.
  revert i; induction l as [|a l IH]; intros [|i] H; cbn [upd nth] in *; try reflexivity.
  - subst. reflexivity.
  - rewrite IH by exact H. reflexivity.
Qed.

Lemma upd_nth_error_same {A} (l : list A) i x : nth_error l i = Some x -> upd l i x = l.
Proof.
  revert i; induction l as [|a l IH]; intros [|i] H; cbn [upd nth_error] in *; try discriminate.
  - injection H as ->. reflexivity.
  - rewrite IH by exact H. reflexivity.
Qed.

(** ** the identifiers stored in option lists *)
Definition olist (x : option nat) : list nat :=
  match x with Some n => [n] | None => [] end.

Definition opts (l : list (option nat)) : list nat := flat_map olist l.

Lemma opts_app l1 l2 : opts (l1 ++ l2) = opts l1 ++ opts l2.
Proof. unfold opts. apply flat_map_app. Qed.

(** replacing one entry: the old entry leaves, the new one enters *)
Lemma opts_upd l i a x :
  nth_error l i = Some a ->
  Permutation (olist a ++ opts (upd l i x)) (olist x ++ opts l).
Proof.
  revert i; induction l as [|a0 l IH]; intros [|i] H; cbn [nth_error] in H; try discriminate.
  - injection H as ->. cbn [upd opts flat_map]. apply Permutation_app_swap_app.
  - cbn [upd opts flat_map]. fold (opts (upd l i x)). fold (opts l).
    rewrite Permutation_app_swap_app. rewrite (IH i H). apply Permutation_app_swap_app.
Qed.

Lemma opts_take l i x :
  nth_error l i = Some (Some x) -> Permutation (x :: opts (upd l i None)) (opts l).
Proof. intros H. apply (opts_upd l i (Some x) None) in H. exact H. Qed.

Lemma opts_put l i x :
  nth_error l i = Some None -> Permutation (opts (upd l i (Some x))) (x :: opts l).
Proof. intros H. apply (opts_upd l i None (Some x)) in H. exact H. Qed.

(** ** pending, started and logged identifiers *)
Definition hpid (b : box) : option nat := option_map pid (value b).
Definition hpids (h : heap) : list (option nat) := map hpid h.

Definition rpid (x : reg) : option nat :=
  match x with RLoose p => Some (pid p) | _ => None end.
Definition rpids (rs : list reg) : list (option nat) := map rpid rs.

Definition heap_pids (h : heap) : list nat := opts (hpids h).
Definition reg_pids (rs : list reg) : list nat := opts (rpids rs).

Definition inner_pids (es : list inner) : list nat :=
  map (fun e : inner => pid (snd (fst e))) es.

(** values held by a frame whose destructor has not started *)
Definition frame_pend (f : frame) : list nat :=
  match f with
  | FDtorStart p => [pid p]
  | FInners es => inner_pids es
  | _ => []
  end.
Definition stack_pend (k : list frame) : list nat := flat_map frame_pend k.

(** values whose destructor is running *)
Definition frame_started (f : frame) : list nat :=
  match f with FRunDtor p _ => [pid p] | _ => [] end.
Definition started (k : list frame) : list nat := flat_map frame_started k.

Definition ev_dtor (e : event) : list nat :=
  match e with EvDtor p => [p] | _ => [] end.
Definition dtor_events (l : list event) : list nat := flat_map ev_dtor l.
Definition dtor_log (s : state) : list nat := dtor_events (log s).

(** values in boxes and in registers *)
Definition hr_pend (s : state) : list nat :=
  heap_pids (heap_of s) ++ reg_pids (regs s).

(** every value whose destructor has NOT started: in a box, loose in a
    register, or waiting in a frame *)
Definition pending (s : state) (k : list frame) : list nat :=
  hr_pend s ++ stack_pend k.

Record PidInv (s : state) (k : list frame) : Prop := {
  (* no value is pending twice, and none that was destroyed is pending *)
  pi_nodup : NoDup (pending s k ++ dtor_log s);
  (* C02: no destructor ran twice *)
  pi_log : NoDup (dtor_log s);
  (* identifiers are allocation indices *)
  pi_range : forall x, In x (pending s k ++ started k ++ dtor_log s) ->
                       x < length (heap_of s);
  (* a running destructor has been logged *)
  pi_started : incl (started k) (dtor_log s);
  (* C01: the box still holds the value created for it *)
  pi_home : forall o b p, nth_error (heap_of s) o = Some b -> value b = Some p -> pid p = o
}.

Lemma stack_pend_app k1 k2 : stack_pend (k1 ++ k2) = stack_pend k1 ++ stack_pend k2.
Proof. unfold stack_pend. apply flat_map_app. Qed.

Lemma started_app k1 k2 : started (k1 ++ k2) = started k1 ++ started k2.
Proof. unfold started. apply flat_map_app. Qed.

(** [pi_home] in terms of [hpids] *)
Definition home_l (l : list (option nat)) : Prop :=
  forall o x, nth_error l o = Some (Some x) -> x = o.

Lemma home_iff h :
  home_l (hpids h) <->
  (forall o b p, nth_error h o = Some b -> value b = Some p -> pid p = o).
Proof.
  unfold home_l, hpids. split.
  - intros H o b p Hb Hv. apply H. rewrite nth_error_map, Hb. cbn [option_map]. unfold hpid. rewrite Hv. reflexivity.
  - intros H o x Hx. rewrite nth_error_map in Hx.
    destruct (nth_error h o) as [b|] eqn:Hb; cbn [option_map] in Hx; [|discriminate].
    injection Hx as Hx. unfold hpid in Hx. destruct (value b) as [p|] eqn:Hv; cbn [option_map] in Hx; [|discriminate].
    injection Hx as <-. eapply H; eauto.
Qed.

Lemma hpids_length h : length (hpids h) = length h.
Proof. apply map_length. Qed.

Lemma hpids_eq_length h h' : hpids h' = hpids h -> length h' = length h.
Proof. intros H. rewrite <- (hpids_length h'), H. apply hpids_length. Qed.

(** ** heap operations that do not move any value *)
Lemma hpids_setb_nth h o b b' :
  nth_error h o = Some b -> hpid b' = hpid b -> hpids (setb h o b') = hpids h.
Proof.
  intros G E. unfold hpids, setb. rewrite map_upd.
  apply upd_nth_error_same. rewrite nth_error_map, G. cbn [option_map]. rewrite E. reflexivity.
Qed.

Lemma hpids_setb h o b b' :
  getb h o = Ok b -> hpid b' = hpid b -> hpids (setb h o b') = hpids h.
Proof. intros G. apply getb_ok in G as [G _]. apply hpids_setb_nth; exact G. Qed.

Lemma hpid_if (c : bool) b1 b2 x : hpid b1 = x -> hpid b2 = x -> hpid (if c then b1 else b2) = x.
Proof. destruct c; auto. Qed.

Ltac hp_break :=
  repeat match goal with
  | H : bind ?x _ = Ok _ |- _ => unfold bind in H
  | H : match ?x with _ => _ end = Ok _ |- _ => destruct x eqn:?; try discriminate H
  | H : Ok _ = Ok _ |- _ => injection H as <-
  end.

Lemma inc_strong_hpids h o h' : inc_strong h o = Ok h' -> hpids h' = hpids h.
Proof. unfold inc_strong. intros H. hp_break. eapply hpids_setb; eauto. Qed.

Lemma inc_weak_hpids h o h' : inc_weak h o = Ok h' -> hpids h' = hpids h.
Proof. unfold inc_weak. intros H. hp_break. eapply hpids_setb; eauto. Qed.

Lemma dec_weak_free_hpids h o h' : dec_weak_free h o = Ok h' -> hpids h' = hpids h.
Proof.
  unfold dec_weak_free. intros H. hp_break. eapply hpids_setb; eauto.
  apply hpid_if; reflexivity.
Qed.

Lemma weak_drop_hpids h w h' : weak_drop h w = Ok h' -> hpids h' = hpids h.
Proof.
  unfold weak_drop. destruct w as [o|]; [apply dec_weak_free_hpids|].
  intros H; injection H as <-. reflexivity.
Qed.

Lemma links_insert_hpids h o l h' : links_insert h o l = Ok h' -> hpids h' = hpids h.
Proof. unfold links_insert. intros H. hp_break. eapply hpids_setb; eauto. Qed.

Lemma set_links_hpids h o t h' : set_links h o t = Ok h' -> hpids h' = hpids h.
Proof. unfold set_links. intros H. hp_break. eapply hpids_setb; eauto. Qed.

Lemma links_remove_hpids h o l n h' : links_remove h o l n = Ok h' -> hpids h' = hpids h.
Proof.
  unfold links_remove, bind. destruct (get_links h o) as [t|]; [|discriminate].
  apply set_links_hpids.
Qed.

Lemma adopt_hpids h same a b h' : adopt h same a b = Ok h' -> hpids h' = hpids h.
Proof.
  unfold adopt, bind. destruct same; [apply links_insert_hpids|].
  destruct (links_insert h a (b, Fwd)) as [h1|] eqn:E1; [|discriminate].
  intros E2. apply links_insert_hpids in E1, E2. congruence.
Qed.

Lemma unadopt_hpids h same a b h' : unadopt h same a b = Ok h' -> hpids h' = hpids h.
Proof.
  unfold unadopt, bind. destruct same; [apply links_remove_hpids|].
  destruct (links_remove h a (b, Fwd) 1) as [h1|] eqn:E1; [|discriminate].
  intros E2. apply links_remove_hpids in E1, E2. congruence.
Qed.

Lemma purge_loop_hpids t : forall h o h', purge_loop h o t = Ok h' -> hpids h' = hpids h.
Proof.
  induction t as [|[[x kd] n] t IH]; intros h o h'; cbn [purge_loop].
  - intros H; injection H as <-. reflexivity.
  - destruct (Nat.eqb x o); [apply IH|]. unfold bind.
    destruct (links_remove h x (o, Fwd) n) as [h1|] eqn:E1; [|discriminate].
    destruct (links_remove h1 x (o, Bwd) n) as [h2|] eqn:E2; [|discriminate].
    intros E3. apply IH in E3. apply links_remove_hpids in E1, E2. congruence.
Qed.

Lemma release_links_hpids h o h' : release_links h o = Ok h' -> hpids h' = hpids h.
Proof.
  unfold release_links, purge_peers, bind.
  destruct (get_links h o) as [t|]; [|discriminate].
  destruct (purge_loop h o t) as [h1|] eqn:E1; [|discriminate].
  destruct (getb h1 o) as [b|] eqn:G; [|discriminate].
  destruct (links b) as [t'|]; [|discriminate]. intros H; injection H as <-.
  apply purge_loop_hpids in E1. rewrite <- E1. eapply hpids_setb; eauto.
Qed.

Lemma bust_one_hpids h keys k c h' : bust_one h keys k c = Ok h' -> hpids h' = hpids h.
Proof.
  unfold bust_one, bind. destruct (getb h k) as [b|] eqn:G; [|discriminate].
  destruct (links b) as [t|]; [|discriminate]. cbn [strong with_links].
  destruct (strong b) as [n|]; [|discriminate]. intros H; injection H as <-.
  eapply hpids_setb; eauto.
Qed.

Lemma bust_all_hpids keys cyc : forall h h', bust_all h keys cyc = Ok h' -> hpids h' = hpids h.
Proof.
  induction cyc as [|[k c] cyc IH]; intros h h'; cbn [bust_all].
  - intros H; injection H as <-. reflexivity.
  - unfold bind. destruct (bust_one h keys k c) as [h1|] eqn:E1; [|discriminate].
    intros E2. apply IH in E2. apply bust_one_hpids in E1. congruence.
Qed.

Lemma finish_group_hpids keys : forall h h', finish_group h keys = Ok h' -> hpids h' = hpids h.
Proof.
  induction keys as [|k keys IH]; intros h h'; cbn [finish_group].
  - intros H; injection H as <-. reflexivity.
  - unfold bind. destruct (getb h k) as [b|]; [|discriminate].
    destruct (is_dead (strong b)); [|apply IH].
    destruct (dec_weak_free h k) as [h1|] eqn:E1; [|discriminate].
    intros E2. apply IH in E2. apply dec_weak_free_hpids in E1. congruence.
Qed.

Lemma clone_slots_hpids ss : forall h h', clone_slots h ss = Ok h' -> hpids h' = hpids h.
Proof.
  induction ss as [|sl ss IH]; intros h h'; cbn [clone_slots].
  - intros H; injection H as <-. reflexivity.
  - destruct sl as [o|[o|]|]; try apply IH; unfold bind.
    + destruct (inc_strong h o) as [h1|] eqn:E1; [|discriminate].
      intros E2. apply IH in E2. apply inc_strong_hpids in E1. congruence.
    + destruct (inc_weak h o) as [h1|] eqn:E1; [|discriminate].
      intros E2. apply IH in E2. apply inc_weak_hpids in E1. congruence.
Qed.

(** ** steps that move no value: [quiet] *)
Definition quiet (s s1 : state) : Prop :=
  hpids (heap_of s1) = hpids (heap_of s) /\
  rpids (regs s1) = rpids (regs s) /\
  dtor_log s1 = dtor_log s.

Lemma quiet_refl s : quiet s s.
Proof. repeat split. Qed.

Lemma quiet_trans s1 s2 s3 : quiet s1 s2 -> quiet s2 s3 -> quiet s1 s3.
Proof. intros (A1 & B1 & C1) (A2 & B2 & C2). repeat split; congruence. Qed.

Lemma quiet_set_heap s0 s h :
  hpids h = hpids (heap_of s) -> quiet s0 s -> quiet s0 (set_heap s h).
Proof.
  intros E (A & B & C). unfold quiet, dtor_log in *. cbn [set_heap mk heap_of regs log].
  repeat split; congruence.
Qed.

Lemma quiet_add_ev s0 s e : ev_dtor e = [] -> quiet s0 s -> quiet s0 (add_ev s e).
Proof.
  intros E (A & B & C). unfold quiet, dtor_log in *.
  cbn [add_ev mk heap_of regs log dtor_events flat_map]. rewrite E.
  repeat split; assumption.
Qed.

Lemma rpids_set_reg s r x :
  rpid x = rpid (reg_get s r) -> rpids (regs (set_reg s r x)) = rpids (regs s).
Proof.
  intros E. cbn [set_reg mk regs]. unfold rpids. rewrite map_upd.
  apply (upd_nth_same _ _ _ None). rewrite E. unfold reg_get.
  change None with (rpid REmpty). apply map_nth.
Qed.

Lemma quiet_set_reg s0 s r x :
  rpid x = None -> rpid (reg_get s r) = None -> quiet s0 s -> quiet s0 (set_reg s r x).
Proof.
  intros E1 E2 (A & B & C). repeat split; try assumption.
  rewrite rpids_set_reg by congruence. exact B.
Qed.

Lemma reg_free_rpid s r : reg_free s r = true -> rpid (reg_get s r) = None.
Proof.
  unfold reg_free. intros H. apply andb_true_iff in H as [_ H].
  destruct (reg_get s r); try discriminate. reflexivity.
Qed.

Lemma reg_free_nth s r : reg_free s r = true -> nth_error (regs s) r = Some REmpty.
Proof.
  unfold reg_free. intros H. apply andb_true_iff in H as [H1 H2].
  apply Nat.ltb_lt in H1. rewrite (nth_error_nth' _ REmpty H1).
  unfold reg_get in H2. destruct (nth r (regs s) REmpty); try discriminate. reflexivity.
Qed.

Lemma reg_get_nth s r x : reg_get s r = x -> x <> REmpty -> nth_error (regs s) r = Some x.
Proof.
  unfold reg_get. intros H Hne. destruct (Nat.lt_ge_cases r (length (regs s))) as [Hlt|Hge].
  - rewrite (nth_error_nth' _ REmpty Hlt). congruence.
  - rewrite nth_overflow in H by exact Hge. congruence.
Qed.

(** ** the effect of an atomic step on the pending identifiers

    [fresh] are the identifiers of newly created values (at most one: the
    index of the new box), [gone] those of values that ceased to exist
    without a destructor (the steal branch of [make_mut] re-creates the value
    in a new box under a new identifier). *)
Definition act_eff (s s1 : state) (push : list frame) : Prop :=
  exists fresh gone,
    Permutation (hr_pend s1 ++ stack_pend push ++ gone) (fresh ++ hr_pend s) /\
    dtor_log s1 = dtor_log s /\
    started push = [] /\
    length (heap_of s1) = length fresh + length (heap_of s) /\
    (fresh = [] \/ fresh = [length (heap_of s)]) /\
    (home_l (hpids (heap_of s)) -> home_l (hpids (heap_of s1))).

Lemma quiet_hr_pend s s1 : quiet s s1 -> hr_pend s1 = hr_pend s.
Proof. intros (A & B & _). unfold hr_pend, heap_pids, reg_pids. rewrite A, B. reflexivity. Qed.

Lemma quiet_length s s1 : quiet s s1 -> length (heap_of s1) = length (heap_of s).
Proof. intros (A & _). apply hpids_eq_length; exact A. Qed.

Lemma quiet_eff s s1 : quiet s s1 -> act_eff s s1 [].
Proof.
  intros Q. exists [], []. rewrite (quiet_hr_pend _ _ Q), (quiet_length _ _ Q).
  destruct Q as (A & B & C). cbn [stack_pend flat_map app started length Nat.add].
  rewrite app_nil_r, A. repeat split; auto.
Qed.

Lemma quiet_eff_l s s' s1 push : quiet s s' -> act_eff s' s1 push -> act_eff s s1 push.
Proof.
  intros Q (fresh & gone & P & L & St & Len & Fr & Hm). exists fresh, gone.
  rewrite <- (quiet_hr_pend _ _ Q), <- (quiet_length _ _ Q).
  destruct Q as (A & B & C). rewrite <- A, <- C. repeat split; auto.
Qed.

Lemma quiet_eff_r s s' s1 push : act_eff s s' push -> quiet s' s1 -> act_eff s s1 push.
Proof.
  intros (fresh & gone & P & L & St & Len & Fr & Hm) Q. exists fresh, gone.
  rewrite (quiet_hr_pend _ _ Q), (quiet_length _ _ Q).
  destruct Q as (A & B & C). rewrite A, C. repeat split; auto.
Qed.

(** frames that hold no value can be pushed freely *)
Lemma eff_push_inert s s1 push :
  act_eff s s1 [] -> stack_pend push = [] -> started push = [] -> act_eff s s1 push.
Proof.
  intros (fresh & gone & P & L & St & Len & Fr & Hm) E1 E2. exists fresh, gone.
  rewrite E1. repeat split; auto.
Qed.

(** allocation of a box for a new value *)
Lemma home_snoc l n : home_l l -> n = length l -> home_l (l ++ [Some n]).
Proof.
  intros H -> o x Hx. destruct (Nat.lt_ge_cases o (length l)) as [Hlt|Hge].
  - rewrite nth_error_app1 in Hx by exact Hlt. apply H; exact Hx.
  - rewrite nth_error_app2 in Hx by exact Hge.
    destruct (o - length l) as [|d] eqn:E; cbn [nth_error] in Hx.
    + injection Hx as <-. lia.
    + destruct d; discriminate.
Qed.

Lemma hpids_snoc h b : hpids (h ++ [b]) = hpids h ++ [hpid b].
Proof. unfold hpids. rewrite map_app. reflexivity. Qed.

Lemma eff_alloc s p :
  pid p = length (heap_of s) -> act_eff s (set_heap s (heap_of s ++ [new_box p])) [].
Proof.
  intros Hp. exists [length (heap_of s)], [].
  cbn [set_heap mk heap_of regs stack_pend flat_map app length].
  unfold hr_pend, dtor_log. cbn [set_heap mk heap_of regs log].
  assert (E : hpid (new_box p) = Some (length (heap_of s))).
  { unfold hpid. cbn [new_box value option_map]. rewrite Hp. reflexivity. }
  unfold heap_pids. rewrite hpids_snoc, opts_app, E.
  cbn [opts flat_map olist app]. rewrite app_nil_r, app_length. cbn [length].
  repeat split; auto; try lia.
  - rewrite <- app_assoc. cbn [app]. symmetry. apply Permutation_middle.
  - intros H. apply home_snoc; [exact H|]. symmetry; apply hpids_length.
Qed.

(** a loose value leaves its register for a frame *)
Lemma eff_reg_out s r p :
  reg_get s r = RLoose p -> act_eff s (set_reg s r REmpty) [FDtorStart p].
Proof.
  intros Hr. exists [], [].
  cbn [stack_pend flat_map frame_pend app length Nat.add started frame_started].
  unfold hr_pend, dtor_log. cbn [set_reg mk heap_of regs log]. repeat split; auto.
  rewrite <- app_assoc. apply Permutation_app_head.
  unfold reg_pids, rpids. rewrite map_upd. cbn [rpid].
  rewrite Permutation_app_comm. cbn [app]. apply opts_take.
  rewrite nth_error_map. erewrite reg_get_nth; [|exact Hr|discriminate]. reflexivity.
Qed.

(** the value of a box leaves it for frames *)
Lemma home_upd_none l o : home_l l -> home_l (upd l o None).
Proof.
  intros H i x Hx. rewrite nth_error_upd in Hx.
  destruct (Nat.eqb o i); [|apply H; exact Hx].
  destruct (Nat.ltb o (length l)); discriminate.
Qed.

Lemma hpids_setb_gen h o b' : hpids (setb h o b') = upd (hpids h) o (hpid b').
Proof. unfold hpids, setb. apply map_upd. Qed.

Lemma hpids_nth h o b : nth_error h o = Some b -> nth_error (hpids h) o = Some (hpid b).
Proof. intros H. unfold hpids. rewrite nth_error_map, H. reflexivity. Qed.

Lemma eff_value_out s o b v b' push :
  getb (heap_of s) o = Ok b -> value b = Some v -> hpid b' = None ->
  stack_pend push = [pid v] -> started push = [] ->
  act_eff s (set_heap s (setb (heap_of s) o b')) push.
Proof.
  intros G Hv Hb' Hpush Hst. apply getb_ok in G as [G _]. exists [], [].
  rewrite Hpush. cbn [app length Nat.add].
  unfold hr_pend, dtor_log. cbn [set_heap mk heap_of regs log].
  unfold setb at 2. rewrite upd_length. repeat split; auto.
  - unfold heap_pids. rewrite hpids_setb_gen, Hb'.
    rewrite Permutation_app_comm. cbn [app]. rewrite app_comm_cons.
    apply Permutation_app_tail.
    apply (opts_take (hpids (heap_of s)) o (pid v)).
    rewrite (hpids_nth _ _ _ G). unfold hpid. rewrite Hv. reflexivity.
  - rewrite hpids_setb_gen, Hb'. apply home_upd_none.
Qed.

(** ** actions *)
Definition owner_ok (h : heap) (self : option payload) (ow : owner) : Prop :=
  match ow with
  | WBox o p => exists b, nth_error h o = Some b /\ value b = Some p
  | WSelf p => self = Some p
  end.

Lemma resolve_owner_ok s self w ow :
  resolve_owner s self w = Some ow -> owner_ok (heap_of s) self ow.
Proof.
  unfold resolve_owner. destruct w as [r|].
  - destruct (reg_get s r) as [o| | | |]; try discriminate.
    destruct (nth_error (heap_of s) o) as [b|] eqn:Hb; [|discriminate].
    destruct (value b) as [p|] eqn:Hv; [|discriminate].
    intros H; injection H as <-. exists b. split; assumption.
  - destruct self as [p|]; [|discriminate]. intros H; injection H as <-. reflexivity.
Qed.

Lemma resolve_slot_ok s self w k ow sl :
  resolve_slot s self w k = Some (ow, sl) -> owner_ok (heap_of s) self ow.
Proof.
  unfold resolve_slot. destruct (resolve_owner s self w) as [ow'|] eqn:E; [|discriminate].
  destruct (nth_error (slots (owner_payload ow')) k) as [sl'|]; [|discriminate].
  intros H; injection H as <- <-. eapply resolve_owner_ok; exact E.
Qed.

(** writing a slot keeps the identifier of the value *)
Lemma write_slot_quiet s self ow k sl s1 self1 :
  owner_ok (heap_of s) self ow -> write_slot s self ow k sl = (s1, self1) ->
  quiet s s1 /\ option_map pid self1 = option_map pid self.
Proof.
  unfold write_slot, owner_ok. destruct ow as [o p|p].
  - intros (b & Hb & Hv). rewrite Hb. intros H; injection H as <- <-. split; [|reflexivity].
    apply quiet_set_heap; [|apply quiet_refl].
    eapply hpids_setb_nth; [exact Hb|]. unfold hpid. cbn [with_value value]. rewrite Hv. reflexivity.
  - intros -> H; injection H as <- <-. split; [apply quiet_refl|reflexivity].
Qed.

Lemma reg_get_set_heap s h r : reg_get (set_heap s h) r = reg_get s r.
Proof. reflexivity. Qed.
Lemma reg_get_add_ev s e r : reg_get (add_ev s e) r = reg_get s r.
Proof. reflexivity. Qed.
Lemma reg_free_set_heap s h r : reg_free (set_heap s h) r = reg_free s r.
Proof. reflexivity. Qed.
Lemma heap_of_set_reg s r x : heap_of (set_reg s r x) = heap_of s.
Proof. reflexivity. Qed.
Lemma heap_of_set_heap s h : heap_of (set_heap s h) = h.
Proof. reflexivity. Qed.
Lemma heap_of_add_ev s e : heap_of (add_ev s e) = heap_of s.
Proof. reflexivity. Qed.

Lemma rpid_slot_reg x sl : slot_of_reg x = Some sl -> rpid x = None.
Proof. destruct x; try discriminate; reflexivity. Qed.
Lemma rpid_reg_slot x sl : reg_of_slot sl = Some x -> rpid x = None.
Proof. destruct sl; try discriminate; intros H; injection H as <-; reflexivity. Qed.

#[local] Hint Resolve inc_strong_hpids inc_weak_hpids dec_weak_free_hpids weak_drop_hpids
  adopt_hpids unadopt_hpids release_links_hpids clone_slots_hpids finish_group_hpids
  bust_all_hpids purge_loop_hpids set_links_hpids : hp.

(** side conditions of the [quiet_*] lemmas *)
Ltac q_side :=
  rewrite ?reg_get_set_heap, ?reg_get_add_ev, ?heap_of_set_reg, ?heap_of_set_heap,
          ?heap_of_add_ev, ?reg_free_set_heap;
  first
  [ reflexivity
  | apply reg_free_rpid; assumption
  | match goal with E : reg_get ?s ?r = _ |- rpid (reg_get ?s ?r) = None =>
      rewrite E; reflexivity end
  | solve [eauto with hp]
  | solve [eapply rpid_slot_reg; eauto]
  | solve [eapply rpid_reg_slot; eauto] ].

Ltac q_solve :=
  repeat first
  [ apply quiet_refl
  | apply quiet_add_ev; [reflexivity|]
  | apply quiet_set_reg; [q_side|q_side|]
  | apply quiet_set_heap; [q_side|] ].

(** destruct the scrutinees of [H] one after the other, innermost first *)
Ltac brk H :=
  repeat (cbv beta iota zeta in H;
    match type of H with
    | context [match ?x with _ => _ end] =>
        lazymatch x with
        | context [match _ with _ => _ end] => fail
        | _ => destruct x eqn:?
        end
    end);
  cbv beta iota zeta in H.

Ltac act_leaf H :=
  try discriminate H;
  try solve [injection H as <- <- <- <-;
             split; [apply eff_push_inert; [apply quiet_eff; q_solve|reflexivity|reflexivity]
                    |reflexivity]].

Definition act_res (s : state) (self : option payload) (s1 : state) (self1 : option payload)
           (push : list frame) : Prop :=
  act_eff s s1 push /\ option_map pid self1 = option_map pid self.

Lemma exec_new_eff s self dst sc s1 self1 r push :
  exec_new s self dst sc = AO s1 self1 r push -> act_res s self s1 self1 push.
Proof.
  unfold exec_new, invalid, act_res. destruct (reg_free s dst) eqn:Ef; intros H.
  - injection H as <- <- <- <-. split; [|reflexivity].
    eapply quiet_eff_r;
      [apply (eff_alloc s (Build_payload (length (heap_of s)) empty_slots sc)); reflexivity|].
    q_solve.
  - act_leaf H.
Qed.

Lemma act_drop_eff s self r0 s1 self1 r push :
  exec_act s self (ADrop r0) = AO s1 self1 r push -> act_res s self s1 self1 push.
Proof.
  unfold act_res. intros H. unfold exec_act, invalid, lift in H. brk H; act_leaf H.
  injection H as <- <- <- <-. split; [|reflexivity]. apply eff_reg_out. assumption.
Qed.

Lemma write_slot_regs s self ow k sl s1 self1 :
  write_slot s self ow k sl = (s1, self1) -> regs s1 = regs s.
Proof.
  unfold write_slot. destruct ow as [o p|p].
  - destruct (nth_error (heap_of s) o); intros H; injection H as <- <-; reflexivity.
  - intros H; injection H as <- <-; reflexivity.
Qed.

Lemma act_store_eff s self src w k s1 self1 r push :
  exec_act s self (AStore src w k) = AO s1 self1 r push -> act_res s self s1 self1 push.
Proof.
  unfold act_res. intros H. unfold exec_act, invalid in H. cbv zeta in H.
  destruct (slot_of_reg (reg_get s src)) as [sl|] eqn:Es; [|act_leaf H].
  destruct (resolve_slot s self w k) as [[ow sl0]|] eqn:Er; [|act_leaf H].
  destruct sl0; try (act_leaf H).
  destruct (write_slot (set_reg s src REmpty) self ow k sl) as [s' self'] eqn:Ew.
  injection H as <- <- <- <-.
  apply write_slot_quiet in Ew as [Q E]; [|rewrite heap_of_set_reg; eapply resolve_slot_ok; exact Er].
  split; [|exact E]. apply quiet_eff. eapply quiet_trans; [|exact Q]. q_solve.
Qed.

Lemma act_take_eff s self w k dst s1 self1 r push :
  exec_act s self (ATake w k dst) = AO s1 self1 r push -> act_res s self s1 self1 push.
Proof.
  unfold act_res. intros H. unfold exec_act, invalid in H. cbv zeta in H.
  destruct (resolve_slot s self w k) as [[ow sl]|] eqn:Er; [|act_leaf H].
  destruct (reg_of_slot sl) as [x|] eqn:Ex; [|act_leaf H].
  destruct (reg_free s dst) eqn:Ef; [|act_leaf H].
  destruct (write_slot s self ow k SEmpty) as [s' self'] eqn:Ew.
  injection H as <- <- <- <-. pose proof (write_slot_regs _ _ _ _ _ _ _ Ew) as Hregs.
  apply write_slot_quiet in Ew as [Q E]; [|eapply resolve_slot_ok; exact Er].
  split; [|exact E]. apply quiet_eff. apply quiet_set_reg; [eapply rpid_reg_slot; exact Ex| |exact Q].
  unfold reg_get. rewrite Hregs. apply reg_free_rpid. exact Ef.
Qed.

(** the value of a box moves to a free register ([try_unwrap]) *)
Lemma eff_value_to_reg s s1 o x dst :
  hpids (heap_of s1) = upd (hpids (heap_of s)) o None ->
  nth_error (hpids (heap_of s)) o = Some (Some x) ->
  rpids (regs s1) = upd (rpids (regs s)) dst (Some x) ->
  nth_error (rpids (regs s)) dst = Some None ->
  dtor_log s1 = dtor_log s ->
  act_eff s s1 [].
Proof.
  intros Hh Ho Hr Hd Hl. exists [], [].
  cbn [stack_pend flat_map app length Nat.add started].
  unfold hr_pend, heap_pids, reg_pids. rewrite Hh, Hr, app_nil_r. repeat split; auto.
  - rewrite (opts_put _ _ x Hd). rewrite <- Permutation_middle. rewrite app_comm_cons.
    apply Permutation_app_tail. apply opts_take. exact Ho.
  - rewrite <- (hpids_length (heap_of s1)), Hh, upd_length. apply hpids_length.
  - apply home_upd_none.
Qed.

Lemma act_try_unwrap_eff s self r0 dst s1 self1 r push :
  exec_act s self (ATryUnwrap r0 dst) = AO s1 self1 r push -> act_res s self s1 self1 push.
Proof.
  unfold act_res. intros H. unfold exec_act, invalid, lift in H. cbv zeta in H.
  destruct (reg_get s r0) as [o| | | |] eqn:Er; try (act_leaf H).
  destruct (reg_free s dst) eqn:Ef; [|act_leaf H].
  destruct (getb (heap_of s) o) as [b|] eqn:G; [|act_leaf H].
  destruct (strong b) as [[|[q|q|]]|]; try (act_leaf H).
  destruct (release_links (heap_of s) o) as [h1|] eqn:E1; [|act_leaf H].
  rewrite heap_of_set_heap in H.
  destruct (getb h1 o) as [b1|] eqn:G1; [|act_leaf H].
  destruct (value b1) as [p|] eqn:Hv; [|act_leaf H].
  destruct (weak_drop (setb h1 o (with_strong (with_value b1 None) (Cnt 0))) (Some o))
    as [h3|] eqn:E3; [|act_leaf H].
  injection H as <- <- <- <-. split; [|reflexivity].
  apply release_links_hpids in E1. apply weak_drop_hpids in E3.
  apply getb_ok in G1 as [G1 _].
  apply (eff_value_to_reg _ _ o (pid p) dst).
  - cbn [add_ev set_reg set_heap mk heap_of]. rewrite E3, hpids_setb_gen, E1. reflexivity.
  - rewrite <- E1, (hpids_nth _ _ _ G1). unfold hpid. rewrite Hv. reflexivity.
  - cbn [add_ev set_reg set_heap mk regs]. unfold rpids. rewrite !map_upd. cbn [rpid].
    rewrite (upd_nth_same (map rpid (regs s)) r0 None None); [reflexivity|].
    change (nth r0 (map rpid (regs s)) (rpid REmpty) = None). rewrite map_nth. fold (reg_get s r0).
    rewrite Er. reflexivity.
  - unfold rpids. rewrite nth_error_map, (reg_free_nth _ _ Ef). reflexivity.
  - reflexivity.
Qed.

(** the steal branch of [make_mut]: the value is re-created in a new box *)
Lemma eff_steal s o b p p' :
  getb (heap_of s) o = Ok b -> value b = Some p -> pid p' = length (heap_of s) ->
  act_eff s (set_heap s (setb (heap_of s) o (with_value b None) ++ [new_box p'])) [].
Proof.
  intros G Hv Hp. apply getb_ok in G as [G _]. exists [length (heap_of s)], [pid p].
  cbn [stack_pend flat_map app length started].
  unfold hr_pend, dtor_log. cbn [set_heap mk heap_of regs log].
  assert (E : hpid (new_box p') = Some (length (heap_of s))).
  { unfold hpid. cbn [new_box value option_map]. rewrite Hp. reflexivity. }
  assert (E' : hpid (with_value b None) = None) by reflexivity.
  unfold heap_pids. rewrite hpids_snoc, opts_app, E, hpids_setb_gen, E'.
  change (opts [Some (length (heap_of s))]) with [length (heap_of s)].
  rewrite app_length. unfold setb. rewrite upd_length.
  cbn [length]. repeat split; auto; try lia.
  - rewrite Permutation_app_comm. cbn [app]. rewrite <- app_assoc. cbn [app].
    rewrite <- Permutation_middle. rewrite perm_swap. apply perm_skip.
    rewrite app_comm_cons. apply Permutation_app_tail. apply opts_take.
    rewrite (hpids_nth _ _ _ G). unfold hpid. rewrite Hv. reflexivity.
  - intros H. apply home_snoc; [apply home_upd_none; exact H|].
    rewrite upd_length. symmetry; apply hpids_length.
Qed.

Lemma quiet_set_heap2 s h h' : hpids h' = hpids h -> quiet (set_heap s h) (set_heap s h').
Proof. intros E. repeat split. exact E. Qed.

Lemma act_make_mut_eff s self r0 s1 self1 r push :
  exec_act s self (AMakeMut r0) = AO s1 self1 r push -> act_res s self s1 self1 push.
Proof.
  unfold act_res. intros H. unfold exec_act, invalid, lift in H. cbv zeta in H.
  destruct (reg_get s r0) as [o| | | |] eqn:Er; try (act_leaf H).
  destruct (getb (heap_of s) o) as [b|] eqn:G; [|act_leaf H].
  assert (Clone :
    match value b with
    | Some p =>
        match clone_slots (heap_of s) (cloned_slots (slots p)) with
        | Ok h0 =>
            AO (set_reg (set_heap (set_heap s h0)
                  (heap_of (set_heap s h0) ++
                   [new_box {| pid := length (heap_of s); slots := cloned_slots (slots p);
                               script := [] |}]))
                  r0 (RStrong (length (heap_of s)))) self RUnit [FDropStrong o]
        | Bad e => AHalt e
        end
    | None => AHalt (HFault FkValueMoved o)
    end = AO s1 self1 r push ->
    act_eff s s1 push /\ option_map pid self1 = option_map pid self).
  { clear H. intros H. destruct (value b) as [p|] eqn:Hv; [|discriminate].
    destruct (clone_slots (heap_of s) (cloned_slots (slots p))) as [h0|] eqn:E0; [|discriminate].
    injection H as <- <- <- <-. split; [|reflexivity].
    apply clone_slots_hpids in E0. pose proof (hpids_eq_length _ _ E0) as L0.
    apply eff_push_inert; [|reflexivity|reflexivity].
    eapply quiet_eff_l; [apply (quiet_set_heap s s h0); [exact E0|apply quiet_refl]|].
    eapply quiet_eff_r;
      [apply (eff_alloc (set_heap s h0)
                {| pid := length (heap_of s); slots := cloned_slots (slots p); script := [] |});
       cbn [pid heap_of set_heap mk]; congruence|].
    apply quiet_set_reg; [reflexivity| |apply quiet_refl].
    rewrite !reg_get_set_heap, Er. reflexivity. }
  destruct (strong b) as [[|[q|q|]]|]; try (apply Clone; exact H). clear Clone.
  destruct (weak b =? 0)%N; [discriminate|].
  destruct (weak b =? 1)%N; [act_leaf H|].
  destruct (value b) as [p|] eqn:Hv; [|discriminate].
  match type of H with context [release_links ?hh o] =>
    destruct (release_links hh o) as [h1|] eqn:E1; [|discriminate] end.
  rewrite heap_of_set_heap in H.
  destruct (getb h1 o) as [b1|] eqn:G1; [|discriminate].
  injection H as <- <- <- <-. split; [|reflexivity].
  apply release_links_hpids in E1.
  eapply quiet_eff_r;
    [apply (eff_steal s o b p
              {| pid := length (heap_of s); slots := slots p; script := script p |});
     [exact G|exact Hv|reflexivity]|].
  apply quiet_add_ev; [reflexivity|]. apply quiet_set_reg; [reflexivity| |].
  - rewrite !reg_get_set_heap, Er. reflexivity.
  - eapply quiet_trans; [apply quiet_set_heap2; exact E1|].
    apply quiet_set_heap; [|apply quiet_refl]. rewrite heap_of_set_heap.
    eapply hpids_setb; [exact G1|reflexivity].
Qed.

(** every action: the pending identifiers are permuted, at most one fresh
    identifier (the index of a new box) appears, nothing is logged, and the
    value whose destructor is running keeps its identifier *)
Lemma exec_act_eff s self a s1 self1 r push :
  exec_act s self a = AO s1 self1 r push -> act_res s self s1 self1 push.
Proof.
  destruct a.
  1: apply exec_new_eff.
  2: apply act_drop_eff.
  6: apply act_store_eff.
  6: apply act_take_eff.
  8: apply act_try_unwrap_eff.
  9: apply act_make_mut_eff.
  all: unfold act_res; intros H; unfold exec_act, invalid, lift in H; brk H; act_leaf H.
Qed.

(** ** [Rc::drop] *)

(** phase two of [drop_cycle]: the values of the collected members move from
    their boxes into [inners] *)
Lemma gather_pids keys : forall h acc h' inn,
  gather h keys acc = Ok (h', inn) ->
  Permutation (heap_pids h' ++ inner_pids inn) (heap_pids h ++ inner_pids acc) /\
  length h' = length h /\
  (home_l (hpids h) -> home_l (hpids h')).
Proof.
  induction keys as [|k keys IH]; intros h acc h' inn; cbn [gather].
  - intros H; injection H as <- <-. repeat split; auto.
  - unfold bind. destruct (getb h k) as [b|] eqn:G; [|discriminate].
    destruct (negb (is_dead (strong b))); [apply IH|].
    destruct (is_uninit (strong b)); [apply IH|].
    destruct (value b) as [v|] eqn:Hv; [|discriminate].
    destruct (links b) as [t|]; [|discriminate].
    intros H. apply IH in H as (P & L & Hm). apply getb_ok in G as [G _].
    unfold setb in L. rewrite upd_length in L. split; [|split; [exact L|]].
    + rewrite P. unfold heap_pids. rewrite hpids_setb_gen.
      change (hpid (with_links (with_value (with_strong b Uninit) None) None)) with (@None nat).
      unfold inner_pids. rewrite map_app. cbn [map fst snd].
      rewrite app_assoc, Permutation_app_comm. cbn [app]. rewrite app_comm_cons.
      apply Permutation_app_tail.
      apply opts_take. rewrite (hpids_nth _ _ _ G). unfold hpid. rewrite Hv. reflexivity.
    + intros H0. apply Hm. rewrite hpids_setb_gen. apply home_upd_none. exact H0.
Qed.

Lemma start_unreachable_eff s o s1 push :
  start_unreachable s o = Ok (s1, push) -> act_eff s s1 push.
Proof.
  unfold start_unreachable, bind. cbv zeta.
  destruct (getb (heap_of s) o) as [b|] eqn:G; [|discriminate].
  destruct (value b) as [v|] eqn:Hv; [|discriminate].
  intros H; injection H as <- <-.
  eapply eff_value_out; [exact G|exact Hv|reflexivity|reflexivity|reflexivity].
Qed.

Lemma drop_strong_eff pri s o s1 push :
  drop_strong pri s o = Ok (s1, push) -> act_eff s s1 push.
Proof.
  unfold drop_strong, bind. cbv zeta.
  destruct (getb (heap_of s) o) as [b|] eqn:G; [|discriminate].
  destruct (strong b) as [n|] eqn:Hs.
  2:{ intros H; injection H as <- <-. apply quiet_eff, quiet_refl. }
  destruct (n =? 0)%N.
  { intros H; injection H as <- <-. apply quiet_eff, quiet_refl. }
  set (h1 := setb (heap_of s) o (with_strong b (Cnt (n - 1)))).
  assert (E1 : hpids h1 = hpids (heap_of s)) by (eapply hpids_setb; [exact G|reflexivity]).
  assert (Q1 : quiet s (set_heap s h1)) by (apply quiet_set_heap; [exact E1|apply quiet_refl]).
  destruct (get_links h1 o) as [t|] eqn:Gl; [|discriminate].
  destruct t as [|e t].
  - destruct (n - 1 =? 0)%N.
    + intros H. eapply quiet_eff_l; [exact Q1|]. eapply start_unreachable_eff; exact H.
    + intros H; injection H as <- <-. apply quiet_eff; exact Q1.
  - destruct (n - 1 =? 0)%N.
    + destruct (purge_loop h1 o (e :: t)) as [h2|] eqn:E2; [|discriminate].
      destruct (set_links h2 o []) as [h3|] eqn:E3; [|discriminate].
      intros H. apply purge_loop_hpids in E2. apply set_links_hpids in E3.
      eapply quiet_eff_l; [|eapply start_unreachable_eff; exact H].
      apply quiet_set_heap; [|exact Q1]. rewrite heap_of_set_heap. congruence.
    + destruct (orphaned_cycle h1 o) as [[[oc pops] visits]|] eqn:Eo; [|discriminate].
      destruct oc as [cyc|].
      2:{ intros H; injection H as <- <-. apply quiet_eff.
          apply quiet_add_ev; [reflexivity|exact Q1]. }
      destruct (bust_all h1 (map fst (order_cycle pri cyc)) (order_cycle pri cyc))
        as [h2|] eqn:E2; [|discriminate].
      destruct (gather h2 (map fst (order_cycle pri cyc)) []) as [[h3 inn]|] eqn:E3; [|discriminate].
      intros H; injection H as <- <-.
      apply bust_all_hpids in E2. apply gather_pids in E3 as (P & L & Hm).
      exists [], []. cbn [app length Nat.add].
      unfold hr_pend, dtor_log.
      cbn [add_ev set_heap mk heap_of regs log dtor_events flat_map ev_dtor app
           stack_pend frame_pend started frame_started].
      rewrite !app_nil_r. repeat split; auto.
      * rewrite <- app_assoc. rewrite (Permutation_app_comm (reg_pids (regs s))).
        rewrite app_assoc. apply Permutation_app_tail.
        rewrite P. cbn [inner_pids map]. rewrite app_nil_r.
        unfold heap_pids. rewrite E2, E1. reflexivity.
      * rewrite L. apply hpids_eq_length. congruence.
      * intros H0. apply Hm. rewrite E2, E1. exact H0.
Qed.

(** ** unwinding *)
Lemma leak_events keys : forall s,
  heap_of (fold_left (fun s x => add_ev s (EvLeak x)) keys s) = heap_of s /\
  regs (fold_left (fun s x => add_ev s (EvLeak x)) keys s) = regs s /\
  dtor_log (fold_left (fun s x => add_ev s (EvLeak x)) keys s) = dtor_log s.
Proof.
  induction keys as [|x keys IH]; intros s; cbn [fold_left]; [auto|].
  destruct (IH (add_ev s (EvLeak x))) as (A & B & C). rewrite A, B, C. auto.
Qed.

(** started frames become [FDropSlots]; nothing pending changes *)
Lemma unwind_stack_pids s k : forall s1 k1,
  unwind_stack s k = (s1, k1) ->
  heap_of s1 = heap_of s /\ regs s1 = regs s /\ dtor_log s1 = dtor_log s /\
  stack_pend k1 = stack_pend k /\ started k1 = [].
Proof.
  induction k as [|f k IH]; intros s1 k1; cbn [unwind_stack].
  - intros H; injection H as <- <-. auto.
  - destruct (unwind_stack s k) as [s' k'] eqn:E.
    destruct (IH s' k' eq_refl) as (A & B & C & D & F).
    destruct f; intros H; injection H as <- <-;
      cbn [stack_pend started flat_map frame_pend frame_started app];
      fold (stack_pend k'); fold (stack_pend k); fold (started k');
      rewrite ?D, ?F; auto.
    destruct (leak_events keys s') as (A' & B' & C'). rewrite A', B', C'. auto.
Qed.

(** ** the invariant follows the effect of a step *)
Lemma PidInv_eff s k k' s1 push :
  PidInv s k -> act_eff s s1 push ->
  stack_pend k' = stack_pend k -> incl (started k') (started k) ->
  PidInv s1 (push ++ k').
Proof.
  intros [N1 N2 Rg St Hm] (fresh & gone & P & Hlog & Hst & Hlen & Hfr & Hhome) Hk' Hinc.
  assert (PP : Permutation (pending s1 (push ++ k') ++ gone) (fresh ++ pending s k)).
  { unfold pending. rewrite stack_pend_app, Hk'.
    transitivity ((hr_pend s1 ++ stack_pend push ++ gone) ++ stack_pend k).
    - rewrite <- !app_assoc. do 2 apply Permutation_app_head. apply Permutation_app_comm.
    - rewrite P. rewrite <- app_assoc. reflexivity. }
  assert (Hfresh : forall x, In x fresh -> x = length (heap_of s)).
  { intros x Hx. destruct Hfr as [->| ->]; [destruct Hx|].
    destruct Hx as [<-|[]]. reflexivity. }
  assert (ND : NoDup (fresh ++ pending s k ++ dtor_log s)).
  { destruct Hfr as [->| ->]; [exact N1|]. cbn [app]. constructor; [|exact N1].
    intros Hin. assert (length (heap_of s) < length (heap_of s)); [|lia].
    apply Rg. apply in_app_or in Hin as [Hin|Hin]; apply in_or_app; [now left|].
    right. apply in_or_app. now right. }
  assert (Hstarted : started (push ++ k') = started k') by (rewrite started_app, Hst; reflexivity).
  constructor.
  - apply (NoDup_drop_mid _ gone). rewrite Hlog.
    eapply Permutation_NoDup; [|exact ND]. rewrite app_assoc.
    apply Permutation_app_tail. symmetry. exact PP.
  - rewrite Hlog. exact N2.
  - intros x Hx. rewrite Hlen, Hstarted, Hlog in *.
    apply in_app_or in Hx as [Hx|Hx].
    + assert (Hx' : In x (fresh ++ pending s k)).
      { eapply Permutation_in; [exact PP|]. apply in_or_app. now left. }
      apply in_app_or in Hx' as [Hx'|Hx'].
      * rewrite (Hfresh x Hx'). destruct Hfr as [->| ->]; [destruct Hx'|]. cbn [length]. lia.
      * assert (x < length (heap_of s)); [|lia]. apply Rg. apply in_or_app. now left.
    + assert (x < length (heap_of s)); [|lia]. apply Rg. apply in_or_app. right.
      apply in_app_or in Hx as [Hx|Hx]; apply in_or_app; [left; apply Hinc; exact Hx|now right].
  - rewrite Hstarted, Hlog. intros x Hx. apply St, Hinc, Hx.
  - apply home_iff. apply Hhome. apply home_iff. exact Hm.
Qed.

(** only the stack changes, no value moves *)
Lemma PidInv_stack s k k' :
  PidInv s k -> stack_pend k' = stack_pend k -> incl (started k') (started k) -> PidInv s k'.
Proof.
  intros H E I. apply (PidInv_eff s k k' s []); auto. apply quiet_eff, quiet_refl.
Qed.

Lemma PidInv_quiet s k k' s1 :
  PidInv s k -> quiet s s1 -> stack_pend k' = stack_pend k -> incl (started k') (started k) ->
  PidInv s1 k'.
Proof.
  intros H Q E I. apply (PidInv_eff s k k' s1 []); auto. apply quiet_eff, Q.
Qed.

(** the destructor of [p] starts: its identifier was pending, hence not logged
    before; it is logged now and never pending again *)
Lemma PidInv_dtor_start s k p :
  PidInv s (FDtorStart p :: k) ->
  PidInv (add_ev s (EvDtor (pid p))) (FRunDtor p (script p) :: k).
Proof.
  intros [N1 N2 Rg St Hm].
  assert (E1 : pending s (FDtorStart p :: k) = hr_pend s ++ pid p :: stack_pend k) by reflexivity.
  assert (E2 : pending (add_ev s (EvDtor (pid p))) (FRunDtor p (script p) :: k)
               = hr_pend s ++ stack_pend k) by reflexivity.
  assert (E3 : dtor_log (add_ev s (EvDtor (pid p))) = pid p :: dtor_log s) by reflexivity.
  assert (E4 : started (FRunDtor p (script p) :: k) = pid p :: started k) by reflexivity.
  assert (E5 : started (FDtorStart p :: k) = started k) by reflexivity.
  rewrite E1, E5 in *.
  assert (N3 : NoDup ((hr_pend s ++ stack_pend k) ++ pid p :: dtor_log s)).
  { eapply Permutation_NoDup; [|exact N1]. rewrite <- !app_assoc.
    apply Permutation_app_head. cbn [app]. apply Permutation_middle. }
  constructor; rewrite ?E2, ?E3, ?E4.
  - exact N3.
  - eapply NoDup_app_r; exact N3.
  - cbn [add_ev mk heap_of]. intros x Hx. apply Rg.
    apply in_app_or in Hx as [Hx|Hx].
    + apply in_or_app. left. apply in_app_or in Hx as [Hx|Hx]; apply in_or_app; [now left|].
      right. now right.
    + apply in_app_or in Hx as [Hx|Hx].
      * destruct Hx as [<-|Hx].
        -- apply in_or_app. left. apply in_or_app. right. now left.
        -- apply in_or_app. right. apply in_or_app. now left.
      * destruct Hx as [<-|Hx].
        -- apply in_or_app. left. apply in_or_app. right. now left.
        -- apply in_or_app. right. apply in_or_app. now right.
  - intros x [<-|Hx]; [now left|]. right. apply St, Hx.
  - exact Hm.
Qed.

(** ** the two main theorems *)

(** Initially there is no value at all. *)
Theorem PidInv_init : PidInv init_state [].
Proof.
  assert (E : reg_pids (repeat REmpty NREGS) = []) by reflexivity.
  constructor; unfold pending, hr_pend, dtor_log; cbn [init_state mk heap_of regs log];
    rewrite ?E; cbn.
  - constructor.
  - constructor.
  - intros x [].
  - intros x [].
  - intros [|o] b p H; discriminate.
Qed.

(** Every step of the machine (any frame, any action, disciplined or not)
    preserves [PidInv]: no step of Rc::drop, of a destructor, of the teardown
    of a collected group or of unwinding can make a value appear twice, start
    the destructor of a value a second time, or put a value into a box it was
    not created for. *)
Theorem step_pid pri c c' :
  PidInv (st c) (stack c) -> step pri c = Running c' -> PidInv (st c') (stack c').
Proof.
  destruct c as [s k0 u]. cbn [st stack]. unfold step. cbn [st stack unw].
  destruct k0 as [|f k]; [discriminate|]. intros HI.
  destruct f as [o|p|p pc|ss|o|es|o|keys|r0].
  - (* FDropStrong *)
    destruct (drop_strong pri s o) as [[s1 push]|] eqn:E; [|discriminate].
    intros H; injection H as <-. cbn [st stack].
    eapply PidInv_eff; [exact HI|eapply drop_strong_eff; exact E|reflexivity|apply incl_refl].
  - (* FDtorStart *)
    intros H; injection H as <-. cbn [st stack]. apply PidInv_dtor_start; exact HI.
  - (* FRunDtor *)
    destruct pc as [|a pc].
    + intros H; injection H as <-. cbn [st stack].
      eapply PidInv_stack; [exact HI|reflexivity|]. cbn. intros x Hx. now right.
    + destruct (exec_act s (Some p) a) as [s1 self1 r push| |] eqn:E; [|discriminate|].
      * intros H; injection H as <-. cbn [st stack].
        apply exec_act_eff in E as [Eff Hself].
        eapply PidInv_eff; [exact HI|exact Eff|reflexivity|].
        destruct self1 as [q|]; cbn [option_map] in Hself; [|discriminate].
        injection Hself as Hq. cbn [started flat_map frame_started app]. rewrite Hq. apply incl_refl.
      * destruct u; [discriminate|].
        destruct (unwind_stack s k) as [s1 k1] eqn:Eu. intros H; injection H as <-. cbn [st stack].
        apply unwind_stack_pids in Eu as (A & B & C & D & F).
        apply (PidInv_quiet s (FRunDtor p (a :: pc) :: k)); [exact HI| | |].
        -- repeat split; [rewrite A|rewrite B|exact C]; reflexivity.
        -- cbn [stack_pend flat_map frame_pend app]. exact D.
        -- cbn [started flat_map frame_started app]. fold (started k1). rewrite F. intros x [].
  - (* FDropSlots *)
    destruct ss as [|sl ss].
    + intros H; injection H as <-. cbn [st stack]. eapply PidInv_stack; [exact HI|reflexivity|apply incl_refl].
    + destruct sl as [o|w|].
      * intros H; injection H as <-. cbn [st stack]. eapply PidInv_stack; [exact HI|reflexivity|apply incl_refl].
      * destruct (weak_drop (heap_of s) w) as [h1|] eqn:E; [|discriminate].
        intros H; injection H as <-. cbn [st stack]. apply weak_drop_hpids in E.
        eapply PidInv_quiet; [exact HI| |reflexivity|apply incl_refl].
        apply quiet_set_heap; [exact E|apply quiet_refl].
      * intros H; injection H as <-. cbn [st stack]. eapply PidInv_stack; [exact HI|reflexivity|apply incl_refl].
  - (* FAfterValue *)
    destruct (getb (heap_of s) o) as [b|] eqn:G; [|discriminate].
    destruct (links b) as [t|]; [|discriminate].
    destruct (dec_weak_free (setb (heap_of s) o (with_links b None)) o) as [h2|] eqn:E; [|discriminate].
    intros H; injection H as <-. cbn [st stack]. apply dec_weak_free_hpids in E.
    eapply PidInv_quiet; [exact HI| |reflexivity|apply incl_refl].
    apply quiet_add_ev; [reflexivity|]. apply quiet_set_heap; [|apply quiet_refl].
    rewrite E. eapply hpids_setb; [exact G|reflexivity].
  - (* FInners *)
    destruct es as [|[[o v] t] es].
    + intros H; injection H as <-. cbn [st stack]. eapply PidInv_stack; [exact HI|reflexivity|apply incl_refl].
    + intros H; injection H as <-. cbn [st stack]. eapply PidInv_stack; [exact HI|reflexivity|apply incl_refl].
  - (* FTableDrop *)
    intros H; injection H as <-. cbn [st stack].
    eapply PidInv_quiet; [exact HI| |reflexivity|apply incl_refl].
    apply quiet_add_ev; [reflexivity|apply quiet_refl].
  - (* FFinishGroup *)
    destruct (finish_group (heap_of s) keys) as [h1|] eqn:E; [|discriminate].
    intros H; injection H as <-. cbn [st stack]. apply finish_group_hpids in E.
    eapply PidInv_quiet; [exact HI| |reflexivity|apply incl_refl].
    apply quiet_set_heap; [exact E|apply quiet_refl].
  - (* FRes *)
    intros H; injection H as <-. cbn [st stack].
    eapply PidInv_quiet; [exact HI| |reflexivity|apply incl_refl].
    apply quiet_add_ev; [reflexivity|apply quiet_refl].
Qed.

(** ** runs, calls and histories *)
Lemma run_pid pri fuel : forall c,
  PidInv (st c) (stack c) ->
  match run pri fuel c with
  | Running c' => PidInv (st c') (stack c')
  | Finished s' _ => PidInv s' []
  | Halted s' _ => exists k, PidInv s' k
  end.
Proof.
  induction fuel as [|fuel IH]; intros c HI; cbn [run]; [exact HI|].
  destruct (step pri c) as [c'|s' b|s' e] eqn:E.
  - apply IH. eapply step_pid; eauto.
  - unfold step in E. destruct (stack c) as [|f k] eqn:Ek.
    + injection E as <- _. exact HI.
    + exfalso. destruct f as [o|p|p [|a pc]|[|[o|w|] ss]|o|[|[[o v] t] es]|o|keys|r0];
        try discriminate E.
      * destruct (drop_strong pri (st c) o) as [[s1 push]|]; discriminate E.
      * destruct (exec_act (st c) (Some p) a); try discriminate E.
        destruct (unw c); [discriminate E|]. destruct (unwind_stack (st c) k); discriminate E.
      * destruct (weak_drop (heap_of (st c)) w); discriminate E.
      * destruct (getb (heap_of (st c)) o) as [b0|]; [|discriminate E].
        destruct (links b0); [|discriminate E].
        destruct (dec_weak_free (setb (heap_of (st c)) o (with_links b0 None)) o); discriminate E.
      * destruct (finish_group (heap_of (st c)) keys); discriminate E.
  - assert (s' = st c) as ->; [|eauto].
    unfold step in E. destruct (stack c) as [|f k]; [discriminate E|].
    destruct f as [o|p|p [|a pc]|[|[o|w|] ss]|o|[|[[o v] t] es]|o|keys|r0];
      try discriminate E.
    + destruct (drop_strong pri (st c) o) as [[s1 push]|]; [discriminate E|].
      injection E as <- _. reflexivity.
    + destruct (exec_act (st c) (Some p) a); try discriminate E.
      * injection E as <- _. reflexivity.
      * destruct (unw c); [injection E as <- _; reflexivity|].
        destruct (unwind_stack (st c) k); discriminate E.
    + destruct (weak_drop (heap_of (st c)) w); [discriminate E|]. injection E as <- _. reflexivity.
    + destruct (getb (heap_of (st c)) o) as [b0|]; [|injection E as <- _; reflexivity].
      destruct (links b0); [|injection E as <- _; reflexivity].
      destruct (dec_weak_free (setb (heap_of (st c)) o (with_links b0 None)) o);
        [discriminate E|injection E as <- _; reflexivity].
    + destruct (finish_group (heap_of (st c)) keys); [discriminate E|]. injection E as <- _. reflexivity.
Qed.

(** C02 for a run: whatever the run does and however it ends (normally, by a
    panic, by a fault or by exhausting the fuel), no destructor has been
    started twice. *)
Theorem dtor_at_most_once pri fuel c :
  PidInv (st c) (stack c) ->
  match run pri fuel c with
  | Running c' => NoDup (dtor_log (st c'))
  | Finished s' _ => NoDup (dtor_log s')
  | Halted s' _ => NoDup (dtor_log s')
  end.
Proof.
  intros HI. pose proof (run_pid pri fuel c HI) as H.
  destruct (run pri fuel c) as [c'|s' b|s' e].
  - apply (pi_log _ _ H).
  - apply (pi_log _ _ H).
  - destruct H as [k H]. apply (pi_log _ _ H).
Qed.

(** one top-level call: between calls the stack is empty *)
Lemma exec_op_pid pri fuel s o :
  PidInv s [] ->
  match snd (exec_op pri fuel s o) with
  | ODone _ | OPanicked => PidInv (fst (exec_op pri fuel s o)) []
  | OHalt _ | OFuel => exists k, PidInv (fst (exec_op pri fuel s o)) k
  end.
Proof.
  intros HI. unfold exec_op.
  assert (First : forall s1 self1 r push,
            match o with OAct a => exec_act s None a | ONewS dst sc => exec_new s None dst sc end
            = AO s1 self1 r push -> PidInv s1 push).
  { intros s1 self1 r push E. destruct o as [a|dst sc].
    - apply exec_act_eff in E as [Eff _]. rewrite <- (app_nil_r push).
      eapply PidInv_eff; [exact HI|exact Eff|reflexivity|apply incl_refl].
    - apply exec_new_eff in E as [Eff _]. rewrite <- (app_nil_r push).
      eapply PidInv_eff; [exact HI|exact Eff|reflexivity|apply incl_refl]. }
  destruct (match o with OAct a => exec_act s None a | ONewS dst sc => exec_new s None dst sc end)
    as [s1 self1 r push|e|]; cbn [fst snd]; [|eauto|exact HI].
  specialize (First s1 self1 r push eq_refl).
  pose proof (run_pid pri fuel {| st := s1; stack := push; unw := false |} First) as H.
  destruct (run pri fuel {| st := s1; stack := push; unw := false |}) as [c'|s' [|]|s' e];
    cbn [fst snd]; eauto.
Qed.

Lemma run_history_pid fuel h : forall s,
  PidInv s [] -> exists k, PidInv (fst (run_history fuel s h)) k.
Proof.
  induction h as [|[o pri] h IH]; intros s HI; cbn [run_history]; [cbn [fst]; eauto|].
  pose proof (exec_op_pid pri fuel s o HI) as H.
  destruct (exec_op pri fuel s o) as [s1 r]. cbn [fst snd] in H.
  destruct r as [r| |e|]; cbn [fst]; try exact H.
  - destruct (IH s1 H) as [k Hk]. destruct (run_history fuel s1 h) as [s2 rs]. cbn [fst] in *. eauto.
  - destruct (IH s1 H) as [k Hk]. destruct (run_history fuel s1 h) as [s2 rs]. cbn [fst] in *. eauto.
Qed.

(** C02 for a whole history of API calls from the initial state, with any
    choice oracles, including calls that panic: the log of started destructors
    has no duplicate — the destructor of each stored value runs at most once. *)
Theorem history_dtor_at_most_once fuel h :
  NoDup (dtor_log (fst (run_history fuel init_state h))).
Proof.
  destruct (run_history_pid fuel h init_state PidInv_init) as [k H]. apply (pi_log _ _ H).
Qed.

(** C02 for one top-level call started between two calls (empty stack). *)
Theorem exec_op_dtor_at_most_once pri fuel s o :
  PidInv s [] -> NoDup (dtor_log (fst (exec_op pri fuel s o))).
Proof.
  intros HI. pose proof (exec_op_pid pri fuel s o HI) as H.
  destruct (snd (exec_op pri fuel s o)) as [r| |e|].
  - apply (pi_log _ _ H).
  - apply (pi_log _ _ H).
  - destruct H as [k H]. apply (pi_log _ _ H).
  - destruct H as [k H]. apply (pi_log _ _ H).
Qed.

(** C01 for a whole history: after any sequence of API calls, every box that
    still holds a value holds the one that was created for it. *)
Theorem history_boxes_original fuel h o b p :
  nth_error (heap_of (fst (run_history fuel init_state h))) o = Some b ->
  value b = Some p -> pid p = o.
Proof.
  destruct (run_history_pid fuel h init_state PidInv_init) as [k H]. apply (pi_home _ _ H).
Qed.

(** C02, other half: a value whose destructor has started is not stored in any
    box (nor loose in a register): it cannot be read or dropped again. *)
Theorem destroyed_not_stored s k x :
  PidInv s k -> In x (dtor_log s) ->
  (forall o b p, nth_error (heap_of s) o = Some b -> value b = Some p -> pid p <> x) /\
  (forall r p, reg_get s r = RLoose p -> pid p <> x).
Proof.
  intros HI Hx.
  assert (Hn : ~ In x (pending s k)).
  { intros Hp. pose proof (pi_nodup _ _ HI) as ND. revert ND Hp Hx. generalize (dtor_log s) as l.
    induction (pending s k) as [|y ys IHy]; intros l ND Hp Hx; [destruct Hp|].
    cbn [app] in ND. inversion ND as [|? ? Hy ND']; subst. destruct Hp as [->|Hp].
    - apply Hy. apply in_or_app. now right.
    - eapply IHy; eauto. }
  split.
  - intros o b p Hb Hv E. apply Hn. unfold pending, hr_pend. apply in_or_app. left.
    apply in_or_app. left. unfold heap_pids, opts. apply in_flat_map.
    exists (Some x). split; [|now left].
    apply (nth_error_In _ o). rewrite (hpids_nth _ _ _ Hb). unfold hpid. rewrite Hv.
    cbn [option_map]. rewrite E. reflexivity.
  - intros r p Hr E. apply Hn. unfold pending, hr_pend. apply in_or_app. left.
    apply in_or_app. right. unfold reg_pids, opts. apply in_flat_map.
    exists (Some x). split; [|now left].
    apply (nth_error_In _ r). unfold rpids. rewrite nth_error_map.
    erewrite reg_get_nth; [|exact Hr|discriminate]. cbn [option_map rpid]. rewrite E. reflexivity.
Qed.

(** C01: dereferencing a held handle yields the original value — the value
    found in box [o] is the one created for [o] (its identifier is [o]). *)
Theorem deref_original s k r o :
  PidInv s k -> reg_get s r = RStrong o ->
  forall b p, getb (heap_of s) o = Ok b -> value b = Some p ->
  exec_act s None (ADeref (HReg r)) = AO s None (RNat (N.of_nat o)) [].
Proof.
  intros HI Hr b p G Hv. unfold exec_act, resolve_strong. rewrite Hr, G, Hv.
  apply getb_ok in G as [G _]. rewrite (pi_home _ _ HI o b p G Hv). reflexivity.
Qed.

(** the same through any handle (register or slot), also from inside a
    destructor *)
Theorem deref_original_any s k self hr o l :
  PidInv s k -> resolve_strong s self hr = Some (o, l) ->
  forall b p, getb (heap_of s) o = Ok b -> value b = Some p ->
  exec_act s self (ADeref hr) = AO s self (RNat (N.of_nat o)) [].
Proof.
  intros HI Hr b p G Hv. unfold exec_act. rewrite Hr, G, Hv.
  apply getb_ok in G as [G _]. rewrite (pi_home _ _ HI o b p G Hv). reflexivity.
Qed.

Print Assumptions PidInv_init.
Print Assumptions step_pid.
Print Assumptions dtor_at_most_once.
Print Assumptions history_dtor_at_most_once.
Print Assumptions exec_op_dtor_at_most_once.
Print Assumptions history_boxes_original.
Print Assumptions destroyed_not_stored.
Print Assumptions deref_original.
Print Assumptions deref_original_any.
